import ERP.Model.Plugin
import ERP.FloatOps
import ERP.Spec.Reader
import ERP.Spec.Sys
/-! Line-protocol driver: runs the `Float` instance of the model. One operation per input line,
one or two output lines per operation. Strings are hex-encoded UTF-8, numbers are the 16 hex digits
of the IEEE double. Numbers inside rendered commands appear as U+0001 <bits in decimal> U+0002 and
are turned into text by the harness with the reference formatter. -/
open ERP ERP.Rx

def hexDigit (n : Nat) : Char := if n < 10 then Char.ofNat (48 + n) else Char.ofNat (87 + n)
def hex16 (b : UInt64) : String :=
  String.ofList ((List.range 16).map (fun i => hexDigit ((b.toNat >>> (4 * (15 - i))) % 16)))
def hexf (x : Float) : String := hex16 x.toBits
def hexVal (c : Char) : Nat :=
  if c.isDigit then c.toNat - 48 else if c.toNat ≥ 97 then c.toNat - 87 else c.toNat - 55
def unhexBytes : List Char → ByteArray → ByteArray
  | a :: b :: rest, acc => unhexBytes rest (acc.push (UInt8.ofNat (hexVal a * 16 + hexVal b)))
  | _, acc => acc
def unhexs (s : String) : Text :=
  if s == "-" then [] else
  match String.fromUTF8? (unhexBytes s.toList ByteArray.empty) with
  | some t => t.toList
  | none => []
def hexs (t : Text) : String :=
  if t.isEmpty then "-" else
  String.ofList ((String.ofList t).toUTF8.toList.flatMap (fun b => [hexDigit (b.toNat / 16), hexDigit (b.toNat % 16)]))
def unhexf (s : String) : Float :=
  Float.ofBits (UInt64.ofNat (s.toList.foldl (fun n c => n * 16 + hexVal c) 0))

def nt (x : Float) : Text := [Char.ofNat 1] ++ (Nat.repr x.toBits.toNat).toList ++ [Char.ofNat 2]

def fnum : Option Float → String
  | none => "N" | some x => hexf x
def axisD (a : Axis Float) : String :=
  s!"{fnum a.current},{hexf a.homeOffset},{hexf a.offset},{if a.absoluteMode then 1 else 0},{hexf a.unitMultiplier}"
def posD : Option (Position Float) → String
  | none => "N"
  | some p => "/".intercalate [axisD p.x, axisD p.y, axisD p.z, axisD p.e]
def b01 (b : Bool) : String := if b then "1" else "0"
def retrD : Option (Retraction Float) → String
  | none => "N"
  | some r => s!"{b01 r.recoverExcluded},{b01 r.allowCombine},{b01 r.firmwareRetract},{fnum r.extrusionAmount},{fnum r.feedRate},{hexs r.originalCommand.text}"
def pendD (l : List (String × Pending Float)) : String :=
  if l.isEmpty then "-" else
  ",".intercalate (l.map (fun (k, v) => match v with
    | .cmd c => s!"{hexs k.toList}=S{hexs c.text}"
    | .args a =>
      let items := a.map (fun (lab, v) => s!"{lab}:{fnum v}")
      s!"{hexs k.toList}=M{if items.isEmpty then "-" else ";".intercalate items}"))
def regionD : Region Float → String
  | .rect i x1 y1 x2 y2 => s!"R:{hexs i.toList}:{hexf x1}:{hexf y1}:{hexf x2}:{hexf y2}"
  | .circle i cx cy r => s!"C:{hexs i.toList}:{hexf cx}:{hexf cy}:{hexf r}"
def regionsD (l : List (Region Float)) : String :=
  if l.isEmpty then "-" else ",".intercalate (l.map regionD)
def stateD (s : FState Float) : String :=
  " ".intercalate [
    "pos=" ++ posD (some s.position), "fr=" ++ hexf s.feedRate, "fru=" ++ hexf s.feedRateUnitMultiplier,
    "en=" ++ b01 s.exclusionEnabled, "ex=" ++ b01 s.excluding, "lr=" ++ retrD s.lastRetraction,
    "lp=" ++ posD s.lastPosition, "pc=" ++ pendD s.pendingCommands, "rg=" ++ regionsD s.excludedRegions]

def renderAll (outs : List (Out Float)) : String :=
  ",".intercalate (outs.map (fun o => match render nt o with
    | .ok t => hexs t
    | .error e => "ERR" ++ e.name))

def resultD : Result Float → String
  | .none => "none"
  | .ignore => "ignore"
  | .list l => "list " ++ renderAll l

def splitC (s : String) (c : Char) : List String := (s.splitOn (String.singleton c))

def parseMode : String → Mode
  | "first" => .first | "last" => .last | "merge" => .merge | _ => .exclude

def parseAction : String → AtAction
  | "enable_exclusion" => .enable | "disable_exclusion" => .disable | _ => .unsupported

def defaultAt : List AtEntry :=
  Gen.defaultAtActions.map (fun (c, re, a) =>
    { command := c, matcher := fun t => (matchAt re t.toArray 0).isSome, action := parseAction a })

def parseScript (s : String) : Option (List Text) :=
  if s == "-" then none else some ((splitC s ',').map unhexs)

/-- wire format of a regex (see `harness/translate.py: wire`): prefix notation -/
partial def parseReToks : List String → Option (Re × List String)
  | [] => none
  | t :: rest =>
    let tag := t.take 1 |>.toString
    let arg := (t.drop 1).toString
    if tag == "E" then some (.eps, rest)
    else if tag == "S" then do
      let (a, r1) ← parseReToks rest
      let (b, r2) ← parseReToks r1
      some (.seq a b, r2)
    else if tag == "A" then do
      let (a, r1) ← parseReToks rest
      let (b, r2) ← parseReToks r1
      some (.alt a b, r2)
    else if tag == "G" then do
      let (a, r1) ← parseReToks rest
      some (.group arg.toNat! a, r1)
    else if tag == "B" then
      let kind := match arg with
        | "0" => "beginning" | "1" => "beginning_string" | "2" => "end" | _ => "end_string"
      some (.at kind, rest)
    else if tag == "R" then
      match rest with
      | lo :: hi :: r0 => do
        let (a, r1) ← parseReToks r0
        some (.rep (arg == "1") lo.toNat! (if hi == "N" then none else some hi.toNat!) a, r1)
      | _ => none
    else if tag == "C" then
      match rest with
      | n :: r0 =>
        let k := n.toNat!
        let items := (r0.take k).map (fun it =>
          let h := (it.take 1).toString
          let v := (it.drop 1).toString
          if h == "l" then CC.lit (Char.ofNat v.toNat!)
          else if h == "r" then
            match v.splitOn "_" with
            | [a, b] => CC.range (Char.ofNat a.toNat!) (Char.ofNat b.toNat!)
            | _ => CC.cat "none"
          else if h == "d" then CC.cat "digit" else CC.cat "space")
        some (.chars (arg == "1") items, r0.drop k)
      | _ => none
    else none

def parseAt (s : String) : List AtEntry :=
  if s == "default" then defaultAt
  else if s == "-" then []
  else (splitC s ',').filterMap (fun e =>
    match splitC e ':' with
    | [c, p, a] =>
      let cmd := String.ofList (unhexs c)
      let m : Text → Bool :=
        if p == "N" then fun _ => true
        else if p.startsWith "X" then
          match parseReToks (splitC (p.drop 1).toString '.') with
          | some (re, _) => fun t => (matchAt re t.toArray 0).isSome
          | none => fun _ => false
        else match Gen.defaultAtActions[p.toNat!]? with
          | some (_, re, _) => fun t => (matchAt re t.toArray 0).isSome
          | none => fun _ => false
      some { command := cmd, matcher := m, action := parseAction a }
    | _ => none)

def parseCfg (ws : List String) : Config :=
  match ws with
  | [g, en, ex, ext, at_] =>
    { g90InfluencesExtruder := g == "1",
      enteringExcludedRegionGcode := parseScript en,
      exitingExcludedRegionGcode := parseScript ex,
      extendedExcludeGcodes := if ext == "-" then [] else (splitC ext ',').filterMap (fun e =>
        match splitC e ':' with | [k, m] => some (k, parseMode m) | _ => none),
      atCommandActions := parseAt at_ }
  | _ => {}

def parseRegion (ws : List String) : Option (Region Float) :=
  match ws with
  | ["R", i, a, b, c, d] => some (Region.mkRect (String.ofList (unhexs i)) (unhexf a) (unhexf b) (unhexf c) (unhexf d))
  | ["C", i, a, b, c] => some (.circle (String.ofList (unhexs i)) (unhexf a) (unhexf b) (unhexf c))
  | _ => none

def optHex : Option Text → String
  | none => "N" | some t => "S" ++ hexs t
def optNat : Option Nat → String
  | none => "N" | some n => toString n

def parserD (p : Parser) : String :=
  " ".intercalate [
    "off=" ++ toString p.offset, "len=" ++ toString p.length, "ln=" ++ optNat p.lineNumber,
    "ty=" ++ (match p.type with | none => "N" | some c => String.singleton c),
    "code=" ++ optNat p.code, "sub=" ++ optNat p.subCode,
    "gc=" ++ optHex p.gcode, "par=" ++ optHex p.parameters, "cs=" ++ optNat p.checksum,
    "lw=" ++ hexs p.leadingWhitespace, "tx=" ++ hexs p.text, "raw=" ++ optHex p.rawChecksum,
    "tw=" ++ hexs p.trailingWhitespace, "cm=" ++ optHex p.comment, "eol=" ++ hexs p.eol,
    "full=" ++ hexs p.fullText, "cstr=" ++ hexs p.commandString]

def itemsD (l : List (Item Float)) : String :=
  if l.isEmpty then "-" else
  ",".intercalate (l.map (fun i => match i with
    | .word c v => s!"{c}:{fnum v}"
    | .strArg t => "_:" ++ hexs t))

def bflag (s : String) : Bool := s == "1"

def parseArgs (s : String) : List (Char × Option Float) :=
  if s == "-" then [] else
  (splitC s ',').filterMap (fun e =>
    match splitC e ':' with
    | [k, v] => some (k.toList.headD '?', if v == "N" then none else some (unhexf v))
    | _ => none)

def pluginD (p : Plugin Float) : String :=
  s!"act={b01 p.activePrintJob} clr={b01 p.clearRegionsAfterPrintFinishes} shr={b01 p.mayShrinkRegionsWhilePrinting} n={p.notifications.length} last={match p.notifications.getLast? with | none => "N" | some l => regionsD l} " ++ stateD p.st

structure DState where
  cfg : Config := {}
  st : FState Float := FState.reset []
  parser : Parser := {}
  plugin : Plugin Float := Plugin.initialize {}
  sp : StreamProc Float := { st := FState.reset [] }
  spLive : FState Float := FState.reset []
  rp : Spec.Printer Float := (Sys.start ([] : List (Region Float))).virt

def lineOutD (line : Text) : LineOut Float → String
  | .unchanged => "line " ++ hexs line
  | .omit => "omit"
  | .lines l eol => s!"lines {hexs eol} {renderAll l}"

def step (d : DState) (line : String) : DState × List String :=
  match (line.trimAscii.toString.splitOn " ") with
  | "cfg" :: ws => ({ d with cfg := parseCfg ws }, ["ok"])
  | ["new"] => ({ d with st := FState.reset [] }, ["ok", "st " ++ stateD (FState.reset [] : FState Float)])
  | "addr" :: ws =>
    match parseRegion ws with
    | some r =>
      match d.st.addRegion r with
      | .ok s => ({ d with st := s }, ["ok", "st " ++ stateD s])
      | .error e => (d, ["err " ++ e.name, "st " ++ stateD d.st])
    | none => (d, ["bad-op"])
  | ["delr", i] =>
    let r := d.st.deleteRegion (String.ofList (unhexs i))
    ({ d with st := r.1 }, ["ok " ++ b01 r.2, "st " ++ stateD r.1])
  | ["g", cmd, gcode] =>
    match handleGcodeText d.cfg inchF d.st (unhexs cmd) (unhexs gcode) with
    | .ok (s, r) => ({ d with st := s }, [resultD r, "st " ++ stateD s])
    | .error e => (d, ["err " ++ e.name, "st -"])
  | ["at", cmd, params, streaming] =>
    match handleAtCommand d.cfg d.st (streaming == "1") (String.ofList (unhexs cmd)) (unhexs params) with
    | .ok (s, handled, sent) => ({ d with st := s }, [s!"at {b01 handled} {renderAll sent}", "st " ++ stateD s])
    | .error e => (d, ["err " ++ e.name, "st -"])
  -- ---------------- parser suite
  | ["pnew"] => ({ d with parser := {} }, ["ok"])
  | ["parse", src, off] =>
    let source := if src == "N" then none else some (unhexs (src.drop 1).toString)
    let offset := if off == "N" then none else some off.toNat!
    match d.parser.parse source offset with
    | .ok p => ({ d with parser := p }, ["ok " ++ parserD p])
    | .error e => (d, ["err " ++ e.name])
  | ["lines", src, off] =>
    let source := if src == "N" then none else some (unhexs (src.drop 1).toString)
    let offset := if off == "N" then none else some off.toNat!
    match d.parser.parseLines source offset with
    | .ok (ps, fin) => ({ d with parser := fin }, ["ok " ++ " | ".intercalate ((ps ++ [fin]).map parserD)])
    | .error e => (d, ["err " ++ e.name])
  | ["validate"] =>
    match d.parser.validate with
    | .ok _ => (d, ["ok"])
    | .error e => (d, ["err " ++ e.name])
  | ["stringify", sep, lw, ln, cs, cm, eol] =>
    let ics : Option Bool := if cs == "N" then none else some (bflag cs)
    (d, ["ok " ++ hexs (d.parser.stringify (unhexs sep) (bflag lw) (bflag ln) ics (bflag cm) (bflag eol))])
  | ["items", src] =>
    let source := if src == "N" then d.parser.parameters else some (unhexs (src.drop 1).toString)
    (d, ["ok " ++ itemsD (parameterItems source)])
  | ["psplit", src] =>
    let source := if src == "N" then none else some (unhexs (src.drop 1).toString)
    match splitGcodeScript source with
    | .ok none => (d, ["ok N"])
    | .ok (some ls) => (d, ["ok " ++ (if ls.isEmpty then "-" else ",".intercalate (ls.map hexs))])
    | .error e => (d, ["err " ++ e.name])
  -- ---------------- the reference printer of the specifications (`Spec/Printer.lean`)
  | ["rpnew"] => ({ d with rp := (Sys.start ([] : List (Region Float))).virt }, ["ok"])
  | ["rpexec", g, cmd] =>
    match ({} : Parser).parse (some (unhexs cmd)) with
    | .ok p =>
      let code := match p.gcode with | some c => String.ofList c | none => ""
      let words : List (Char × Option Float) := wordsOf (parameterItems p.parameters)
      let rp := d.rp.exec (g == "1") inchF (Code.ofString code) words
      let ax (a : Axis Float) : String :=
        s!"{fnum (a.current.map (· + 0.0))},{hexf (a.offset + 0.0)},{hexf (a.homeOffset + 0.0)}"
      ({ d with rp := rp },
        ["ok " ++ " ".intercalate [ax rp.pos.x, ax rp.pos.y, ax rp.pos.z,
          "abs=" ++ (if rp.pos.x.absoluteMode then "1" else "0"),
          "eabs=" ++ (if rp.pos.e.absoluteMode then "1" else "0"),
          "unit=" ++ hexf rp.pos.x.unitMultiplier, "e=" ++ fnum (rp.pos.e.current.map (· + 0.0)),
          "fil=" ++ hexf (rp.fil + 0.0), "hw=" ++ hexf (rp.hw + 0.0),
          "fw=" ++ (if rp.fwRetracted then "1" else "0")]])
    | .error e => (d, ["err " ++ e.name])
  | ["specwords", src] =>
    let ws : List (Char × Option Float) := C19.specRead (unhexs src)
    (d, ["ok " ++ (if ws.isEmpty then "-" else ",".intercalate (ws.map (fun (c, v) => s!"{c}:{fnum v}")))])
  | ["setgcode", v] =>
    match d.parser.setGcode (unhexs v) with
    | .ok p => ({ d with parser := p }, ["ok " ++ parserD p])
    | .error e => (d, ["err " ++ e.name])
  | ["setparams", v] =>
    match d.parser.setParameters (unhexs v) with
    | .ok p => ({ d with parser := p }, ["ok " ++ parserD p])
    | .error e => (d, ["err " ++ e.name])
  | ["setline", v] =>
    let p := { d.parser with lineNumber := if v == "N" then none else some v.toNat! }
    ({ d with parser := p }, ["ok " ++ parserD p])
  | ["build", g, args] =>
    match buildCommand nt (unhexs g) (parseArgs args) with
    | .ok t => (d, ["ok " ++ hexs t])
    | .error e => (d, ["err " ++ e.name])
  | ["checksum", v] => (d, [s!"ok {computeChecksum (unhexs v)}"])
  | ["fmtnum", v] =>
    match formatNumber (unhexs v) with
    | .ok t => (d, ["ok " ++ hexs t])
    | .error e => (d, ["err " ++ e.name])
  | ["float", v] => (d, ["ok " ++ hexf (floatOfText (unhexs v))])
  | ["retractparams", v] => (d, ["ok " ++ hexs (retractParams (unhexs v))])
  -- ---------------- region / axis / arc suites
  | "contains" :: x :: y :: ws =>
    match parseRegion ws with
    | some r => (d, ["ok " ++ b01 (r.containsPoint (unhexf x) (unhexf y))])
    | none => (d, ["bad-op"])
  | "containsregion" :: ws =>
    match ws.span (· != "/") with
    | (a, _ :: b) =>
      match parseRegion a, parseRegion b with
      | some ra, some rb => (d, ["ok " ++ b01 (ra.containsRegion rb), "rg " ++ regionsD [ra, rb]])
      | _, _ => (d, ["bad-op"])
    | _ => (d, ["bad-op"])
  | ["hypot", x, y] => (d, ["ok " ++ hexf (MathOps.hypot (unhexf x) (unhexf y))])
  | ["planarc", ex, ey, i, j, cw] =>
    match planArc d.st.position (unhexf ex) (unhexf ey) (unhexf i) (unhexf j) (-(unhexf i)) (-(unhexf j)) (bflag cw) with
    | .ok pts => (d, ["ok " ++ ",".intercalate (pts.map (fun (a, b) => hexf a ++ ":" ++ hexf b))])
    | .error e => (d, ["err " ++ e.name])
  | ["arccenter", ex, ey, r, cw] =>
    match computeArcCenterOffsets d.st.position (unhexf ex) (unhexf ey) (unhexf r) (bflag cw) with
    | .ok (i, j) => (d, [s!"ok {hexf i}:{hexf j}"])
    | .error e => (d, ["err " ++ e.name])
  -- ---------------- plugin suite
  | "pinit" :: clr :: shr :: ws =>
    let st : Settings := { clearRegionsAfterPrintFinishes := bflag clr,
                           mayShrinkRegionsWhilePrinting := bflag shr, cfg := parseCfg ws }
    let p : Plugin Float := Plugin.initialize st
    ({ d with plugin := p }, ["ok", "pl " ++ pluginD p])
  | "psettings" :: clr :: shr :: ws =>
    let st : Settings := { clearRegionsAfterPrintFinishes := bflag clr,
                           mayShrinkRegionsWhilePrinting := bflag shr, cfg := parseCfg ws }
    let p := { d.plugin with settings := st }
    ({ d with plugin := p }, ["ok", "pl " ++ pluginD p])
  | ["pevent", name] =>
    let p := d.plugin.onEvent (Event.ofName name)
    ({ d with plugin := p }, ["ok", "pl " ++ pluginD p])
  | "papi" :: anon :: kind :: ws =>
    let req : Option (ApiReq Float) :=
      match kind with
      | "add" => (parseRegion ws).map .add
      | "update" => (parseRegion ws).map .update
      | "delete" => match ws with | [i] => some (.delete (String.ofList (unhexs i))) | _ => none
      | "badtype" => some (.badType "x")
      | "unknown" => some .unknown
      | _ => none
    match req with
    | some r =>
      let (p, resp) := d.plugin.onApiCommand (bflag anon) r
      ({ d with plugin := p }, [s!"resp {match resp with | none => "ok" | some c => toString c}", "pl " ++ pluginD p])
    | none => (d, ["bad-op"])
  | ["pget"] => (d, ["ok " ++ regionsD d.plugin.onApiGet])
  | ["pgcode", cmd, gcode] =>
    let g := if gcode == "N" then none else some (unhexs (gcode.drop 1).toString)
    match d.plugin.handleGcodeQueuing inchF (unhexs cmd) g with
    | .ok (p, r) => ({ d with plugin := p }, [resultD r, "pl " ++ pluginD p])
    | .error e => (d, ["err " ++ e.name, "pl -"])
  | ["pat", cmd, params, streaming] =>
    match d.plugin.handleAtCommandQueuing (bflag streaming) (String.ofList (unhexs cmd)) (unhexs params) with
    | .ok (p, sent) => ({ d with plugin := p }, ["sent " ++ renderAll sent, "pl " ++ pluginD p])
    | .error e => (d, ["err " ++ e.name, "pl -"])
  | ["pscript", ty, name] =>
    match d.plugin.handleScriptHook (String.ofList (unhexs ty)) (String.ofList (unhexs name)) with
    | .ok (p, r) =>
      ({ d with plugin := p }, [match r with | none => "none" | some l => "prefix " ++ renderAll l, "pl " ++ pluginD p])
    | .error e => (d, ["err " ++ e.name, "pl -"])
  -- ---------------- stream suite: processor created from the current filter state
  | ["spnew"] => ({ d with sp := { st := d.st }, spLive := d.st }, ["ok"])
  | ["spline", line] =>
    let l := unhexs line
    match d.sp.processLine d.cfg inchF l with
    | .ok (sp, o) => ({ d with sp := sp }, [lineOutD l o, "st " ++ stateD sp.st])
    | .error e => (d, ["err " ++ e.name, "st -"])
  | _ => (d, ["bad-op"])

partial def loop (h : IO.FS.Stream) (out : IO.FS.Stream) (d : DState) : IO Unit := do
  let line ← h.getLine
  if line.isEmpty then return ()
  let (d', outs) := step d line
  for o in outs do out.putStrLn o
  loop h out d'

def main : IO Unit := do
  let out ← IO.getStdout
  loop (← IO.getStdin) out {}
