import ERP.Model.Plugin
import ERP.FloatOps
/-! Line-protocol driver: runs the `Float` instance of the model. One operation per input line,
one or two output lines per operation. Strings are hex-encoded UTF-8, numbers are the 16 hex digits
of the IEEE double. Numbers inside rendered commands appear as U+0001 <bits in decimal> U+0002 and
are turned into text by the harness with the reference formatter. -/
open ERP ERP.Rx

def hexDigit (n : Nat) : Char := if n < 10 then Char.ofNat (48 + n) else Char.ofNat (87 + n)
def hex16 (b : UInt64) : String :=
  String.ofList ((List.range 16).map (fun i => hexDigit ((b.toNat >>> (4 * (15 - i))) % 16)))
def hexf (x : Float) : String := hex16 x.toBits
def hexVal (c : Char) : Nat :=
  if c.isDigit then c.toNat - 48 else if c.toNat ≥ 97 then c.toNat - 87 else c.toNat - 55
def unhexBytes : List Char → ByteArray → ByteArray
  | a :: b :: rest, acc => unhexBytes rest (acc.push (UInt8.ofNat (hexVal a * 16 + hexVal b)))
  | _, acc => acc
def unhexs (s : String) : Text :=
  if s == "-" then [] else
  match String.fromUTF8? (unhexBytes s.toList ByteArray.empty) with
  | some t => t.toList
  | none => []
def hexs (t : Text) : String :=
  if t.isEmpty then "-" else
  String.ofList ((String.ofList t).toUTF8.toList.flatMap (fun b => [hexDigit (b.toNat / 16), hexDigit (b.toNat % 16)]))
def unhexf (s : String) : Float :=
  Float.ofBits (UInt64.ofNat (s.toList.foldl (fun n c => n * 16 + hexVal c) 0))

def nt (x : Float) : Text := [Char.ofNat 1] ++ (Nat.repr x.toBits.toNat).toList ++ [Char.ofNat 2]

def fnum : Option Float → String
  | none => "N" | some x => hexf x
def axisD (a : Axis Float) : String :=
  s!"{fnum a.current},{hexf a.homeOffset},{hexf a.offset},{if a.absoluteMode then 1 else 0},{hexf a.unitMultiplier}"
def posD : Option (Position Float) → String
  | none => "N"
  | some p => "/".intercalate [axisD p.x, axisD p.y, axisD p.z, axisD p.e]
def b01 (b : Bool) : String := if b then "1" else "0"
def retrD : Option (Retraction Float) → String
  | none => "N"
  | some r => s!"{b01 r.recoverExcluded},{b01 r.allowCombine},{b01 r.firmwareRetract},{fnum r.extrusionAmount},{fnum r.feedRate},{hexs r.originalCommand.text}"
def pendD (l : List (String × Pending Float)) : String :=
  if l.isEmpty then "-" else
  ",".intercalate (l.map (fun (k, v) => match v with
    | .cmd c => s!"{hexs k.toList}=S{hexs c.text}"
    | .args a =>
      let items := a.map (fun (lab, v) => s!"{lab}:{fnum v}")
      s!"{hexs k.toList}=M{if items.isEmpty then "-" else ";".intercalate items}"))
def regionD : Region Float → String
  | .rect i x1 y1 x2 y2 => s!"R:{hexs i.toList}:{hexf x1}:{hexf y1}:{hexf x2}:{hexf y2}"
  | .circle i cx cy r => s!"C:{hexs i.toList}:{hexf cx}:{hexf cy}:{hexf r}"
def regionsD (l : List (Region Float)) : String :=
  if l.isEmpty then "-" else ",".intercalate (l.map regionD)
def stateD (s : FState Float) : String :=
  " ".intercalate [
    "pos=" ++ posD (some s.position), "fr=" ++ hexf s.feedRate, "fru=" ++ hexf s.feedRateUnitMultiplier,
    "en=" ++ b01 s.exclusionEnabled, "ex=" ++ b01 s.excluding, "lr=" ++ retrD s.lastRetraction,
    "lp=" ++ posD s.lastPosition, "pc=" ++ pendD s.pendingCommands, "rg=" ++ regionsD s.excludedRegions]

def renderAll (outs : List (Out Float)) : String :=
  ",".intercalate (outs.map (fun o => match render nt o with
    | .ok t => hexs t
    | .error e => "ERR" ++ e.name))

def resultD : Result Float → String
  | .none => "none"
  | .ignore => "ignore"
  | .list l => "list " ++ renderAll l

def splitC (s : String) (c : Char) : List String := (s.splitOn (String.singleton c))

def parseMode : String → Mode
  | "first" => .first | "last" => .last | "merge" => .merge | _ => .exclude

def parseAction : String → AtAction
  | "enable_exclusion" => .enable | "disable_exclusion" => .disable | _ => .unsupported

def defaultAt : List AtEntry :=
  Gen.defaultAtActions.map (fun (c, re, a) =>
    { command := c, matcher := fun t => (matchAt re t.toArray 0).isSome, action := parseAction a })

def parseScript (s : String) : Option (List Text) :=
  if s == "-" then none else some ((splitC s ',').map unhexs)

def parseAt (s : String) : List AtEntry :=
  if s == "default" then defaultAt
  else if s == "-" then []
  else (splitC s ',').filterMap (fun e =>
    match splitC e ':' with
    | [c, p, a] =>
      let cmd := String.ofList (unhexs c)
      let m : Text → Bool :=
        if p == "N" then fun _ => true
        else match Gen.defaultAtActions[p.toNat!]? with
          | some (_, re, _) => fun t => (matchAt re t.toArray 0).isSome
          | none => fun _ => false
      some { command := cmd, matcher := m, action := parseAction a }
    | _ => none)

def parseCfg (ws : List String) : Config :=
  match ws with
  | [g, en, ex, ext, at_] =>
    { g90InfluencesExtruder := g == "1",
      enteringExcludedRegionGcode := parseScript en,
      exitingExcludedRegionGcode := parseScript ex,
      extendedExcludeGcodes := if ext == "-" then [] else (splitC ext ',').filterMap (fun e =>
        match splitC e ':' with | [k, m] => some (k, parseMode m) | _ => none),
      atCommandActions := parseAt at_ }
  | _ => {}

def parseRegion (ws : List String) : Option (Region Float) :=
  match ws with
  | ["R", i, a, b, c, d] => some (Region.mkRect (String.ofList (unhexs i)) (unhexf a) (unhexf b) (unhexf c) (unhexf d))
  | ["C", i, a, b, c] => some (.circle (String.ofList (unhexs i)) (unhexf a) (unhexf b) (unhexf c))
  | _ => none

structure DState where
  cfg : Config := {}
  st : FState Float := FState.reset []

def step (d : DState) (line : String) : DState × List String :=
  match (line.trimAscii.toString.splitOn " ") with
  | "cfg" :: ws => ({ d with cfg := parseCfg ws }, ["ok"])
  | ["new"] => ({ d with st := FState.reset [] }, ["ok", "st " ++ stateD (FState.reset [] : FState Float)])
  | "addr" :: ws =>
    match parseRegion ws with
    | some r =>
      match d.st.addRegion r with
      | .ok s => ({ d with st := s }, ["ok", "st " ++ stateD s])
      | .error e => (d, ["err " ++ e.name, "st " ++ stateD d.st])
    | none => (d, ["bad-op"])
  | ["g", cmd, gcode] =>
    match handleGcodeText d.cfg inchF d.st (unhexs cmd) (unhexs gcode) with
    | .ok (s, r) => ({ d with st := s }, [resultD r, "st " ++ stateD s])
    | .error e => (d, ["err " ++ e.name, "st -"])
  | ["at", cmd, params, streaming] =>
    match handleAtCommand d.cfg d.st (streaming == "1") (String.ofList (unhexs cmd)) (unhexs params) with
    | .ok (s, handled, sent) => ({ d with st := s }, [s!"at {b01 handled} {renderAll sent}", "st " ++ stateD s])
    | .error e => (d, ["err " ++ e.name, "st -"])
  | _ => (d, ["bad-op"])

partial def loop (h : IO.FS.Stream) (out : IO.FS.Stream) (d : DState) : IO Unit := do
  let line ← h.getLine
  if line.isEmpty then return ()
  let (d', outs) := step d line
  for o in outs do out.putStrLn o
  loop h out d'

def main : IO Unit := do
  let out ← IO.getStdout
  loop (← IO.getStdin) out {}
