import ERP.Basic
import ERP.Gen.Consts
/-! # `Float` instances of the numeric interfaces (driver only — not used by any theorem)

`ofDecimal` and `hypot` are computed with exact natural-number arithmetic and rounded once
(round-half-even), which is what CPython's `float()` does and what `math.hypot` aims for. -/
namespace ERP

/-- nearest double to `(n + ε)·2^e` where `ε ∈ (0,1)` iff `sticky`; normal range only -/
def roundToFloat (n : Nat) (sticky : Bool) (e : Int) : Float :=
  if n == 0 then 0.0 else
  let nb := n.log2 + 1
  if nb ≤ 53 then (Float.ofNat n).scaleB e
  else
    let shift := nb - 53
    let mant := n >>> shift
    let rem := n &&& ((1 <<< shift) - 1)
    let half := 1 <<< (shift - 1)
    let up := rem > half || (rem == half && (sticky || mant % 2 == 1))
    let mant := if up then mant + 1 else mant
    (Float.ofNat mant).scaleB (e + shift)

def floatOfDecimal (neg : Bool) (m e : Nat) : Float :=
  let v : Float :=
    if m == 0 then 0.0
    else
      let d := 10 ^ e
      -- make the quotient at least 64 bits long
      let k := (d.log2 + 1) + 66 - (m.log2 + 1)
      let num := m <<< k
      roundToFloat (num / d) (num % d != 0) (-(k : Int))
  if neg then -v else v

instance : OfDecimal Float := ⟨floatOfDecimal⟩

/-- decode a finite double into `mantissa × 2^exp` (sign dropped) -/
def floatDecode (x : Float) : Nat × Int :=
  let b := x.toBits.toNat
  let ex := (b >>> 52) &&& 0x7ff
  let fr := b &&& ((1 <<< 52) - 1)
  if ex == 0 then (fr, -1074) else (fr + (1 <<< 52), (ex : Int) - 1075)

def floatHypot (x y : Float) : Float :=
  if x.isInf || y.isInf then Float.ofBits 0x7ff0000000000000     -- C99: infinite if either is
  else if x.isNaN || y.isNaN then x + y else
  let (mx, ex) := floatDecode x
  let (my, ey) := floatDecode y
  let emin := min ex ey
  let ax := mx <<< (ex - emin).toNat
  let ay := my <<< (ey - emin).toNat
  let n := ax * ax + ay * ay            -- exact: value = n · 2^(2·emin)
  if n == 0 then 0.0 else
  let nb := n.log2 + 1
  let t := if nb < 130 then (130 - nb + 1) / 2 else 0
  let n2 := n <<< (2 * t)
  let r := Nat.sqrt n2
  roundToFloat r (r * r != n2) (emin - (t : Int))

instance : MathOps Float where
  hypot := floatHypot
  sqrt := Float.sqrt
  atan2 := Float.atan2
  sin := Float.sin
  cos := Float.cos
  ceilNat x := x.ceil.toUInt64.toNat
  ofNat := Float.ofNat
  twoPi := Float.ofBits Gen.twoPiBits

def inchF : Float := Float.ofBits Gen.inchToMmBits

end ERP
