import ERP.Model.Handlers
/-! # Total shadow of the filter model

The faithful model (`ERP.Model.*`) makes every Python failure mode an explicit `Except.error`.
This file defines the same functions *without* the error plumbing (an unknown axis position reads
as `0`, division is the field's). `ERP.Lemmas.Refine` proves that on well-formed states — all axes
homed, non-zero unit multipliers — the faithful model returns `.ok` of exactly these functions;
that refinement *is* the "never raises" half of C09, and every other filter theorem is proved about
the total functions and transferred through it. Nothing here is used by the driver. -/
namespace ERP
namespace T

section
variable {α : Type} [Add α] [Sub α] [Mul α] [Div α] [Neg α] [LT α] [LE α] [BEq α]
  [OfNat α 0] [OfNat α 1] [OfNat α 2] [DecidableLT α] [DecidableLE α] [MathOps α]

def cur (a : Axis α) : α := a.current.getD 0

def l2n (a : Axis α) (v : α) : α :=
  if a.absoluteMode then v * a.unitMultiplier + (a.offset + a.homeOffset)
  else v * a.unitMultiplier + cur a

/-- `nativeToLogical()` -/
def n2l (a : Axis α) : α := (cur a - (a.offset + a.homeOffset)) / a.unitMultiplier

/-- `nativeToLogical(v, True)` -/
def n2lAbs (a : Axis α) (v : α) : α := (v - (a.offset + a.homeOffset)) / a.unitMultiplier

def setLog (a : Axis α) (p : Option α) : Axis α :=
  match p with
  | none => a
  | some p => { a with current := some (l2n a p) }

def setOffsetPos (a : Axis α) (v : α) : Axis α := { a with offset := a.offset + (l2n a v - cur a) }

def setHomeOffset (a : Axis α) (v : α) : Axis α :=
  { a with homeOffset := v * a.unitMultiplier,
           current := some (cur a + (a.homeOffset - v * a.unitMultiplier)) }

def anyContains (rs : List (Region α)) (x y : α) : Bool := rs.any (fun r => r.containsPoint x y)

def isPointExcluded (s : FState α) (x y : α) : Bool :=
  s.exclusionEnabled && anyContains s.excludedRegions x y

def isAnyLoop (s : FState α) : List (Option α × Option α) → Bool → FState α × Bool
  | [], any => (s, any)
  | (px, py) :: rest, any =>
    let xa := setLog s.position.x px
    let ya := setLog s.position.y py
    let s' := { s with position := { s.position with x := xa, y := ya } }
    isAnyLoop s' rest (any || isPointExcluded s' (cur xa) (cur ya))

def addCommands (r : Retraction α) (dir : α) (p : Position α) : Position α × List (Out α) :=
  if r.firmwareRetract then (p, [.fw (dir < 0) r.originalCommand.text])
  else
    let amount := r.extrusionAmount.getD 0 * dir
    let c := cur p.e
    let e1 := { p.e with current := some (c + amount) }
    let e2 := { e1 with current := some (c + amount - amount) }
    ({ p with e := e2 }, [.g92e (n2l e1), .g1fe (r.feedRate.getD 0 / e2.unitMultiplier) (n2l e2)])

def combine (r other : Retraction α) : Retraction α :=
  if r.allowCombine && (r.firmwareRetract == other.firmwareRetract) && !r.firmwareRetract then
    { r with extrusionAmount := some (r.extrusionAmount.getD 0 + other.extrusionAmount.getD 0) }
  else r

def recordRetraction (s : FState α) (retract : Retraction α) : FState α × List (Out α) :=
  match s.lastRetraction with
  | none =>
    let s := { s with lastRetraction := some retract }
    if s.excluding then
      let (p, cmds) := addCommands retract 1 s.position
      ({ s with position := p }, cmds)
    else (s, [.orig retract.originalCommand])
  | some lr =>
    if lr.recoverExcluded then
      let lr := { lr with recoverExcluded := false }
      let lr := if !lr.firmwareRetract then { lr with feedRate := some s.feedRate } else lr
      ({ s with lastRetraction := some lr }, [])
    else if lr.allowCombine then
      let s := { s with lastRetraction := some (combine lr retract) }
      if s.excluding then
        let (p, cmds) := addCommands retract 1 s.position
        ({ s with position := p }, cmds)
      else (s, [.orig retract.originalCommand])
    else if s.excluding then (s, [])
    else (s, [.orig retract.originalCommand])

def recoverRetraction (s : FState α) (cmd : Cmd α) (lr : Retraction α) : FState α × List (Out α) :=
  let (p, cmds) := if lr.recoverExcluded then addCommands lr (-1) s.position else (s.position, [])
  ({ s with position := p, lastRetraction := none }, cmds ++ [.orig cmd])

def recoverRetractionIfNeeded (s : FState α) (cmd : Cmd α) (isRecoveryCommand : Bool) :
    FState α × List (Out α) :=
  match s.lastRetraction with
  | some lr =>
    let lr := { lr with allowCombine := false }
    if s.excluding then
      let lr := if isRecoveryCommand then { lr with recoverExcluded := true } else lr
      ({ s with lastRetraction := some lr }, [])
    else recoverRetraction { s with lastRetraction := some lr } cmd lr
  | none => if !s.excluding then (s, [.orig cmd]) else (s, [])

def enterExcludedRegion (cfg : Config) (s : FState α) : FState α × List (Out α) :=
  if s.excluding then (s, [])
  else
    ({ s with excluding := true, lastPosition := some s.position },
      match cfg.enteringExcludedRegionGcode with
      | some l => l.map (.script false)
      | none => [])

def exitCoord (axis lastAxis : Axis α) : α :=
  if axis.absoluteMode then n2l axis else (cur axis - cur lastAxis) / axis.unitMultiplier

def lastPos (s : FState α) : Position α := s.lastPosition.getD s.position

def exitExcludedRegion (cfg : Config) (s : FState α) : FState α × List (Out α) :=
  if !s.excluding then (s, [])
  else
    let s := { s with excluding := false }
    let (s, cmds) := s.processPendingCommands cfg
    let cmds := cmds ++ [.g92e (n2l s.position.e)]
    let lp := lastPos s
    let newZ := cur s.position.z
    let oldZ := cur lp.z
    let f := s.feedRate / s.feedRateUnitMultiplier
    let moveZ : Out α := .g0z f (exitCoord s.position.z lp.z)
    let cmds := if oldZ < newZ then cmds ++ [moveZ] else cmds
    let cmds := cmds ++ [.g0xy f (exitCoord s.position.x lp.x) (exitCoord s.position.y lp.y)]
    let cmds := if newZ < oldZ then cmds ++ [moveZ] else cmds
    (s, cmds)

def disableExclusion (cfg : Config) (s : FState α) : FState α × List (Out α) :=
  if s.exclusionEnabled then
    let s := { s with exclusionEnabled := false }
    if s.excluding then exitExcludedRegion cfg s else (s, [])
  else (s, [])

def processNonMove (s : FState α) (cmd : Cmd α) (deltaE : α) : FState α × List (Out α) :=
  if deltaE < 0 then
    let (s, cmds) := recordRetraction s
      { firmwareRetract := false, extrusionAmount := some (-deltaE), feedRate := some s.feedRate,
        originalCommand := cmd }
    if cmds.isEmpty && !s.excluding then (s, [.g92e (n2l s.position.e)]) else (s, cmds)
  else if 0 < deltaE then recoverRetractionIfNeeded s cmd true
  else if !s.excluding then (s, [.orig cmd])
  else (s, [])

def processExcludedMove (cfg : Config) (s : FState α) (cmd : Cmd α) (deltaE : α) :
    FState α × List (Out α) :=
  let (s, cmds) := if !s.excluding then enterExcludedRegion cfg s else (s, [])
  if deltaE < 0 then
    let (s, more) := processNonMove s cmd deltaE
    (s, cmds ++ more)
  else (s, cmds)

def toResult (p : FState α × List (Out α)) : FState α × Result α :=
  if p.2.isEmpty then (p.1, .ignore) else (p.1, .list p.2)

/-- state after the E, Z and feed-rate words of a move have been applied -/
def applyEZF (s : FState α) (extruderPosition feedRate finalZ : Option α) : FState α :=
  let s := { s with position := { s.position with e := setLog s.position.e extruderPosition } }
  let s := { s with position := { s.position with z := setLog s.position.z finalZ } }
  match feedRate with
  | some f => { s with feedRate := f * s.feedRateUnitMultiplier }
  | none => s

def deltaEOf (s : FState α) (extruderPosition : Option α) : α :=
  match extruderPosition with
  | some _ => cur (setLog s.position.e extruderPosition) - cur s.position.e
  | none => 0

/-- the `isMove` part of `processLinearMoves` -/
def moveBody (cfg : Config) (s1 : FState α) (cmd : Cmd α) (deltaE priorE : α)
    (startPosition : Position α) (xyPairs : List (Option α × Option α)) : FState α × List (Out α) :=
  let r := isAnyLoop s1 xyPairs false
  let s := r.1
  if r.2 then
    let was := s.excluding
    let r2 := processExcludedMove cfg s cmd deltaE
    (if r2.1.excluding && !was then { r2.1 with lastPosition := some startPosition } else r2.1, r2.2)
  else if s.excluding then exitExcludedRegion cfg s
  else if !(deltaE == 0) then
    let lr := s.lastRetraction
    let r3 := recoverRetractionIfNeeded s cmd false
    match lr with
    | some lr =>
      if lr.recoverExcluded && !lr.firmwareRetract then
        (r3.1, insertBeforeLast r3.2 (.g92e (n2lAbs r3.1.position.e priorE)))
      else r3
    | none => r3
  else (s, [.orig cmd])

/-- the `not isMove` part of `processLinearMoves` -/
def nonMoveBody (s1 : FState α) (cmd : Cmd α) (deltaE priorE : α) : FState α × List (Out α) :=
  let r := processNonMove s1 cmd deltaE
  match s1.lastRetraction with
  | some lr =>
    if decide (0 < deltaE) && !r.1.excluding && lr.recoverExcluded && !lr.firmwareRetract then
      (r.1, insertBeforeLast r.2 (.g92e (n2lAbs r.1.position.e priorE)))
    else r
  | none => r

def isMoveOf (finalZ : Option α) (xyPairs : List (Option α × Option α)) : Bool :=
  finalZ.isSome || xyPairs.any (fun (a, b) => a.isSome || b.isSome)

def processLinearMoves (cfg : Config) (s : FState α) (cmd : Cmd α)
    (extruderPosition feedRate finalZ : Option α) (xyPairs : List (Option α × Option α)) :
    FState α × Result α :=
  let s1 := applyEZF s extruderPosition feedRate finalZ
  let deltaE := deltaEOf s extruderPosition
  toResult <|
    if !isMoveOf finalZ xyPairs then nonMoveBody s1 cmd deltaE (cur s.position.e)
    else moveBody cfg s1 cmd deltaE (cur s.position.e) s.position xyPairs

def arcLoop := @ERP.arcLoop

/-- the signed angular travel `planArc` computes -/
def angularTravel (x y endX endY i j : α) (clockwise : Bool) : α :=
  let centerX := x + i
  let centerY := y + j
  let rtX := endX - centerX
  let rtY := endY - centerY
  let at0 : α := MathOps.atan2 (-i * rtY + j * rtX) (-i * rtX - j * rtY)
  let at1 := if at0 < 0 then at0 + MathOps.twoPi else at0
  let at2 := if clockwise then at1 - MathOps.twoPi else at1
  if at2 == 0 && x == endX && y == endY then MathOps.twoPi else at2

/-- number of segments -/
def numSegments (travel radius : α) : Nat :=
  max 1 (MathOps.ceilNat (pyAbs travel * radius / (1 : α)))

def planArc (p : Position α) (endX endY i j : α) (clockwise : Bool) : List (α × α) :=
  let x := n2l p.x
  let y := n2l p.y
  let radius : α := MathOps.hypot i j
  let travel := angularTravel x y endX endY i j clockwise
  let n := numSegments travel radius
  ERP.arcLoop (x + i) (y + j) radius (travel / MathOps.ofNat n) (n - 1) (MathOps.atan2 (-j) (-i)) [] ++
    [(endX, endY)]

def computeArcCenterOffsets (p : Position α) (endX endY radius : α) (clockwise : Bool) : α × α :=
  let p1 := n2l p.x
  let q1 := n2l p.y
  if !(radius == 0) && (!(p1 == endX) || !(q1 == endY)) then
    let e : α := if xor clockwise (decide (radius < 0)) then -1 else 1
    let deltaX := endX - p1
    let deltaY := endY - q1
    let dist : α := MathOps.hypot deltaX deltaY
    let halfDist := dist / 2
    if halfDist ≤ pyAbs radius then
      let h : α := MathOps.sqrt (radius * radius - halfDist * halfDist)
      ((p1 + endX) / 2 + e * h * (-deltaY / dist) - p1, (q1 + endY) / 2 + e * h * (-deltaX / dist) - q1)
    else (0, 0)
  else (0, 0)

def handleG0 (cfg : Config) (s : FState α) (cmd : Cmd α) : FState α × Result α :=
  processLinearMoves cfg s cmd (lastValue cmd.words 'E') (lastValue cmd.words 'F')
    (lastValue cmd.words 'Z') [(lastValue cmd.words 'X', lastValue cmd.words 'Y')]

def handleG2 (cfg : Config) (s : FState α) (cmd : Cmd α) (clockwise : Bool) : FState α × Result α :=
  let w := cmd.words
  let x := (lastValue w 'X').getD (n2l s.position.x)
  let y := (lastValue w 'Y').getD (n2l s.position.y)
  let z := (lastValue w 'Z').getD (n2l s.position.z)
  let (i, j) := match lastValue w 'R' with
    | some r => computeArcCenterOffsets s.position x y r clockwise
    | none => ((lastValue w 'I').getD 0, (lastValue w 'J').getD 0)
  if !(i == 0) || !(j == 0) then
    processLinearMoves cfg s cmd (lastValue w 'E') (lastValue w 'F') (some z)
      ((planArc s.position x y i j clockwise).map (fun (a, b) => (some a, some b)))
  else (s, .none)

def handleG10 (s : FState α) (cmd : Cmd α) : FState α × Result α :=
  if hasLetter cmd.words 'P' || hasLetter cmd.words 'L' then (s, .none)
  else toResult (recordRetraction s
      { firmwareRetract := true, extrusionAmount := none, feedRate := none, originalCommand := cmd })

def handleG11 (s : FState α) (cmd : Cmd α) : FState α × Result α :=
  toResult (recoverRetractionIfNeeded s cmd true)

def g92Step (p : Position α) (kv : Char × Option α) : Position α :=
  match kv with
  | (_, none) => p
  | (k, some v) =>
    if k == 'E' then { p with e := setLog p.e (some v) }
    else if k == 'X' then { p with x := setOffsetPos p.x v }
    else if k == 'Y' then { p with y := setOffsetPos p.y v }
    else if k == 'Z' then { p with z := setOffsetPos p.z v }
    else p

def m206Step (p : Position α) (kv : Char × Option α) : Position α :=
  match kv with
  | (_, none) => p
  | (k, some v) =>
    if k == 'X' then { p with x := setHomeOffset p.x v }
    else if k == 'Y' then { p with y := setHomeOffset p.y v }
    else if k == 'Z' then { p with z := setHomeOffset p.z v }
    else p

/-- total `handleGcode` -/
def handleGcode (cfg : Config) (inch : α) (s : FState α) (gcode : String) (cmd : Cmd α) :
    FState α × Result α :=
  match Code.ofString gcode with
  | .G0 | .G1 => handleG0 cfg s cmd
  | .G2 => handleG2 cfg s cmd true
  | .G3 => handleG2 cfg s cmd false
  | .G10 => handleG10 s cmd
  | .G11 => handleG11 s cmd
  | .G20 => (s.setUnitMultiplier inch, .none)
  | .G21 => (s.setUnitMultiplier 1, .none)
  | .G28 => (handleG28 s cmd, .none)
  | .G90 => (s.setAbsoluteMode cfg true, .none)
  | .G91 => (s.setAbsoluteMode cfg false, .none)
  | .G92 => ({ s with position := cmd.words.foldl g92Step s.position }, .none)
  | .M206 => ({ s with position := cmd.words.foldl m206Step s.position }, .none)
  | .other _ => s.processExtendedGcode cfg cmd gcode

def atLoop (cfg : Config) (params : Text) :
    List AtEntry → FState α → Bool → List (Out α) → FState α × Bool × List (Out α)
  | [], s, handled, sent => (s, handled, sent)
  | e :: rest, s, handled, sent =>
    if e.matcher params then
      match e.action with
      | .enable => atLoop cfg params rest s.enableExclusion true sent
      | .disable =>
        let (s, cmds) := disableExclusion cfg s
        atLoop cfg params rest s true (sent ++ cmds)
      | .unsupported => atLoop cfg params rest s true sent
    else atLoop cfg params rest s handled sent

def handleAtCommand (cfg : Config) (s : FState α) (streaming : Bool) (cmd : String) (params : Text) :
    FState α × Bool × List (Out α) :=
  if streaming then (s, false, [])
  else atLoop cfg params (cfg.atCommandActions.filter (fun e => e.command == cmd)) s false []

end
end T
end ERP
