import ERP.Model.State
/-! # `GcodeHandlers.py` -/
namespace ERP

/-- The codes `GcodeHandlers` has a `_handle_*` method for (checked against the source by the
translator: `Gen.handlerNames`). -/
inductive Code where
  | G0 | G1 | G2 | G3 | G10 | G11 | G20 | G21 | G28 | G90 | G91 | G92 | M206
  | other (name : String)
  deriving Repr, DecidableEq

def Code.ofString (s : String) : Code :=
  match s with
  | "G0" => .G0 | "G1" => .G1 | "G2" => .G2 | "G3" => .G3 | "G10" => .G10 | "G11" => .G11
  | "G20" => .G20 | "G21" => .G21 | "G28" => .G28 | "G90" => .G90 | "G91" => .G91
  | "G92" => .G92 | "M206" => .M206
  | s => .other s

def Code.builtinNames : List String :=
  ["G0", "G1", "G2", "G3", "G10", "G11", "G20", "G21", "G28", "G90", "G91", "G92", "M206"]

section
variable {α : Type} [Add α] [Sub α] [Mul α] [Div α] [Neg α] [LT α] [LE α] [BEq α]
  [OfNat α 0] [OfNat α 1] [OfNat α 2] [DecidableLT α] [DecidableLE α] [MathOps α]

/-- last value given for a letter, ignoring valueless occurrences (`if value is not None`) -/
def lastValue (words : List (Char × Option α)) (c : Char) : Option α :=
  words.foldl (fun acc (k, v) => if k == c then (match v with | some x => some x | none => acc) else acc) none

def hasLetter (words : List (Char × Option α)) (c : Char) : Bool := words.any (fun p => p.1 == c)

def pyAbs (x : α) : α := if x < 0 then -x else x

/-- the `for dummy in range(1, numSegments)` loop of `planArc` -/
def arcLoop (centerX centerY radius inc : α) : Nat → α → List (α × α) → List (α × α)
  | 0, _, acc => acc
  | n+1, angle, acc =>
    let angle := angle + inc
    arcLoop centerX centerY radius inc n angle
      (acc ++ [(centerX + MathOps.cos angle * radius, centerY + MathOps.sin angle * radius)])

/-- `planArc(endX, endY, i, j, clockwise)` -/
def planArc (p : Position α) (endX endY i j ni nj : α) (clockwise : Bool) : Except PyErr (List (α × α)) := do
  let x ← p.x.nativeToLogical
  let y ← p.y.nativeToLogical
  let radius : α := MathOps.hypot i j
  let centerX := x + i
  let centerY := y + j
  let rtX := endX - centerX
  let rtY := endY - centerY
  let at0 : α := MathOps.atan2 (ni * rtY + j * rtX) (ni * rtX - j * rtY)
  let at1 := if at0 < 0 then at0 + MathOps.twoPi else at0
  let at2 := if clockwise then at1 - MathOps.twoPi else at1
  let angularTravel := if at2 == 0 && x == endX && y == endY then MathOps.twoPi else at2
  let arcLength := pyAbs angularTravel * radius
  let numSegments := max 1 (MathOps.ceilNat (arcLength / (1 : α)))
  let angle : α := MathOps.atan2 nj ni
  let inc ← pyDiv angularTravel (MathOps.ofNat numSegments)
  .ok (arcLoop centerX centerY radius inc (numSegments - 1) angle [] ++ [(endX, endY)])

/-- `computeArcCenterOffsets(endX, endY, radius, clockwise)` -/
def computeArcCenterOffsets (p : Position α) (endX endY radius : α) (clockwise : Bool) :
    Except PyErr (α × α) := do
  let p1 ← p.x.nativeToLogical
  let q1 ← p.y.nativeToLogical
  let p2 := endX
  let q2 := endY
  if !(radius == 0) && (!(p1 == p2) || !(q1 == q2)) then
    let e : α := if xor clockwise (decide (radius < 0)) then -1 else 1
    let deltaX := p2 - p1
    let deltaY := q2 - q1
    let dist : α := MathOps.hypot deltaX deltaY
    let halfDist := dist / 2
    let midX := (p1 + p2) / 2
    let midY := (q1 + q2) / 2
    if halfDist ≤ pyAbs radius then do
      let arg := radius * radius - halfDist * halfDist
      if arg < 0 then throw PyErr.valueError
      let h : α := MathOps.sqrt arg
      let sx ← pyDiv (-deltaY) dist
      let sy ← pyDiv (-deltaX) dist
      let centerX := midX + e * h * sx
      let centerY := midY + e * h * sy
      .ok (centerX - p1, centerY - q1)
    else .ok (0, 0)
  else .ok (0, 0)

/-- `_handle_G0` / `_handle_G1` -/
def handleG0 (cfg : Config) (s : FState α) (cmd : Cmd α) : Except PyErr (FState α × Result α) :=
  s.processLinearMoves cfg cmd (lastValue cmd.words 'E') (lastValue cmd.words 'F')
    (lastValue cmd.words 'Z') [(lastValue cmd.words 'X', lastValue cmd.words 'Y')]

/-- `_handle_G2` / `_handle_G3` -/
def handleG2 (cfg : Config) (s : FState α) (cmd : Cmd α) (clockwise : Bool) :
    Except PyErr (FState α × Result α) := do
  let x0 ← s.position.x.nativeToLogical
  let y0 ← s.position.y.nativeToLogical
  let z0 ← s.position.z.nativeToLogical
  let w := cmd.words
  let x := (lastValue w 'X').getD x0
  let y := (lastValue w 'Y').getD y0
  let z := (lastValue w 'Z').getD z0
  let i0 := (lastValue w 'I').getD 0
  let j0 := (lastValue w 'J').getD 0
  -- `-i` / `-j` as Python computes them: an omitted word leaves the *int* `0`, whose negation is `0`
  -- (no negative zero); a given value is a float
  let ni0 : α := match lastValue w 'I' with | some v => -v | none => 0
  let nj0 : α := match lastValue w 'J' with | some v => -v | none => 0
  let (i, j, ni, nj) ← match lastValue w 'R' with
    | some r => do
      let (ci, cj) ← computeArcCenterOffsets s.position x y r clockwise
      pure (ci, cj, -ci, -cj)
    | none => pure (i0, j0, ni0, nj0)
  if !(i == 0) || !(j == 0) then do
    let pts ← planArc s.position x y i j ni nj clockwise
    s.processLinearMoves cfg cmd (lastValue w 'E') (lastValue w 'F') (some z)
      (pts.map (fun (a, b) => (some a, some b)))
  else .ok (s, .none)

/-- `_handle_G10` -/
def handleG10 (s : FState α) (cmd : Cmd α) : Except PyErr (FState α × Result α) :=
  if hasLetter cmd.words 'P' || hasLetter cmd.words 'L' then .ok (s, .none)
  else do
    let (s, cmds) ← s.recordRetraction
      { firmwareRetract := true, extrusionAmount := none, feedRate := none, originalCommand := cmd }
    if cmds.isEmpty then .ok (s, .ignore) else .ok (s, .list cmds)

/-- `_handle_G11` -/
def handleG11 (s : FState α) (cmd : Cmd α) : Except PyErr (FState α × Result α) := do
  let (s, cmds) ← s.recoverRetractionIfNeeded cmd true
  if cmds.isEmpty then .ok (s, .ignore) else .ok (s, .list cmds)

/-- `_handle_G28` -/
def handleG28 (s : FState α) (cmd : Cmd α) : FState α :=
  let hx := hasLetter cmd.words 'X'
  let hy := hasLetter cmd.words 'Y'
  let hz := hasLetter cmd.words 'Z'
  let all := !(hx || hy || hz)
  let p := s.position
  let p := if hx || all then { p with x := p.x.setHome } else p
  let p := if hy || all then { p with y := p.y.setHome } else p
  let p := if hz || all then { p with z := p.z.setHome } else p
  { s with position := p }

/-- one iteration of the loop in `_handle_G92` -/
def g92Step (p : Position α) (kv : Char × Option α) : Except PyErr (Position α) :=
  match kv with
  | (_, none) => .ok p
  | (k, some v) =>
    if k == 'E' then do
      let (ea, _) ← p.e.setLogicalPosition (some v)
      .ok { p with e := ea }
    else if k == 'X' then do let a ← p.x.setLogicalOffsetPosition v; .ok { p with x := a }
    else if k == 'Y' then do let a ← p.y.setLogicalOffsetPosition v; .ok { p with y := a }
    else if k == 'Z' then do let a ← p.z.setLogicalOffsetPosition v; .ok { p with z := a }
    else .ok p

/-- one iteration of the loop in `_handle_M206` -/
def m206Step (p : Position α) (kv : Char × Option α) : Except PyErr (Position α) :=
  match kv with
  | (_, none) => .ok p
  | (k, some v) =>
    if k == 'X' then do let a ← p.x.setHomeOffset v; .ok { p with x := a }
    else if k == 'Y' then do let a ← p.y.setHomeOffset v; .ok { p with y := a }
    else if k == 'Z' then do let a ← p.z.setHomeOffset v; .ok { p with z := a }
    else .ok p

def foldE {σ β : Type} (f : σ → β → Except PyErr σ) : σ → List β → Except PyErr σ
  | s, [] => .ok s
  | s, b :: bs => do let s' ← f s b; foldE f s' bs

/-- `handleGcode(cmd, gcode, subcode)`; `gcode` is already upper-cased. `inch` is
`INCH_TO_MM_FACTOR`. -/
def handleGcode (cfg : Config) (inch : α) (s : FState α) (gcode : String) (cmd : Cmd α) :
    Except PyErr (FState α × Result α) :=
  match Code.ofString gcode with
  | .G0 | .G1 => handleG0 cfg s cmd
  | .G2 => handleG2 cfg s cmd true
  | .G3 => handleG2 cfg s cmd false
  | .G10 => handleG10 s cmd
  | .G11 => handleG11 s cmd
  | .G20 => .ok (s.setUnitMultiplier inch, .none)
  | .G21 => .ok (s.setUnitMultiplier 1, .none)
  | .G28 => .ok (handleG28 s cmd, .none)
  | .G90 => .ok (s.setAbsoluteMode cfg true, .none)
  | .G91 => .ok (s.setAbsoluteMode cfg false, .none)
  | .G92 => do
    let p ← foldE g92Step s.position cmd.words
    .ok ({ s with position := p }, .none)
  | .M206 => do
    let p ← foldE m206Step s.position cmd.words
    .ok ({ s with position := p }, .none)
  | .other _ => .ok (s.processExtendedGcode cfg cmd gcode)

/-- entries of `atCommandActions.get(cmd)` in order -/
def atLoop (cfg : Config) (params : Text) :
    List AtEntry → FState α → Bool → List (Out α) → Except PyErr (FState α × Bool × List (Out α))
  | [], s, handled, sent => .ok (s, handled, sent)
  | e :: rest, s, handled, sent =>
    if e.matcher params then
      match e.action with
      | .enable => atLoop cfg params rest s.enableExclusion true sent
      | .disable => do
        let (s, cmds) ← s.disableExclusion cfg
        atLoop cfg params rest s true (sent ++ cmds)
      | .unsupported => atLoop cfg params rest s true sent
    else atLoop cfg params rest s handled sent

/-- `handleAtCommand(commInstance, cmd, parameters)`: new state, `handled`, commands sent -/
def handleAtCommand (cfg : Config) (s : FState α) (streaming : Bool) (cmd : String) (params : Text) :
    Except PyErr (FState α × Bool × List (Out α)) :=
  if streaming then .ok (s, false, [])
  else atLoop cfg params (cfg.atCommandActions.filter (fun e => e.command == cmd)) s false []

end
end ERP
