/-! # A backtracking regular-expression matcher with the semantics of CPython `re`

Ordered alternation, greedy/lazy bounded repetition, capture groups, anchors. Continuation-passing:
`m ctx r p caps k` tries to match `r` at position `p` and calls `k` with every candidate end
position in the order a backtracking engine would try them; the first `some` wins.
The regexes themselves are generated from the Python source (`ERP/Gen/Regexes.lean`). -/
namespace ERP.Rx
inductive CC where
  | lit (c : Char) | range (a b : Char) | cat (name : String)
  deriving Repr
inductive Re where
  | eps
  | chars (neg : Bool) (items : List CC)
  | seq (a b : Re)
  | alt (a b : Re)
  | rep (greedy : Bool) (lo : Nat) (hi : Option Nat) (r : Re)
  | group (idx : Nat) (r : Re)
  | at (kind : String)
  deriving Repr

def CC.test (c : Char) : CC → Bool
  | .lit d => c == d
  | .range a b => a.toNat ≤ c.toNat && c.toNat ≤ b.toNat
  | .cat "digit" => c.isDigit
  | .cat "space" => c == ' ' || c == '\t' || c == '\n' || c == '\r' || c.toNat == 11 || c.toNat == 12
  | .cat _ => false

abbrev Caps := List (Nat × Nat × Nat)   -- (group, start, end), latest first

structure Ctx where
  s : Array Char

def canMore (hi : Option Nat) (n : Nat) : Bool :=
  match hi with | none => true | some h => decide (n < h)

def orElse' {R : Type} (a : Option R) (b : Unit → Option R) : Option R :=
  match a with | some r => some r | none => b ()

/-- repetition loop; `mr` matches the body once. fuel bounds iterations -/
def repLoop {R : Type} (mr : Nat → Caps → (Nat → Caps → Option R) → Option R)
    (greedy : Bool) (lo : Nat) (hi : Option Nat) :
    Nat → Nat → Nat → Caps → (Nat → Caps → Option R) → Option R
  | 0, _, p, c, k => k p c
  | fuel+1, n, p, c, k =>
    let more : Unit → Option R := fun _ =>
      if canMore hi n then
        mr p c (fun p' c' => if (p' == p && decide (lo ≤ n)) then none
                             else repLoop mr greedy lo hi fuel (n+1) p' c' k)
      else none
    if n < lo then more ()
    else if greedy then orElse' (more ()) (fun _ => k p c)
    else orElse' (k p c) more

def atOk (ctx : Ctx) (kind : String) (p : Nat) : Bool :=
  match kind with
  | "beginning_string" | "beginning" => p == 0
  | "end_string" => p == ctx.s.size
  | "end" => p == ctx.s.size || (p + 1 == ctx.s.size && ctx.s[p]! == '\n')
  | _ => false

def m {R : Type} (ctx : Ctx) : Re → Nat → Caps → (Nat → Caps → Option R) → Option R
  | .eps, p, c, k => k p c
  | .chars neg items, p, c, k =>
    if h : p < ctx.s.size then
      let ch := ctx.s[p]
      if (items.any (CC.test ch)) != neg then k (p+1) c else none
    else none
  | .seq a b, p, c, k => m ctx a p c (fun p' c' => m ctx b p' c' k)
  | .alt a b, p, c, k =>
    orElse' (m ctx a p c k) (fun _ => m ctx b p c k)
  | .rep g lo hi r, p, c, k => repLoop (m ctx r) g lo hi (ctx.s.size + 2 - p + lo) 0 p c k
  | .group i r, p, c, k => m ctx r p c (fun p' c' => k p' ((i, p, p') :: c'))
  | .at kind, p, c, k => if atOk ctx kind p then k p c else none

def matchAt (r : Re) (s : Array Char) (pos : Nat) : Option (Nat × Caps) :=
  m ⟨s⟩ r pos [] (fun p c => some (p, c))

def capOf (c : Caps) (i : Nat) : Option (Nat × Nat) :=
  (c.find? (·.1 == i)).map (·.2)
end ERP.Rx
