import ERP.Model.Axis
import ERP.Model.Region
/-! # `RetractionState.py`, `ExcludedGcode.py`, `AtCommandAction.py`, `ExcludeRegionState.py`

Structured layer: a command is its text plus the `(letter, value)` items the parser extracts
from it; synthesised commands are structured values (`Out`) carrying numbers, rendered to text by
`ERP.Model.Format`. -/
namespace ERP

/-- A command as the handlers see it. `words` is `parse(cmd).parameterItems()` restricted to
letter items (upper-cased letters). -/
structure Cmd (α : Type) where
  text : Text
  words : List (Char × Option α)
  /-- the `gcode` argument the command was passed with (upper-cased); not used by the filter model
  itself — the reference printer of the specifications needs it to execute forwarded commands -/
  code : String := ""
  deriving Repr

/-- Commands returned to the printer queue. -/
inductive Out (α : Type) where
  | orig (c : Cmd α)                        -- a command passed through verbatim
  | script (isExit : Bool) (t : Text)       -- a configured enter (false) / exit (true) script line
  | g92e (e : α)                            -- "G92 E{e}"
  | g0z (f z : α)                           -- "G0 F{f} Z{z}"
  | g0xy (f x y : α)                        -- "G0 F{f} X{x} Y{y}"
  | g1fe (f e : α)                          -- "G1 F{f} E{e}"
  | fw (recover : Bool) (orig : Text)       -- "G10"/"G11" + parameters of the original G10 text
  | merged (gcode : String) (args : List (Char × Option α))   -- buildCommand(gcode, **args)
  deriving Repr

/-- `RetractionState` -/
structure Retraction (α : Type) where
  recoverExcluded : Bool := false
  allowCombine : Bool := true
  firmwareRetract : Bool
  extrusionAmount : Option α
  feedRate : Option α
  originalCommand : Cmd α
  deriving Repr

inductive Mode where
  | exclude | first | last | merge
  deriving Repr, DecidableEq

inductive AtAction where
  | enable | disable | unsupported
  deriving Repr, DecidableEq

/-- An `AtCommandAction`: `matcher params` is `parameterPattern.match(params)` (or `true`). -/
structure AtEntry where
  command : String
  matcher : Text → Bool
  action : AtAction

/-- Entry of `pendingCommands`. -/
inductive Pending (α : Type) where
  | cmd (c : Cmd α)                                   -- first / last: the command text
  | args (a : List (Char × Option α))                 -- merge: letter → latest value, insertion order
  deriving Repr

/-- Configuration values of `ExcludeRegionState` (set from the settings, not by G-code). -/
structure Config where
  g90InfluencesExtruder : Bool := false
  enteringExcludedRegionGcode : Option (List Text) := none
  exitingExcludedRegionGcode : Option (List Text) := none
  extendedExcludeGcodes : List (String × Mode) := []
  atCommandActions : List AtEntry := []

/-- Per-print state of `ExcludeRegionState` plus the region list. Logging, `numCommands`,
`numExcludedCommands` and `excludeStartTime` are not modelled. -/
structure FState (α : Type) where
  excludedRegions : List (Region α)
  position : Position α
  feedRate : α
  feedRateUnitMultiplier : α
  exclusionEnabled : Bool
  excluding : Bool
  lastRetraction : Option (Retraction α)
  lastPosition : Option (Position α)
  pendingCommands : List (String × Pending α)

/-- Result of `handleGcode`. -/
inductive Result (α : Type) where
  | none                       -- `None`: leave the command unchanged
  | ignore                     -- `IGNORE_GCODE_CMD`
  | list (l : List (Out α))    -- replacement commands (non-empty)
  deriving Repr

section
variable {α : Type} [Add α] [Sub α] [Mul α] [Div α] [Neg α] [LT α] [LE α] [BEq α]
  [OfNat α 0] [OfNat α 1] [DecidableLT α] [DecidableLE α] [MathOps α]

/-- `resetState(clearExcludedRegions)` -/
def FState.reset (regions : List (Region α)) : FState α :=
  { excludedRegions := regions, position := Position.init, feedRate := 0,
    feedRateUnitMultiplier := 1, exclusionEnabled := true, excluding := false,
    lastRetraction := none, lastPosition := none, pendingCommands := [] }

def FState.getRegion (s : FState α) (id : String) : Option (Region α) :=
  s.excludedRegions.find? (fun r => r.id == id)

/-- `addRegion` -/
def FState.addRegion (s : FState α) (r : Region α) : Except PyErr (FState α) :=
  match s.getRegion r.id with
  | none => .ok { s with excludedRegions := s.excludedRegions ++ [r] }
  | some _ => .error .valueError

def deleteFirst (rs : List (Region α)) (id : String) : Option (List (Region α)) :=
  match rs with
  | [] => none
  | r :: rest => if r.id == id then some rest else (deleteFirst rest id).map (r :: ·)

/-- `deleteRegion`: the new state and whether a region was removed -/
def FState.deleteRegion (s : FState α) (id : String) : FState α × Bool :=
  match deleteFirst s.excludedRegions id with
  | some rs => ({ s with excludedRegions := rs }, true)
  | none => (s, false)

def replaceFirst (rs : List (Region α)) (new : Region α) (must : Bool) :
    Except PyErr (List (Region α)) :=
  match rs with
  | [] => .error .valueError
  | r :: rest =>
    if r.id == new.id then
      if must && !(new.containsRegion r) then .error .valueError else .ok (new :: rest)
    else do
      let rest' ← replaceFirst rest new must
      .ok (r :: rest')

/-- `replaceRegion(newRegion, mustContainOldRegion)` (region ids are never `None` here) -/
def FState.replaceRegion (s : FState α) (new : Region α) (must : Bool) : Except PyErr (FState α) := do
  let rs ← replaceFirst s.excludedRegions new must
  .ok { s with excludedRegions := rs }

/-- region loop of `isPointExcluded` -/
def anyRegionContains : List (Region α) → Option α → Option α → Except PyErr Bool
  | [], _, _ => .ok false
  | r :: rest, x, y => do
    let b ← r.containsPointO x y
    if b then .ok true else anyRegionContains rest x y

/-- `isPointExcluded(x, y)` -/
def FState.isPointExcluded (s : FState α) (x y : Option α) : Except PyErr Bool :=
  if s.exclusionEnabled then anyRegionContains s.excludedRegions x y else .ok false

/-- loop of `isAnyPointExcluded(*xyPairs)` (pairs already grouped) -/
def isAnyLoop (s : FState α) : List (Option α × Option α) → Bool → Except PyErr (FState α × Bool)
  | [], any => .ok (s, any)
  | (px, py) :: rest, any => do
    let (xa, x) ← s.position.x.setLogicalPosition px
    let (ya, y) ← s.position.y.setLogicalPosition py
    let s' := { s with position := { s.position with x := xa, y := ya } }
    let any' ← if any then pure true else s'.isPointExcluded x y
    isAnyLoop s' rest any'

def FState.isAnyPointExcluded (s : FState α) (pairs : List (Option α × Option α)) :
    Except PyErr (FState α × Bool) := isAnyLoop s pairs false

/-- `setUnitMultiplier` -/
def FState.setUnitMultiplier (s : FState α) (u : α) : FState α :=
  { s with feedRateUnitMultiplier := u, position := s.position.setUnitMultiplier u }

/-- `setAbsoluteMode` -/
def FState.setAbsoluteMode (cfg : Config) (s : FState α) (b : Bool) : FState α :=
  let p := s.position.setPositionAbsoluteMode b
  { s with position := if cfg.g90InfluencesExtruder then p.setExtruderAbsoluteMode b else p }

/-- `RetractionState._addCommands(direction, position)`; `dir` is `1` or `-1`. Mutates the E axis
(`current += amount … current -= amount`), which is the identity in exact arithmetic. -/
def Retraction.addCommands (r : Retraction α) (dir : α) (p : Position α) :
    Except PyErr (Position α × List (Out α)) :=
  if r.firmwareRetract then
    .ok (p, [.fw (dir < 0) r.originalCommand.text])
  else
    match r.extrusionAmount, r.feedRate, p.e.current with
    | some ext, some fr, some cur => do
      let amount := ext * dir
      let e1 := { p.e with current := some (cur + amount) }
      let l1 ← e1.nativeToLogical
      let e2 := { e1 with current := some (cur + amount - amount) }
      let l2 ← e2.nativeToLogical
      let f ← pyDiv fr e2.unitMultiplier
      .ok ({ p with e := e2 }, [.g92e l1, .g1fe f l2])
    | _, _, _ => .error .typeError

def Retraction.generateRetractCommands (r : Retraction α) (p : Position α) := r.addCommands 1 p
def Retraction.generateRecoverCommands (r : Retraction α) (p : Position α) := r.addCommands (-1) p

/-- `RetractionState.combine(other)` -/
def Retraction.combine (r other : Retraction α) : Except PyErr (Retraction α) :=
  if r.allowCombine then
    if r.firmwareRetract == other.firmwareRetract then
      if !r.firmwareRetract then
        match r.extrusionAmount, other.extrusionAmount with
        | some a, some b => .ok { r with extrusionAmount := some (a + b) }
        | _, _ => .error .typeError
      else .ok r
    else .ok r
  else .ok r

/-- `recordRetraction(retract)` -/
def FState.recordRetraction (s : FState α) (retract : Retraction α) :
    Except PyErr (FState α × List (Out α)) :=
  match s.lastRetraction with
  | none =>
    let s := { s with lastRetraction := some retract }
    if s.excluding then do
      let (p, cmds) ← retract.generateRetractCommands s.position
      .ok ({ s with position := p }, cmds)
    else .ok (s, [.orig retract.originalCommand])
  | some lr =>
    if lr.recoverExcluded then
      let lr := { lr with recoverExcluded := false }
      let lr := if !lr.firmwareRetract then { lr with feedRate := some s.feedRate } else lr
      .ok ({ s with lastRetraction := some lr }, [])
    else if lr.allowCombine then do
      let lr ← lr.combine retract
      let s := { s with lastRetraction := some lr }
      if s.excluding then
        let (p, cmds) ← retract.generateRetractCommands s.position
        .ok ({ s with position := p }, cmds)
      else .ok (s, [.orig retract.originalCommand])
    else if s.excluding then .ok (s, [])
    else .ok (s, [.orig retract.originalCommand])

/-- `_recoverRetraction(cmd, isRecoveryCommand)` (requires `lastRetraction` to be set) -/
def FState.recoverRetraction (s : FState α) (cmd : Cmd α) (lr : Retraction α) :
    Except PyErr (FState α × List (Out α)) := do
  let (p, cmds) ← if lr.recoverExcluded then lr.generateRecoverCommands s.position
                  else pure (s.position, [])
  .ok ({ s with position := p, lastRetraction := none }, cmds ++ [.orig cmd])

/-- `recoverRetractionIfNeeded(cmd, isRecoveryCommand)` -/
def FState.recoverRetractionIfNeeded (s : FState α) (cmd : Cmd α) (isRecoveryCommand : Bool) :
    Except PyErr (FState α × List (Out α)) :=
  match s.lastRetraction with
  | some lr =>
    let lr := { lr with allowCombine := false }
    if s.excluding then
      let lr := if isRecoveryCommand then { lr with recoverExcluded := true } else lr
      .ok ({ s with lastRetraction := some lr }, [])
    else
      ({ s with lastRetraction := some lr }).recoverRetraction cmd lr
  | none =>
    if !s.excluding then .ok (s, [.orig cmd]) else .ok (s, [])

/-- `enterExcludedRegion(cmd)` (`lastPosition` is overwritten by the caller, see
`processLinearMoves`) -/
def FState.enterExcludedRegion (cfg : Config) (s : FState α) : Except PyErr (FState α × List (Out α)) :=
  if !s.exclusionEnabled then .error .assertion
  else if s.excluding then .ok (s, [])
  else
    let s := { s with excluding := true, lastPosition := some s.position }
    .ok (s, match cfg.enteringExcludedRegionGcode with
            | some l => l.map (.script false)
            | none => [])

/-- `_processPendingCommands()` -/
def FState.processPendingCommands (cfg : Config) (s : FState α) : FState α × List (Out α) :=
  let pend := s.pendingCommands.map (fun (g, p) =>
    match p with
    | .args a => Out.merged g a
    | .cmd c => Out.orig c)
  let exit := match cfg.exitingExcludedRegionGcode with
    | some l => l.map (Out.script true)
    | none => []
  ({ s with pendingCommands := [] }, pend ++ exit)

/-- `_exitCoordinate(axis, lastAxis)` -/
def exitCoordinate (axis lastAxis : Axis α) : Except PyErr α :=
  if axis.absoluteMode then axis.nativeToLogical
  else match axis.current, lastAxis.current with
    | some c, some l => pyDiv (c - l) axis.unitMultiplier
    | _, _ => .error .typeError

/-- `exitExcludedRegion(cmd)` -/
def FState.exitExcludedRegion (cfg : Config) (s : FState α) : Except PyErr (FState α × List (Out α)) :=
  if !s.excluding then .ok (s, [])
  else do
    let s := { s with excluding := false }
    let (s, cmds) := s.processPendingCommands cfg
    let e ← s.position.e.nativeToLogical
    let cmds := cmds ++ [.g92e e]
    match s.lastPosition with
    | none => .error .typeError     -- `self.lastPosition.Z_AXIS` on `None` (AttributeError)
    | some lp =>
      match s.position.z.current, lp.z.current with
      | some newZ, some oldZ => do
        let f ← pyDiv s.feedRate s.feedRateUnitMultiplier
        let zc ← exitCoordinate s.position.z lp.z
        let moveZ : Out α := .g0z f zc
        let cmds := if oldZ < newZ then cmds ++ [moveZ] else cmds
        let f2 ← pyDiv s.feedRate s.feedRateUnitMultiplier
        let xc ← exitCoordinate s.position.x lp.x
        let yc ← exitCoordinate s.position.y lp.y
        let cmds := cmds ++ [.g0xy f2 xc yc]
        let cmds := if newZ < oldZ then cmds ++ [moveZ] else cmds
        .ok (s, cmds)
      | _, _ => .error .typeError

/-- `disableExclusion(context)` -/
def FState.disableExclusion (cfg : Config) (s : FState α) : Except PyErr (FState α × List (Out α)) :=
  if s.exclusionEnabled then
    let s := { s with exclusionEnabled := false }
    if s.excluding then s.exitExcludedRegion cfg else .ok (s, [])
  else .ok (s, [])

/-- `enableExclusion(context)` -/
def FState.enableExclusion (s : FState α) : FState α := { s with exclusionEnabled := true }

/-- `_processNonMove(cmd, deltaE)` -/
def FState.processNonMove (s : FState α) (cmd : Cmd α) (deltaE : α) :
    Except PyErr (FState α × List (Out α)) :=
  if deltaE < 0 then do
    let (s, cmds) ← s.recordRetraction
      { firmwareRetract := false, extrusionAmount := some (-deltaE), feedRate := some s.feedRate,
        originalCommand := cmd }
    if cmds.isEmpty && !s.excluding then do
      let e ← s.position.e.nativeToLogical
      .ok (s, [.g92e e])
    else .ok (s, cmds)
  else if 0 < deltaE then s.recoverRetractionIfNeeded cmd true
  else if !s.excluding then .ok (s, [.orig cmd])
  else .ok (s, [])

/-- `_processExcludedMove(cmd, deltaE)` -/
def FState.processExcludedMove (cfg : Config) (s : FState α) (cmd : Cmd α) (deltaE : α) :
    Except PyErr (FState α × List (Out α)) := do
  let (s, cmds) ← if !s.excluding then s.enterExcludedRegion cfg else pure (s, [])
  if deltaE < 0 then do
    let (s, more) ← s.processNonMove cmd deltaE
    .ok (s, cmds ++ more)
  else .ok (s, cmds)

/-- first part of `processLinearMoves`: apply the E, Z and F words; returns the state, `deltaE`
and `isMove` -/
def FState.applyEZF (s : FState α) (extruderPosition feedRate finalZ : Option α)
    (xyPairs : List (Option α × Option α)) : Except PyErr (FState α × α × Bool) := do
  let priorE := s.position.e.current
  let (s, deltaE) ← match extruderPosition with
    | some ep => do
      let (ea, cur) ← s.position.e.setLogicalPosition (some ep)
      match cur, priorE with
      | some c, some p => pure ({ s with position := { s.position with e := ea } }, c - p)
      | _, _ => throw PyErr.typeError
    | none => pure (s, (0 : α))
  let (s, isMove) ← match finalZ with
    | some z => do
      let (za, _) ← s.position.z.setLogicalPosition (some z)
      pure ({ s with position := { s.position with z := za } }, true)
    | none => pure (s, xyPairs.any (fun (a, b) => a.isSome || b.isSome))
  let s := match feedRate with
    | some f => { s with feedRate := f * s.feedRateUnitMultiplier }
    | none => s
  .ok (s, deltaE, isMove)

/-- `returnCommands.insert(len(returnCommands) - 1, c)` -/
def insertBeforeLast {β : Type} (l : List β) (c : β) : List β :=
  l.dropLast ++ [c] ++ (match l.getLast? with | some x => [x] | none => [])

/-- the `isMove` branches of `processLinearMoves` -/
def FState.moveBody (cfg : Config) (s : FState α) (cmd : Cmd α) (deltaE : α) (priorE : Option α)
    (startPosition : Position α) (xyPairs : List (Option α × Option α)) :
    Except PyErr (FState α × List (Out α)) := do
  let (s, anyEx) ← s.isAnyPointExcluded xyPairs
  if anyEx then do
    let was := s.excluding
    let (s, cmds) ← s.processExcludedMove cfg cmd deltaE
    let s := if s.excluding && !was then { s with lastPosition := some startPosition } else s
    pure (s, cmds)
  else if s.excluding then s.exitExcludedRegion cfg
  else if !(deltaE == 0) then do
    let lr := s.lastRetraction
    let (s, cmds) ← s.recoverRetractionIfNeeded cmd false
    match lr with
    | some lr =>
      if lr.recoverExcluded && !lr.firmwareRetract then do
        let e ← s.position.e.nativeToLogical priorE (some true)
        pure (s, insertBeforeLast cmds (.g92e e))
      else pure (s, cmds)
    | none => pure (s, cmds)
  else pure (s, [.orig cmd])

/-- the `not isMove` branch of `processLinearMoves` -/
def FState.nonMoveBody (s : FState α) (cmd : Cmd α) (deltaE : α) (priorE : Option α) :
    Except PyErr (FState α × List (Out α)) := do
  let lr := s.lastRetraction
  let (s, cmds) ← s.processNonMove cmd deltaE
  match lr with
  | some lr =>
    if decide (0 < deltaE) && !s.excluding && lr.recoverExcluded && !lr.firmwareRetract then do
      let e ← s.position.e.nativeToLogical priorE (some true)
      pure (s, insertBeforeLast cmds (.g92e e))
    else pure (s, cmds)
  | none => pure (s, cmds)

/-- `processLinearMoves(cmd, extruderPosition, feedRate, finalZ, *xyPairs)` -/
def FState.processLinearMoves (cfg : Config) (s : FState α) (cmd : Cmd α)
    (extruderPosition feedRate finalZ : Option α) (xyPairs : List (Option α × Option α)) :
    Except PyErr (FState α × Result α) := do
  let startPosition := s.position
  let priorE := s.position.e.current
  let (s, deltaE, isMove) ← s.applyEZF extruderPosition feedRate finalZ xyPairs
  let (s, cmds) ←
    if !isMove then s.nonMoveBody cmd deltaE priorE
    else s.moveBody cfg cmd deltaE priorE startPosition xyPairs
  if cmds.isEmpty then .ok (s, .ignore) else .ok (s, .list cmds)

/-- lookup in `extendedExcludeGcodes` -/
def Config.mode (cfg : Config) (gcode : String) : Option Mode :=
  (cfg.extendedExcludeGcodes.find? (fun p => p.1 == gcode)).map (·.2)

def pendingPop (l : List (String × Pending α)) (g : String) : List (String × Pending α) :=
  l.filter (fun p => !(p.1 == g))

def pendingGet (l : List (String × Pending α)) (g : String) : Option (Pending α) :=
  (l.find? (fun p => p.1 == g)).map (·.2)

/-- `pendingArgs[label] = value` on an insertion-ordered dict -/
def argsSet (a : List (Char × Option α)) (k : Char) (v : Option α) : List (Char × Option α) :=
  if a.any (fun p => p.1 == k) then a.map (fun p => if p.1 == k then (k, v) else p)
  else a ++ [(k, v)]

/-- `_processExtendedGcodeEntry(mode, cmd, gcode)` -/
def FState.processExtendedGcodeEntry (s : FState α) (mode : Mode) (cmd : Cmd α) (gcode : String) :
    FState α :=
  match mode with
  | .merge =>
    let old := match pendingGet s.pendingCommands gcode with
      | some (.args a) => a
      | _ => []      -- a non-dict entry cannot occur for a merge code; `{}` default
    let new := cmd.words.foldl (fun a (k, v) => argsSet a k v) old
    { s with pendingCommands := pendingPop s.pendingCommands gcode ++ [(gcode, .args new)] }
  | .first =>
    match pendingGet s.pendingCommands gcode with
    | some _ => s
    | none => { s with pendingCommands := s.pendingCommands ++ [(gcode, .cmd cmd)] }
  | .last =>
    { s with pendingCommands := pendingPop s.pendingCommands gcode ++ [(gcode, .cmd cmd)] }
  | .exclude => s

/-- `processExtendedGcode(cmd, gcode, subcode)` -/
def FState.processExtendedGcode (cfg : Config) (s : FState α) (cmd : Cmd α) (gcode : String) :
    FState α × Result α :=
  if !gcode.isEmpty && s.excluding then
    match cfg.mode gcode with
    | some m => (s.processExtendedGcodeEntry m cmd gcode, .ignore)
    | none => (s, .none)
  else (s, .none)

end
end ERP
