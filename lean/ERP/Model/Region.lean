import ERP.Basic
/-! # `RectangularRegion.py` and `CircularRegion.py` -/
namespace ERP

inductive Region (α : Type) where
  | rect (id : String) (x1 y1 x2 y2 : α)
  | circle (id : String) (cx cy r : α)
  deriving Repr

def Region.id {α : Type} : Region α → String
  | .rect i .. => i
  | .circle i .. => i

section
variable {α : Type} [Add α] [Sub α] [LT α] [LE α] [DecidableLT α] [DecidableLE α] [MathOps α]

/-- `RectangularRegion(x1=…, y1=…, x2=…, y2=…, id=…)`: the constructor orders the corners. -/
def Region.mkRect (id : String) (x1 y1 x2 y2 : α) : Region α :=
  let (x1, x2) := if x2 < x1 then (x2, x1) else (x1, x2)
  let (y1, y2) := if y2 < y1 then (y2, y1) else (y1, y2)
  .rect id x1 y1 x2 y2

/-- `containsPoint(x, y)` for numeric arguments -/
def Region.containsPoint : Region α → α → α → Bool
  | .rect _ x1 y1 x2 y2, x, y =>
    decide (x1 ≤ x) && decide (x ≤ x2) && decide (y1 ≤ y) && decide (y ≤ y2)
  | .circle _ cx cy r, x, y => decide (MathOps.hypot (x - cx) (y - cy) ≤ r)

/-- `containsPoint(x, y)` where a coordinate may be `None` (axis not homed): Python raises
`TypeError` at the first comparison/subtraction that touches `None`. -/
def Region.containsPointO : Region α → Option α → Option α → Except PyErr Bool
  | .rect _ x1 y1 x2 y2, x, y =>
    match x with
    | none => .error .typeError
    | some x =>
      if decide (x1 ≤ x) && decide (x ≤ x2) then
        match y with
        | none => .error .typeError
        | some y => .ok (decide (y1 ≤ y) && decide (y ≤ y2))
      else .ok false
  | .circle i cx cy r, x, y =>
    match x, y with
    | some x, some y => .ok ((Region.circle i cx cy r).containsPoint x y)
    | _, _ => .error .typeError

/-- `containsRegion(other)` -/
def Region.containsRegion : Region α → Region α → Bool
  | .rect _ x1 y1 x2 y2, .rect _ ox1 oy1 ox2 oy2 =>
    decide (x1 ≤ ox1) && decide (ox2 ≤ x2) && decide (y1 ≤ oy1) && decide (oy2 ≤ y2)
  | .rect _ x1 y1 x2 y2, .circle _ cx cy r =>
    decide (x1 ≤ cx - r) && decide (cx + r ≤ x2) && decide (y1 ≤ cy - r) && decide (cy + r ≤ y2)
  | .circle i cx cy r, .rect _ ox1 oy1 ox2 oy2 =>
    let c : Region α := .circle i cx cy r
    c.containsPoint ox1 oy1 && c.containsPoint ox2 oy1 && c.containsPoint ox2 oy2 &&
      c.containsPoint ox1 oy2
  | .circle _ cx cy r, .circle _ ocx ocy orr =>
    decide (MathOps.hypot (cx - ocx) (cy - ocy) + orr ≤ r)

end
end ERP
