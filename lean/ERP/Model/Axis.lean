import ERP.Basic
/-! # `AxisPosition.py` and `Position.py` -/
namespace ERP

structure Axis (α : Type) where
  current : Option α
  homeOffset : α
  offset : α
  absoluteMode : Bool
  unitMultiplier : α
  deriving Repr

section
variable {α : Type} [Add α] [Sub α] [Mul α] [Div α] [BEq α] [OfNat α 0] [OfNat α 1]

/-- `AxisPosition()` -/
def Axis.init (current : Option α) : Axis α :=
  { current := current, homeOffset := 0, offset := 0, absoluteMode := true, unitMultiplier := 1 }

/-- `logicalToNative(value, absoluteMode)` for `value is not None`. -/
def Axis.logicalToNative (a : Axis α) (value : α) (absoluteMode : Option Bool := none) :
    Except PyErr α :=
  let value := value * a.unitMultiplier
  let abs := match absoluteMode with | some b => b | none => a.absoluteMode
  if abs then .ok (value + (a.offset + a.homeOffset))
  else match a.current with
    | some c => .ok (value + c)
    | none => .error .typeError

/-- `nativeToLogical(value, absoluteMode)`; `value = none` is the Python default `None`. -/
def Axis.nativeToLogical (a : Axis α) (value : Option α := none) (absoluteMode : Option Bool := none) :
    Except PyErr α :=
  match value with
  | none =>
    match a.current with
    | none => .error .typeError
    | some c => pyDiv (c - (a.offset + a.homeOffset)) a.unitMultiplier
  | some v =>
    let abs := match absoluteMode with | some b => b | none => a.absoluteMode
    if abs then pyDiv (v - (a.offset + a.homeOffset)) a.unitMultiplier
    else match a.current with
      | none => .error .typeError
      | some c => pyDiv (v - c) a.unitMultiplier

/-- `setLogicalPosition(position)`: returns the updated axis and the new `current`. -/
def Axis.setLogicalPosition (a : Axis α) (position : Option α) : Except PyErr (Axis α × Option α) :=
  match position with
  | none => .ok (a, a.current)
  | some p => do
    let c ← a.logicalToNative p
    .ok ({ a with current := some c }, some c)

/-- `setLogicalOffsetPosition(offset)` (G92 X/Y/Z) -/
def Axis.setLogicalOffsetPosition (a : Axis α) (offset : α) : Except PyErr (Axis α) := do
  let n ← a.logicalToNative offset
  match a.current with
  | none => .error .typeError
  | some c => .ok { a with offset := a.offset + (n - c) }

/-- `setHomeOffset(homeOffset)` (M206) -/
def Axis.setHomeOffset (a : Axis α) (homeOffset : α) : Except PyErr (Axis α) :=
  let h := homeOffset * a.unitMultiplier
  match a.current with
  | none => .error .typeError
  | some c => .ok { a with homeOffset := h, current := some (c + (a.homeOffset - h)) }

/-- `setHome()` (G28) -/
def Axis.setHome (a : Axis α) : Axis α := { a with current := some 0, offset := 0 }

def Axis.setUnitMultiplier (a : Axis α) (u : α) : Axis α := { a with unitMultiplier := u }
def Axis.setAbsoluteMode (a : Axis α) (b : Bool) : Axis α := { a with absoluteMode := b }

end

structure Position (α : Type) where
  x : Axis α
  y : Axis α
  z : Axis α
  e : Axis α
  deriving Repr

section
variable {α : Type} [OfNat α 0] [OfNat α 1]

/-- `Position()` -/
def Position.init : Position α :=
  { x := Axis.init none, y := Axis.init none, z := Axis.init none, e := Axis.init (some 0) }

def Position.setUnitMultiplier (p : Position α) (u : α) : Position α :=
  { x := p.x.setUnitMultiplier u, y := p.y.setUnitMultiplier u, z := p.z.setUnitMultiplier u,
    e := p.e.setUnitMultiplier u }

def Position.setPositionAbsoluteMode (p : Position α) (b : Bool) : Position α :=
  { p with x := p.x.setAbsoluteMode b, y := p.y.setAbsoluteMode b, z := p.z.setAbsoluteMode b }

def Position.setExtruderAbsoluteMode (p : Position α) (b : Bool) : Position α :=
  { p with e := p.e.setAbsoluteMode b }

end
end ERP
