import ERP.Model.State
import ERP.Model.Parser
/-! # Number formatting and rendering of synthesised commands

`formatNumber` models `CommonMixin.formatNumber` applied to the text `str(value)` (CPython's
`repr` of the float, which is outside the model). `render` turns a structured `Out` into the text
the Python code builds with `str.format`, given `nt : α → Text`, the `str()` of a number. -/
namespace ERP
open ERP.Rx

def lowerC (c : Char) : Char :=
  if decide ('A' ≤ c) && decide (c ≤ 'Z') then Char.ofNat (c.toNat + 32) else c

/-- `int(text)` for `[+-]?digits` -/
def parseInt (t : Text) : Except PyErr Int :=
  let (neg, d) := match t with
    | '-' :: r => (true, r)
    | '+' :: r => (false, r)
    | r => (false, r)
  if d.isEmpty || !(d.all isDigitC) then .error .valueError
  else .ok (if neg then -(digitsToNat d : Int) else (digitsToNat d : Int))

/-- `str.partition(sep)` for a one-character separator: (before, found, after) -/
def partitionC (t : Text) (sep : Char) : Text × Bool × Text :=
  let before := t.takeWhile (· != sep)
  match t.dropWhile (· != sep) with
  | [] => (before, false, [])
  | _ :: after => (before, true, after)

/-- `formatNumber(value)` on `text = str(value)` -/
def formatNumber (text : Text) : Except PyErr Text :=
  let (mantissa, found, exponent) := partitionC (text.map lowerC) 'e'
  if !found then .ok text
  else
    match mantissa with
    | [] => .error .index
    | m0 :: mrest => do
      let (sign, mantissa) : Text × Text :=
        if m0 == '+' || m0 == '-' then ((if m0 == '-' then ['-'] else []), mrest)
        else ([], mantissa)
      let (intPart, _, fracPart) := partitionC mantissa '.'
      let digits := intPart ++ fracPart
      let ex ← parseInt exponent
      let pointIndex : Int := (intPart.length : Int) + ex
      if pointIndex ≤ 0 then
        .ok (sign ++ ['0', '.'] ++ List.replicate (-pointIndex).toNat '0' ++ digits)
      else if pointIndex ≥ digits.length then
        .ok (sign ++ digits ++ List.replicate (pointIndex.toNat - digits.length) '0')
      else
        .ok (sign ++ digits.take pointIndex.toNat ++ ['.'] ++ digits.drop pointIndex.toNat)

/-- `GCODE_PARAMS_REGEX.sub("\\1", originalCommand)` -/
def retractParams (orig : Text) : Text :=
  match matchAt Gen.retractParams orig.toArray 0 with
  | some (e, c) => (capText orig c 1).getD [] ++ orig.drop e
  | none => orig

section
variable {α : Type}

def fmtNum (nt : α → Text) (x : α) : Except PyErr Text := formatNumber (nt x)

/-- `parameterDict` setter + `buildCommand(gcode, **kwargs)` -/
def buildCommand (nt : α → Text) (gcode : Text) (args : List (Char × Option α)) :
    Except PyErr Text := do
  let p ← ({} : Parser).setGcode gcode
  let vals ← args.mapM (fun (k, v) => match v with
    | some x => do let t ← fmtNum nt x; pure (k :: t)
    | none => pure [k])
  let p := { p with parameters := if vals.isEmpty then none else some ([' '].intercalate vals) }
  .ok (p.stringify (includeComment := false) (includeLineNumber := false) (includeEol := false))

/-- the text of a returned command -/
def render (nt : α → Text) : Out α → Except PyErr Text
  | .orig c => .ok c.text
  | .script _ t => .ok t
  | .g92e e => do let e ← fmtNum nt e; .ok ("G92 E".toList ++ e)
  | .g0z f z => do
    let f ← fmtNum nt f; let z ← fmtNum nt z
    .ok ("G0 F".toList ++ f ++ " Z".toList ++ z)
  | .g0xy f x y => do
    let f ← fmtNum nt f; let x ← fmtNum nt x; let y ← fmtNum nt y
    .ok ("G0 F".toList ++ f ++ " X".toList ++ x ++ " Y".toList ++ y)
  | .g1fe f e => do
    let f ← fmtNum nt f; let e ← fmtNum nt e
    .ok ("G1 F".toList ++ f ++ " E".toList ++ e)
  | .fw recover orig =>
    let params := retractParams orig
    let cmd := (if recover then "G11" else "G10").toList
    .ok (if params.isEmpty then cmd else cmd ++ [' '] ++ params)
  | .merged g args => buildCommand nt g.toList args

end
end ERP
