import ERP.Model.Handlers
import ERP.Model.Format
/-! # Text-level entry points: `handleGcode(cmd, gcode)` on strings, `StreamProcessor`, plugin shell -/
namespace ERP
open ERP.Rx

section
variable {α : Type} [Add α] [Sub α] [Mul α] [Div α] [Neg α] [LT α] [LE α] [BEq α]
  [OfNat α 0] [OfNat α 1] [OfNat α 2] [DecidableLT α] [DecidableLE α] [MathOps α] [OfDecimal α]

/-- what the handlers extract from the command text: `gcodeParser.parse(cmd).parameterItems()` -/
def cmdOfText (t : Text) (gcode : String := "") : Except PyErr (Cmd α) := do
  let p ← ({} : Parser).parse (some t)
  .ok { text := t, words := wordsOf (parameterItems p.parameters), code := gcode }

/-- `GcodeHandlers.handleGcode(cmd, gcode, subcode)` on text -/
def handleGcodeText (cfg : Config) (inch : α) (s : FState α) (cmd gcode : Text) :
    Except PyErr (FState α × Result α) := do
  let c ← cmdOfText cmd (String.ofList (gcode.map upperC))
  handleGcode cfg inch s (String.ofList (gcode.map upperC)) c

/-! ## `StreamProcessor` -/

structure StreamProc (α : Type) where
  st : FState α
  eol : Option Text := none

def isPySpace (c : Char) : Bool :=
  c == ' ' || c == '\t' || c == '\n' || c == '\r' || c.toNat == 11 || c.toNat == 12 ||
  (28 ≤ c.toNat && c.toNat ≤ 31) || c.toNat == 0x85 || c.toNat == 0xa0

/-- `_splitAtCommand(command)`: `command.split(None, 1)` -/
def splitAtCommand (t : Text) : Text × Text :=
  let t := t.dropWhile isPySpace
  let first := t.takeWhile (fun c => !isPySpace c)
  let rest := (t.dropWhile (fun c => !isPySpace c)).dropWhile isPySpace
  (first.drop 1, rest)

/-- What `process_line` returns: `none` = omit the line. Synthesised commands are kept structured
(`Sum.inr`) so that the caller renders them. -/
inductive LineOut (α : Type) where
  | unchanged                     -- the input line itself
  | omit                          -- `None`
  | lines (l : List (Out α)) (eol : Text)

/-- `process_line(line)` -/
def StreamProc.processLine (cfg : Config) (inch : α) (sp : StreamProc α) (line : Text) :
    Except PyErr (StreamProc α × LineOut α) := do
  let parsed ← ({} : Parser).parse (some line)
  let sp := if parsed.eol.isEmpty then sp else { sp with eol := some parsed.eol }
  match parsed.type with
  | some _ =>
    let cmd := parsed.stringify (includeLineNumber := false) (includeComment := false)
      (includeEol := false)
    let (st, r) ← handleGcodeText cfg inch sp.st cmd (parsed.gcode.getD [])
    let sp := { sp with st := st }
    match r with
    | .none => .ok (sp, .unchanged)
    | .ignore => .ok (sp, .omit)
    | .list l =>
      let eol := sp.eol.getD ['\n']
      .ok ({ sp with eol := some eol }, .lines l eol)
  | none =>
    if parsed.text.head? == some '@' then
      let (command, params) := splitAtCommand parsed.text
      let (st, handled, sent) ← handleAtCommand cfg sp.st false (String.ofList command) params
      let sp := { sp with st := st }
      if handled then
        if sent.isEmpty then .ok (sp, .omit)
        else
          let eol := sp.eol.getD ['\n']
          .ok ({ sp with eol := some eol }, .lines sent eol)
      else .ok (sp, .unchanged)
    else .ok (sp, .unchanged)

end
end ERP
