import ERP.Model.Entry
/-! # `__init__.py`: `ExcludeRegionPlugin` (events, API, hooks) -/
namespace ERP

/-- OctoPrint events the plugin distinguishes (`Gen.onEventBranches` ties the sets to the source). -/
inductive Event where
  | fileSelected
  | settingsUpdated
  | printStarted
  | printDone | printFailed | printCancelling | printCancelled | error
  | other (name : String)       -- PrintPaused, PrintResumed, …
  deriving Repr, DecidableEq

def Event.ofName : String → Event
  | "FILE_SELECTED" => .fileSelected
  | "SETTINGS_UPDATED" => .settingsUpdated
  | "PRINT_STARTED" => .printStarted
  | "PRINT_DONE" => .printDone
  | "PRINT_FAILED" => .printFailed
  | "PRINT_CANCELLING" => .printCancelling
  | "PRINT_CANCELLED" => .printCancelled
  | "ERROR" => .error
  | n => .other n

def Event.endsPrint : Event → Bool
  | .printDone | .printFailed | .printCancelling | .printCancelled | .error => true
  | _ => false

/-- The settings values `_handleSettingsUpdated` copies into the plugin (already converted). -/
structure Settings where
  clearRegionsAfterPrintFinishes : Bool := false
  mayShrinkRegionsWhilePrinting : Bool := false
  cfg : Config := {}

structure Plugin (α : Type) where
  settings : Settings                -- what `self._settings` currently holds
  clearRegionsAfterPrintFinishes : Bool
  mayShrinkRegionsWhilePrinting : Bool
  cfg : Config
  activePrintJob : Bool
  st : FState α
  /-- payloads of `send_plugin_message` so far, oldest first -/
  notifications : List (List (Region α))

/-- API requests after JSON decoding. `none` id on add = server generates one (`fresh`). -/
inductive ApiReq (α : Type) where
  | add (r : Region α)
  | update (r : Region α)
  | delete (id : String)
  | badType (command : String)        -- add/update with a type that is neither region class
  | unknown                            -- any other command with a valid type

/-- HTTP outcome: `none` = success (204/200), or a status code -/
abbrev ApiResp := Option Nat

section
variable {α : Type} [Add α] [Sub α] [Mul α] [Div α] [Neg α] [LT α] [LE α] [BEq α]
  [OfNat α 0] [OfNat α 1] [OfNat α 2] [DecidableLT α] [DecidableLE α] [MathOps α] [OfDecimal α]

def Plugin.notify (p : Plugin α) : Plugin α :=
  { p with notifications := p.notifications ++ [p.st.excludedRegions] }

/-- `_handleSettingsUpdated()` (data part) -/
def Plugin.handleSettingsUpdated (p : Plugin α) : Plugin α :=
  { p with clearRegionsAfterPrintFinishes := p.settings.clearRegionsAfterPrintFinishes,
           mayShrinkRegionsWhilePrinting := p.settings.mayShrinkRegionsWhilePrinting,
           cfg := p.settings.cfg }

/-- `initialize()` -/
def Plugin.initialize (settings : Settings) : Plugin α :=
  let p : Plugin α :=
    { settings := settings, clearRegionsAfterPrintFinishes := false,
      mayShrinkRegionsWhilePrinting := false, cfg := {}, activePrintJob := false,
      st := FState.reset [], notifications := [] }
  p.handleSettingsUpdated.notify

/-- `on_event(event, payload)` -/
def Plugin.onEvent (p : Plugin α) (ev : Event) : Plugin α :=
  match ev with
  | .fileSelected => ({ p with st := FState.reset [] }).notify
  | .settingsUpdated => p.handleSettingsUpdated
  | .printStarted => { p with st := FState.reset p.st.excludedRegions, activePrintJob := true }
  | .printDone | .printFailed | .printCancelling | .printCancelled | .error =>
    let p := { p with activePrintJob := false }
    if p.clearRegionsAfterPrintFinishes then ({ p with st := FState.reset [] }).notify else p
  | .other _ => p

/-- `on_api_command(command, data)` -/
def Plugin.onApiCommand (p : Plugin α) (anonymous : Bool) (req : ApiReq α) : Plugin α × ApiResp :=
  if anonymous then (p, some 403)
  else match req with
  | .delete id =>
    if !p.mayShrinkRegionsWhilePrinting && p.activePrintJob then (p, some 409)
    else
      let (st, removed) := p.st.deleteRegion id
      let p := { p with st := st }
      (if removed then p.notify else p, none)
  | .badType _ => (p, some 400)
  | .add r =>
    match p.st.addRegion r with
    | .ok st => (({ p with st := st }).notify, none)
    | .error _ => (p, some 409)
  | .update r =>
    match p.st.replaceRegion r (!p.mayShrinkRegionsWhilePrinting && p.activePrintJob) with
    | .ok st => (({ p with st := st }).notify, none)
    | .error _ => (p, some 409)
  | .unknown => (p, some 400)

/-- `on_api_get`: payload of the response -/
def Plugin.onApiGet (p : Plugin α) : List (Region α) := p.st.excludedRegions

/-- `handleGcodeQueuing(comm, phase, cmd, cmdType, gcode, subcode)`; `gcode = none` is a falsy gcode -/
def Plugin.handleGcodeQueuing (inch : α) (p : Plugin α) (cmd : Text) (gcode : Option Text) :
    Except PyErr (Plugin α × Result α) :=
  match gcode with
  | some g =>
    if !g.isEmpty && p.activePrintJob then do
      let (st, r) ← handleGcodeText p.cfg inch p.st cmd g
      .ok ({ p with st := st }, r)
    else .ok (p, .none)
  | none => .ok (p, .none)

/-- `handleAtCommandQueuing(comm, phase, cmd, parameters)`: returns the commands sent -/
def Plugin.handleAtCommandQueuing (p : Plugin α) (streaming : Bool) (cmd : String) (params : Text) :
    Except PyErr (Plugin α × List (Out α)) :=
  if p.activePrintJob then do
    let (st, _, sent) ← handleAtCommand p.cfg p.st streaming cmd params
    .ok ({ p with st := st }, sent)
  else .ok (p, [])

/-- `handleScriptHook(comm, scriptType, scriptName)`: `some prefix` = `(prefix, None)` -/
def Plugin.handleScriptHook (p : Plugin α) (scriptType scriptName : String) :
    Except PyErr (Plugin α × Option (List (Out α))) :=
  if scriptType == "gcode" && scriptName == "afterPrintDone" then
    if p.activePrintJob && p.st.excluding then do
      let (st, cmds) ← p.st.exitExcludedRegion p.cfg
      .ok ({ p with st := st }, some cmds)
    else .ok (p, none)
  else .ok (p, none)

end
end ERP
