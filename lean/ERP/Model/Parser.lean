import ERP.Basic
import ERP.Model.Regex
import ERP.Gen.Regexes
/-! # `GcodeParser.py` (glue around the generated regular expressions) -/
namespace ERP
open ERP.Rx

def isDigitC (c : Char) : Bool := decide ('0' ≤ c) && decide (c ≤ '9')

/-- `int(text)` for a string of ASCII digits -/
def digitsToNat (t : Text) : Nat := t.foldl (fun n c => n * 10 + (c.toNat - 48)) 0

def natToText (n : Nat) : Text := (Nat.repr n).toList

def upperC (c : Char) : Char := if decide ('a' ≤ c) && decide (c ≤ 'z') then Char.ofNat (c.toNat - 32) else c

def slice (s : Text) (a b : Nat) : Text := (s.drop a).take (b - a)

def capText (s : Text) (c : Caps) (i : Nat) : Option Text :=
  (capOf c i).map (fun (a, b) => slice s a b)

/-- The attributes of a `GcodeParser` object. -/
structure Parser where
  source : Text := []
  offset : Nat := 0
  length : Nat := 0
  lineNumber : Option Nat := none
  type : Option Char := none
  code : Option Nat := none
  subCode : Option Nat := none
  parameters : Option Text := none
  checksum : Option Nat := none
  leadingWhitespace : Text := []
  text : Text := []
  rawChecksum : Option Text := none
  trailingWhitespace : Text := []
  comment : Option Text := none
  eol : Text := []
  deriving Repr, DecidableEq

/-- `gcode` property: type + str(code) -/
def Parser.gcode (p : Parser) : Option Text :=
  match p.type, p.code with
  | some t, some c => some (t :: natToText c)
  | _, _ => none

/-- `_gcodeMatch(match, index)` -/
def Parser.gcodeMatch (p : Parser) (s : Text) (c : Caps) (index : Nat) : Parser :=
  let ty := match capText s c index with
    | some t => if t.isEmpty then capText s c (index + 3) else some t
    | none => capText s c (index + 3)
  match ty with
  | some (t :: _) =>
    let codeT := match capText s c (index + 1) with
      | some x => if x.isEmpty then capText s c (index + 4) else some x
      | none => capText s c (index + 4)
    { p with type := some (upperC t), code := codeT.map digitsToNat,
             subCode := (capText s c (index + 2)).map digitsToNat }
  | _ => { p with type := none, code := none, subCode := none }

/-- `parse(source, offset)`; `source = none ∧ offset = none` resumes after the previous line. -/
def Parser.parse (p : Parser) (source : Option Text := none) (offset : Option Nat := none) :
    Except PyErr Parser :=
  let (src, offset) := match source with
    | some s => (s, some (offset.getD 0))
    | none => (p.source, offset)
  let off := match offset with
    | some o => o
    | none => p.offset + p.length
  match matchAt Gen.gcodeLine src.toArray off with
  | none => .error .assertion
  | some (e, c) =>
    let p := { p with source := src, offset := off, length := e - off }
    let g := fun i => capText src c i
    let p := { p with leadingWhitespace := (g 1).getD [], text := (g 2).getD [],
                      lineNumber := (g 3).map digitsToNat }
    let p := p.gcodeMatch src c 4
    let p := { p with parameters := g 9 }
    let p := match g 10 with
      | some cs =>
        let raw := '*' :: cs
        { p with checksum := some (digitsToNat cs), rawChecksum := some raw,
                 text := p.text.take (p.text.length - raw.length) }
      | none => { p with checksum := none, rawChecksum := none }
    .ok { p with trailingWhitespace := (g 11).getD [], comment := g 12, eol := (g 13).getD [] }

/-- loop of `parseLines`: yield the current line while its offset is inside the source, then parse
the next one.  `fuel` only makes the recursion structural; `parseLines` supplies enough of it
(theorem `ERP.C18.parseLines_lossless` shows the loop always stops at the end of the source). -/
def Parser.linesLoop : Nat → Parser → Except PyErr (List Parser × Parser)
  | 0, p => .ok ([], p)
  | fuel+1, p =>
    if p.offset < p.source.length then do
      let q ← p.parse
      let (rest, fin) ← Parser.linesLoop fuel q
      .ok (p :: rest, fin)
    else .ok ([], p)

/-- `parseLines(source, offset)`: the successive parser states it yields, and the state of the
parser object once the generator is exhausted -/
def Parser.parseLines (p : Parser) (source : Option Text := none) (offset : Option Nat := none) :
    Except PyErr (List Parser × Parser) := do
  let q ← p.parse source offset
  Parser.linesLoop (q.source.length + 1) q

/-- `fullText` -/
def Parser.fullText (p : Parser) : Text :=
  p.leadingWhitespace ++ p.text ++ p.rawChecksum.getD [] ++ p.trailingWhitespace ++
    p.comment.getD [] ++ p.eol

/-- `computeChecksum(value)`: XOR of the UTF-8 bytes -/
def computeChecksum (t : Text) : Nat :=
  (String.ofList t).toUTF8.foldl (fun acc b => acc ^^^ b.toNat) 0

/-- `stringify(separator, includeLeadingWhitespace, includeLineNumber, includeChecksum,
includeComment, includeEol)` -/
def Parser.stringify (p : Parser) (separator : Text := [' ']) (includeLeadingWhitespace := true)
    (includeLineNumber := true) (includeChecksum : Option Bool := none) (includeComment := true)
    (includeEol := true) : Text :=
  let (result, checksum) : Text × Text :=
    match p.gcode with
    | none => (p.text, [])
    | some g =>
      let (pieces, includeChecksum) : List Text × Option Bool :=
        match includeLineNumber, p.lineNumber with
        | true, some n => ([ 'N' :: natToText n ], match includeChecksum with | none => some true | x => x)
        | _, _ => ([], includeChecksum)
      let pieces := pieces ++ [match p.subCode with | none => g | some sc => g ++ '.' :: natToText sc]
      let pieces := match p.parameters with | some ps => pieces ++ [ps] | none => pieces
      let result := separator.intercalate pieces
      if includeChecksum == some true then
        let result := result ++ separator
        (result, '*' :: natToText (computeChecksum result))
      else (result, [])
  let includeComment := includeComment && p.comment.isSome
  (if includeLeadingWhitespace then p.leadingWhitespace else []) ++ result ++ checksum ++
    (if includeComment then separator ++ p.comment.getD [] else []) ++
    (if includeEol then p.eol else [])

/-- `ExcludeRegionPlugin._splitGcodeScript(gcodeString)`: the configured enter/exit scripts are
split into lines, normalised (no indentation, line number, checksum, comment or line ending), and
empty lines are dropped -/
def splitGcodeScript (t : Option Text) : Except PyErr (Option (List Text)) :=
  match t with
  | none => .ok none
  | some s => do
    let (lines, _) ← ({} : Parser).parseLines (some s)
    let cmds := (lines.map (fun g => g.stringify (includeLeadingWhitespace := false)
        (includeLineNumber := false) (includeComment := false) (includeEol := false))).filter
          (fun l => !l.isEmpty)
    -- `if (not gcodeCommands): gcodeCommands = None`
    .ok (if cmds.isEmpty then none else some cmds)

/-- `commandString` (the cache is not modelled: it is reset by every setter) -/
def Parser.commandString (p : Parser) : Text :=
  p.stringify (includeChecksum := some false) (includeComment := false) (includeEol := false)

/-- `validate()` -/
def Parser.validate (p : Parser) : Except PyErr Unit :=
  if p.checksum.isSome != p.lineNumber.isSome then .error .valueError
  else match p.checksum with
    | some cs => if cs != computeChecksum p.text then .error .valueError else .ok ()
    | none => .ok ()

/-- A `parameterItems()` element -/
inductive Item (α : Type) where
  | word (c : Char) (v : Option α)
  | strArg (s : Text)
  deriving Repr

/-- sign, digits, scale of a text matching `[-+]?[0-9]*\.?[0-9]+` -/
def decimalParts (t : Text) : Bool × Nat × Nat :=
  let (neg, t) := match t with
    | '-' :: r => (true, r)
    | '+' :: r => (false, r)
    | r => (false, r)
  let ip := t.takeWhile isDigitC
  let rest := t.dropWhile isDigitC
  let fp := match rest with | '.' :: r => r.takeWhile isDigitC | _ => []
  (neg, digitsToNat (ip ++ fp), fp.length)

section
variable {α : Type} [OfDecimal α]

def floatOfText (t : Text) : α :=
  let (n, m, e) := decimalParts t
  OfDecimal.ofDecimal n m e

/-- loop of `parameterItems(source)` -/
def itemsLoop (src : Text) : Nat → Nat → Option Nat → List (Item α) → List (Item α)
  | 0, _, sa, acc => match sa with | some o => acc ++ [.strArg (src.drop o)] | none => acc
  | fuel+1, off, sa, acc =>
    match matchAt Gen.paramOrStr src.toArray off with
    | none => match sa with | some o => acc ++ [.strArg (src.drop o)] | none => acc
    | some (e, c) =>
      match capOf c 1 with
      | some (a, b) =>
        if a < b then
          let name := upperC ((src.drop a).headD ' ')
          match capOf c 2 with
          | some (va, vb) =>
            itemsLoop src fuel e sa (acc ++ [.word name (some (floatOfText (slice src va vb)))])
          | none =>
            itemsLoop src fuel e (match sa with | some o => some o | none => some a)
              (acc ++ [.word name none])
        else itemsLoop src fuel e (match sa with | some o => some o | none => (capOf c 3).map (·.1)) acc
      | none =>
        itemsLoop src fuel e (match sa with | some o => some o | none => (capOf c 3).map (·.1)) acc

/-- `parameterItems(source)` -/
def parameterItems (src : Option Text) : List (Item α) :=
  match src with
  | none => []
  | some s => itemsLoop s (s.length + 1) 0 none []

/-- letter items only -/
def wordsOf (items : List (Item α)) : List (Char × Option α) :=
  items.filterMap (fun i => match i with | .word c v => some (c, v) | .strArg _ => none)

end

/-- `gcode` setter: `REGEX_GCODE_CODE.match(value)` then `_gcodeMatch(match, 1)` -/
def Parser.setGcode (p : Parser) (value : Text) : Except PyErr Parser :=
  match matchAt Gen.gcodeCode value.toArray 0 with
  | none => .error .valueError
  | some (_, c) => .ok (p.gcodeMatch value c 1)

/-- `parameters` setter (validating) -/
def Parser.setParameters (p : Parser) (value : Text) : Except PyErr Parser :=
  match matchAt Gen.parameters value.toArray 0 with
  | none => .error .valueError
  | some (_, c) => .ok { p with parameters := capText value c 1 }

end ERP
