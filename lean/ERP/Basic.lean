/-!
# Basic definitions shared by the model

The model is polymorphic in the number type `α`; it only uses the core arithmetic and order
classes, so that the same definitions run on `Float` (driver, compared with the Python
implementation bit for bit) and are reasoned about over an ordered field (theorems).
No Mathlib import in model files.
-/
namespace ERP

/-- The Python exception classes the modelled code can raise. -/
inductive PyErr where
  | typeError      -- arithmetic / comparison on `None`
  | zeroDiv        -- float division by zero
  | valueError     -- `math.sqrt` of a negative number, ValueError raised by the plugin itself
  | assertion      -- a failed `assert`
  | index          -- IndexError
  deriving Repr, DecidableEq, Inhabited

abbrev Text := List Char

def PyErr.name : PyErr → String
  | .typeError => "type" | .zeroDiv => "zerodiv" | .valueError => "value"
  | .assertion => "assert" | .index => "index"

section
variable {α : Type} [Div α] [BEq α] [OfNat α 0]

/-- Python float true division: raises `ZeroDivisionError` when the divisor is zero. -/
def pyDiv (a b : α) : Except PyErr α :=
  if b == 0 then .error .zeroDiv else .ok (a / b)

end

/-- Transcendental / rounding operations used only by the arc planner and circular regions.
`Float` instance: the C library functions CPython also calls. ℝ instance: in `Lemmas/RealOps`. -/
class MathOps (α : Type) where
  hypot : α → α → α
  sqrt : α → α
  atan2 : α → α → α
  sin : α → α
  cos : α → α
  /-- `int(math.ceil(x))` for `x ≥ 0` -/
  ceilNat : α → Nat
  ofNat : Nat → α
  twoPi : α

end ERP

namespace ERP
/-- `float(text)` for a plain decimal: sign, digits, scale; `ofDecimal neg m e = ± m / 10^e`.
`Float` instance: correctly rounded (FloatOps). Field instance: exact. -/
class OfDecimal (α : Type) where
  ofDecimal : Bool → Nat → Nat → α
end ERP
