import ERP.Spec.Lifecycle
import ERP.Lemmas.Monad
import ERP.Lemmas.GenTies
/-! # C15 — A print that ends while excluding is cleaned up exactly once -/
namespace ERP.C15
open ERP
set_option linter.unusedSectionVars false

variable {α : Type} [Add α] [Sub α] [Mul α] [Div α] [Neg α] [LT α] [LE α] [BEq α]
  [OfNat α 0] [OfNat α 1] [OfNat α 2] [DecidableLT α] [DecidableLE α] [MathOps α] [OfDecimal α]

/-- whenever `exitExcludedRegion` returns, the filter is not excluding afterwards and nothing
deferred is left -/
theorem exit_ok_state (cfg : Config) (s s' : FState α) (c : List (Out α))
    (h : s.exitExcludedRegion cfg = .ok (s', c)) : s'.excluding = false ∧
      (s.excluding = true → s'.pendingCommands = []) := by
  unfold FState.exitExcludedRegion at h
  split at h
  · rename_i hn
    cases h
    simp at hn
    exact ⟨hn, fun hx => by simp [hn] at hx⟩
  · simp only [FState.processPendingCommands] at h
    obtain ⟨e, _, h⟩ := M.bind_eq_ok h
    split at h
    · cases h
    · split at h
      · obtain ⟨f, _, h⟩ := M.bind_eq_ok h
        obtain ⟨zc, _, h⟩ := M.bind_eq_ok h
        obtain ⟨f2, _, h⟩ := M.bind_eq_ok h
        obtain ⟨xc, _, h⟩ := M.bind_eq_ok h
        obtain ⟨yc, _, h⟩ := M.bind_eq_ok h
        cases h
        exact ⟨rfl, fun _ => rfl⟩
      · cases h

/-- The hook contributes exactly when the script is the after-print script, a print is active and
an episode is open … -/
def Contributes (p : Plugin α) (ty nm : String) : Prop :=
  ty = "gcode" ∧ nm = "afterPrintDone" ∧ p.activePrintJob = true ∧ p.st.excluding = true

/-- … in which case the prefix is precisely the exit sequence of the open episode (deferred
commands, exit script, re-synchronisation moves — `exitExcludedRegion`), and the filter is left
not excluding. -/
theorem contributes (p : Plugin α) (ty nm : String) (hc : Contributes p ty nm) :
    p.handleScriptHook ty nm =
      (p.st.exitExcludedRegion p.cfg).map (fun r => ({ p with st := r.1 }, some r.2)) := by
  obtain ⟨rfl, rfl, ha, he⟩ := hc
  unfold Plugin.handleScriptHook
  simp only [beq_self_eq_true, Bool.and_self, if_true, ha, he]
  cases p.st.exitExcludedRegion p.cfg <;> rfl

theorem contributes_leaves_not_excluding (p p' : Plugin α) (ty nm : String) (o : Option (List (Out α)))
    (hc : Contributes p ty nm) (h : p.handleScriptHook ty nm = .ok (p', o)) :
    p'.st.excluding = false ∧ p'.st.pendingCommands = [] ∧ p'.activePrintJob = p.activePrintJob ∧
    ∃ l, o = some l := by
  rw [contributes p ty nm hc] at h
  cases hx : p.st.exitExcludedRegion p.cfg with
  | error e => rw [hx] at h; cases h
  | ok r =>
    rw [hx] at h
    cases h
    obtain ⟨h1, h2⟩ := exit_ok_state p.cfg p.st r.1 r.2 hx
    exact ⟨h1, h2 hc.2.2.2, rfl, r.2, rfl⟩

/-- If no episode is open, no print is active, or the hook is invoked for any other script,
nothing is contributed and nothing changes. -/
theorem otherwise_nothing (p : Plugin α) (ty nm : String) (hc : ¬ Contributes p ty nm) :
    p.handleScriptHook ty nm = .ok (p, none) := by
  unfold Plugin.handleScriptHook
  by_cases h1 : (ty == "gcode" && nm == "afterPrintDone") = true
  · simp only [h1, if_true]
    by_cases h2 : (p.activePrintJob && p.st.excluding) = true
    · exfalso; apply hc
      simp only [Bool.and_eq_true, beq_iff_eq] at h1 h2
      exact ⟨h1.1, h1.2, h2.1, h2.2⟩
    · simp [h2]
  · simp [h1]

/-- **Exactly once**: immediately repeating the hook after it contributed yields nothing. -/
theorem exactly_once (p p' : Plugin α) (ty nm ty2 nm2 : String) (o : Option (List (Out α)))
    (hc : Contributes p ty nm) (h : p.handleScriptHook ty nm = .ok (p', o)) :
    p'.handleScriptHook ty2 nm2 = .ok (p', none) := by
  apply otherwise_nothing
  intro hc2
  have := (contributes_leaves_not_excluding p p' ty nm o hc h).1
  rw [hc2.2.2.2] at this
  cases this

end ERP.C15
