import ERP.Model.Region
import ERP.Lemmas.Spec
import ERP.Lemmas.GenGeometry
import ERP.Lemmas.GenTies
/-! # C17 — Region geometry is sound

Stated for the model's `Region` over any linearly ordered field with a lawful `hypot`
(`MathSpec`; instance for ℝ in `ERP.Lemmas.RealOps`). -/
namespace ERP.C17
open ERP

variable {α : Type} [Field α] [LinearOrder α] [IsStrictOrderedRing α] [MathOps α] [MathSpec α]

/-- A point is excluded by a constructed rectangle exactly when it lies in the closed rectangle
spanned by the two given corners, in whichever order they were given. -/
theorem rect_contains_iff (id : String) (a b c d x y : α) :
    (Region.mkRect id a b c d).containsPoint x y = true ↔
      (min a c ≤ x ∧ x ≤ max a c) ∧ (min b d ≤ y ∧ y ≤ max b d) := by
  unfold Region.mkRect
  by_cases h1 : c < a <;> by_cases h2 : d < b <;>
    simp only [h1, h2, if_true, if_false, Region.containsPoint, Bool.and_eq_true, decide_eq_true_eq]
  · rw [min_eq_right h1.le, max_eq_left h1.le, min_eq_right h2.le, max_eq_left h2.le]; tauto
  · rw [min_eq_right h1.le, max_eq_left h1.le, min_eq_left (not_lt.mp h2), max_eq_right (not_lt.mp h2)]; tauto
  · rw [min_eq_left (not_lt.mp h1), max_eq_right (not_lt.mp h1), min_eq_right h2.le, max_eq_left h2.le]; tauto
  · rw [min_eq_left (not_lt.mp h1), max_eq_right (not_lt.mp h1), min_eq_left (not_lt.mp h2), max_eq_right (not_lt.mp h2)]; tauto

/-- A rectangle behaves identically however its corners are ordered. -/
theorem rect_corner_order (id : String) (a b c d x y : α) :
    (Region.mkRect id a b c d).containsPoint x y = (Region.mkRect id c b a d).containsPoint x y ∧
    (Region.mkRect id a b c d).containsPoint x y = (Region.mkRect id a d c b).containsPoint x y ∧
    (Region.mkRect id a b c d).containsPoint x y = (Region.mkRect id c d a b).containsPoint x y := by
  refine ⟨?_, ?_, ?_⟩ <;>
  · rw [Bool.eq_iff_iff, rect_contains_iff, rect_contains_iff]
    simp only [min_comm, max_comm]

/-- A point is excluded by a circular region exactly when it lies in the closed disc. -/
theorem circle_contains_iff (id : String) (cx cy r x y : α) :
    (Region.circle id cx cy r).containsPoint x y = true ↔
      0 ≤ r ∧ (x - cx) * (x - cx) + (y - cy) * (y - cy) ≤ r * r := by
  simp only [Region.containsPoint, decide_eq_true_eq]
  exact hypot_le_iff _ _ _

/-- Whenever one region is reported to contain another, every point of the inner region is a
point of the outer one (all four type combinations). -/
theorem containsRegion_sound (A B : Region α) (h : A.containsRegion B = true) (x y : α)
    (hp : B.containsPoint x y = true) : A.containsPoint x y = true := by
  cases A with
  | rect i x1 y1 x2 y2 =>
    cases B with
    | rect j ox1 oy1 ox2 oy2 =>
      simp only [Region.containsRegion, Region.containsPoint, Bool.and_eq_true,
        decide_eq_true_eq] at *
      obtain ⟨⟨⟨a1, a2⟩, a3⟩, a4⟩ := h
      obtain ⟨⟨⟨b1, b2⟩, b3⟩, b4⟩ := hp
      exact ⟨⟨⟨le_trans a1 b1, le_trans b2 a2⟩, le_trans a3 b3⟩, le_trans b4 a4⟩
    | circle j cx cy r =>
      simp only [Region.containsRegion, Region.containsPoint, Bool.and_eq_true,
        decide_eq_true_eq] at *
      obtain ⟨⟨⟨a1, a2⟩, a3⟩, a4⟩ := h
      have hx := abs_le.mp (le_trans (abs_le_hypot_left (x - cx) (y - cy)) hp)
      have hy := abs_le.mp (le_trans (abs_le_hypot_right (x - cx) (y - cy)) hp)
      refine ⟨⟨⟨?_, ?_⟩, ?_⟩, ?_⟩ <;> linarith [hx.1, hx.2, hy.1, hy.2]
  | circle i cx cy r =>
    cases B with
    | rect j ox1 oy1 ox2 oy2 =>
      simp only [Region.containsRegion, Bool.and_eq_true] at h
      obtain ⟨⟨⟨c1, c2⟩, c3⟩, c4⟩ := h
      rw [circle_contains_iff] at c1 c2 c3 c4 ⊢
      simp only [Region.containsPoint, Bool.and_eq_true, decide_eq_true_eq] at hp
      obtain ⟨⟨⟨b1, b2⟩, b3⟩, b4⟩ := hp
      refine ⟨c1.1, ?_⟩
      -- (x-cx)² ≤ max over the two x-edges, same for y; one of the four corners dominates
      have hxx : (x - cx) * (x - cx) ≤ (ox1 - cx) * (ox1 - cx) ∨
                 (x - cx) * (x - cx) ≤ (ox2 - cx) * (ox2 - cx) := by
        by_cases hc : x - cx ≤ 0
        · left; nlinarith
        · right; nlinarith
      have hyy : (y - cy) * (y - cy) ≤ (oy1 - cy) * (oy1 - cy) ∨
                 (y - cy) * (y - cy) ≤ (oy2 - cy) * (oy2 - cy) := by
        by_cases hc : y - cy ≤ 0
        · left; nlinarith
        · right; nlinarith
      rcases hxx with hx | hx <;> rcases hyy with hy | hy
      · linarith [c1.2]
      · linarith [c4.2]
      · linarith [c2.2]
      · linarith [c3.2]
    | circle j ocx ocy orr =>
      simp only [Region.containsRegion, Region.containsPoint, decide_eq_true_eq] at *
      have tri := hypot_add_le (x - ocx) (y - ocy) (ocx - cx) (ocy - cy)
      have e1 : x - ocx + (ocx - cx) = x - cx := by ring
      have e2 : y - ocy + (ocy - cy) = y - cy := by ring
      rw [e1, e2] at tri
      -- hypot is symmetric under negating both arguments
      have sym : MathOps.hypot (ocx - cx) (ocy - cy) = MathOps.hypot (cx - ocx) (cy - ocy) := by
        have n1 := MathSpec.hypot_nonneg (ocx - cx) (ocy - cy)
        have n2 := MathSpec.hypot_nonneg (cx - ocx) (cy - ocy)
        have s1 := MathSpec.hypot_sq (ocx - cx) (ocy - cy)
        have s2 := MathSpec.hypot_sq (cx - ocx) (cy - ocy)
        have : MathOps.hypot (ocx - cx) (ocy - cy) * MathOps.hypot (ocx - cx) (ocy - cy) =
               MathOps.hypot (cx - ocx) (cy - ocy) * MathOps.hypot (cx - ocx) (cy - ocy) := by
          rw [s1, s2]; ring
        exact (mul_self_inj n1 n2).mp this
      linarith


/-! ## The containment test is exact

`containsRegion_sound` is the direction C12 needs.  The converse holds too for the regions the
plugin can hold (`Region.Proper`: corners ordered — which the constructor establishes,
`mkRect_proper` — and radius non-negative): when the test answers "no" there really is a point of
the inner region outside the outer one, so the test never refuses an update that covers the old
region.  The witnesses are a corner of the inner rectangle, an axis-extreme point of the inner
circle, or the point of the inner circle farthest from the outer centre. -/
set_option linter.unusedSectionVars false

/-- the regions the plugin can hold: rectangles with ordered corners (the constructor orders
them), circles with a non-negative radius -/
def Region.Proper : Region α → Prop
  | .rect _ x1 y1 x2 y2 => x1 ≤ x2 ∧ y1 ≤ y2
  | .circle _ _ _ r => 0 ≤ r

theorem mkRect_proper (id : String) (a b c d : α) : Region.Proper (Region.mkRect id a b c d) := by
  unfold Region.mkRect
  by_cases h1 : c < a <;> by_cases h2 : d < b <;>
    simp only [h1, h2, if_true, if_false, Region.Proper]
  · exact ⟨h1.le, h2.le⟩
  · exact ⟨h1.le, not_lt.mp h2⟩
  · exact ⟨not_lt.mp h1, h2.le⟩
  · exact ⟨not_lt.mp h1, not_lt.mp h2⟩

theorem containsRegion_complete_rect (A B : Region α) (hB : Region.Proper B)
    (hA : ∃ i x1 y1 x2 y2, A = .rect i x1 y1 x2 y2)
    (h : A.containsRegion B = false) :
    ∃ x y, B.containsPoint x y = true ∧ A.containsPoint x y = false := by
  obtain ⟨i, x1, y1, x2, y2, rfl⟩ := hA
  cases B with
  | rect j ox1 oy1 ox2 oy2 =>
    obtain ⟨hx, hy⟩ := hB
    simp only [Region.containsRegion, Bool.and_eq_false_iff, decide_eq_false_iff_not, not_le] at h
    simp only [Region.containsPoint, Bool.and_eq_true, decide_eq_true_eq, Bool.and_eq_false_iff,
      decide_eq_false_iff_not, not_le]
    rcases h with ((h | h) | h) | h
    · exact ⟨ox1, oy1, ⟨⟨⟨le_refl _, hx⟩, le_refl _⟩, hy⟩, Or.inl (Or.inl (Or.inl h))⟩
    · exact ⟨ox2, oy1, ⟨⟨⟨hx, le_refl _⟩, le_refl _⟩, hy⟩, Or.inl (Or.inl (Or.inr h))⟩
    · exact ⟨ox1, oy1, ⟨⟨⟨le_refl _, hx⟩, le_refl _⟩, hy⟩, Or.inl (Or.inr h)⟩
    · exact ⟨ox1, oy2, ⟨⟨⟨le_refl _, hx⟩, hy⟩, le_refl _⟩, Or.inr h⟩
  | circle j cx cy r =>
    have hr : 0 ≤ r := hB
    simp only [Region.containsRegion, Bool.and_eq_false_iff, decide_eq_false_iff_not, not_le] at h
    have inB : ∀ x y, ((x - cx) * (x - cx) + (y - cy) * (y - cy) ≤ r * r) →
        (Region.circle j cx cy r).containsPoint x y = true := fun x y hh =>
      (circle_contains_iff j cx cy r x y).mpr ⟨hr, hh⟩
    simp only [Region.containsPoint, Bool.and_eq_false_iff,
      decide_eq_false_iff_not, not_le] at inB ⊢
    rcases h with ((h | h) | h) | h
    · exact ⟨cx - r, cy, inB _ _ (by ring_nf; exact le_refl _), Or.inl (Or.inl (Or.inl h))⟩
    · exact ⟨cx + r, cy, inB _ _ (by ring_nf; exact le_refl _), Or.inl (Or.inl (Or.inr h))⟩
    · exact ⟨cx, cy - r, inB _ _ (by ring_nf; exact le_refl _), Or.inl (Or.inr h)⟩
    · exact ⟨cx, cy + r, inB _ _ (by ring_nf; exact le_refl _), Or.inr h⟩

theorem cc_rect (i j : String) (cx cy r ox1 oy1 ox2 oy2 : α) (hx : ox1 ≤ ox2) (hy : oy1 ≤ oy2)
    (h : (Region.circle i cx cy r).containsRegion (.rect j ox1 oy1 ox2 oy2) = false) :
    ∃ x y, (Region.rect j ox1 oy1 ox2 oy2).containsPoint x y = true ∧
      (Region.circle i cx cy r).containsPoint x y = false := by
  simp only [Region.containsRegion, Bool.and_eq_false_iff] at h
  have inB : ∀ x y, ox1 ≤ x → x ≤ ox2 → oy1 ≤ y → y ≤ oy2 →
      (Region.rect j ox1 oy1 ox2 oy2).containsPoint x y = true := by
    intro x y a b c d
    simp only [Region.containsPoint, Bool.and_eq_true, decide_eq_true_eq]
    exact ⟨⟨⟨a, b⟩, c⟩, d⟩
  rcases h with ((h | h) | h) | h
  · exact ⟨ox1, oy1, inB _ _ (le_refl _) hx (le_refl _) hy, h⟩
  · exact ⟨ox2, oy1, inB _ _ hx (le_refl _) (le_refl _) hy, h⟩
  · exact ⟨ox2, oy2, inB _ _ hx (le_refl _) hy (le_refl _), h⟩
  · exact ⟨ox1, oy2, inB _ _ (le_refl _) hx hy (le_refl _), h⟩

theorem cc_circle (i j : String) (cx cy r ocx ocy orr : α) (ho : 0 ≤ orr)
    (h : (Region.circle i cx cy r).containsRegion (.circle j ocx ocy orr) = false) :
    ∃ x y, (Region.circle j ocx ocy orr).containsPoint x y = true ∧
      (Region.circle i cx cy r).containsPoint x y = false := by
  simp only [Region.containsRegion, decide_eq_false_iff_not, not_le] at h
  have hd0 := MathSpec.hypot_nonneg (cx - ocx) (cy - ocy)
  have hds := MathSpec.hypot_sq (cx - ocx) (cy - ocy)
  generalize MathOps.hypot (cx - ocx) (cy - ocy) = d at h hd0 hds
  have notA : ∀ x y, (0 ≤ r → r * r < (x - cx) * (x - cx) + (y - cy) * (y - cy)) →
      (Region.circle i cx cy r).containsPoint x y = false := by
    intro x y hh
    rw [Bool.eq_false_iff]; intro hc
    rw [circle_contains_iff] at hc
    exact absurd hc.2 (not_le.mpr (hh hc.1))
  rcases eq_or_lt_of_le hd0 with hz | hpos
  · -- same centre
    refine ⟨ocx + orr, ocy, (circle_contains_iff _ _ _ _ _ _).mpr ⟨ho, by ring_nf; exact le_refl _⟩,
      notA _ _ (fun hr => ?_)⟩
    have e : (cx - ocx) * (cx - ocx) + (cy - ocy) * (cy - ocy) = 0 := by rw [← hds, ← hz]; ring
    have e1 : cx - ocx = 0 := by nlinarith [mul_self_nonneg (cx - ocx), mul_self_nonneg (cy - ocy), mul_self_eq_zero.mp (by nlinarith [mul_self_nonneg (cx - ocx), mul_self_nonneg (cy - ocy)] : (cx - ocx) * (cx - ocx) = 0)]
    have e2 : cy - ocy = 0 := mul_self_eq_zero.mp (by nlinarith [mul_self_nonneg (cx - ocx), mul_self_nonneg (cy - ocy)])
    have : ocx + orr - cx = orr := by linarith
    have : ocy - cy = 0 := by linarith
    rw [‹ocx + orr - cx = orr›, ‹ocy - cy = 0›]
    have : r < orr := by linarith
    nlinarith
  · have hne : d ≠ 0 := ne_of_gt hpos
    let k := orr / d
    have hk : k * d = orr := div_mul_cancel₀ orr hne
    refine ⟨ocx + k * (ocx - cx), ocy + k * (ocy - cy),
      (circle_contains_iff _ _ _ _ _ _).mpr ⟨ho, ?_⟩, notA _ _ (fun hr => ?_)⟩
    · have : (ocx + k * (ocx - cx) - ocx) * (ocx + k * (ocx - cx) - ocx) +
          (ocy + k * (ocy - cy) - ocy) * (ocy + k * (ocy - cy) - ocy) = (k * d) * (k * d) := by
        have : (k * d) * (k * d) = k * k * ((cx - ocx) * (cx - ocx) + (cy - ocy) * (cy - ocy)) := by
          rw [← hds]; ring
        rw [this]; ring
      rw [this, hk]
    · have : (ocx + k * (ocx - cx) - cx) * (ocx + k * (ocx - cx) - cx) +
          (ocy + k * (ocy - cy) - cy) * (ocy + k * (ocy - cy) - cy) = (d + k * d) * (d + k * d) := by
        have : (d + k * d) * (d + k * d) = (1 + k) * (1 + k) * ((cx - ocx) * (cx - ocx) + (cy - ocy) * (cy - ocy)) := by
          rw [← hds]; ring
        rw [this]; ring
      rw [this, hk]
      have : r < d + orr := h
      nlinarith

/-- all four type pairs: a negative answer has a witness -/
theorem containsRegion_complete (A B : Region α) (hB : Region.Proper B)
    (h : A.containsRegion B = false) :
    ∃ x y, B.containsPoint x y = true ∧ A.containsPoint x y = false := by
  cases A with
  | rect i x1 y1 x2 y2 => exact containsRegion_complete_rect _ B hB ⟨i, x1, y1, x2, y2, rfl⟩ h
  | circle i cx cy r =>
    cases B with
    | rect j ox1 oy1 ox2 oy2 => exact cc_rect i j cx cy r ox1 oy1 ox2 oy2 hB.1 hB.2 h
    | circle j ocx ocy orr => exact cc_circle i j cx cy r ocx ocy orr hB h

/-- hence the test decides geometric containment exactly -/
theorem containsRegion_iff (A B : Region α) (hB : Region.Proper B) :
    A.containsRegion B = true ↔ ∀ x y, B.containsPoint x y = true → A.containsPoint x y = true := by
  constructor
  · exact fun h x y hp => containsRegion_sound A B h x y hp
  · intro hall
    by_contra hc
    obtain ⟨x, y, hb, ha⟩ := containsRegion_complete A B hB (by simpa using hc)
    rw [hall x y hb] at ha; exact Bool.noConfusion ha

/-- the hypothesis is met by what the API constructs -/
example (id : String) (a b c d : α) : Region.Proper (Region.mkRect id a b c d) := mkRect_proper id a b c d


/-! ## Degenerate and touching cases, spelled out

Corollaries of the two characterisations: the regions are *closed* (border points belong to
them), a rectangle given by one point twice is that point, a circle of radius 0 is its centre, a
circle with a negative radius excludes nothing. -/

theorem rect_corners_inside (id : String) (a b c d : α) :
    (Region.mkRect id a b c d).containsPoint a b = true ∧
    (Region.mkRect id a b c d).containsPoint c d = true ∧
    (Region.mkRect id a b c d).containsPoint a d = true ∧
    (Region.mkRect id a b c d).containsPoint c b = true := by
  simp only [rect_contains_iff, min_le_left, min_le_right, le_max_left, le_max_right, and_self]

theorem rect_point (id : String) (a b x y : α) :
    (Region.mkRect id a b a b).containsPoint x y = true ↔ x = a ∧ y = b := by
  rw [rect_contains_iff]
  simp only [min_self, max_self]
  constructor
  · rintro ⟨⟨h1, h2⟩, h3, h4⟩; exact ⟨le_antisymm h2 h1, le_antisymm h4 h3⟩
  · rintro ⟨rfl, rfl⟩; exact ⟨⟨le_refl _, le_refl _⟩, le_refl _, le_refl _⟩

theorem circle_border_inside (id : String) (cx cy r : α) (hr : 0 ≤ r) :
    (Region.circle id cx cy r).containsPoint (cx + r) cy = true ∧
    (Region.circle id cx cy r).containsPoint (cx - r) cy = true ∧
    (Region.circle id cx cy r).containsPoint cx (cy + r) = true ∧
    (Region.circle id cx cy r).containsPoint cx (cy - r) = true := by
  simp only [circle_contains_iff]
  refine ⟨⟨hr, ?_⟩, ⟨hr, ?_⟩, ⟨hr, ?_⟩, ⟨hr, ?_⟩⟩ <;> (ring_nf; exact le_refl _)

theorem circle_zero (id : String) (cx cy x y : α) :
    (Region.circle id cx cy 0).containsPoint x y = true ↔ x = cx ∧ y = cy := by
  rw [circle_contains_iff]
  constructor
  · rintro ⟨_, h⟩
    have h1 : (x - cx) * (x - cx) = 0 := by nlinarith [mul_self_nonneg (x - cx), mul_self_nonneg (y - cy)]
    have h2 : (y - cy) * (y - cy) = 0 := by nlinarith [mul_self_nonneg (x - cx), mul_self_nonneg (y - cy)]
    exact ⟨sub_eq_zero.mp (mul_self_eq_zero.mp h1), sub_eq_zero.mp (mul_self_eq_zero.mp h2)⟩
  · rintro ⟨rfl, rfl⟩; exact ⟨le_refl _, by simp⟩

theorem circle_negative_empty (id : String) (cx cy r x y : α) (hr : r < 0) :
    (Region.circle id cx cy r).containsPoint x y = false := by
  rw [Bool.eq_false_iff]; intro h
  exact absurd ((circle_contains_iff id cx cy r x y).mp h).1 (not_le.mpr hr)

/-- two rectangles sharing an edge: the points of the shared edge belong to both -/
theorem rect_touching (i j : String) (a b c d e : α) (y : α) (hy : min b d ≤ y ∧ y ≤ max b d) :
    (Region.mkRect i a b c d).containsPoint c y = true ∧
    (Region.mkRect j c b e d).containsPoint c y = true := by
  simp only [rect_contains_iff]
  exact ⟨⟨⟨min_le_right _ _, le_max_right _ _⟩, hy⟩, ⟨⟨min_le_left _ _, le_max_left _ _⟩, hy⟩⟩


/-! ## Containment as an order -/

/-- a region the plugin can hold is reported to contain itself (so re-sending a region's own
geometry as an update is never refused) -/
theorem containsRegion_refl (A : Region α) (hA : Region.Proper A) : A.containsRegion A = true :=
  (containsRegion_iff A A hA).mpr (fun _ _ h => h)

/-- reported containment is transitive -/
theorem containsRegion_trans (A B C : Region α) (hC : Region.Proper C)
    (h1 : A.containsRegion B = true) (h2 : B.containsRegion C = true) : A.containsRegion C = true :=
  (containsRegion_iff A C hC).mpr
    (fun x y h => containsRegion_sound A B h1 x y (containsRegion_sound B C h2 x y h))

/-- mutual containment means the same set of points -/
theorem containsRegion_antisymm (A B : Region α)
    (h1 : A.containsRegion B = true) (h2 : B.containsRegion A = true) (x y : α) :
    A.containsPoint x y = B.containsPoint x y := by
  rw [Bool.eq_iff_iff]
  exact ⟨containsRegion_sound B A h2 x y, containsRegion_sound A B h1 x y⟩

end ERP.C17
