import ERP.Model.Region
import ERP.Lemmas.Spec
import ERP.Lemmas.GenGeometry
import ERP.Lemmas.GenTies
/-! # C17 — Region geometry is sound

Stated for the model's `Region` over any linearly ordered field with a lawful `hypot`
(`MathSpec`; instance for ℝ in `ERP.Lemmas.RealOps`). -/
namespace ERP.C17
open ERP

variable {α : Type} [Field α] [LinearOrder α] [IsStrictOrderedRing α] [MathOps α] [MathSpec α]

/-- A point is excluded by a constructed rectangle exactly when it lies in the closed rectangle
spanned by the two given corners, in whichever order they were given. -/
theorem rect_contains_iff (id : String) (a b c d x y : α) :
    (Region.mkRect id a b c d).containsPoint x y = true ↔
      (min a c ≤ x ∧ x ≤ max a c) ∧ (min b d ≤ y ∧ y ≤ max b d) := by
  unfold Region.mkRect
  by_cases h1 : c < a <;> by_cases h2 : d < b <;>
    simp only [h1, h2, if_true, if_false, Region.containsPoint, Bool.and_eq_true, decide_eq_true_eq]
  · rw [min_eq_right h1.le, max_eq_left h1.le, min_eq_right h2.le, max_eq_left h2.le]; tauto
  · rw [min_eq_right h1.le, max_eq_left h1.le, min_eq_left (not_lt.mp h2), max_eq_right (not_lt.mp h2)]; tauto
  · rw [min_eq_left (not_lt.mp h1), max_eq_right (not_lt.mp h1), min_eq_right h2.le, max_eq_left h2.le]; tauto
  · rw [min_eq_left (not_lt.mp h1), max_eq_right (not_lt.mp h1), min_eq_left (not_lt.mp h2), max_eq_right (not_lt.mp h2)]; tauto

/-- A rectangle behaves identically however its corners are ordered. -/
theorem rect_corner_order (id : String) (a b c d x y : α) :
    (Region.mkRect id a b c d).containsPoint x y = (Region.mkRect id c b a d).containsPoint x y ∧
    (Region.mkRect id a b c d).containsPoint x y = (Region.mkRect id a d c b).containsPoint x y ∧
    (Region.mkRect id a b c d).containsPoint x y = (Region.mkRect id c d a b).containsPoint x y := by
  refine ⟨?_, ?_, ?_⟩ <;>
  · rw [Bool.eq_iff_iff, rect_contains_iff, rect_contains_iff]
    simp only [min_comm, max_comm]

/-- A point is excluded by a circular region exactly when it lies in the closed disc. -/
theorem circle_contains_iff (id : String) (cx cy r x y : α) :
    (Region.circle id cx cy r).containsPoint x y = true ↔
      0 ≤ r ∧ (x - cx) * (x - cx) + (y - cy) * (y - cy) ≤ r * r := by
  simp only [Region.containsPoint, decide_eq_true_eq]
  exact hypot_le_iff _ _ _

/-- Whenever one region is reported to contain another, every point of the inner region is a
point of the outer one (all four type combinations). -/
theorem containsRegion_sound (A B : Region α) (h : A.containsRegion B = true) (x y : α)
    (hp : B.containsPoint x y = true) : A.containsPoint x y = true := by
  cases A with
  | rect i x1 y1 x2 y2 =>
    cases B with
    | rect j ox1 oy1 ox2 oy2 =>
      simp only [Region.containsRegion, Region.containsPoint, Bool.and_eq_true,
        decide_eq_true_eq] at *
      obtain ⟨⟨⟨a1, a2⟩, a3⟩, a4⟩ := h
      obtain ⟨⟨⟨b1, b2⟩, b3⟩, b4⟩ := hp
      exact ⟨⟨⟨le_trans a1 b1, le_trans b2 a2⟩, le_trans a3 b3⟩, le_trans b4 a4⟩
    | circle j cx cy r =>
      simp only [Region.containsRegion, Region.containsPoint, Bool.and_eq_true,
        decide_eq_true_eq] at *
      obtain ⟨⟨⟨a1, a2⟩, a3⟩, a4⟩ := h
      have hx := abs_le.mp (le_trans (abs_le_hypot_left (x - cx) (y - cy)) hp)
      have hy := abs_le.mp (le_trans (abs_le_hypot_right (x - cx) (y - cy)) hp)
      refine ⟨⟨⟨?_, ?_⟩, ?_⟩, ?_⟩ <;> linarith [hx.1, hx.2, hy.1, hy.2]
  | circle i cx cy r =>
    cases B with
    | rect j ox1 oy1 ox2 oy2 =>
      simp only [Region.containsRegion, Bool.and_eq_true] at h
      obtain ⟨⟨⟨c1, c2⟩, c3⟩, c4⟩ := h
      rw [circle_contains_iff] at c1 c2 c3 c4 ⊢
      simp only [Region.containsPoint, Bool.and_eq_true, decide_eq_true_eq] at hp
      obtain ⟨⟨⟨b1, b2⟩, b3⟩, b4⟩ := hp
      refine ⟨c1.1, ?_⟩
      -- (x-cx)² ≤ max over the two x-edges, same for y; one of the four corners dominates
      have hxx : (x - cx) * (x - cx) ≤ (ox1 - cx) * (ox1 - cx) ∨
                 (x - cx) * (x - cx) ≤ (ox2 - cx) * (ox2 - cx) := by
        by_cases hc : x - cx ≤ 0
        · left; nlinarith
        · right; nlinarith
      have hyy : (y - cy) * (y - cy) ≤ (oy1 - cy) * (oy1 - cy) ∨
                 (y - cy) * (y - cy) ≤ (oy2 - cy) * (oy2 - cy) := by
        by_cases hc : y - cy ≤ 0
        · left; nlinarith
        · right; nlinarith
      rcases hxx with hx | hx <;> rcases hyy with hy | hy
      · linarith [c1.2]
      · linarith [c4.2]
      · linarith [c2.2]
      · linarith [c3.2]
    | circle j ocx ocy orr =>
      simp only [Region.containsRegion, Region.containsPoint, decide_eq_true_eq] at *
      have tri := hypot_add_le (x - ocx) (y - ocy) (ocx - cx) (ocy - cy)
      have e1 : x - ocx + (ocx - cx) = x - cx := by ring
      have e2 : y - ocy + (ocy - cy) = y - cy := by ring
      rw [e1, e2] at tri
      -- hypot is symmetric under negating both arguments
      have sym : MathOps.hypot (ocx - cx) (ocy - cy) = MathOps.hypot (cx - ocx) (cy - ocy) := by
        have n1 := MathSpec.hypot_nonneg (ocx - cx) (ocy - cy)
        have n2 := MathSpec.hypot_nonneg (cx - ocx) (cy - ocy)
        have s1 := MathSpec.hypot_sq (ocx - cx) (ocy - cy)
        have s2 := MathSpec.hypot_sq (cx - ocx) (cy - ocy)
        have : MathOps.hypot (ocx - cx) (ocy - cy) * MathOps.hypot (ocx - cx) (ocy - cy) =
               MathOps.hypot (cx - ocx) (cy - ocy) * MathOps.hypot (cx - ocx) (cy - ocy) := by
          rw [s1, s2]; ring
        exact (mul_self_inj n1 n2).mp this
      linarith

end ERP.C17
