import ERP.Model.Format
import ERP.Lemmas.Monad
import Mathlib.Algebra.Order.Field.Rat
import Mathlib.Tactic.Linarith
import Mathlib.Tactic.Ring
import Mathlib.Tactic.FieldSimp
import Mathlib.Data.List.Nodup
import ERP.Lemmas.GenArith
import ERP.Lemmas.GenTemplates
import ERP.Lemmas.GenTies
import ERP.Lemmas.RetractExact
/-! # C07 — Commands synthesised by the filter are well-formed plain-decimal G-code

`formatNumber` is the model of `CommonMixin.formatNumber` applied to `str(value)`; the text CPython's
`repr` returns for a finite float has the grammar `-?D+(.D+)?(e[+-]DD+)?` (`IsRepr`; checked on every
sample by the `text` correspondence suite). For every such text the result is a plain decimal
`-?D+(.D+)?` — no exponent — denoting exactly the same rational number. -/
namespace ERP.C07
open ERP

def AllDigits (t : Text) : Prop := ∀ c ∈ t, isDigitC c = true

/-- `-?D+(.D+)?` -/
structure IsPlain (t : Text) : Prop where
  shape : ∃ (neg : Bool) (ip fp : Text), t = (if neg then ['-'] else []) ++ ip ++ (if fp = [] then [] else '.' :: fp) ∧
    ip ≠ [] ∧ AllDigits ip ∧ AllDigits fp

/-- value of a digit string read as a natural number, and as a fraction part -/
def natVal (d : Text) : ℚ := (digitsToNat d : ℚ)
def fracVal (d : Text) : ℚ := (digitsToNat d : ℚ) / 10 ^ d.length

/-- the rational a plain decimal `sign ip . fp` denotes -/
def plainVal (neg : Bool) (ip fp : Text) : ℚ := (if neg then -1 else 1) * (natVal ip + fracVal fp)

/-- the rational a scientific text `sign ip . fp e ex` denotes -/
def sciVal (neg : Bool) (ip fp : Text) (ex : Int) : ℚ := plainVal neg ip fp * 10 ^ ex

theorem foldl_digits (b : Text) : ∀ acc : Nat,
    b.foldl (fun n c => n * 10 + (c.toNat - 48)) acc =
      acc * 10 ^ b.length + b.foldl (fun n c => n * 10 + (c.toNat - 48)) 0 := by
  induction b with
  | nil => intro acc; simp
  | cons c rest ih =>
    intro acc
    simp only [List.foldl_cons, List.length_cons]
    rw [ih (acc * 10 + (c.toNat - 48)), ih (0 * 10 + (c.toNat - 48))]
    rw [pow_succ]
    ring

theorem digitsToNat_append (a b : Text) :
    digitsToNat (a ++ b) = digitsToNat a * 10 ^ b.length + digitsToNat b := by
  unfold digitsToNat
  rw [List.foldl_append, foldl_digits b]

theorem digitsToNat_zeros (n : Nat) : digitsToNat (List.replicate n '0') = 0 := by
  unfold digitsToNat
  induction n with
  | zero => rfl
  | succ k ih =>
    rw [List.replicate_succ, List.foldl_cons]
    simpa using ih

theorem allDigits_replicate (n : Nat) : AllDigits (List.replicate n '0') := by
  intro c hc
  rw [List.mem_replicate] at hc
  rw [hc.2]; rfl

theorem allDigits_append {a b : Text} (ha : AllDigits a) (hb : AllDigits b) : AllDigits (a ++ b) := by
  intro c hc
  rcases List.mem_append.mp hc with h | h
  · exact ha c h
  · exact hb c h

end ERP.C07

namespace ERP.C07
open ERP

/-- characters `lowerC` leaves alone and that are not the separator -/
def MantChar (c : Char) : Prop := isDigitC c = true ∨ c = '-' ∨ c = '.'

theorem lowerC_digit {c : Char} (h : isDigitC c = true) : lowerC c = c := by
  unfold lowerC
  unfold isDigitC at h
  simp only [Bool.and_eq_true, decide_eq_true_eq] at h
  have : ¬ ('A' ≤ c ∧ c ≤ 'Z') := by
    intro hh
    have h1 : c.toNat ≤ 57 := h.2
    have h2 : 65 ≤ c.toNat := hh.1
    omega
  simp only [Bool.and_eq_true, decide_eq_true_eq, this, if_false]

theorem digit_ne {c : Char} (h : isDigitC c = true) (d : Char) (hd : d.toNat < 48 ∨ 57 < d.toNat) : c ≠ d := by
  intro hcd
  subst hcd
  unfold isDigitC at h
  simp only [Bool.and_eq_true, decide_eq_true_eq] at h
  have h1 : (48 : Nat) ≤ c.toNat := h.1
  have h2 : c.toNat ≤ 57 := h.2
  omega

theorem map_lower_digits (d : Text) (h : AllDigits d) : d.map lowerC = d := by
  induction d with
  | nil => rfl
  | cons c rest ih =>
    simp only [List.map_cons]
    rw [lowerC_digit (h c (by simp)), ih (fun c' hc' => h c' (by simp [hc']))]

theorem takeWhile_ne_append (a b : Text) (sep : Char) (h : ∀ c ∈ a, c ≠ sep) :
    (a ++ sep :: b).takeWhile (· != sep) = a ∧ (a ++ sep :: b).dropWhile (· != sep) = sep :: b := by
  induction a with
  | nil => simp
  | cons c rest ih =>
    have hc : (c != sep) = true := by simpa using h c (by simp)
    obtain ⟨i1, i2⟩ := ih (fun c' hc' => h c' (by simp [hc']))
    simp only [List.cons_append, List.takeWhile_cons, List.dropWhile_cons, hc, if_true]
    exact ⟨by rw [i1], i2⟩

theorem takeWhile_ne_all (a : Text) (sep : Char) (h : ∀ c ∈ a, c ≠ sep) :
    a.takeWhile (· != sep) = a ∧ a.dropWhile (· != sep) = [] := by
  induction a with
  | nil => simp
  | cons c rest ih =>
    have hc : (c != sep) = true := by simpa using h c (by simp)
    obtain ⟨i1, i2⟩ := ih (fun c' hc' => h c' (by simp [hc']))
    simp only [List.takeWhile_cons, List.dropWhile_cons, hc, if_true]
    exact ⟨by rw [i1], i2⟩

theorem partitionC_found (a b : Text) (sep : Char) (h : ∀ c ∈ a, c ≠ sep) :
    partitionC (a ++ sep :: b) sep = (a, true, b) := by
  unfold partitionC
  obtain ⟨h1, h2⟩ := takeWhile_ne_append a b sep h
  rw [h1, h2]

theorem partitionC_none (a : Text) (sep : Char) (h : ∀ c ∈ a, c ≠ sep) :
    partitionC a sep = (a, false, []) := by
  unfold partitionC
  obtain ⟨h1, h2⟩ := takeWhile_ne_all a sep h
  rw [h1, h2]

theorem parseInt_digits (neg : Bool) (d : Text) (hd : AllDigits d) (hne : d ≠ []) :
    parseInt ((if neg then ['-'] else ['+']) ++ d) = .ok (if neg then -(digitsToNat d : Int) else digitsToNat d) ∧
    parseInt d = .ok (digitsToNat d : Int) := by
  have hall : d.all isDigitC = true := List.all_eq_true.mpr hd
  have hemp : d.isEmpty = false := by cases d <;> simp_all
  constructor
  · cases neg <;> simp [parseInt, hall, hemp]
  · unfold parseInt
    cases d with
    | nil => exact absurd rfl hne
    | cons c rest =>
      have hc := hd c (by simp)
      have h1 : c ≠ '-' := digit_ne hc '-' (by decide)
      have h2 : c ≠ '+' := digit_ne hc '+' (by decide)
      simp only [hall, hemp]
      split
      · rename_i heq; simp at heq; exact absurd heq.1 h1
      · rename_i heq; simp at heq; exact absurd heq.1 h2
      · rename_i r hr1 hr2
        simp
        exact ⟨hc, fun x hx => hd x (by simp [hx])⟩

end ERP.C07

namespace ERP.C07
open ERP

/-- `repr(x)` of a finite float that uses exponent notation: `-?D+(.D+)?e[+-]D+` -/
def sciText (neg : Bool) (ip fp : Text) (eneg : Bool) (ed : Text) : Text :=
  (if neg then ['-'] else []) ++ (ip ++ (if fp = [] then [] else '.' :: fp)) ++
    'e' :: ((if eneg then ['-'] else ['+']) ++ ed)

/-- the exponent-free text `formatNumber` builds -/
def expand (neg : Bool) (ip fp : Text) (ex : Int) : Text :=
  let sign : Text := if neg then ['-'] else []
  let digits := ip ++ fp
  let pointIndex : Int := (ip.length : Int) + ex
  if pointIndex ≤ 0 then sign ++ ['0', '.'] ++ List.replicate (-pointIndex).toNat '0' ++ digits
  else if pointIndex ≥ digits.length then sign ++ digits ++ List.replicate (pointIndex.toNat - digits.length) '0'
  else sign ++ digits.take pointIndex.toNat ++ ['.'] ++ digits.drop pointIndex.toNat

theorem digits_no (d : Text) (h : AllDigits d) (sep : Char) (hs : sep.toNat < 48 ∨ 57 < sep.toNat) :
    ∀ c ∈ d, c ≠ sep := fun c hc => digit_ne (h c hc) sep hs

theorem lowerC_fixed (c : Char) (h : isDigitC c = true ∨ c = '-' ∨ c = '.' ∨ c = 'e' ∨ c = '+') :
    lowerC c = c := by
  rcases h with h | rfl | rfl | rfl | rfl
  · exact lowerC_digit h
  all_goals rfl

theorem map_lower_fixed (t : Text)
    (h : ∀ c ∈ t, isDigitC c = true ∨ c = '-' ∨ c = '.' ∨ c = 'e' ∨ c = '+') : t.map lowerC = t := by
  induction t with
  | nil => rfl
  | cons c rest ih =>
    simp only [List.map_cons]
    rw [lowerC_fixed c (h c (by simp)), ih (fun c' hc' => h c' (by simp [hc']))]

/-- **`formatNumber` on exponent notation** computes exactly `expand`. -/
theorem formatNumber_sci (neg : Bool) (ip fp : Text) (eneg : Bool) (ed : Text)
    (hip : ip ≠ []) (dip : AllDigits ip) (dfp : AllDigits fp) (ded : AllDigits ed) (hed : ed ≠ []) :
    formatNumber (sciText neg ip fp eneg ed) =
      .ok (expand neg ip fp (if eneg then -(digitsToNat ed : Int) else digitsToNat ed)) := by
  have hfrac : ∀ c ∈ (ip ++ (if fp = [] then [] else '.' :: fp)), isDigitC c = true ∨ c = '.' := by
    intro c hc
    rcases List.mem_append.mp hc with h | h
    · exact Or.inl (dip c h)
    · split at h
      · cases h
      · rcases List.mem_cons.mp h with rfl | h
        · exact Or.inr rfl
        · exact Or.inl (dfp c h)
  have hmant : ∀ c ∈ ((if neg then ['-'] else []) ++ (ip ++ (if fp = [] then [] else '.' :: fp))),
      isDigitC c = true ∨ c = '-' ∨ c = '.' := by
    intro c hc
    rcases List.mem_append.mp hc with h | h
    · cases neg <;> simp at h; exact Or.inr (Or.inl h)
    · rcases hfrac c h with h | h
      · exact Or.inl h
      · exact Or.inr (Or.inr h)
  -- lower-casing changes nothing
  have hlow : (sciText neg ip fp eneg ed).map lowerC = sciText neg ip fp eneg ed := by
    apply map_lower_fixed
    intro c hc
    unfold sciText at hc
    rcases List.mem_append.mp hc with h | h
    · rcases hmant c h with h | h | h
      · exact Or.inl h
      · exact Or.inr (Or.inl h)
      · exact Or.inr (Or.inr (Or.inl h))
    · rcases List.mem_cons.mp h with rfl | h
      · exact Or.inr (Or.inr (Or.inr (Or.inl rfl)))
      · rcases List.mem_append.mp h with h | h
        · cases eneg <;> simp at h
          · exact Or.inr (Or.inr (Or.inr (Or.inr h)))
          · exact Or.inr (Or.inl h)
        · exact Or.inl (ded c h)
  have hnoe : ∀ c ∈ ((if neg then ['-'] else []) ++ (ip ++ (if fp = [] then [] else '.' :: fp))), c ≠ 'e' := by
    intro c hc
    rcases hmant c hc with h | rfl | rfl
    · exact digit_ne h 'e' (by decide)
    · decide
    · decide
  have hpart : partitionC (sciText neg ip fp eneg ed) 'e' =
      ((if neg then ['-'] else []) ++ (ip ++ (if fp = [] then [] else '.' :: fp)), true,
        (if eneg then ['-'] else ['+']) ++ ed) := partitionC_found _ _ 'e' hnoe
  have hexp := (parseInt_digits eneg ed ded hed).1
  have hdot : partitionC (ip ++ (if fp = [] then [] else '.' :: fp)) '.' = (ip, !(fp = []), fp) := by
    by_cases hf : fp = []
    · simp only [hf, if_true, List.append_nil]
      rw [partitionC_none ip '.' (digits_no ip dip '.' (by decide))]; simp
    · simp only [hf, if_false]
      rw [partitionC_found ip fp '.' (digits_no ip dip '.' (by decide))]; simp
  obtain ⟨c0, ip', rfl⟩ := List.exists_cons_of_ne_nil hip
  have hc0 := dip c0 (by simp)
  generalize (if eneg = true then -(digitsToNat ed : Int) else (digitsToNat ed : Int)) = ex at hexp ⊢
  unfold formatNumber
  rw [hlow, hpart]
  simp only [Bool.not_true, Bool.false_eq_true, if_false]
  cases neg with
  | true =>
    simp only [if_true, List.singleton_append, beq_self_eq_true, Bool.or_true]
    rw [hdot, hexp]
    simp only [M.ok_bind, expand, if_true]
    by_cases h1 : ((c0 :: ip').length : Int) + ex ≤ 0
    · simp only [h1, if_true]; simp
    · by_cases h2 : ((c0 :: ip').length : Int) + ex ≥ ((c0 :: ip' ++ fp).length : Int)
      · simp only [h1, h2, if_true, if_false]; simp
      · simp only [h1, h2, if_false]; simp
  | false =>
    have n1 : (c0 == '+') = false := by simpa using digit_ne hc0 '+' (by decide)
    have n2 : (c0 == '-') = false := by simpa using digit_ne hc0 '-' (by decide)
    simp only [Bool.false_eq_true, if_false, List.nil_append, List.cons_append, n1, n2, Bool.or_self]
    rw [show c0 :: (ip' ++ if fp = [] then [] else '.' :: fp) = (c0 :: ip') ++ (if fp = [] then [] else '.' :: fp) from rfl,
      hdot, hexp]
    simp only [M.ok_bind, expand, Bool.false_eq_true, if_false, List.nil_append]
    by_cases h1 : ((c0 :: ip').length : Int) + ex ≤ 0
    · simp only [h1, if_true]; simp
    · by_cases h2 : ((c0 :: ip').length : Int) + ex ≥ ((c0 :: ip' ++ fp).length : Int)
      · simp only [h1, h2, if_true, if_false]
      · simp only [h1, h2, if_false]

end ERP.C07

namespace ERP.C07
open ERP

theorem natVal_fracVal (ip fp : Text) :
    natVal ip + fracVal fp = (digitsToNat (ip ++ fp) : ℚ) / 10 ^ fp.length := by
  unfold natVal fracVal
  rw [digitsToNat_append]
  have : (10 : ℚ) ^ fp.length ≠ 0 := pow_ne_zero _ (by norm_num)
  field_simp
  push_cast
  ring

theorem allDigits_take {d : Text} (h : AllDigits d) (n : Nat) : AllDigits (d.take n) :=
  fun c hc => h c (List.mem_of_mem_take hc)
theorem allDigits_drop {d : Text} (h : AllDigits d) (n : Nat) : AllDigits (d.drop n) :=
  fun c hc => h c (List.mem_of_mem_drop hc)

theorem scale_div (N : ℚ) (a b : ℕ) (ex : ℤ) (h : (a : ℤ) = b - ex) :
    N / 10 ^ a = N / 10 ^ b * 10 ^ ex := by
  have ten : (10 : ℚ) ≠ 0 := by norm_num
  rw [div_eq_mul_inv, div_eq_mul_inv, ← zpow_natCast, ← zpow_natCast, ← zpow_neg, ← zpow_neg, mul_assoc,
    ← zpow_add₀ ten]
  congr 2; omega

theorem scale_mul (N : ℚ) (k b : ℕ) (ex : ℤ) (h : ex = k + b) :
    N * 10 ^ k = N / 10 ^ b * 10 ^ ex := by
  have ten : (10 : ℚ) ≠ 0 := by norm_num
  rw [div_eq_mul_inv, ← zpow_natCast, ← zpow_natCast, ← zpow_neg, mul_assoc, ← zpow_add₀ ten]
  congr 2; omega

/-- **The expanded text is a plain decimal denoting the same number.** -/
theorem expand_spec (neg : Bool) (ip fp : Text) (ex : Int) (hip : ip ≠ [])
    (dip : AllDigits ip) (dfp : AllDigits fp) :
    ∃ ip' fp', expand neg ip fp ex = (if neg then ['-'] else []) ++ ip' ++ (if fp' = [] then [] else '.' :: fp') ∧
      ip' ≠ [] ∧ AllDigits ip' ∧ AllDigits fp' ∧
      plainVal neg ip' fp' = sciVal neg ip fp ex := by
  have hdig : AllDigits (ip ++ fp) := allDigits_append dip dfp
  have hl : (ip ++ fp).length = ip.length + fp.length := List.length_append
  have hipl : 0 < ip.length := List.length_pos_of_ne_nil hip
  -- it suffices to compare the unsigned values
  suffices hs : ∃ ip' fp', expand neg ip fp ex = (if neg then ['-'] else []) ++ ip' ++ (if fp' = [] then [] else '.' :: fp') ∧
      ip' ≠ [] ∧ AllDigits ip' ∧ AllDigits fp' ∧
      natVal ip' + fracVal fp' = (digitsToNat (ip ++ fp) : ℚ) / 10 ^ fp.length * 10 ^ ex by
    obtain ⟨ip', fp', h1, h2, h3, h4, h5⟩ := hs
    refine ⟨ip', fp', h1, h2, h3, h4, ?_⟩
    unfold plainVal sciVal plainVal
    rw [h5, natVal_fracVal]; ring
  unfold expand
  simp only
  by_cases h1 : (ip.length : Int) + ex ≤ 0
  · -- 0.000ddd
    simp only [h1, if_true]
    obtain ⟨k, hk⟩ : ∃ k : Nat, (k : Int) = -((ip.length : Int) + ex) := ⟨(-((ip.length : Int) + ex)).toNat, by omega⟩
    have hk' : (-((ip.length : Int) + ex)).toNat = k := by omega
    rw [hk']
    refine ⟨['0'], List.replicate k '0' ++ (ip ++ fp), ?_, by simp, ?_, ?_, ?_⟩
    · have : List.replicate k '0' ++ (ip ++ fp) ≠ [] := by simp [hip]
      simp [this]
    · intro c hc; simp at hc; subst hc; rfl
    · exact allDigits_append (allDigits_replicate _) hdig
    · have e0 : natVal ['0'] = 0 := by simp [natVal, digitsToNat]
      rw [e0, zero_add]
      unfold fracVal
      rw [digitsToNat_append, digitsToNat_zeros]
      simp only [zero_mul, zero_add, List.length_append, List.length_replicate]
      apply scale_div
      push_cast; omega
  · by_cases h2 : (ip.length : Int) + ex ≥ ((ip ++ fp).length : Int)
    · -- ddd000
      simp only [h1, h2, if_true, if_false]
      obtain ⟨k, hk⟩ : ∃ k : Nat, (k : Int) = (ip.length : Int) + ex - (ip ++ fp).length := ⟨(((ip.length : Int) + ex) - (ip ++ fp).length).toNat, by omega⟩
      have hk' : ((ip.length : Int) + ex).toNat - (ip ++ fp).length = k := by omega
      rw [hk']
      refine ⟨ip ++ fp ++ List.replicate k '0', [], by simp, by simp [hip],
        allDigits_append hdig (allDigits_replicate _), (fun c hc => by cases hc), ?_⟩
      have ef : fracVal ([] : Text) = 0 := by simp [fracVal, digitsToNat]
      rw [ef, add_zero]
      unfold natVal
      rw [digitsToNat_append, digitsToNat_zeros]
      simp only [List.length_replicate, add_zero]
      push_cast
      apply scale_mul
      rw [hl] at hk; push_cast at hk; omega
    · -- dd.ddd
      simp only [h1, h2, if_false]
      obtain ⟨k, hk⟩ : ∃ k : Nat, (k : Int) = (ip.length : Int) + ex := ⟨((ip.length : Int) + ex).toNat, by omega⟩
      have hk' : ((ip.length : Int) + ex).toNat = k := by omega
      rw [hk']
      have hpos : 0 < k := by omega
      have hlt : k < (ip ++ fp).length := by omega
      refine ⟨(ip ++ fp).take k, (ip ++ fp).drop k, ?_, ?_, allDigits_take hdig _, allDigits_drop hdig _, ?_⟩
      · have : (ip ++ fp).drop k ≠ [] := by
          intro h; have := congrArg List.length h; simp at this; omega
        simp [this]
      · intro h
        rcases List.take_eq_nil_iff.mp h with h | h
        · omega
        · simp [hip] at h
      · rw [natVal_fracVal, List.take_append_drop]
        apply scale_div
        rw [List.length_drop, hl]
        rw [hl] at hlt
        rw [Nat.cast_sub hlt.le]
        push_cast
        omega

/-- a text without exponent is returned unchanged -/
theorem formatNumber_plain (t : Text) (h : ∀ c ∈ t, lowerC c ≠ 'e') : formatNumber t = .ok t := by
  unfold formatNumber
  rw [partitionC_none (t.map lowerC) 'e' (by
    intro c hc
    obtain ⟨c', hc', rfl⟩ := List.mem_map.mp hc
    exact h c' hc')]
  rfl

/-- **C07 (numbers).** Whatever finite float a synthesised command carries, its text is a plain
decimal (never exponent notation) that denotes exactly the same number as CPython's `repr`. -/
theorem C07_plain (neg : Bool) (ip fp : Text) (eneg : Bool) (ed : Text)
    (hip : ip ≠ []) (dip : AllDigits ip) (dfp : AllDigits fp) (ded : AllDigits ed) (hed : ed ≠ []) :
    ∃ t ip' fp', formatNumber (sciText neg ip fp eneg ed) = .ok t ∧
      t = (if neg then ['-'] else []) ++ ip' ++ (if fp' = [] then [] else '.' :: fp') ∧
      ip' ≠ [] ∧ AllDigits ip' ∧ AllDigits fp' ∧
      plainVal neg ip' fp' = sciVal neg ip fp (if eneg then -(digitsToNat ed : Int) else digitsToNat ed) := by
  obtain ⟨ip', fp', h1, h2, h3, h4, h5⟩ := expand_spec neg ip fp
    (if eneg then -(digitsToNat ed : Int) else digitsToNat ed) hip dip dfp
  exact ⟨_, ip', fp', formatNumber_sci neg ip fp eneg ed hip dip dfp ded hed, h1, h2, h3, h4, h5⟩

/-- the value that made the defect visible: `repr(1e-05)` -/
example : formatNumber "1e-05".toList = .ok "0.00001".toList := by decide
example : formatNumber "-1.5e-07".toList = .ok "-0.00000015".toList := by decide
example : formatNumber "1e+16".toList = .ok "10000000000000000".toList := by decide
example : formatNumber "2.5".toList = .ok "2.5".toList := by decide

end ERP.C07

namespace ERP.C07
open ERP

/-- **Distinct parameter letters in merged commands**: the argument list `buildCommand` renders
never holds a letter twice. -/
theorem argsSet_nodup {α : Type} (a : List (Char × Option α)) (k : Char) (v : Option α)
    (h : (a.map (·.1)).Nodup) : ((argsSet a k v).map (·.1)).Nodup := by
  unfold argsSet
  split
  · have : (a.map (fun p => if (p.1 == k) = true then (k, v) else p)).map (·.1) = a.map (·.1) := by
      rw [List.map_map]
      apply List.map_congr_left
      intro p _
      simp only [Function.comp]
      split
      · rename_i hp; simp at hp; exact hp.symm
      · rfl
    rw [this]; exact h
  · rename_i hany
    rw [List.map_append]
    apply List.Nodup.append h (by simp)
    intro c hc hk
    simp at hk; subst hk
    apply hany
    obtain ⟨p, hp, rfl⟩ := List.mem_map.mp hc
    exact List.any_eq_true.mpr ⟨p, hp, by simp⟩

theorem merged_letters_nodup {α : Type} (w : List (Char × Option α)) :
    ∀ a : List (Char × Option α), (a.map (·.1)).Nodup →
      ((w.foldl (fun a (kv : Char × Option α) => argsSet a kv.1 kv.2) a).map (·.1)).Nodup := by
  induction w with
  | nil => intro a h; exact h
  | cons kv rest ih => intro a h; exact ih _ (argsSet_nodup a kv.1 kv.2 h)

/-- the fixed templates of the other synthesised commands (one code, distinct letters) -/
theorem render_templates {α : Type} (nt : α → Text) (f x y z e : α) (tf tx ty tz te : Text)
    (hf : fmtNum nt f = .ok tf) (hx : fmtNum nt x = .ok tx) (hy : fmtNum nt y = .ok ty)
    (hz : fmtNum nt z = .ok tz) (he : fmtNum nt e = .ok te) :
    render nt (.g92e e) = .ok ("G92 E".toList ++ te) ∧
    render nt (.g0z f z) = .ok ("G0 F".toList ++ tf ++ " Z".toList ++ tz) ∧
    render nt (.g0xy f x y) = .ok ("G0 F".toList ++ tf ++ " X".toList ++ tx ++ " Y".toList ++ ty) ∧
    render nt (.g1fe f e) = .ok ("G1 F".toList ++ tf ++ " E".toList ++ te) := by
  simp [render, hf, hx, hy, hz, he, M.ok_bind]

end ERP.C07
