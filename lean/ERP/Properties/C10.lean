import ERP.Spec.Lifecycle
import ERP.Lemmas.Monad
import ERP.Properties.C11
import ERP.Lemmas.GenConsts
import ERP.Lemmas.GenTies
/-! # C10 — Every print starts from a clean tracking state -/
namespace ERP.C10
open ERP
set_option linter.unusedSectionVars false

variable {α : Type} [Add α] [Sub α] [Mul α] [Div α] [Neg α] [LT α] [LE α] [BEq α]
  [OfNat α 0] [OfNat α 1] [OfNat α 2] [DecidableLT α] [DecidableLE α] [MathOps α] [OfDecimal α]

/-- Two plugin objects that differ at most in the log of notifications already sent. -/
structure Same (p q : Plugin α) : Prop where
  settings : p.settings = q.settings
  clear : p.clearRegionsAfterPrintFinishes = q.clearRegionsAfterPrintFinishes
  shrink : p.mayShrinkRegionsWhilePrinting = q.mayShrinkRegionsWhilePrinting
  cfg : p.cfg = q.cfg
  active : p.activePrintJob = q.activePrintJob
  st : p.st = q.st

theorem Same.refl (p : Plugin α) : Same p p := ⟨rfl, rfl, rfl, rfl, rfl, rfl⟩

theorem same_iff (p q : Plugin α) : Same p q ↔
    p.settings = q.settings ∧ p.clearRegionsAfterPrintFinishes = q.clearRegionsAfterPrintFinishes ∧
    p.mayShrinkRegionsWhilePrinting = q.mayShrinkRegionsWhilePrinting ∧ p.cfg = q.cfg ∧
    p.activePrintJob = q.activePrintJob ∧ p.st = q.st :=
  ⟨fun h => ⟨h.1, h.2, h.3, h.4, h.5, h.6⟩, fun ⟨a, b, c, d, e, f⟩ => ⟨a, b, c, d, e, f⟩⟩

/-- outputs never depend on the notification log, and `Same` is preserved by every operation -/
theorem step_same (inch : α) (p q : Plugin α) (h : Same p q) (op : POp α) :
    Same (p.step inch op).1 (q.step inch op).1 ∧ (p.step inch op).2 = (q.step inch op).2 := by
  obtain ⟨ps, pc, pm, pcfg, pa, pst, pn⟩ := p
  obtain ⟨qs, qc, qm, qcfg, qa, qst, qn⟩ := q
  obtain ⟨h1, h2, h3, h4, h5, h6⟩ := h
  simp only at h1 h2 h3 h4 h5 h6
  subst h1 h2 h3 h4 h5 h6
  cases op with
  | event e =>
    cases e <;> simp only [Plugin.step, Plugin.onEvent, Plugin.notify, Plugin.handleSettingsUpdated] <;>
      (try split) <;> simp [same_iff]
  | save s => simp [Plugin.step, Plugin.onEvent, Plugin.handleSettingsUpdated, same_iff]
  | get => simp [Plugin.step, Plugin.onApiGet, same_iff]
  | api anon req =>
    simp only [Plugin.step, Plugin.onApiCommand]
    split
    · simp [same_iff]
    · cases req with
      | delete i =>
        simp only
        split
        · simp [same_iff]
        · split <;> simp [same_iff, Plugin.notify]
      | badType c => simp [same_iff]
      | unknown => simp [same_iff]
      | add r => simp only; cases pst.addRegion r <;> simp [same_iff, Plugin.notify]
      | update r =>
        simp only
        cases pst.replaceRegion r (!pm && pa) <;> simp [same_iff, Plugin.notify]
  | gcode cmd g =>
    cases g with
    | none => simp [Plugin.step, Plugin.handleGcodeQueuing, same_iff]
    | some g =>
      by_cases hc : (!g.isEmpty && pa) = true
      · cases hx : handleGcodeText pcfg inch pst cmd g <;>
          simp [Plugin.step, Plugin.handleGcodeQueuing, hc, hx, same_iff]
      · simp [Plugin.step, Plugin.handleGcodeQueuing, hc, same_iff]
  | atCmd st cmd ps =>
    by_cases hc : pa = true
    · cases hx : handleAtCommand pcfg pst st cmd ps <;>
        simp [Plugin.step, Plugin.handleAtCommandQueuing, hc, hx, same_iff]
    · simp [Plugin.step, Plugin.handleAtCommandQueuing, hc, same_iff]
  | script ty nm =>
    by_cases h1 : (ty == "gcode" && nm == "afterPrintDone") = true
    · by_cases h2 : (pa && pst.excluding) = true
      · cases hx : pst.exitExcludedRegion pcfg <;>
          simp [Plugin.step, Plugin.handleScriptHook, h1, h2, hx, same_iff]
      · simp [Plugin.step, Plugin.handleScriptHook, h1, h2, same_iff]
    · simp [Plugin.step, Plugin.handleScriptHook, h1, same_iff]

theorem run_same (inch : α) (ops : List (POp α)) :
    ∀ p q : Plugin α, Same p q → (Plugin.run inch p ops).2 = (Plugin.run inch q ops).2 := by
  induction ops with
  | nil => intro p q _; rfl
  | cons op rest ih =>
    intro p q h
    obtain ⟨h1, h2⟩ := step_same inch p q h op
    simp only [Plugin.run, h2, ih _ _ h1]

/-- The settings the plugin acts on are the stored ones (true after `initialize` and kept by every
operation, because a settings save delivers `SettingsUpdated`). -/
def Applied (p : Plugin α) : Prop :=
  p.clearRegionsAfterPrintFinishes = p.settings.clearRegionsAfterPrintFinishes ∧
  p.mayShrinkRegionsWhilePrinting = p.settings.mayShrinkRegionsWhilePrinting ∧
  p.cfg = p.settings.cfg

theorem applied_initialize (st : Settings) : Applied (Plugin.initialize st : Plugin α) :=
  ⟨rfl, rfl, rfl⟩

theorem frame_of_same_st {p p' : Plugin α} (h : p' = { p with st := p'.st }) (ha : Applied p) :
    Applied p' := by rw [h]; exact ha

theorem applied_step (inch : α) (p : Plugin α) (op : POp α) (h : Applied p) :
    Applied (p.step inch op).1 := by
  obtain ⟨h1, h2, h3⟩ := h
  cases op with
  | event e =>
    cases e <;> simp only [Plugin.step, Plugin.onEvent, Plugin.notify, Plugin.handleSettingsUpdated]
      <;> (try split) <;> first | exact ⟨h1, h2, h3⟩ | exact ⟨rfl, rfl, rfl⟩
  | save s => exact ⟨rfl, rfl, rfl⟩
  | get => exact ⟨h1, h2, h3⟩
  | api anon req =>
    simp only [Plugin.step, Plugin.onApiCommand]
    split
    · exact ⟨h1, h2, h3⟩
    · cases req with
      | delete i =>
        simp only
        split
        · exact ⟨h1, h2, h3⟩
        · split <;> exact ⟨h1, h2, h3⟩
      | badType c => exact ⟨h1, h2, h3⟩
      | unknown => exact ⟨h1, h2, h3⟩
      | add r => simp only; cases p.st.addRegion r <;> exact ⟨h1, h2, h3⟩
      | update r =>
        simp only
        cases p.st.replaceRegion r (!p.mayShrinkRegionsWhilePrinting && p.activePrintJob) <;>
          exact ⟨h1, h2, h3⟩
  | gcode cmd g =>
    simp only [Plugin.step]
    split
    · rename_i h; rw [C11.gcode_frame inch p _ cmd g _ h]; exact ⟨h1, h2, h3⟩
    · exact ⟨h1, h2, h3⟩
  | atCmd st cmd ps =>
    simp only [Plugin.step]
    split
    · rename_i h; rw [C11.at_frame p _ st cmd ps _ h]; exact ⟨h1, h2, h3⟩
    · exact ⟨h1, h2, h3⟩
  | script ty nm =>
    simp only [Plugin.step]
    split
    · rename_i h; rw [C11.script_frame p _ ty nm _ h]; exact ⟨h1, h2, h3⟩
    · exact ⟨h1, h2, h3⟩

theorem applied_run (inch : α) (ops : List (POp α)) :
    ∀ p : Plugin α, Applied p → Applied (Plugin.run inch p ops).1 := by
  induction ops with
  | nil => intro p h; exact h
  | cons op rest ih => intro p h; exact ih _ (applied_step inch p op h)

/-- A freshly initialised plugin given the same settings and regions. -/
def freshWith (st : Settings) (regions : List (Region α)) : Plugin α :=
  { (Plugin.initialize st : Plugin α) with st := FState.reset regions }

/-- **C10.** Whatever commands, @-commands, events, API calls and settings saves happened before
(`history`, from initialisation with any settings), after a print-started event the outputs of the
plugin on any further operations `prog` equal those of a freshly initialised plugin given the same
regions and settings. -/
theorem C10_fresh (inch : α) (st0 : Settings) (history prog : List (POp α)) :
    let used := (Plugin.run inch (Plugin.initialize st0 : Plugin α) history).1
    (Plugin.run inch used (.event .printStarted :: prog)).2 =
      (Plugin.run inch (freshWith used.settings used.st.excludedRegions) (.event .printStarted :: prog)).2 := by
  intro used
  have ha : Applied used := applied_run inch history _ (applied_initialize st0)
  obtain ⟨a1, a2, a3⟩ := ha
  simp only [Plugin.run]
  congr 1
  apply run_same
  simp only [Plugin.step, Plugin.onEvent, freshWith, Plugin.initialize, Plugin.handleSettingsUpdated,
    Plugin.notify, FState.reset]
  exact ⟨rfl, a1, a2, a3, rfl, rfl⟩

/-- The state print-started produces: every per-print field has its initial value. -/
theorem printStarted_state (inch : α) (p : Plugin α) :
    (p.step inch (.event .printStarted)).1.st = FState.reset p.st.excludedRegions := rfl

end ERP.C10
