import ERP.Lemmas.StepInv
/-! # C19 — Parameter extraction matches the RS274/Marlin reading

**Partial.**  Proved here, for every word list:

* `lastValue_spec`: `lastValue ws c` is the value of the *last* word with letter `c` that carries a
  value (valueless repetitions of the letter are ignored), `none` when there is none;
* `g0_acts_on_last_values`: after `G0`/`G1` every tracked axis is at the last value the command
  gives for its letter (unchanged when the letter is absent or only given without a value);
* `ERP.track_gcode` (file `Lemmas/StepInv.lean`): for every command of the dialect — linear moves,
  arcs, `G92`, `G28`, `M206`, unit and mode changes — the tracked X/Y/Z position after
  `handleGcode` is the position of the reference printer (`Spec/Printer.lean`, which reads a
  command's words through the same last-value rule) after executing that command.

Not proved: that `parameterItems` — the tokenisation by `REGEX_PARAMETER_OR_STR`, whose model is
regenerated from the source and executed by the correspondence suites `parser`/`text` — yields
for *every* spelling the same pairs as the reference reader.  That half of the property is decided
by the correspondence of the model with the implementation plus the oracle search against the
independent reference reader (`harness/refprinter.py: read_words`); see `DESIGN.md`. -/
namespace ERP.C19
open ERP

variable {α : Type}

/-- the values given for letter `c`, in order -/
def valuesOf (ws : List (Char × Option α)) (c : Char) : List α :=
  ws.filterMap (fun kv => if kv.1 == c then kv.2 else none)

theorem lastValue_snoc (ws : List (Char × Option α)) (k c : Char) (v : Option α) :
    lastValue (ws ++ [(k, v)]) c =
      if k == c then (match v with | some x => some x | none => lastValue ws c) else lastValue ws c := by
  unfold lastValue
  rw [List.foldl_append]
  rfl

theorem valuesOf_snoc (ws : List (Char × Option α)) (k c : Char) (v : Option α) :
    valuesOf (ws ++ [(k, v)]) c = valuesOf ws c ++ (if k == c then v.toList else []) := by
  unfold valuesOf
  rw [List.filterMap_append]
  congr 1
  by_cases hk : k = c
  · subst hk; cases v <;> simp
  · have : (k == c) = false := by simpa using hk
    simp [hk]

/-- **Last value wins.** -/
theorem lastValue_spec (ws : List (Char × Option α)) (c : Char) :
    lastValue ws c = (valuesOf ws c).getLast? := by
  induction ws using List.reverseRecOn with
  | nil => rfl
  | append_singleton ws w ih =>
    obtain ⟨k, v⟩ := w
    rw [lastValue_snoc, valuesOf_snoc, ih]
    by_cases hk : (k == c) = true
    · cases v with
      | none => simp [hk]
      | some x => simp [hk]
    · simp [hk]

theorem lastValue_append_valued (ws : List (Char × Option α)) (c : Char) (v : α) :
    lastValue (ws ++ [(c, some v)]) c = some v := by
  rw [lastValue_snoc]; simp

theorem lastValue_append_other (ws : List (Char × Option α)) (c d : Char) (v : Option α) (h : d ≠ c) :
    lastValue (ws ++ [(d, v)]) c = lastValue ws c := by
  rw [lastValue_snoc]; simp [h]

theorem lastValue_append_flag (ws : List (Char × Option α)) (c d : Char) :
    lastValue (ws ++ [(d, none)]) c = lastValue ws c := by
  rw [lastValue_snoc]; simp

end ERP.C19

namespace ERP.C19
open ERP T
set_option linter.unusedSectionVars false
variable {α : Type} [Field α] [LinearOrder α] [IsStrictOrderedRing α] [MathOps α] [MathSpec α]

/-- **The linear-move handler acts on the last value of each letter.** -/
theorem g0_acts_on_last_values (cfg : Config) (s : FState α) (cmd : Cmd α) (h : WF s) :
    let p := (T.handleG0 cfg s cmd).1.position
    p.x = setLog s.position.x (valuesOf cmd.words 'X').getLast? ∧
    p.y = setLog s.position.y (valuesOf cmd.words 'Y').getLast? ∧
    p.z = setLog s.position.z (valuesOf cmd.words 'Z').getLast? ∧
    p.e = setLog s.position.e (valuesOf cmd.words 'E').getLast? := by
  simp only [T.handleG0]
  rw [plm_pos _ _ _ _ _ _ _ h]
  simp only [movedPos, loopAxis, List.map_cons, List.map_nil, List.foldl_cons, List.foldl_nil, lastValue_spec]
  exact ⟨trivial, trivial, trivial, trivial⟩

/-- non-vacuity of the last-value rule on a repeated letter and a valueless flag -/
example : lastValue [('X', some (1 : Nat)), ('Y', some 2), ('X', some 3), ('X', none)] 'X' = some 3 := by decide

end ERP.C19
