import ERP.Lemmas.StepInv
import ERP.Spec.Reader
import ERP.Lemmas.GenTies
/-! # C19 — Parameter extraction matches the RS274/Marlin reading

Proved here: the tokenizer half (`parameterItems_eq_spec`, for *every* text) and, for every word
list:

* `lastValue_spec`: `lastValue ws c` is the value of the *last* word with letter `c` that carries a
  value (valueless repetitions of the letter are ignored), `none` when there is none;
* `g0_acts_on_last_values`: after `G0`/`G1` every tracked axis is at the last value the command
  gives for its letter (unchanged when the letter is absent or only given without a value);
* `ERP.track_gcode` (file `Lemmas/StepInv.lean`): for every command of the dialect — linear moves,
  arcs, `G92`, `G28`, `M206`, unit and mode changes — the tracked X/Y/Z position after
  `handleGcode` is the position of the reference printer (`Spec/Printer.lean`, which reads a
  command's words through the same last-value rule) after executing that command.

The tokenizer theorem: `specRead` below is a straightforward maximal-munch reading of a parameter
string (skip blanks; a letter; blanks; the longest number `[+-]? digits* (. digits+)?` with at
least one digit, else the letter is a valueless flag; any other character is skipped).
`parameterItems_eq_spec` proves that the letter items `parameterItems` yields — through the
backtracking matcher on `REGEX_PARAMETER_OR_STR` as regenerated from the source
(`Rx.scan_eq`, `Lemmas/ParamScan.lean`) — are exactly `specRead`, for every text, in order, with
the same values.  `specRead` itself is executed by the driver (`specwords`) and compared with the
independent Python reader `harness/refprinter.py: read_words` in the `text` suite; the only
difference between the two readings, a trailing decimal point (`1.`), changes no pair: the spec
leaves the point behind as a skipped character, the RS274 reader consumes it, the value is `1`
in both. -/
namespace ERP.C19
open ERP

variable {α : Type}

/-- the values given for letter `c`, in order -/
def valuesOf (ws : List (Char × Option α)) (c : Char) : List α :=
  ws.filterMap (fun kv => if kv.1 == c then kv.2 else none)

theorem lastValue_snoc (ws : List (Char × Option α)) (k c : Char) (v : Option α) :
    lastValue (ws ++ [(k, v)]) c =
      if k == c then (match v with | some x => some x | none => lastValue ws c) else lastValue ws c := by
  unfold lastValue
  rw [List.foldl_append]
  rfl

theorem valuesOf_snoc (ws : List (Char × Option α)) (k c : Char) (v : Option α) :
    valuesOf (ws ++ [(k, v)]) c = valuesOf ws c ++ (if k == c then v.toList else []) := by
  unfold valuesOf
  rw [List.filterMap_append]
  congr 1
  by_cases hk : k = c
  · subst hk; cases v <;> simp
  · have : (k == c) = false := by simpa using hk
    simp [hk]

/-- **Last value wins.** -/
theorem lastValue_spec (ws : List (Char × Option α)) (c : Char) :
    lastValue ws c = (valuesOf ws c).getLast? := by
  induction ws using List.reverseRecOn with
  | nil => rfl
  | append_singleton ws w ih =>
    obtain ⟨k, v⟩ := w
    rw [lastValue_snoc, valuesOf_snoc, ih]
    by_cases hk : (k == c) = true
    · cases v with
      | none => simp [hk]
      | some x => simp [hk]
    · simp [hk]

theorem lastValue_append_valued (ws : List (Char × Option α)) (c : Char) (v : α) :
    lastValue (ws ++ [(c, some v)]) c = some v := by
  rw [lastValue_snoc]; simp

theorem lastValue_append_other (ws : List (Char × Option α)) (c d : Char) (v : Option α) (h : d ≠ c) :
    lastValue (ws ++ [(d, v)]) c = lastValue ws c := by
  rw [lastValue_snoc]; simp [h]

theorem lastValue_append_flag (ws : List (Char × Option α)) (c d : Char) :
    lastValue (ws ++ [(d, none)]) c = lastValue ws c := by
  rw [lastValue_snoc]; simp

section
variable [OfDecimal α]
open ERP.Rx

theorem wordsOf_append (a b : List (Item α)) : wordsOf (a ++ b) = wordsOf a ++ wordsOf b := by
  simp [wordsOf, List.filterMap_append]

theorem wordsOf_strArg (a : List (Item α)) (t : Text) : wordsOf (a ++ [.strArg t]) = wordsOf a := by
  simp [wordsOf, List.filterMap_append]

theorem wordsOf_end (a : List (Item α)) (src : Text) (sa : Option Nat) :
    wordsOf (match sa with | some o => a ++ [.strArg (src.drop o)] | none => a) = wordsOf a := by
  cases sa with
  | none => rfl
  | some o => exact wordsOf_strArg a _

/-- the tokenizer loop yields, as letter items, what has been collected plus the reference reading
of the rest -/
theorem itemsLoop_spec (src : Text) :
    ∀ (fuel off : Nat) (sa : Option Nat) (acc : List (Item α)), off ≤ src.length →
      wordsOf (itemsLoop src fuel off sa acc) = wordsOf acc ++ specWords src fuel off := by
  intro fuel
  induction fuel with
  | zero =>
    intro off sa acc _
    simp only [itemsLoop, specWords, List.append_nil]
    exact wordsOf_end acc src sa
  | succ fuel ih =>
    intro off sa acc hoff
    have hsz : (src.toArray).size = src.length := by simp
    simp only [itemsLoop, specWords]
    rw [scan_eq src.toArray off (by rw [hsz]; exact hoff)]
    unfold scan
    have hp1 := span_le_size ⟨src.toArray⟩ false SP off (by show off ≤ src.toArray.size; rw [hsz]; exact hoff)
    generalize hp1e : span ⟨src.toArray⟩ false SP off = p1 at *
    have hp1' : p1 ≤ src.length := by rw [← hsz]; exact hp1
    by_cases hl : passes ⟨src.toArray⟩ false LET p1 = true
    · have hlt : p1 < src.length := by rw [← hsz]; exact passes_lt hl
      simp only [hl, if_true]
      have hp2 := span_le_size ⟨src.toArray⟩ false SP (p1 + 1) (by show p1 + 1 ≤ src.toArray.size; rw [hsz]; omega)
      generalize span ⟨src.toArray⟩ false SP (p1 + 1) = p2 at *
      have hp2' : p2 ≤ src.length := by rw [← hsz]; exact hp2
      cases hn : numEnd ⟨src.toArray⟩ p2 with
      | none =>
        simp only [capOf, List.find?, beq_self_eq_true, Option.map_some, show ((1 : Nat) == 2) = false from rfl,
          Option.map_none, Nat.lt_succ_self, if_true]
        rw [ih p2 _ _ hp2', wordsOf_append]
        simp [wordsOf]
      | some e =>
        have he := (numEnd_gt ⟨src.toArray⟩ p2 e hp2 hn).2
        have he' : e ≤ src.length := by rw [← hsz]; exact he
        simp only [capOf, List.find?, beq_self_eq_true, Option.map_some, show ((2 : Nat) == 1) = false from rfl,
          Nat.lt_succ_self, if_true]
        rw [ih e _ _ he', wordsOf_append]
        simp [wordsOf]
    · have hl' : passes ⟨src.toArray⟩ false LET p1 = false := by simpa using hl
      simp only [hl', Bool.false_eq_true, if_false]
      by_cases hnl : passes ⟨src.toArray⟩ true LET p1 = true
      · have hlt : p1 < src.length := by rw [← hsz]; exact passes_lt hnl
        simp only [hnl, if_true, capOf, List.find?, show ((3 : Nat) == 1) = false from rfl, Option.map_none]
        exact ih (p1 + 1) _ _ (by omega)
      · have hnl' : passes ⟨src.toArray⟩ true LET p1 = false := by simpa using hnl
        simp only [hnl', Bool.false_eq_true, if_false, List.append_nil]
        by_cases hlt : off < p1
        · -- trailing blanks: one more (empty) round of the loop
          simp only [hlt, if_true, capOf, List.find?, show ((3 : Nat) == 1) = false from rfl, Option.map_none]
          -- p1 is the end of the text
          have hend : p1 = src.length := by
            rcases Nat.lt_or_ge p1 src.length with h | h
            · exfalso
              have h' : p1 < (src.toArray).size := by rw [hsz]; exact h
              have := nonletter_iff ⟨src.toArray⟩ p1 h'
              rw [hnl', hl'] at this; cases this
            · omega
          cases fuel with
          | zero => simp only [itemsLoop]; exact wordsOf_end acc src _
          | succ f =>
            simp only [itemsLoop]
            rw [scan_eq src.toArray p1 (by rw [hsz]; exact hp1')]
            have hs0 : passes ⟨src.toArray⟩ false SP p1 = false := by
              unfold passes; simp [hend]
            unfold scan
            rw [span_of_stop ⟨src.toArray⟩ false SP p1 hs0]
            simp only [hl', hnl', Bool.false_eq_true, if_false, Nat.lt_irrefl]
            exact wordsOf_end acc src _
        · simp only [hlt, if_false]
          exact wordsOf_end acc src sa

/-- **The tokenizer is the reference reading** — for every parameter string. -/
theorem parameterItems_eq_spec (t : Text) :
    wordsOf (parameterItems (α := α) (some t)) = specRead t := by
  unfold parameterItems specRead
  rw [itemsLoop_spec t _ 0 none [] (Nat.zero_le _)]
  rfl

end

end ERP.C19

namespace ERP.C19
open ERP T
set_option linter.unusedSectionVars false
variable {α : Type} [Field α] [LinearOrder α] [IsStrictOrderedRing α] [MathOps α] [MathSpec α]

/-- **The linear-move handler acts on the last value of each letter.** -/
theorem g0_acts_on_last_values (cfg : Config) (s : FState α) (cmd : Cmd α) (h : WF s) :
    let p := (T.handleG0 cfg s cmd).1.position
    p.x = setLog s.position.x (valuesOf cmd.words 'X').getLast? ∧
    p.y = setLog s.position.y (valuesOf cmd.words 'Y').getLast? ∧
    p.z = setLog s.position.z (valuesOf cmd.words 'Z').getLast? ∧
    p.e = setLog s.position.e (valuesOf cmd.words 'E').getLast? := by
  simp only [T.handleG0]
  rw [plm_pos _ _ _ _ _ _ _ h]
  simp only [movedPos, loopAxis, List.map_cons, List.map_nil, List.foldl_cons, List.foldl_nil, lastValue_spec]
  exact ⟨trivial, trivial, trivial, trivial⟩

/-- non-vacuity of the last-value rule on a repeated letter and a valueless flag -/
example : lastValue [('X', some (1 : Nat)), ('Y', some 2), ('X', some 3), ('X', none)] 'X' = some 3 := by decide

end ERP.C19

namespace ERP.C19
/-- sign, digits, scale — the exact decimal a number text denotes -/
instance : OfDecimal (Bool × Nat × Nat) := ⟨fun n m e => (n, m, e)⟩

/-- the reference reading on a line with every spelling the property lists: lower case, spaces,
signs, leading and trailing decimal point, a repeated letter, valueless flags -/
example : specRead (α := Bool × Nat × Nat) "X1.5 y -2 S E+1. X.25F".toList =
    [('X', some (false, 15, 1)), ('Y', some (true, 2, 0)), ('S', none), ('E', some (false, 1, 0)),
     ('X', some (false, 25, 2)), ('F', none)] := by decide +kernel

example : wordsOf (parameterItems (α := Bool × Nat × Nat) (some "X1.5 y -2 S E+1. X.25F".toList)) =
    [('X', some (false, 15, 1)), ('Y', some (true, 2, 0)), ('S', none), ('E', some (false, 1, 0)),
     ('X', some (false, 25, 2)), ('F', none)] := by
  rw [parameterItems_eq_spec]; decide +kernel
end ERP.C19
