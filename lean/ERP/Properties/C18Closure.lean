import ERP.Lemmas.ParseShape
import ERP.Properties.C18Idem
/-! # C18 — normalisation is stable for every source without backslash escapes

`parse_plain`: whatever text is parsed (no backslash in it), a parsed command has the shape
`C18_reparse_partial` asks for — blank-only indentation, type `G`/`M`/`T`, no sub-code for `T`,
parameters absent or non-empty, free of `; * CR LF` and *trimmed*.  The trimming needs more than
soundness of the matcher: the first parameter character is no blank because the greedy blank run
before the parameter group would otherwise have been longer (`Rx.starG_spec`: a greedy star returns
the continuation's result at the **last** position where it succeeds), the last one is no blank
because the lazy parameter group would otherwise have stopped earlier (`Rx.lazyG_spec`: **first**
position); both arguments move a success of the tail between capture lists with
`Rx.m_capsIrrel` (success of the matcher never depends on the captures — no back-references).
`C18_idempotent_noescape` and `C18_checksum_validates_noescape` are the resulting unconditional
statements. -/
namespace ERP.C18
open ERP ERP.Rx ERP.NormCmd

/-- the command attributes of a parsed line, read off the captures -/
theorem parse_cmd_inv (p q : Parser) (src : Text) (off : Nat)
    (h : p.parse (some src) (some off) = .ok q) :
    ∃ e caps, matchAt Gen.gcodeLine src.toArray off = some (e, caps) ∧
      q.leadingWhitespace = (capText src caps 1).getD [] ∧
      q.parameters = capText src caps 9 ∧
      q.type = (({} : Parser).gcodeMatch src caps 4).type ∧
      q.subCode = (({} : Parser).gcodeMatch src caps 4).subCode := by
  unfold Parser.parse at h
  simp only [Option.getD_some] at h
  split at h
  · cases h
  · rename_i e caps hm
    refine ⟨e, caps, hm, ?_⟩
    cases hc : capText src caps 10 with
    | none =>
      simp only [hc] at h
      cases h
      simp [Parser.gcodeMatch]
      split <;> simp
    | some cs =>
      simp only [hc] at h
      cases h
      simp [Parser.gcodeMatch]
      split <;> simp

/-- characters of a slice all of whose positions pass a class test -/
theorem slice_all (src : Text) (neg : Bool) (items : List CC) (a b : Nat)
    (h : ∀ i, a ≤ i → i < b → passes ⟨src.toArray⟩ neg items i = true) :
    ∀ c ∈ slice src a b, ((items.any (CC.test c)) != neg) = true := by
  intro c hc
  unfold slice at hc
  obtain ⟨j, hj, rfl⟩ := List.mem_iff_getElem.mp hc
  simp only [List.length_take, List.length_drop] at hj
  have hlt : a + j < src.length := by omega
  have hp := h (a + j) (by omega) (by omega)
  rw [passes_char src neg items (a + j) src[a + j] (List.getElem?_eq_getElem hlt)] at hp
  simpa [List.getElem_take, List.getElem_drop] using hp


theorem slice_head (src : Text) (a b : Nat) (hab : a < b) : (slice src a b).head? = src[a]? := by
  unfold slice
  rw [List.head?_take]
  have : b - a ≠ 0 := by omega
  simp [this, List.head?_drop]

theorem slice_getLast (src : Text) (a b : Nat) (hab : a < b) (hb : b ≤ src.length) :
    (slice src a b).getLast? = src[b - 1]? := by
  unfold slice
  rw [List.getLast?_eq_getElem?]
  simp only [List.length_take, List.length_drop]
  have h1 : min (b - a) (src.length - a) = b - a := by omega
  rw [h1, List.getElem?_take_of_lt (by omega), List.getElem?_drop]
  congr 1; omega

theorem slice_subset (src : Text) (a b : Nat) : ∀ c ∈ slice src a b, c ∈ src := by
  intro c hc
  unfold slice at hc
  exact List.drop_subset _ _ (List.take_subset _ _ hc)

theorem no_bs (src : Text) (hnb : '\\' ∉ src) : ∀ i, passes ⟨src.toArray⟩ false BSc i = false := by
  intro i
  cases hg : src[i]? with
  | none => exact passes_none _ _ _ _ hg
  | some ch =>
    rw [passes_char _ _ _ _ ch hg]
    have hne : ch ≠ '\\' := by
      intro e; rw [e] at hg; exact hnb (List.mem_of_getElem? hg)
    simp [CC.test, hne]


theorem upper_gm (ch : Char) (h : ((GMc.any (CC.test ch)) != false) = true) :
    upperC ch = 'G' ∨ upperC ch = 'M' := by
  simp only [List.any_cons, List.any_nil, Bool.or_false, CC.test, bne_iff_ne, ne_eq, Bool.not_eq_false,
    Bool.or_eq_true, beq_iff_eq] at h
  rcases h with rfl | rfl | rfl | rfl
  · left; decide
  · left; decide
  · right; decide
  · right; decide

theorem upper_t (ch : Char) (h : ((TTc.any (CC.test ch)) != false) = true) : upperC ch = 'T' := by
  simp only [List.any_cons, List.any_nil, Bool.or_false, CC.test, bne_iff_ne, ne_eq, Bool.not_eq_false,
    Bool.or_eq_true, beq_iff_eq] at h
  rcases h with rfl | rfl <;> decide

/-- **what the parser produces is plain**: for a source without backslashes, every parsed line that
is a command has a blank-only indentation, a type among `G M T` (no sub-code for `T`), and
parameters that are absent or non-empty, free of `; * CR LF`, and trimmed — exactly the
hypotheses of `C18_reparse_partial` and `C18_checksum_validates_partial`. -/
theorem parse_plain (p q : Parser) (src : Text) (off : Nat) (hoff : off ≤ src.length) (hnb : '\\' ∉ src)
    (h : p.parse (some src) (some off) = .ok q) (ty : Char) (code : Nat)
    (hty : q.type = some ty) : (normOf q ty code).WF := by
  obtain ⟨e, caps, hm, hlw, hpar, htype, hsub⟩ := parse_cmd_inv p q src off h
  have hsz : (⟨src.toArray⟩ : Ctx).s.size = src.length := by simp
  obtain ⟨p1, hle, hblank, hcase⟩ := line_inv ⟨src.toArray⟩ off (by rw [hsz]; exact hoff) (e, caps) hm
  rcases hcase with ⟨d2, cC, hd2, ⟨hc1, hc9, hcode⟩, hrest⟩ | ⟨_, h4, h7⟩
  · obtain ⟨hpp, hfr⟩ := restA_plain ⟨src.toArray⟩ (no_bs src hnb) p1 d2 cC (e, caps) hd2 hrest
    have cap1 : capOf caps 1 = some (off, p1) := by
      rw [hfr 1 (by omega) (by omega) (by omega) (by omega) (by omega) (by omega)]; exact hc1
    -- type and sub-code
    have htysub : (ty = 'G' ∨ ty = 'M' ∨ ty = 'T') ∧ (ty = 'T' → q.subCode = none) := by
      rcases hcode with ⟨a, hgm, h4⟩ | ⟨a, htt, h4, h7, h6⟩
      · have cap4 : capOf caps 4 = some (a, a + 1) := by
          rw [hfr 4 (by omega) (by omega) (by omega) (by omega) (by omega) (by omega)]; exact h4
        have hal : a < src.length := by have := passes_lt hgm; rw [hsz] at this; exact this
        have ct4 : capText src caps 4 = some [src[a]] := by
          simp only [capText, cap4, Option.map_some]; rw [slice_single src a hal]
        rw [passes_char src false GMc a src[a] (List.getElem?_eq_getElem hal)] at hgm
        unfold Parser.gcodeMatch at htype
        simp only [ct4, List.isEmpty_cons, Bool.false_eq_true, if_false] at htype
        rw [htype] at hty
        have hty' : upperC src[a] = ty := by simpa using hty
        rcases upper_gm _ hgm with hu | hu
        · rw [hu] at hty'
          exact ⟨Or.inl hty'.symm, fun e => by rw [← hty'] at e; exact absurd e (by decide)⟩
        · rw [hu] at hty'
          exact ⟨Or.inr (Or.inl hty'.symm), fun e => by rw [← hty'] at e; exact absurd e (by decide)⟩
      · have cap4 : capOf caps 4 = none := by
          rw [hfr 4 (by omega) (by omega) (by omega) (by omega) (by omega) (by omega)]; exact h4
        have cap7 : capOf caps 7 = some (a, a + 1) := by
          rw [hfr 7 (by omega) (by omega) (by omega) (by omega) (by omega) (by omega)]; exact h7
        have cap6 : capOf caps 6 = none := by
          rw [hfr 6 (by omega) (by omega) (by omega) (by omega) (by omega) (by omega)]; exact h6
        have hal : a < src.length := by have := passes_lt htt; rw [hsz] at this; exact this
        have ct4 : capText src caps 4 = none := by simp only [capText, cap4, Option.map_none]
        have ct7 : capText src caps 7 = some [src[a]] := by
          simp only [capText, cap7, Option.map_some]; rw [slice_single src a hal]
        have ct6 : capText src caps 6 = none := by simp only [capText, cap6, Option.map_none]
        rw [passes_char src false TTc a src[a] (List.getElem?_eq_getElem hal)] at htt
        unfold Parser.gcodeMatch at htype hsub
        simp only [ct4, ct7] at htype hsub
        rw [htype] at hty
        have hty' : upperC src[a] = ty := by simpa using hty
        rw [upper_t _ htt] at hty'
        refine ⟨Or.inr (Or.inr hty'.symm), fun _ => ?_⟩
        rw [hsub]; simp [ct6]
    refine ⟨?_, htysub.1, htysub.2, ?_⟩
    · -- indentation
      intro c hc
      show c = ' '
      have hc' : c ∈ slice src off p1 := by
        have : q.leadingWhitespace = slice src off p1 := by
          rw [hlw]; simp only [capText, cap1, Option.map_some, Option.getD_some]
        rw [← this]; exact hc
      have := slice_all src false SP off p1 hblank c hc'
      simpa [CC.test] using this
    · -- parameters
      intro ps hps
      have hps' : capText src caps 9 = some ps := by rw [← hpar]; exact hps
      rcases hpp with h9 | ⟨qq, e9, hq1, hq2, hq3, hq4, hq5, hq6, hq7⟩
      · rw [hc9] at h9
        simp only [capText, h9, Option.map_none] at hps'
        cases hps'
      · rw [hsz] at hq3
        simp only [capText, hq4, Option.map_some, Option.some.injEq] at hps'
        subst hps'
        refine ⟨?_, ?_, ?_, ?_⟩
        · intro hnil
          have := slice_length src qq e9 (by omega) hq3
          rw [hnil] at this
          simp at this; omega
        · rw [slice_head src qq e9 hq2, List.getElem?_eq_getElem (by omega)]
          intro hh
          rw [passes_char src false SP qq src[qq] (List.getElem?_eq_getElem (by omega))] at hq6
          have : src[qq] = ' ' := by simpa using hh
          rw [this] at hq6; revert hq6; decide
        · rw [slice_getLast src qq e9 hq2 hq3, List.getElem?_eq_getElem (by omega)]
          intro hh
          rw [passes_char src false SP (e9 - 1) src[e9 - 1] (List.getElem?_eq_getElem (by omega))] at hq7
          have : src[e9 - 1] = ' ' := by simpa using hh
          rw [this] at hq7; revert hq7; decide
        · intro c hc
          have h1 := slice_all src true PSTOP qq e9 hq5 c hc
          have h2 : c ≠ '\\' := by
            intro e; rw [e] at hc; exact hnb (slice_subset src qq e9 _ hc)
          simp only [List.any_cons, List.any_nil, Bool.or_false, CC.test, bne_iff_ne, ne_eq,
            Bool.or_eq_true, beq_iff_eq, not_or] at h1
          exact ⟨h2, h1.1, h1.2.1, h1.2.2.1, h1.2.2.2⟩
  · -- the catch-all alternative sets no type
    exfalso
    have ct4 : capText src caps 4 = none := by simp only [capText, h4, Option.map_none]
    have ct7 : capText src caps 7 = none := by simp only [capText, h7, Option.map_none]
    unfold Parser.gcodeMatch at htype
    simp only [ct4, ct7] at htype
    rw [htype] at hty
    cases hty


/-- **C18 (idempotence), sources without backslashes.**  Whatever text is parsed, at whatever
offset: if the parsed line is a command, re-parsing its normalised command string gives the same
type, code, sub-code, parameters, line number and the same normalised string. -/
theorem C18_idempotent_noescape (p q : Parser) (src : Text) (off : Nat) (hoff : off ≤ src.length)
    (hnb : '\\' ∉ src) (h : p.parse (some src) (some off) = .ok q) (ty : Char) (code : Nat)
    (hty : q.type = some ty) (hc : q.code = some code) :
    ∃ q', ({} : Parser).parse (some q.commandString) = .ok q' ∧
      q'.type = q.type ∧ q'.code = q.code ∧ q'.subCode = q.subCode ∧ q'.parameters = q.parameters ∧
      q'.lineNumber = q.lineNumber ∧ q'.commandString = q.commandString ∧
      q'.offset = 0 ∧ q'.length = q.commandString.length ∧
      q'.checksum = none ∧ q'.comment = none ∧ q'.eol = [] :=
  C18_reparse_partial q ty code hty hc (parse_plain p q src off hoff hnb h ty code hty)

/-- **C18 (checksum self-validation), sources without backslashes.**  A parsed command with a line
number, rendered by `stringify()` (which then appends the checksum), parses back into a line that
`validate()` accepts, with the same fields. -/
theorem C18_checksum_validates_noescape (p q : Parser) (src : Text) (off : Nat) (hoff : off ≤ src.length)
    (hnb : '\\' ∉ src) (h : p.parse (some src) (some off) = .ok q) (n : Nat) (ty : Char) (code : Nat)
    (hln : q.lineNumber = some n) (hty : q.type = some ty) (hc : q.code = some code) :
    ∃ q', ({} : Parser).parse (some (q.stringify (includeComment := false) (includeEol := false))) = .ok q' ∧
      q'.validate = .ok () ∧ q'.checksum = some (computeChecksum q'.text) ∧
      q'.lineNumber = some n ∧ q'.type = q.type ∧ q'.code = q.code ∧ q'.subCode = q.subCode ∧
      q'.parameters = q.parameters ∧ q'.commandString = q.commandString :=
  C18_checksum_validates_partial q n ty code hln hty hc (parse_plain p q src off hoff hnb h ty code hty)

end ERP.C18
