import ERP.Spec.Lifecycle
import ERP.Gen.Consts
import ERP.Lemmas.Monad
import ERP.Lemmas.GenTies
/-! # C11 — Filtering is gated by the print lifecycle -/
namespace ERP.C11
open ERP

variable {α : Type} [Add α] [Sub α] [Mul α] [Div α] [Neg α] [LT α] [LE α] [BEq α]
  [OfNat α 0] [OfNat α 1] [OfNat α 2] [DecidableLT α] [DecidableLE α] [MathOps α] [OfDecimal α]

/-- The event sets of `on_event` in the source are the ones the model dispatches on (the generated
constant is re-read from /repo on every run). -/
theorem event_sets_match_source :
    Gen.onEventBranches = [["FILE_SELECTED"], ["SETTINGS_UPDATED"], ["PRINT_STARTED"],
      ["PRINT_DONE", "PRINT_FAILED", "PRINT_CANCELLING", "PRINT_CANCELLED", "ERROR"]] := by decide

/-- the model's end-of-print events are exactly the five names of the fourth branch -/
theorem endsPrint_iff (n : String) :
    (Event.ofName n).endsPrint = true ↔
      n ∈ ["PRINT_DONE", "PRINT_FAILED", "PRINT_CANCELLING", "PRINT_CANCELLED", "ERROR"] := by
  unfold Event.ofName
  split <;> simp_all [Event.endsPrint]

/-- While no print is active, a G-code passing through the queuing hook is neither altered nor
tracked. -/
theorem inactive_gcode (inch : α) (p : Plugin α) (cmd : Text) (g : Option Text)
    (h : p.activePrintJob = false) :
    p.step inch (.gcode cmd g) = (p, .result .none) := by
  simp only [Plugin.step, Plugin.handleGcodeQueuing, h]
  cases g <;> simp

/-- While no print is active, @-commands have no effect and send nothing. -/
theorem inactive_at (inch : α) (p : Plugin α) (st : Bool) (cmd : String) (ps : Text)
    (h : p.activePrintJob = false) :
    p.step inch (.atCmd st cmd ps) = (p, .sent []) := by
  simp [Plugin.step, Plugin.handleAtCommandQueuing, h]

/-- While no print is active, the script hook contributes nothing. -/
theorem inactive_script (inch : α) (p : Plugin α) (ty nm : String) (h : p.activePrintJob = false) :
    p.step inch (.script ty nm) = (p, .scriptPrefix none) := by
  have : p.handleScriptHook ty nm = .ok (p, none) := by
    unfold Plugin.handleScriptHook
    simp [h]
  simp [Plugin.step, this]

/-- the hooks only ever replace the filter state -/
theorem gcode_frame (inch : α) (p p' : Plugin α) (cmd : Text) (g : Option Text) (r : Result α)
    (h : p.handleGcodeQueuing inch cmd g = .ok (p', r)) : p' = { p with st := p'.st } := by
  unfold Plugin.handleGcodeQueuing at h
  cases g with
  | none => cases h; rfl
  | some g =>
    simp only at h
    split at h
    · obtain ⟨a, _, ha⟩ := M.bind_eq_ok h
      cases ha; rfl
    · cases h; rfl

theorem at_frame (p p' : Plugin α) (st : Bool) (cmd : String) (ps : Text) (l : List (Out α))
    (h : p.handleAtCommandQueuing st cmd ps = .ok (p', l)) : p' = { p with st := p'.st } := by
  unfold Plugin.handleAtCommandQueuing at h
  split at h
  · obtain ⟨a, _, ha⟩ := M.bind_eq_ok h
    cases ha; rfl
  · cases h; rfl

theorem script_frame (p p' : Plugin α) (ty nm : String) (o : Option (List (Out α)))
    (h : p.handleScriptHook ty nm = .ok (p', o)) : p' = { p with st := p'.st } := by
  unfold Plugin.handleScriptHook at h
  split at h
  · split at h
    · obtain ⟨a, _, ha⟩ := M.bind_eq_ok h
      cases ha; rfl
    · cases h; rfl
  · cases h; rfl

theorem step_active (inch : α) (p : Plugin α) (op : POp α) :
    (p.step inch op).1.activePrintJob = specActiveOp p.activePrintJob op := by
  cases op with
  | event e =>
    cases e <;> simp [Plugin.step, Plugin.onEvent, specActiveOp, specActive, Plugin.notify,
      Plugin.handleSettingsUpdated]
    all_goals split <;> rfl
  | save s => simp [Plugin.step, Plugin.onEvent, specActiveOp, Plugin.handleSettingsUpdated]
  | api anon req =>
    simp only [Plugin.step, specActiveOp, Plugin.onApiCommand]
    split
    · rfl
    · split <;> (try split) <;> (try split) <;> simp [Plugin.notify]
  | get => rfl
  | gcode cmd g =>
    simp only [Plugin.step, specActiveOp]
    split
    · rename_i h; rw [gcode_frame inch p _ cmd g _ h]
    · rfl
  | atCmd st cmd ps =>
    simp only [Plugin.step, specActiveOp]
    split
    · rename_i h; rw [at_frame p _ st cmd ps _ h]
    · rfl
  | script ty nm =>
    simp only [Plugin.step, specActiveOp]
    split
    · rename_i h; rw [script_frame p _ ty nm _ h]
    · rfl

/-- **Lifecycle.** After any interleaving of events, hook invocations, API calls and settings
saves, the plugin considers a print active exactly when the reference automaton does. -/
theorem active_matches_lifecycle (inch : α) (ops : List (POp α)) :
    ∀ p : Plugin α, (Plugin.run inch p ops).1.activePrintJob = ops.foldl specActiveOp p.activePrintJob := by
  induction ops with
  | nil => intro p; rfl
  | cons op rest ih =>
    intro p
    simp only [Plugin.run, List.foldl_cons]
    rw [ih, step_active]

/-- Selecting a file removes all regions. -/
theorem fileSelected_clears (inch : α) (p : Plugin α) :
    (p.step inch (.event .fileSelected)).1.st.excludedRegions = [] := by
  simp [Plugin.step, Plugin.onEvent, Plugin.notify, FState.reset]

/-- The end of a print removes the regions exactly when the clear-after-print setting is on. -/
theorem printEnd_regions (inch : α) (p : Plugin α) (e : Event) (he : e.endsPrint = true) :
    (p.step inch (.event e)).1.st.excludedRegions =
      if p.clearRegionsAfterPrintFinishes then [] else p.st.excludedRegions := by
  cases e <;> simp [Event.endsPrint] at he <;>
    simp only [Plugin.step, Plugin.onEvent] <;> split <;> simp_all [Plugin.notify, FState.reset]

/-- Pause, resume and every other event change nothing. -/
theorem other_event_noop (inch : α) (p : Plugin α) (n : String) :
    p.step inch (.event (.other n)) = (p, .unit) := rfl

/-- print-started keeps the regions -/
theorem printStarted_keeps_regions (inch : α) (p : Plugin α) :
    (p.step inch (.event .printStarted)).1.st.excludedRegions = p.st.excludedRegions := by
  simp [Plugin.step, Plugin.onEvent, FState.reset]

end ERP.C11
