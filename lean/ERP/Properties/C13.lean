import ERP.Spec.Lifecycle
import ERP.Lemmas.Monad
import Mathlib.Data.List.Nodup
import ERP.Lemmas.GenConsts
import ERP.Lemmas.GenTies
/-! # C13 — Region registry integrity and client notification

Quantified over API requests (valid, duplicate id, unknown id, wrong type, anonymous) interleaved
with events and settings saves. -/
namespace ERP.C13
open ERP
set_option linter.unusedSectionVars false

variable {α : Type} [Add α] [Sub α] [Mul α] [Div α] [Neg α] [LT α] [LE α] [BEq α]
  [OfNat α 0] [OfNat α 1] [OfNat α 2] [DecidableLT α] [DecidableLE α] [MathOps α] [OfDecimal α]

/-- the operations C13 quantifies over -/
def RegistryOp : POp α → Prop
  | .event _ | .save _ | .api _ _ | .get => True
  | _ => False

def ids (p : Plugin α) : List String := p.st.excludedRegions.map Region.id

theorem getRegion_none {s : FState α} {i : String} (h : s.getRegion i = none) :
    i ∉ s.excludedRegions.map Region.id := by
  unfold FState.getRegion at h
  rw [List.find?_eq_none] at h
  intro hm
  obtain ⟨r, hr, rfl⟩ := List.mem_map.mp hm
  exact h r hr (by simp)

theorem deleteFirst_sublist (rs rs' : List (Region α)) (i : String) (h : deleteFirst rs i = some rs') :
    List.Sublist (rs'.map Region.id) (rs.map Region.id) := by
  induction rs generalizing rs' with
  | nil => simp [deleteFirst] at h
  | cons r rest ih =>
    simp only [deleteFirst] at h
    split at h
    · cases h; simp
    · cases hd : deleteFirst rest i with
      | none => simp [hd] at h
      | some t =>
        simp [hd] at h; subst h
        simpa using (ih t hd).cons₂ r.id

theorem deleteRegion_cases (s : FState α) (i : String) :
    (∃ t, deleteFirst s.excludedRegions i = some t ∧
      s.deleteRegion i = ({ s with excludedRegions := t }, true)) ∨
    (deleteFirst s.excludedRegions i = none ∧ s.deleteRegion i = (s, false)) := by
  unfold FState.deleteRegion
  cases hd : deleteFirst s.excludedRegions i with
  | none => right; exact ⟨rfl, rfl⟩
  | some t => left; exact ⟨t, rfl, rfl⟩

theorem replaceFirst_ids (rs rs' : List (Region α)) (new : Region α) (must : Bool)
    (h : replaceFirst rs new must = .ok rs') : rs'.map Region.id = rs.map Region.id := by
  induction rs generalizing rs' with
  | nil => simp [replaceFirst] at h
  | cons r rest ih =>
    simp only [replaceFirst] at h
    split at h
    · rename_i hid
      split at h
      · cases h
      · cases h
        simp at hid
        simp [hid]
    · obtain ⟨t, ht, h2⟩ := M.bind_eq_ok h
      cases h2
      simp [ih t ht]

/-- **Region ids stay unique.** -/
theorem ids_nodup_step (inch : α) (p : Plugin α) (op : POp α) (hop : RegistryOp op)
    (h : (ids p).Nodup) : (ids (p.step inch op).1).Nodup := by
  cases op with
  | event e =>
    cases e <;> simp only [Plugin.step, Plugin.onEvent, ids, Plugin.notify, FState.reset,
      Plugin.handleSettingsUpdated] <;> (try split) <;> first | exact h | simp
  | save s => simpa [Plugin.step, Plugin.onEvent, ids, Plugin.handleSettingsUpdated] using h
  | get => exact h
  | api anon req =>
    simp only [Plugin.step, Plugin.onApiCommand, ids]
    split
    · exact h
    · cases req with
      | delete i =>
        simp only
        split
        · exact h
        · rcases deleteRegion_cases p.st i with ⟨t, hd, he⟩ | ⟨hd, he⟩
          · simp only [he, Plugin.notify, if_true]
            exact List.Nodup.sublist (deleteFirst_sublist _ _ _ hd) h
          · simpa [he, ids] using h
      | badType c => exact h
      | unknown => exact h
      | add r =>
        simp only [FState.addRegion]
        cases hg : p.st.getRegion r.id with
        | none =>
          simp only [Plugin.notify, List.map_append, List.map_cons, List.map_nil]
          exact List.Nodup.append h (by simp) (by
            intro a ha hb; simp at hb; subst hb; exact getRegion_none hg ha)
        | some _ => exact h
      | update r =>
        simp only [FState.replaceRegion]
        cases hr : replaceFirst p.st.excludedRegions r
            (!p.mayShrinkRegionsWhilePrinting && p.activePrintJob) with
        | error e => simpa [ids, M.error_bind] using h
        | ok t =>
          simp only [M.ok_bind, Plugin.notify]
          rw [replaceFirst_ids _ _ _ _ hr]; exact h
  | gcode _ _ => exact absurd hop (by simp [RegistryOp])
  | atCmd _ _ _ => exact absurd hop (by simp [RegistryOp])
  | script _ _ => exact absurd hop (by simp [RegistryOp])

/-- A rejected or unauthenticated request leaves the plugin (in particular the region list)
untouched. -/
theorem rejected_unchanged (inch : α) (p : Plugin α) (anon : Bool) (req : ApiReq α) (code : Nat)
    (h : (p.step inch (.api anon req)).2 = .resp (some code)) :
    (p.step inch (.api anon req)).1 = p := by
  simp only [Plugin.step, Plugin.onApiCommand] at h ⊢
  split
  · rfl
  · rename_i ha
    simp only [ha, Bool.false_eq_true, if_false] at h
    cases req with
    | delete i =>
      simp only at h ⊢
      split
      · rfl
      · rename_i hc; simp [hc] at h
    | badType c => rfl
    | unknown => rfl
    | add r =>
      simp only at h ⊢
      cases hg : p.st.addRegion r with
      | ok s => simp [hg] at h
      | error e => rfl
    | update r =>
      simp only at h ⊢
      cases hg : p.st.replaceRegion r (!p.mayShrinkRegionsWhilePrinting && p.activePrintJob) with
      | ok s => simp [hg] at h
      | error e => rfl

theorem anonymous_unchanged (inch : α) (p : Plugin α) (req : ApiReq α) :
    p.step inch (.api true req) = (p, .resp (some 403)) := by
  simp [Plugin.step, Plugin.onApiCommand]

/-- **Notification.** Every step either leaves both the region list and the notification log
alone, or appends exactly one notification whose payload is the new region list. -/
theorem notify_exactly_once (inch : α) (p : Plugin α) (op : POp α) (hop : RegistryOp op) :
    let p' := (p.step inch op).1
    (p'.st.excludedRegions = p.st.excludedRegions ∧ p'.notifications = p.notifications) ∨
    p'.notifications = p.notifications ++ [p'.st.excludedRegions] := by
  cases op with
  | event e =>
    cases e <;> simp only [Plugin.step, Plugin.onEvent, Plugin.notify, FState.reset,
      Plugin.handleSettingsUpdated] <;> (try split) <;> simp
  | save s => simp [Plugin.step, Plugin.onEvent, Plugin.handleSettingsUpdated]
  | get => left; exact ⟨rfl, rfl⟩
  | api anon req =>
    simp only [Plugin.step, Plugin.onApiCommand]
    split
    · left; exact ⟨rfl, rfl⟩
    · cases req with
      | delete i =>
        simp only
        split
        · left; exact ⟨rfl, rfl⟩
        · rcases deleteRegion_cases p.st i with ⟨t, hd, he⟩ | ⟨hd, he⟩
          · right; simp [he, Plugin.notify]
          · left; simp [he]
      | badType c => left; exact ⟨rfl, rfl⟩
      | unknown => left; exact ⟨rfl, rfl⟩
      | add r =>
        simp only
        cases hg : p.st.addRegion r with
        | ok s => right; simp [Plugin.notify]
        | error e => left; exact ⟨rfl, rfl⟩
      | update r =>
        simp only
        cases hg : p.st.replaceRegion r (!p.mayShrinkRegionsWhilePrinting && p.activePrintJob) with
        | ok s => right; simp [Plugin.notify]
        | error e => left; exact ⟨rfl, rfl⟩
  | gcode _ _ => exact absurd hop (by simp [RegistryOp])
  | atCmd _ _ _ => exact absurd hop (by simp [RegistryOp])
  | script _ _ => exact absurd hop (by simp [RegistryOp])

/-- The GET response is the current list, in order. -/
theorem get_payload (inch : α) (p : Plugin α) :
    p.step inch .get = (p, .regions p.st.excludedRegions) := rfl

/-- Lifted to every history of registry operations from a freshly initialised plugin: ids are
pairwise distinct at all times, and the last notification (there is always one: `initialize`
sends it) carries the current list. -/
theorem registry_invariant (inch : α) (ops : List (POp α)) (hops : ∀ op ∈ ops, RegistryOp op) :
    ∀ p : Plugin α, (ids p).Nodup → p.notifications.getLast? = some p.st.excludedRegions →
      let p' := (Plugin.run inch p ops).1
      (ids p').Nodup ∧ p'.notifications.getLast? = some p'.st.excludedRegions := by
  induction ops with
  | nil => intro p h1 h2; exact ⟨h1, h2⟩
  | cons op rest ih =>
    intro p h1 h2
    have hop := hops op (by simp)
    have hn := ids_nodup_step inch p op hop h1
    have hl : (p.step inch op).1.notifications.getLast? = some (p.step inch op).1.st.excludedRegions := by
      rcases notify_exactly_once inch p op hop with ⟨e1, e2⟩ | e
      · rw [e1, e2]; exact h2
      · rw [e]; simp
    exact ih (fun o ho => hops o (by simp [ho])) _ hn hl

/-- The initial plugin satisfies the invariant (non-vacuity). -/
theorem initialize_invariant (st : Settings) :
    (ids (Plugin.initialize st : Plugin α)).Nodup ∧
    (Plugin.initialize st : Plugin α).notifications.getLast? =
      some (Plugin.initialize st : Plugin α).st.excludedRegions := by
  simp [Plugin.initialize, ids, Plugin.notify, Plugin.handleSettingsUpdated, FState.reset]

end ERP.C13
