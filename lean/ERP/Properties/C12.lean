import ERP.Spec.Lifecycle
import ERP.Total
import ERP.Lemmas.Monad
import ERP.Properties.C17
import ERP.Lemmas.GenGeometry
import ERP.Lemmas.GenConsts
import ERP.Lemmas.GenTies
/-! # C12 — The excluded area never shrinks during an active print unless explicitly allowed -/
namespace ERP.C12
open ERP
set_option linter.unusedSectionVars false

variable {α : Type} [Field α] [LinearOrder α] [IsStrictOrderedRing α] [MathOps α] [MathSpec α]
  [OfDecimal α]

/-- a point is excluded by the current region list (whether or not exclusion is switched on) -/
def excluded (p : Plugin α) (x y : α) : Bool := T.anyContains p.st.excludedRegions x y

theorem replaceFirst_monotone (rs rs' : List (Region α)) (new : Region α)
    (h : replaceFirst rs new true = .ok rs') (x y : α)
    (hx : T.anyContains rs x y = true) : T.anyContains rs' x y = true := by
  induction rs generalizing rs' with
  | nil => simp [replaceFirst] at h
  | cons r rest ih =>
    simp only [replaceFirst] at h
    split at h
    · split at h
      · cases h
      · rename_i hc
        cases h
        simp only [Bool.true_and, Bool.not_eq_true', Bool.not_eq_false] at hc
        simp only [T.anyContains, List.any_cons, Bool.or_eq_true] at hx ⊢
        rcases hx with hx | hx
        · left; exact C17.containsRegion_sound new r (by simpa using hc) x y hx
        · right; exact hx
    · obtain ⟨t, ht, h2⟩ := M.bind_eq_ok h
      cases h2
      simp only [T.anyContains, List.any_cons, Bool.or_eq_true] at hx ⊢
      rcases hx with hx | hx
      · left; exact hx
      · right; exact ih t ht hx

/-- **One request.** While a print is active and shrinking is not allowed: every point that was
excluded is still excluded, a refused request changes nothing, deletions are refused, and the
guard (active print, setting) is untouched by API requests. -/
theorem request_monotone (p : Plugin α) (hact : p.activePrintJob = true)
    (hs : p.mayShrinkRegionsWhilePrinting = false) (anon : Bool) (req : ApiReq α) :
    let r := p.onApiCommand anon req
    (∀ x y, excluded p x y = true → excluded r.1 x y = true) ∧
    (r.2 ≠ none → r.1 = p) ∧
    r.1.activePrintJob = true ∧ r.1.mayShrinkRegionsWhilePrinting = false := by
  simp only [Plugin.onApiCommand]
  split
  · exact ⟨fun _ _ h => h, fun _ => rfl, hact, hs⟩
  · cases req with
    | delete i => simp only [hs, hact]; exact ⟨fun _ _ h => h, fun _ => rfl, hact, hs⟩
    | badType c => exact ⟨fun _ _ h => h, fun _ => rfl, hact, hs⟩
    | unknown => exact ⟨fun _ _ h => h, fun _ => rfl, hact, hs⟩
    | add r =>
      simp only [FState.addRegion]
      cases p.st.getRegion r.id with
      | some _ => exact ⟨fun _ _ h => h, fun _ => rfl, hact, hs⟩
      | none =>
        refine ⟨?_, fun h => absurd rfl h, hact, hs⟩
        intro x y h
        simp only [excluded, Plugin.notify, T.anyContains, List.any_append, Bool.or_eq_true] at h ⊢
        left; exact h
    | update r =>
      simp only [FState.replaceRegion, hs, hact, Bool.not_false, Bool.and_self]
      cases hr : replaceFirst p.st.excludedRegions r true with
      | error e => exact ⟨fun _ _ h => h, fun _ => rfl, hact, hs⟩
      | ok t =>
        simp only [M.ok_bind]
        refine ⟨?_, fun h => absurd rfl h, rfl, rfl⟩
        intro x y h
        exact replaceFirst_monotone _ _ _ hr x y h

/-- a deletion during an active print with shrinking off is refused with 409 -/
theorem delete_refused (p : Plugin α) (hact : p.activePrintJob = true)
    (hs : p.mayShrinkRegionsWhilePrinting = false) (i : String) :
    p.onApiCommand false (.delete i) = (p, some 409) := by
  simp [Plugin.onApiCommand, hs, hact]

def applyAll (p : Plugin α) : List (Bool × ApiReq α) → Plugin α
  | [] => p
  | (anon, req) :: rest => applyAll (p.onApiCommand anon req).1 rest

/-- **C12.** No sequence of API requests can make an excluded point stop being excluded while a
print is active and the shrink-while-printing setting is off. -/
theorem C12_never_shrinks (reqs : List (Bool × ApiReq α)) :
    ∀ p : Plugin α, p.activePrintJob = true → p.mayShrinkRegionsWhilePrinting = false →
      ∀ x y, excluded p x y = true → excluded (applyAll p reqs) x y = true := by
  induction reqs with
  | nil => intro p _ _ x y h; exact h
  | cons r rest ih =>
    intro p hact hs x y h
    obtain ⟨anon, req⟩ := r
    obtain ⟨h1, _, h3, h4⟩ := request_monotone p hact hs anon req
    exact ih _ h3 h4 x y (h1 x y h)

end ERP.C12

/-! ## The acceptance criterion of a guarded update, exactly (session 5)

`request_monotone` shows that whatever is accepted is safe.  With `C17.containsRegion_iff` the
converse is available too: an update is accepted *iff* the new geometry covers the old region, so
the guard neither lets a shrinking update through nor refuses a covering one.  The side condition
`C17.Region.Proper` (ordered corners, non-negative radius) is genuinely needed for "refuses no
covering update": a stored circle with a negative radius has no points, is covered by anything,
and may still be refused by `hypot + r_old ≤ r_new`. -/
namespace ERP.C12
open ERP
set_option linter.unusedSectionVars false
variable {α : Type} [Field α] [LinearOrder α] [IsStrictOrderedRing α] [MathOps α] [MathSpec α]
  [OfDecimal α]

/-- the first region of the list with the id of `new`, if any: the one an update replaces -/
def firstWithId (rs : List (Region α)) (new : Region α) : Option (Region α) :=
  rs.find? (fun r => r.id == new.id)

/-- **Acceptance criterion of a guarded update, exactly.** With the must-contain-old check on,
`replaceRegion` succeeds precisely when the list holds a region with the new region's id and the
new region covers every point of (the first) such region; otherwise it raises and, by
`request_monotone`, nothing changes.  (`⇐` needs the old region to be one the plugin can hold,
`C17.Region.Proper`; `⇒` is unconditional.) -/
theorem replaceFirst_accepts_iff (rs : List (Region α)) (new : Region α)
    (hp : ∀ r ∈ rs, C17.Region.Proper r) :
    (∃ rs', replaceFirst rs new true = .ok rs') ↔
      ∃ old, firstWithId rs new = some old ∧
        ∀ x y, old.containsPoint x y = true → new.containsPoint x y = true := by
  induction rs with
  | nil => simp [replaceFirst, firstWithId]
  | cons r rest ih =>
    have hpr := hp r (List.mem_cons_self)
    have ih' := ih (fun q hq => hp q (List.mem_cons_of_mem _ hq))
    by_cases hid : (r.id == new.id) = true
    · simp only [replaceFirst, hid, if_true, firstWithId, List.find?_cons_of_pos, Bool.true_and,
        Option.some.injEq, exists_eq_left']
      rw [← C17.containsRegion_iff new r hpr]
      cases hc : new.containsRegion r <;> simp
    · have hid' : (r.id == new.id) = false := by simpa using hid
      simp only [firstWithId] at ih' ⊢
      simp only [replaceFirst, Bool.false_eq_true, if_false, List.find?_cons, hid']
      rw [← ih']
      constructor
      · rintro ⟨rs', h⟩
        obtain ⟨t, ht, _⟩ := M.bind_eq_ok h
        exact ⟨t, ht⟩
      · rintro ⟨t, ht⟩
        exact ⟨r :: t, by rw [ht]; rfl⟩

end ERP.C12

namespace ERP.C12
open ERP
set_option linter.unusedSectionVars false
variable {α : Type} [Field α] [LinearOrder α] [IsStrictOrderedRing α] [MathOps α] [MathSpec α]
  [OfDecimal α]

/-- **The update clause of C12 at the API.** While a print is active and shrinking is off, an
authorised update request is answered without an error status exactly when a region with that id
exists and the new geometry covers all of it; in every other case the answer is 409 and the
plugin is unchanged. -/
theorem update_accepted_iff (p : Plugin α) (hact : p.activePrintJob = true)
    (hs : p.mayShrinkRegionsWhilePrinting = false) (new : Region α)
    (hp : ∀ r ∈ p.st.excludedRegions, C17.Region.Proper r) :
    let r := p.onApiCommand false (.update new)
    (r.2 = none ↔ ∃ old, firstWithId p.st.excludedRegions new = some old ∧
        ∀ x y, old.containsPoint x y = true → new.containsPoint x y = true) ∧
    (r.2 ≠ none → r = (p, some 409)) := by
  have key := replaceFirst_accepts_iff p.st.excludedRegions new hp
  simp only [Plugin.onApiCommand, Bool.false_eq_true, if_false, FState.replaceRegion, hs, hact,
    Bool.not_false, Bool.and_self]
  cases hr : replaceFirst p.st.excludedRegions new true with
  | error e =>
    rw [hr] at key
    simp only [reduceCtorEq, exists_false, false_iff] at key
    refine ⟨⟨fun h => ?_, fun h => absurd h key⟩, fun _ => rfl⟩
    simp [M.error_bind] at h
  | ok t =>
    rw [hr] at key
    simp only [M.ok_bind]
    exact ⟨⟨fun _ => key.mp ⟨t, rfl⟩, fun _ => trivial⟩, fun h => absurd rfl h⟩

end ERP.C12

namespace ERP.C12
open ERP
set_option linter.unusedSectionVars false
variable {α : Type} [Field α] [LinearOrder α] [IsStrictOrderedRing α] [MathOps α] [MathSpec α]
  [OfDecimal α]

/-- what an accepted update does to the list: exactly the first region with that id is replaced,
every other entry stays where it is (`must` on or off) -/
theorem replaceFirst_ok_shape (rs rs' : List (Region α)) (new : Region α) (must : Bool)
    (h : replaceFirst rs new must = .ok rs') :
    ∃ pre old post, rs = pre ++ old :: post ∧ rs' = pre ++ new :: post ∧
      (old.id == new.id) = true ∧ (∀ r ∈ pre, (r.id == new.id) = false) ∧
      (must = true → new.containsRegion old = true) := by
  induction rs generalizing rs' with
  | nil => simp [replaceFirst] at h
  | cons r rest ih =>
    simp only [replaceFirst] at h
    by_cases hid : (r.id == new.id) = true
    · simp only [hid, if_true] at h
      split at h
      · cases h
      · rename_i hc
        cases h
        refine ⟨[], r, rest, rfl, rfl, hid, by simp, fun hm => ?_⟩
        simpa [hm] using hc
    · simp only [hid, Bool.false_eq_true, if_false] at h
      obtain ⟨t, ht, h2⟩ := M.bind_eq_ok h
      cases h2
      obtain ⟨pre, old, post, e1, e2, e3, e4, e5⟩ := ih t ht
      refine ⟨r :: pre, old, post, by rw [e1]; rfl, by rw [e2]; rfl, e3, ?_, e5⟩
      intro q hq
      rcases List.mem_cons.mp hq with rfl | hq
      · simpa using hid
      · exact e4 q hq

end ERP.C12

namespace ERP.C12
open ERP
set_option linter.unusedSectionVars false
variable {α : Type} [Field α] [LinearOrder α] [IsStrictOrderedRing α] [MathOps α] [MathSpec α]
  [OfDecimal α]

theorem replaceFirst_skip (pre : List (Region α)) (x : Region α) (post : List (Region α))
    (new : Region α) (must : Bool) (hpre : ∀ r ∈ pre, (r.id == new.id) = false)
    (hx : (x.id == new.id) = true) (hc : must = true → new.containsRegion x = true) :
    replaceFirst (pre ++ x :: post) new must = .ok (pre ++ new :: post) := by
  induction pre with
  | nil =>
    simp only [List.nil_append, replaceFirst, hx, if_true]
    cases must with
    | false => simp
    | true => simp [hc rfl]
  | cons r pre ih =>
    have h1 := hpre r List.mem_cons_self
    have ih' := ih (fun q hq => hpre q (List.mem_cons_of_mem _ hq))
    simp only [List.cons_append, replaceFirst, h1, Bool.false_eq_true, if_false, ih']
    rfl

/-- **Updates are idempotent.** Re-sending an update that was accepted is accepted again (the new
region being one the plugin can hold) and leaves the region list as it is. -/
theorem update_idempotent (rs rs' : List (Region α)) (new : Region α) (must : Bool)
    (hn : C17.Region.Proper new) (h : replaceFirst rs new must = .ok rs') :
    replaceFirst rs' new must = .ok rs' := by
  obtain ⟨pre, old, post, _, e2, _, e4, _⟩ := replaceFirst_ok_shape rs rs' new must h
  rw [e2]
  exact replaceFirst_skip pre new post new must e4 (by simp) (fun _ => C17.containsRegion_refl new hn)

end ERP.C12
