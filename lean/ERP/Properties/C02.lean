import ERP.Lemmas.Ctrl
import ERP.Lemmas.RealOps
import ERP.Lemmas.GenTies
/-! # C02 — Transparency: a print that never touches a region is forwarded verbatim -/
namespace ERP.C02
open ERP T Spec
set_option linter.unusedSectionVars false

variable {α : Type} [Field α] [LinearOrder α] [IsStrictOrderedRing α] [MathOps α] [MathSpec α]

/-- nothing is pending: no episode open, nothing deferred, no recovery owed -/
structure Quiet (s : FState α) : Prop where
  notExcluding : s.excluding = false
  noPending : s.pendingCommands = []
  noOwed : ∀ lr, s.lastRetraction = some lr → lr.recoverExcluded = false

/-- the command is forwarded exactly as it came -/
def Verbatim (cmd : Cmd α) (r : Result α) : Prop := fwdOf cmd r = [.orig cmd]

theorem quiet_of_frame {s s' : FState α} (hq : Quiet s)
    (h : s' = { s with lastRetraction := s'.lastRetraction })
    (ho : ∀ lr, s'.lastRetraction = some lr → lr.recoverExcluded = false) : Quiet s' :=
  ⟨by rw [h]; exact hq.notExcluding, by rw [h]; exact hq.noPending, ho⟩

theorem recordRetraction_quiet (s : FState α) (r : Retraction α) (h : WF s) (hq : Quiet s)
    (hr : r.recoverExcluded = false) :
    (T.recordRetraction s r).2 = [.orig r.originalCommand] ∧ Quiet (T.recordRetraction s r).1 := by
  have hfr := recordRetraction_frame s r h
  have hex := hq.notExcluding
  have key : (T.recordRetraction s r).2 = [.orig r.originalCommand] ∧
      ∀ lr, (T.recordRetraction s r).1.lastRetraction = some lr → lr.recoverExcluded = false := by
    unfold T.recordRetraction
    cases hl : s.lastRetraction with
    | none =>
      simp only [hex, Bool.false_eq_true, if_false]
      exact ⟨trivial, fun lr h => by simp at h; subst h; exact hr⟩
    | some lr0 =>
      have h0 := hq.noOwed lr0 hl
      simp only [h0, Bool.false_eq_true, if_false, hex]
      split
      · refine ⟨rfl, fun lr h => ?_⟩
        simp at h; subst h
        unfold T.combine; split <;> exact h0
      · exact ⟨rfl, fun lr h => by rw [hl] at h; cases h; exact h0⟩
  exact ⟨key.1, quiet_of_frame hq hfr key.2⟩

theorem recoverIfNeeded_quiet (s : FState α) (cmd : Cmd α) (b : Bool) (h : WF s) (hq : Quiet s) :
    (T.recoverRetractionIfNeeded s cmd b).2 = [.orig cmd] ∧ Quiet (T.recoverRetractionIfNeeded s cmd b).1 := by
  have hfr := recoverIfNeeded_frame s cmd b h
  have hex := hq.notExcluding
  have key : (T.recoverRetractionIfNeeded s cmd b).2 = [.orig cmd] ∧
      (T.recoverRetractionIfNeeded s cmd b).1.lastRetraction = none := by
    unfold T.recoverRetractionIfNeeded T.recoverRetraction
    cases hl : s.lastRetraction with
    | none => simp [hex, hl]
    | some lr0 =>
      have h0 := hq.noOwed lr0 hl
      simp [hex, h0]
  exact ⟨key.1, quiet_of_frame hq hfr (fun lr hl => by rw [key.2] at hl; cases hl)⟩

theorem processNonMove_quiet (s : FState α) (cmd : Cmd α) (dE : α) (h : WF s) (hq : Quiet s) :
    (T.processNonMove s cmd dE).2 = [.orig cmd] ∧ Quiet (T.processNonMove s cmd dE).1 := by
  unfold T.processNonMove
  by_cases h1 : dE < 0
  · simp only [h1, if_true]
    obtain ⟨r1, r2⟩ := recordRetraction_quiet s
      ({ firmwareRetract := false, extrusionAmount := some (-dE), feedRate := some s.feedRate, originalCommand := cmd } : Retraction α) h hq rfl
    generalize T.recordRetraction s _ = rr at *
    obtain ⟨s1, c1⟩ := rr
    simp only at r1 r2 ⊢
    subst r1
    simp only [List.isEmpty_cons, Bool.false_and, Bool.false_eq_true, if_false]
    exact ⟨trivial, r2⟩
  · by_cases h2 : 0 < dE
    · simp only [h1, h2, if_true, if_false]; exact recoverIfNeeded_quiet s cmd true h hq
    · simp only [h1, h2, if_false, hq.notExcluding, Bool.not_false, if_true]; exact ⟨trivial, hq⟩

/-- a move that hits nothing, in a quiet state: forwarded verbatim, state stays quiet -/
theorem plm_quiet (cfg : Config) (s : FState α) (cmd : Cmd α) (ep fr fz : Option α)
    (xy : List (Option α × Option α)) (h : WF s) (hq : Quiet s) (hhit : hitOf s ep fr fz xy = false) :
    Verbatim cmd (T.processLinearMoves cfg s cmd ep fr fz xy).2 ∧
    Quiet (T.processLinearMoves cfg s cmd ep fr fz xy).1 := by
  have hs1 := applyEZF_WF s ep fr fz h
  have hq1 : Quiet (T.applyEZF s ep fr fz) := by
    obtain ⟨_, _, _, a4, _, a6⟩ := applyEZF_pos s ep fr fz
    refine ⟨by rw [a4]; exact hq.notExcluding, by rw [a6]; exact hq.noPending, ?_⟩
    intro lr hl
    apply hq.noOwed lr
    unfold T.applyEZF at hl; cases fr <;> exact hl
  simp only [Verbatim, T.processLinearMoves, fwdOf_toResult, toResult_fst]
  generalize T.deltaEOf s ep = dE
  by_cases hm : T.isMoveOf fz xy = true
  · simp only [hitOf, hm, Bool.true_and] at hhit
    simp only [hm, Bool.not_true, Bool.false_eq_true, if_false, T.moveBody, hhit]
    have hloop := isAnyLoop_pos xy (T.applyEZF s ep fr fz) false
    obtain ⟨hw2, _, _⟩ := isAnyLoop_WF xy _ false hs1
    generalize (T.isAnyLoop (T.applyEZF s ep fr fz) xy false).1 = s2 at *
    have hq2 : Quiet s2 := by
      rw [hloop]
      exact ⟨hq1.notExcluding, hq1.noPending, hq1.noOwed⟩
    simp only [hq2.notExcluding, Bool.false_eq_true, if_false]
    split
    · obtain ⟨r1, r2⟩ := recoverIfNeeded_quiet s2 cmd false hw2 hq2
      generalize T.recoverRetractionIfNeeded s2 cmd false = r3 at *
      cases hl : s2.lastRetraction with
      | none => exact ⟨r1, r2⟩
      | some lr =>
        have := hq2.noOwed lr hl
        simp only [this, Bool.false_and, Bool.false_eq_true, if_false]
        exact ⟨r1, r2⟩
    · exact ⟨rfl, hq2⟩
  · simp only [hm, Bool.not_false, if_true]
    obtain ⟨r1, r2⟩ := processNonMove_quiet _ cmd dE hs1 hq1
    unfold T.nonMoveBody
    cases hl : (T.applyEZF s ep fr fz).lastRetraction with
    | none => exact ⟨r1, r2⟩
    | some lr =>
      have := hq1.noOwed lr hl
      simp only [this, Bool.and_false, Bool.false_and, Bool.false_eq_true, if_false]
      exact ⟨r1, r2⟩

/-- does an arc command test a sample that lies in an enabled region? (mirrors `_handle_G2`:
`false` when the arc is not executed) -/
def arcHit (s : FState α) (cmd : Cmd α) (clockwise : Bool) : Bool :=
  let w := cmd.words
  let x := (lastValue w 'X').getD (n2l s.position.x)
  let y := (lastValue w 'Y').getD (n2l s.position.y)
  let z := (lastValue w 'Z').getD (n2l s.position.z)
  let (i, j) := match lastValue w 'R' with
    | some r => T.computeArcCenterOffsets s.position x y r clockwise
    | none => ((lastValue w 'I').getD 0, (lastValue w 'J').getD 0)
  if !(i == 0) || !(j == 0) then
    hitOf s (lastValue w 'E') (lastValue w 'F') (some z)
      ((T.planArc s.position x y i j clockwise).map (fun (a, b) => (some a, some b)))
  else false

/-- does the command test a point that lies in an enabled region? (linear move: its destination;
arc: any of its samples; anything else: no) -/
def hits (s : FState α) (g : String) (cmd : Cmd α) : Bool :=
  match Code.ofString g with
  | .G0 | .G1 => hitOf s (lastValue cmd.words 'E') (lastValue cmd.words 'F') (lastValue cmd.words 'Z')
      [(lastValue cmd.words 'X', lastValue cmd.words 'Y')]
  | .G2 => arcHit s cmd true
  | .G3 => arcHit s cmd false
  | _ => false

theorem arc_quiet (cfg : Config) (s : FState α) (cmd : Cmd α) (cw : Bool) (h : WF s) (hq : Quiet s)
    (hno : arcHit s cmd cw = false) :
    Verbatim cmd (T.handleG2 cfg s cmd cw).2 ∧ Quiet (T.handleG2 cfg s cmd cw).1 := by
  unfold arcHit at hno
  unfold T.handleG2
  dsimp only at hno ⊢
  revert hno
  cases lastValue cmd.words 'R' with
  | none =>
    intro hno
    dsimp only at hno ⊢
    split
    · rename_i hc; rw [if_pos hc] at hno; exact plm_quiet cfg s cmd _ _ _ _ h hq hno
    · exact ⟨rfl, hq⟩
  | some r =>
    intro hno
    dsimp only at hno ⊢
    split
    · rename_i hc; rw [if_pos hc] at hno; exact plm_quiet cfg s cmd _ _ _ _ h hq hno
    · exact ⟨rfl, hq⟩

/-- **One command.** In a quiet state, a command that hits no region is forwarded verbatim (the
hook returns `None` or the one-element list `[cmd]`) and the state stays quiet — for every code,
both values of `g90InfluencesExtruder`, whatever the words are. -/
theorem C02_step (cfg : Config) (inch : α) (s : FState α) (g : String) (cmd : Cmd α)
    (h : WF s) (hq : Quiet s) (hno : hits s g cmd = false) :
    Verbatim cmd (T.handleGcode cfg inch s g cmd).2 ∧ Quiet (T.handleGcode cfg inch s g cmd).1 := by
  unfold hits at hno
  unfold T.handleGcode
  generalize Code.ofString g = c at *
  have qf : ∀ s' : FState α, s' = { s with position := s'.position, feedRateUnitMultiplier := s'.feedRateUnitMultiplier } →
      Quiet s' := fun s' hs' => ⟨by rw [hs']; exact hq.notExcluding, by rw [hs']; exact hq.noPending,
        fun lr hl => hq.noOwed lr (by rw [hs'] at hl; exact hl)⟩
  cases c with
  | G0 => exact plm_quiet cfg s cmd _ _ _ _ h hq hno
  | G1 => exact plm_quiet cfg s cmd _ _ _ _ h hq hno
  | G2 => exact arc_quiet cfg s cmd true h hq hno
  | G3 => exact arc_quiet cfg s cmd false h hq hno
  | G10 =>
    simp only [T.handleG10]
    split
    · exact ⟨rfl, hq⟩
    · obtain ⟨r1, r2⟩ := recordRetraction_quiet s
        ({ firmwareRetract := true, extrusionAmount := none, feedRate := none, originalCommand := cmd } : Retraction α) h hq rfl
      rw [Verbatim, fwdOf_toResult, toResult_fst]; exact ⟨r1, r2⟩
  | G11 =>
    simp only [T.handleG11]
    obtain ⟨r1, r2⟩ := recoverIfNeeded_quiet s cmd true h hq
    rw [Verbatim, fwdOf_toResult, toResult_fst]; exact ⟨r1, r2⟩
  | G20 => exact ⟨rfl, qf _ rfl⟩
  | G21 => exact ⟨rfl, qf _ rfl⟩
  | G28 => exact ⟨rfl, qf _ rfl⟩
  | G90 => refine ⟨rfl, qf _ ?_⟩; simp only [FState.setAbsoluteMode]
  | G91 => refine ⟨rfl, qf _ ?_⟩; simp only [FState.setAbsoluteMode]
  | G92 => exact ⟨rfl, qf _ rfl⟩
  | M206 => exact ⟨rfl, qf _ rfl⟩
  | other n =>
    simp only [FState.processExtendedGcode, hq.notExcluding, Bool.and_false, Bool.false_eq_true, if_false]
    exact ⟨rfl, hq⟩

/-- no step of the program hits a region -/
def NeverHits (cfg : Config) (inch : α) : FState α → List (String × Cmd α) → Prop
  | _, [] => True
  | s, (g, c) :: rest => hits s g c = false ∧ NeverHits cfg inch (T.handleGcode cfg inch s g c).1 rest

def runG (cfg : Config) (inch : α) : FState α → List (String × Cmd α) → List (Cmd α × Result α)
  | _, [] => []
  | s, (g, c) :: rest =>
    let r := T.handleGcode cfg inch s g c
    (c, r.2) :: runG cfg inch r.1 rest

/-- **C02.** If no move destination (no arc sample) of the program ever lies inside an enabled
region, every command of the program is forwarded unchanged and in order, nothing added, dropped or
rewritten. -/
theorem C02_identity (cfg : Config) (inch : α) (hinch : inch ≠ 0) (prog : List (String × Cmd α)) :
    ∀ s : FState α, WF s → Quiet s → NeverHits cfg inch s prog →
      ∀ cr ∈ runG cfg inch s prog, Verbatim cr.1 cr.2 := by
  induction prog with
  | nil => intro s _ _ _ cr hcr; cases hcr
  | cons gc rest ih =>
    intro s hw hq hn cr hcr
    obtain ⟨g, c⟩ := gc
    obtain ⟨h1, h2⟩ := C02_step cfg inch s g c hw hq hn.1
    simp only [runG, List.mem_cons] at hcr
    rcases hcr with rfl | hcr
    · exact h1
    · exact ih _ (handleGcode_ok cfg inch hinch s g c hw).2.1 h2 hn.2 cr hcr

theorem anyLoop_no_regions (pairs : List (Option α × Option α)) :
    ∀ (s : FState α), s.excludedRegions = [] → (T.isAnyLoop s pairs false).2 = false := by
  induction pairs with
  | nil => intro s _; rfl
  | cons p rest ih =>
    intro s hs
    obtain ⟨px, py⟩ := p
    simp only [T.isAnyLoop, T.isPointExcluded, hs, T.anyContains, List.any_nil, Bool.and_false,
      Bool.or_false]
    exact ih _ rfl

theorem hits_false_of (s : FState α) (g : String) (cmd : Cmd α)
    (key : ∀ ep fr fz xy, hitOf s ep fr fz xy = false) : hits s g cmd = false := by
  unfold hits
  split
  · exact key _ _ _ _
  · exact key _ _ _ _
  · unfold arcHit; dsimp only; split <;> (split <;> first | exact key _ _ _ _ | rfl)
  · unfold arcHit; dsimp only; split <;> (split <;> first | exact key _ _ _ _ | rfl)
  · rfl

/-- in particular when no regions are defined nothing ever hits -/
theorem no_regions_no_hit (s : FState α) (g : String) (cmd : Cmd α) (hr : s.excludedRegions = []) :
    hits s g cmd = false := by
  apply hits_false_of
  intro ep fr fz xy
  unfold hitOf
  have : (T.applyEZF s ep fr fz).excludedRegions = [] := by
    unfold T.applyEZF; cases fr <;> exact hr
  rw [anyLoop_no_regions xy _ this]; simp

/-- … and likewise when exclusion is disabled -/
theorem disabled_never_hits (s : FState α) (g : String) (cmd : Cmd α) (hd : s.exclusionEnabled = false) :
    hits s g cmd = false :=
  hits_false_of s g cmd (fun ep fr fz xy => disabled_no_hit s ep fr fz xy hd)

/-- non-vacuity: a freshly started print over ℝ is well-formed and quiet -/
example : Quiet (handleG28 (FState.reset ([] : List (Region ℝ))) { text := [], words := [], code := "G28" }) :=
  ⟨rfl, rfl, fun lr h => by simp [handleG28, FState.reset] at h⟩

end ERP.C02
