import ERP.Lemmas.Ctrl
import ERP.Properties.C03
import ERP.Lemmas.GenConsts
import ERP.Lemmas.GenTies
/-! # C14 — @-commands switch exclusion off and on correctly -/
namespace ERP.C14
open ERP T Spec
set_option linter.unusedSectionVars false

variable {α : Type} [Field α] [LinearOrder α] [IsStrictOrderedRing α] [MathOps α] [MathSpec α]

/-- a move command (G0–G3) seen through `processLinearMoves`, or any other command -/
theorem gcode_enabled_unchanged (cfg : Config) (inch : α) (s : FState α) (g : String) (cmd : Cmd α)
    (h : WF s) : (T.handleGcode cfg inch s g cmd).1.exclusionEnabled = s.exclusionEnabled := by
  by_cases hg : Code.ofString g ≠ .G0 ∧ Code.ofString g ≠ .G1 ∧ Code.ofString g ≠ .G2 ∧ Code.ofString g ≠ .G3
  · exact (nonmove_ctrl cfg inch s g cmd h hg).enabled
  · unfold T.handleGcode
    generalize Code.ofString g = c at *
    cases c <;> simp at hg
    · exact (plm_ctrl cfg s cmd _ _ _ _ h).enabled
    · exact (plm_ctrl cfg s cmd _ _ _ _ h).enabled
    · simp only [T.handleG2]; split <;> split <;> first | exact (plm_ctrl cfg s cmd _ _ _ _ h).enabled | rfl
    · simp only [T.handleG2]; split <;> split <;> first | exact (plm_ctrl cfg s cmd _ _ _ _ h).enabled | rfl

/-- no episode is ever open while exclusion is disabled -/
def SwitchInv (s : FState α) : Prop := s.exclusionEnabled = false → s.excluding = false

theorem gcode_switchInv (cfg : Config) (inch : α) (s : FState α) (g : String) (cmd : Cmd α)
    (h : WF s) (hi : SwitchInv s) : SwitchInv (T.handleGcode cfg inch s g cmd).1 := by
  intro hdis
  rw [gcode_enabled_unchanged cfg inch s g cmd h] at hdis
  have hex := hi hdis
  by_cases hg : Code.ofString g ≠ .G0 ∧ Code.ofString g ≠ .G1 ∧ Code.ofString g ≠ .G2 ∧ Code.ofString g ≠ .G3
  · rw [(nonmove_ctrl cfg inch s g cmd h hg).excluding]; exact hex
  · have key : ∀ ep fr fz xy, (T.processLinearMoves cfg s cmd ep fr fz xy).1.excluding = false := by
      intro ep fr fz xy
      rw [(plm_ctrl cfg s cmd ep fr fz xy h).excluding, disabled_no_hit s ep fr fz xy hdis, hex]
      split <;> rfl
    unfold T.handleGcode
    generalize Code.ofString g = c at *
    cases c <;> simp at hg
    · exact key _ _ _ _
    · exact key _ _ _ _
    · simp only [T.handleG2]; split <;> split <;> first | exact key _ _ _ _ | exact hex
    · simp only [T.handleG2]; split <;> split <;> first | exact key _ _ _ _ | exact hex

/-- **After a disable no move is suppressed.** While exclusion is disabled (and hence no episode
open), a linear move is forwarded: the printer receives at most an owed recovery (E only) and then
the command itself, and no episode opens. -/
theorem C14_no_suppression_while_disabled (cfg : Config) (s : FState α) (cmd : Cmd α) (h : WF s)
    (hdis : s.exclusionEnabled = false) (hi : SwitchInv s)
    (hmove : T.isMoveOf (lastValue cmd.words 'Z') [(lastValue cmd.words 'X', lastValue cmd.words 'Y')] = true) :
    (∃ pre, fwdOf cmd (T.handleG0 cfg s cmd).2 = pre ++ [.orig cmd] ∧ ∀ o ∈ pre, EOnly o) ∧
    (T.handleG0 cfg s cmd).1.excluding = false := by
  unfold T.handleG0
  refine ⟨plm_forwarded cfg s cmd _ _ _ _ h hmove (hi hdis) (disabled_no_hit s _ _ _ _ hdis), ?_⟩
  rw [(plm_ctrl cfg s cmd _ _ _ _ h).excluding, disabled_no_hit s _ _ _ _ hdis, hmove]; rfl

/-- **A disable that arrives mid-episode closes the episode at once**, emitting exactly the exit
sequence of leaving a region (deferred commands, exit script, `G92 E`, re-positioning moves), so the
re-synchronisation theorems (C03) apply to it verbatim. -/
theorem C14_disable_mid_episode (cfg : Config) (s : FState α) (hen : s.exclusionEnabled = true)
    (hex : s.excluding = true) :
    T.disableExclusion cfg s = T.exitExcludedRegion cfg { s with exclusionEnabled := false } ∧
    (T.disableExclusion cfg s).1.excluding = false ∧
    (T.disableExclusion cfg s).1.exclusionEnabled = false := by
  have e : T.disableExclusion cfg s = T.exitExcludedRegion cfg { s with exclusionEnabled := false } := by
    unfold T.disableExclusion
    rw [if_pos hen]
    dsimp only
    rw [if_pos hex]
  refine ⟨e, ?_, ?_⟩ <;> rw [e, exitExcludedRegion_state] <;> simp [hex]

/-- … and the printer is then exactly where the file is (`Good` is preserved by @-commands and
after the disable no episode is open). -/
theorem C14_disable_resyncs (cfg : Config) (inch : α) (hinch : inch ≠ 0) (y : Sys α) (hg : C03.Good y)
    (cmd : String) (ps : Text)
    (hoff : (y.step cfg inch (.atCmd false cmd ps)).s.excluding = false) :
    XYZeq (y.step cfg inch (.atCmd false cmd ps)).phys.pos (y.step cfg inch (.atCmd false cmd ps)).virt.pos := by
  have hg' := C03.good_step cfg inch hinch y (.atCmd false cmd ps) hg trivial
  exact (hg'.inv.of_not_excluding hoff).trans hg'.track

/-- **While disabled the tool position keeps being tracked**: the tracking theorem
(`track_gcode`) has no hypothesis about the switch — the filter's axes follow the unfiltered file
whether exclusion is enabled or not, so decisions after re-enabling are based on the true position. -/
theorem C14_tracking_regardless_of_switch (cfg : Config) (inch : α) (s : FState α) (virt : Printer α)
    (g : String) (cmd : Cmd α) (h : WF s) (hd : Dialect s g cmd) (ht : XYZeq s.position virt.pos) :
    XYZeq (T.handleGcode cfg inch s g cmd).1.position
      (virt.exec cfg.g90InfluencesExtruder inch (Code.ofString g) cmd.words).pos :=
  track_gcode cfg inch s virt g cmd h hd ht

/-- @-commands arriving while streaming to SD change nothing. -/
theorem C14_streaming_noop (cfg : Config) (s : FState α) (cmd : String) (ps : Text) :
    T.handleAtCommand cfg s true cmd ps = (s, false, []) := by
  simp [T.handleAtCommand]

theorem atLoop_unmatched (cfg : Config) (ps : Text) (es : List AtEntry)
    (hno : ∀ e ∈ es, e.matcher ps = false) (s : FState α) (hd : Bool) (sent : List (Out α)) :
    T.atLoop cfg ps es s hd sent = (s, hd, sent) := by
  induction es with
  | nil => rfl
  | cons e rest ih =>
    unfold T.atLoop
    rw [hno e (by simp)]
    simp only [Bool.false_eq_true, if_false]
    exact ih (fun e' he' => hno e' (by simp [he']))

/-- @-commands matching no configured action change nothing. -/
theorem C14_unmatched_noop (cfg : Config) (s : FState α) (st : Bool) (cmd : String) (ps : Text)
    (hno : ∀ e ∈ cfg.atCommandActions, e.command = cmd → e.matcher ps = false) :
    T.handleAtCommand cfg s st cmd ps = (s, false, []) := by
  unfold T.handleAtCommand
  split
  · rfl
  · apply atLoop_unmatched
    intro e he
    have := List.mem_filter.mp he
    exact hno e this.1 (by simpa using this.2)

end ERP.C14
