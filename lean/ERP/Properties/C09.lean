import ERP.Lemmas.Refine
import ERP.Lemmas.RealOps
import ERP.Spec.Run
import ERP.Model.Entry
import ERP.Lemmas.GenConsts
import ERP.Lemmas.GenTies
/-! # C09 — Filtering is total and protocol-conformant

The faithful model makes every way the Python code can raise an explicit `Except.error`
(arithmetic on `None`, float division by zero, `math.sqrt` of a negative number, failed `assert`).
`C09_total` states that from a well-formed state (all axes homed — `WF`) *no sequence of commands*
reaches any of them, whatever the parameter words are, and every result is `None`, the ignore
marker, or a non-empty list. -/
namespace ERP.C09
open ERP

variable {α : Type} [Field α] [LinearOrder α] [IsStrictOrderedRing α] [MathOps α] [MathSpec α]

def EmitShape : Emit α → Prop
  | .result r => Result.Shape r
  | _ => True

theorem addRegion_WF (s s' : FState α) (r : Region α) (h : WF s) (h' : s.addRegion r = .ok s') : WF s' := by
  unfold FState.addRegion at h'
  split at h'
  · cases h'; exact h.of_eq rfl rfl (fun hx => ⟨hx, rfl⟩) rfl
  · cases h'

/-- one event: the faithful step is `.ok` of the total step, well-formedness is kept -/
theorem step_total (cfg : Config) (inch : α) (hinch : inch ≠ 0) (s : FState α) (e : Ev α) (h : WF s) :
    stepE cfg inch s e = .ok (stepT cfg inch s e) ∧ WF (stepT cfg inch s e).1 ∧
    EmitShape (stepT cfg inch s e).2 := by
  cases e with
  | gcode g c =>
    obtain ⟨h1, h2, h3⟩ := handleGcode_ok cfg inch hinch s g c h
    exact ⟨by simp only [stepE, stepT, h1, ok_bind, pure_eq_ok], h2, h3⟩
  | atCmd st cmd ps =>
    obtain ⟨h1, h2⟩ := handleAtCommand_ok cfg s st cmd ps h
    exact ⟨by simp only [stepE, stepT, h1, ok_bind, pure_eq_ok], h2, trivial⟩
  | addRegion r =>
    simp only [stepE, stepT]
    cases hr : s.addRegion r with
    | ok s' => exact ⟨rfl, addRegion_WF s s' r h hr, trivial⟩
    | error _ => exact ⟨rfl, h, trivial⟩

/-- **C09.** For every sequence of commands, @-commands and region additions issued from a
well-formed (homed) state, processing never raises, the state stays well-formed, and every hook
result is `None`, the ignore marker or a non-empty list. -/
theorem C09_total (cfg : Config) (inch : α) (hinch : inch ≠ 0) (evs : List (Ev α)) :
    ∀ s : FState α, WF s →
      runE cfg inch s evs = .ok (runT cfg inch s evs) ∧ WF (runT cfg inch s evs).1 ∧
      ∀ o ∈ (runT cfg inch s evs).2, EmitShape o := by
  induction evs with
  | nil => intro s h; exact ⟨rfl, h, by simp [runT]⟩
  | cons e es ih =>
    intro s h
    obtain ⟨h1, h2, h3⟩ := step_total cfg inch hinch s e h
    obtain ⟨i1, i2, i3⟩ := ih _ h2
    refine ⟨?_, i2, ?_⟩
    · simp only [runE, h1, ok_bind, i1, pure_eq_ok, runT]
    · intro o ho
      simp only [runT, List.mem_cons] at ho
      rcases ho with rfl | ho
      · exact h3
      · exact i3 o ho

/-- "after the axes have been homed": a fresh state is well-formed after `G28` (any region list). -/
theorem homed_WF (regions : List (Region α)) (cmd : Cmd α) (hw : cmd.words = []) :
    WF (handleG28 (FState.reset regions) cmd) := by
  unfold handleG28
  simp only [hw, hasLetter, List.any_nil, Bool.or_self, Bool.not_false, Bool.or_true, if_true]
  refine ⟨⟨⟨rfl, one_ne_zero⟩, ⟨rfl, one_ne_zero⟩, ⟨rfl, one_ne_zero⟩, ⟨rfl, one_ne_zero⟩⟩,
    one_ne_zero, ?_, ?_⟩
  · intro hx; simp [FState.reset] at hx
  · intro lr hlr; simp [FState.reset] at hlr

/-- The text-level entry point: the only additional way to fail is the parser's `assert match`;
if the command text parses, `handleGcode(cmd, gcode)` on strings is total as well.
(`_partial`: the completeness of `REGEX_GCODE_LINE` — it matches at every offset — is checked by
the `parser` correspondence suite, not yet proved.) -/
theorem C09_text_partial [OfDecimal α] (cfg : Config) (inch : α) (hinch : inch ≠ 0) (s : FState α)
    (cmd gcode : Text) (c : Cmd α)
    (hp : cmdOfText cmd (String.ofList (gcode.map upperC)) = .ok c) (h : WF s) :
    ∃ s' r, handleGcodeText cfg inch s cmd gcode = .ok (s', r) ∧ WF s' ∧ Result.Shape r := by
  obtain ⟨h1, h2, h3⟩ := handleGcode_ok cfg inch hinch s (String.ofList (gcode.map upperC)) c h
  exact ⟨_, _, by simp only [handleGcodeText, hp, ok_bind, h1], h2, h3⟩

/-- Non-vacuity over ℝ: the homed initial state meets the hypotheses. -/
example : WF (handleG28 (FState.reset ([] : List (Region ℝ))) { text := "G28".toList, words := [], code := "G28" }) :=
  homed_WF [] _ rfl

end ERP.C09
