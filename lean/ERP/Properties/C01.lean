import ERP.Lemmas.Ctrl
import ERP.Properties.C03
import ERP.Lemmas.GenGeometry
import ERP.Lemmas.GenTies
/-! # C01 — No motion into and no extrusion inside an excluded region (X/Y/Z part)

Stated for the dialect `Dialect` (see `StepInv`): the full dialect of the property minus arcs in
relative mode (known finding K-D5), R-form arcs (K-D10) and `G28` inside an open episode (K-D18).
The filament clause ("no forwarded command advances filament inside an episode") is part of the
extrusion theorems (C04/C05); here: positions. -/
namespace ERP.C01
open ERP T Spec
set_option linter.unusedSectionVars false

variable {α : Type} [Field α] [LinearOrder α] [IsStrictOrderedRing α] [MathOps α] [MathSpec α]

/-- the physical X/Y/Z positions (not the frames) -/
def sameSpot (p q : Printer α) : Prop :=
  p.pos.x.current = q.pos.x.current ∧ p.pos.y.current = q.pos.y.current ∧
  p.pos.z.current = q.pos.z.current

/-- **(ii) Inside an episode nothing moves.** If an episode is open before and after a command
(linear move, or any non-move command of the dialect), the printer's X, Y and Z are where they were:
whatever was forwarded (retractions, pass-through codes, mode changes) moved nothing. -/
theorem episode_no_motion_linear (cfg : Config) (inch : α) (hinch : inch ≠ 0) (y : Sys α)
    (hg : C03.Good y) (g : String) (c : Cmd α) (hd : Dialect y.s g c)
    (hcode : Code.ofString g ≠ .G2 ∧ Code.ofString g ≠ .G3)
    (hbefore : y.s.excluding = true) (hafter : (y.step cfg inch (.gcode g c)).s.excluding = true) :
    sameSpot (y.step cfg inch (.gcode g c)).phys y.phys := by
  have hg' := C03.good_step cfg inch hinch y (.gcode g c) hg hd
  obtain ⟨lp, hlp, _⟩ := hg.wf.lastPos hbefore
  -- the pre-episode position is remembered unchanged
  have hl : (y.step cfg inch (.gcode g c)).s.lastPosition = some lp := by
    simp only [Sys.step, stepT]
    by_cases hm : Code.ofString g = .G0 ∨ Code.ofString g = .G1
    · have : (T.handleGcode cfg inch y.s g c).1 = (T.handleG0 cfg y.s c).1 := by
        unfold T.handleGcode; rcases hm with hm | hm <;> rw [hm]
      rw [this]; unfold T.handleG0
      rw [(plm_ctrl cfg y.s c _ _ _ _ hg.wf).lastPos, hbefore]
      simp [hlp]
    · have hnm : Code.ofString g ≠ .G0 ∧ Code.ofString g ≠ .G1 ∧ Code.ofString g ≠ .G2 ∧ Code.ofString g ≠ .G3 :=
        ⟨fun h => hm (Or.inl h), fun h => hm (Or.inr h), hcode.1, hcode.2⟩
      rw [(nonmove_ctrl cfg inch y.s g c hg.wf hnm).lastPos]; exact hlp
  obtain ⟨a1, a2, a3⟩ := hg.inv.of_excluding lp hbefore hlp
  obtain ⟨b1, b2, b3⟩ := hg'.inv.of_excluding lp hafter hl
  exact ⟨by rw [b1, a1], by rw [b2, a2], by rw [b3, a3]⟩

/-- **(i) No motion into a region.** If processing a linear move changed the printer's X or Y at
all, then no episode is open afterwards, the printer stands exactly at the tracked destination, and
that point is in no enabled region (`isPointExcluded` is false there). -/
theorem no_motion_into_region (cfg : Config) (inch : α) (hinch : inch ≠ 0) (y : Sys α)
    (hg : C03.Good y) (g : String) (c : Cmd α) (hd : Dialect y.s g c)
    (hcode : Code.ofString g = .G0 ∨ Code.ofString g = .G1)
    (hmoved : (y.step cfg inch (.gcode g c)).phys.pos.x.current ≠ y.phys.pos.x.current ∨
              (y.step cfg inch (.gcode g c)).phys.pos.y.current ≠ y.phys.pos.y.current) :
    let y' := y.step cfg inch (.gcode g c)
    y'.s.excluding = false ∧ XYZeq y'.phys.pos y'.s.position ∧
    T.isPointExcluded y'.s (cur y'.phys.pos.x) (cur y'.phys.pos.y) = false := by
  intro y'
  have hg' := C03.good_step cfg inch hinch y (.gcode g c) hg hd
  have hs' : y'.s = (T.handleG0 cfg y.s c).1 := by
    simp only [y', Sys.step, stepT]
    unfold T.handleGcode; rcases hcode with hm | hm <;> rw [hm]
  have hctrl := plm_ctrl cfg y.s c (lastValue c.words 'E') (lastValue c.words 'F') (lastValue c.words 'Z')
    [(lastValue c.words 'X', lastValue c.words 'Y')] hg.wf
  -- an open episode afterwards would mean the printer did not move
  have hnot : y'.s.excluding = false := by
    by_contra hc
    have hex' : y'.s.excluding = true := by simpa using hc
    by_cases hb : y.s.excluding = true
    · have := episode_no_motion_linear cfg inch hinch y hg g c hd
        (by rcases hcode with h | h <;> rw [h] <;> exact ⟨by simp, by simp⟩) hb hex'
      rcases hmoved with hm | hm
      · exact hm this.1
      · exact hm this.2.1
    · have hb' : y.s.excluding = false := by simpa using hb
      -- entering: the remembered position is the position before the move = where the printer is
      have hl : y'.s.lastPosition = some y.s.position := by
        rw [hs']; unfold T.handleG0; rw [hctrl.lastPos, hb']
        have hh : hitOf y.s (lastValue c.words 'E') (lastValue c.words 'F') (lastValue c.words 'Z')
            [(lastValue c.words 'X', lastValue c.words 'Y')] = true := by
          have := hctrl.excluding
          unfold T.handleG0 at hs'
          rw [← hs', hex'] at this
          split at this
          · exact this.symm
          · rw [hb'] at this; cases this
        simp [hh]
      obtain ⟨b1, b2, _⟩ := hg'.inv.of_excluding y.s.position hex' hl
      obtain ⟨f1, f2, _⟩ := hg.inv.of_not_excluding hb'
      rcases hmoved with hm | hm
      · apply hm; show y'.phys.pos.x.current = _; rw [b1, f1]
      · apply hm; show y'.phys.pos.y.current = _; rw [b2, f2]
  have hxyz := hg'.inv.of_not_excluding hnot
  refine ⟨hnot, hxyz, ?_⟩
  -- the command was a move (otherwise X/Y would not have changed) and no tested point was excluded
  have hexc := hctrl.excluding
  unfold T.handleG0 at hs'
  rw [← hs', hnot] at hexc
  by_cases hm : T.isMoveOf (lastValue c.words 'Z') [(lastValue c.words 'X', lastValue c.words 'Y')] = true
  · rw [if_pos hm] at hexc
    simp only [hitOf, hm, Bool.true_and] at hexc
    have htest := C03.linear_test_is_destination
      (T.applyEZF y.s (lastValue c.words 'E') (lastValue c.words 'F') (lastValue c.words 'Z'))
      (lastValue c.words 'X') (lastValue c.words 'Y')
    rw [← hexc] at htest
    -- the tested state has the same regions / switch and the same X/Y as the final state
    have hpos := plm_pos cfg y.s c (lastValue c.words 'E') (lastValue c.words 'F') (lastValue c.words 'Z')
      [(lastValue c.words 'X', lastValue c.words 'Y')] hg.wf
    have hloop := isAnyLoop_pos [(lastValue c.words 'X', lastValue c.words 'Y')]
      (T.applyEZF y.s (lastValue c.words 'E') (lastValue c.words 'F') (lastValue c.words 'Z')) false
    obtain ⟨a1, a2, _⟩ := applyEZF_pos y.s (lastValue c.words 'E') (lastValue c.words 'F') (lastValue c.words 'Z')
    obtain ⟨_, e2, _, _⟩ := applyEZF_frame y.s (lastValue c.words 'E') (lastValue c.words 'F') (lastValue c.words 'Z')
    have r1 : (T.applyEZF y.s (lastValue c.words 'E') (lastValue c.words 'F') (lastValue c.words 'Z')).excludedRegions
        = y.s.excludedRegions := by unfold T.applyEZF; cases lastValue c.words 'F' <;> rfl
    rw [hloop] at htest
    simp only [T.isPointExcluded] at htest ⊢
    rw [hs', hctrl.regions, hctrl.enabled]
    rw [r1, e2, a1, a2] at htest
    obtain ⟨q1, q2, _⟩ := hxyz
    rw [q1, q2, hs', hpos]
    simp only [movedPos]
    exact htest.symm
  · exfalso
    have hm' : T.isMoveOf (lastValue c.words 'Z') [(lastValue c.words 'X', lastValue c.words 'Y')] = false := by
      simpa using hm
    rw [if_neg hm] at hexc
    -- not a move and not excluding: X and Y are untouched
    have hpos := plm_pos cfg y.s c (lastValue c.words 'E') (lastValue c.words 'F') (lastValue c.words 'Z')
      [(lastValue c.words 'X', lastValue c.words 'Y')] hg.wf
    simp only [T.isMoveOf, List.any_cons, List.any_nil, Bool.or_false, Bool.or_eq_false_iff] at hm'
    have hX : lastValue c.words 'X' = none := by cases hx : lastValue c.words 'X' <;> simp_all
    have hY : lastValue c.words 'Y' = none := by cases hx : lastValue c.words 'Y' <;> simp_all
    obtain ⟨q1, q2, _⟩ := hxyz
    obtain ⟨f1, f2, _⟩ := hg.inv.of_not_excluding hexc.symm
    rcases hmoved with hmv | hmv
    · apply hmv; show y'.phys.pos.x.current = _
      rw [q1, hs', hpos, f1]; simp [movedPos, loopAxis, hX, setLog]
    · apply hmv; show y'.phys.pos.y.current = _
      rw [q2, hs', hpos, f2]; simp [movedPos, loopAxis, hY, setLog]

/-- K-D18, stated on the model: homing inside an open episode is forwarded (result `None`). -/
theorem home_in_episode_counterexample (cfg : Config) (inch : α) (s : FState α) (cmd : Cmd α) :
    (T.handleGcode cfg inch s "G28" cmd).2 = .none := by
  simp [T.handleGcode, Code.ofString]

end ERP.C01
