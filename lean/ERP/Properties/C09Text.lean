import ERP.Properties.C09
import ERP.Properties.C18
import ERP.Lemmas.CodeRegex
import ERP.Model.Format
/-! # C09, text entry point — now without the parsing hypothesis

`C18.parse_total` (the line regex regenerated from the source matches at every offset of every
text) removes the hypothesis of `C09_text_partial`: on a well-formed state, `handleGcode(cmd,
gcode)` on *strings* never raises, for every command text. -/
namespace ERP.C09
open ERP T

variable {α : Type} [Field α] [LinearOrder α] [IsStrictOrderedRing α] [MathOps α] [MathSpec α]

theorem cmdOfText_total [OfDecimal α] (cmd : Text) (g : String) : ∃ c : Cmd α, cmdOfText cmd g = .ok c := by
  obtain ⟨q, hq⟩ := C18.parse_total ({} : Parser) cmd 0 (Nat.zero_le _)
  have : ({} : Parser).parse (some cmd) = .ok q := hq
  exact ⟨_, by simp only [cmdOfText, this, ok_bind]; rfl⟩

/-- **C09 (text entry point).** -/
theorem C09_text [OfDecimal α] (cfg : Config) (inch : α) (hinch : inch ≠ 0) (s : FState α)
    (cmd gcode : Text) (h : WF s) :
    ∃ s' r, handleGcodeText cfg inch s cmd gcode = .ok (s', r) ∧ WF s' ∧ Result.Shape r := by
  obtain ⟨c, hc⟩ := cmdOfText_total (α := α) cmd (String.ofList (gcode.map upperC))
  exact C09_text_partial cfg inch hinch s cmd gcode c hc h

end ERP.C09

/-! ## Returned command strings are never empty -/
namespace ERP.C09
open ERP ERP.Rx

/-- `gcode = value` (the validating setter) leaves a parser whose `gcode` is known -/
theorem setGcode_gcode_some (p q : Parser) (value : Text) (h : p.setGcode value = .ok q) :
    ∃ g, q.gcode = some g ∧ g ≠ [] := by
  unfold Parser.setGcode at h
  split at h
  · cases h
  · rename_i e c hm
    cases h
    have hcaps := gcodeCode_caps value.toArray e c hm
    have hsz : value.toArray.size = value.length := by simp
    rw [hsz] at hcaps
    unfold Parser.gcodeMatch Parser.gcode
    have hslice : ∀ a b, a < b → b ≤ value.length → slice value a b ≠ [] := by
      intro a b hab hb he
      have := congrArg List.length he
      simp [slice] at this
      omega
    rcases hcaps with ⟨a, q1, q2, c1, ha, c2, hq, hq2⟩ | ⟨a, q1, q2, c1, c2, c4, ha, c5, hq, hq2⟩
    · simp only [capText, c1, c2, Option.map_some]
      have hne := hslice a (a + 1) (by omega) (by omega)
      cases hs : slice value a (a + 1) with
      | nil => exact absurd hs hne
      | cons ch rest =>
        have hne2 := hslice q1 q2 hq hq2
        simp only [List.isEmpty_cons, Bool.false_eq_true, if_false]
        cases hs2 : slice value q1 q2 with
        | nil => exact absurd hs2 hne2
        | cons d ds =>
          simp only [List.isEmpty_cons, Bool.false_eq_true, if_false, Option.map_some]
          exact ⟨_, rfl, by simp⟩
    · simp only [capText, c1, c2, c4, c5, Option.map_none, Option.map_some]
      have hne := hslice a (a + 1) (by omega) (by omega)
      cases hs : slice value a (a + 1) with
      | nil => exact absurd hs hne
      | cons ch rest =>
        simp only [Option.map_some]
        exact ⟨_, rfl, by simp⟩

end ERP.C09

namespace ERP.C09
open ERP ERP.Rx

theorem intercalate_ne_nil (sep x : Text) (xs : List Text) (h : x ≠ []) : sep.intercalate (x :: xs) ≠ [] := by
  cases xs with
  | nil => simpa [List.intercalate] using h
  | cons y ys =>
    simp only [List.intercalate, List.intersperse, List.flatten_cons]
    intro he
    have := List.append_eq_nil_iff.mp he
    exact h this.1

theorem intercalate_ne_nil_of_mem (sep : Text) (l : List Text) (x : Text) (hx : x ∈ l) (hne : x ≠ []) :
    sep.intercalate l ≠ [] := by
  induction l with
  | nil => cases hx
  | cons y ys ih =>
    rcases List.mem_cons.mp hx with rfl | hx'
    · exact intercalate_ne_nil sep x ys hne
    · cases ys with
      | nil => cases hx'
      | cons z zs =>
        intro he
        simp only [List.intercalate, List.intersperse, List.flatten_cons] at he
        have h2 := (List.append_eq_nil_iff.mp he).2
        have h3 := (List.append_eq_nil_iff.mp h2).2
        exact ih hx' (by simpa [List.intercalate] using h3)

/-- rendering a parser whose `gcode` is known never gives the empty string -/
theorem stringify_nonempty (p : Parser) (g : Text) (hg : p.gcode = some g) (hne : g ≠ []) (sep : Text)
    (lw ln : Bool) (cs : Option Bool) (cm eol : Bool) : p.stringify sep lw ln cs cm eol ≠ [] := by
  unfold Parser.stringify
  simp only [hg]
  have hgne : (match p.subCode with | none => g | some sc => g ++ '.' :: natToText sc) ≠ [] := by
    cases p.subCode with
    | none => exact hne
    | some sc => simp
  have fin : ∀ (A B C : Text) (l : List Text) (b : Bool) (X : Text),
      (match p.subCode with | none => g | some sc => g ++ '.' :: natToText sc) ∈ l →
      A ++ (if b = true then (sep.intercalate l ++ sep, X) else (sep.intercalate l, ([] : Text))).1 ++
        (if b = true then (sep.intercalate l ++ sep, X) else (sep.intercalate l, ([] : Text))).2 ++ B ++ C = [] →
      False := by
    intro A B C l b X hl h
    have hR := intercalate_ne_nil_of_mem sep l _ hl hgne
    simp only [List.append_eq_nil_iff] at h
    obtain ⟨⟨⟨⟨_, h2⟩, _⟩, _⟩, _⟩ := h
    cases b
    · exact hR h2
    · simp only [if_true, List.append_eq_nil_iff] at h2; exact hR h2.1
  intro he
  have hm : ∀ pl : List Text, (match p.subCode with | none => g | some sc => g ++ '.' :: natToText sc) ∈
      (match p.parameters with
        | some ps => pl ++ [match p.subCode with | none => g | some sc => g ++ '.' :: natToText sc] ++ [ps]
        | none => pl ++ [match p.subCode with | none => g | some sc => g ++ '.' :: natToText sc]) := by
    intro pl; cases p.parameters <;> simp
  cases ln <;> cases hl : p.lineNumber <;> simp only [hl] at he
  · exact fin _ _ _ _ _ _ (hm _) he
  · exact fin _ _ _ _ _ _ (hm _) he
  · exact fin _ _ _ _ _ _ (hm _) he
  · exact fin _ _ _ _ _ _ (hm _) he

/-- `buildCommand(gcode, **args)` never returns the empty string -/
theorem buildCommand_nonempty {α : Type} (nt : α → Text) (gcode : Text) (args : List (Char × Option α)) (t : Text)
    (h : buildCommand nt gcode args = .ok t) : t ≠ [] := by
  unfold buildCommand at h
  cases hs : ({} : Parser).setGcode gcode with
  | error e => rw [hs] at h; cases h
  | ok q =>
    rw [hs] at h
    obtain ⟨g, hg, hne⟩ := setGcode_gcode_some _ q gcode hs
    simp only [bind, Except.bind] at h
    split at h
    · cases h
    · cases h
      exact stringify_nonempty _ g (by simpa [Parser.gcode] using hg) hne _ _ _ _ _ _

/-- what the filter may return besides numbers: the command it was given, a configured script
line, a deferred command -/
def OutOk {α : Type} : Out α → Prop
  | .orig c => c.text ≠ []
  | .script _ t => t ≠ []
  | _ => True

/-- **Every command string the filter returns is non-empty**, provided the commands it was given
and the configured script lines are (the latter is `C18.splitGcodeScript_spec`). -/
theorem render_nonempty {α : Type} (nt : α → Text) (o : Out α) (t : Text) (ho : OutOk o)
    (h : render nt o = .ok t) : t ≠ [] := by
  cases o with
  | orig c => simp only [render] at h; cases h; exact ho
  | script b s => simp only [render] at h; cases h; exact ho
  | g92e e =>
    simp only [render, bind, Except.bind] at h
    split at h
    · cases h
    · cases h; simp
  | g0z f z =>
    simp only [render, bind, Except.bind] at h
    split at h
    · cases h
    · split at h
      · cases h
      · cases h; simp
  | g0xy f x y =>
    simp only [render, bind, Except.bind] at h
    split at h
    · cases h
    · split at h
      · cases h
      · split at h
        · cases h
        · cases h; simp
  | g1fe f e =>
    simp only [render, bind, Except.bind] at h
    split at h
    · cases h
    · split at h
      · cases h
      · cases h; simp
  | fw recover orig =>
    simp only [render] at h
    cases h
    split <;> cases recover <;> simp
  | merged g args => exact buildCommand_nonempty nt _ args t (by simpa [render] using h)

end ERP.C09
