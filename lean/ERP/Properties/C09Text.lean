import ERP.Properties.C09
import ERP.Properties.C18
/-! # C09, text entry point — now without the parsing hypothesis

`C18.parse_total` (the line regex regenerated from the source matches at every offset of every
text) removes the hypothesis of `C09_text_partial`: on a well-formed state, `handleGcode(cmd,
gcode)` on *strings* never raises, for every command text. -/
namespace ERP.C09
open ERP T

variable {α : Type} [Field α] [LinearOrder α] [IsStrictOrderedRing α] [MathOps α] [MathSpec α]

theorem cmdOfText_total [OfDecimal α] (cmd : Text) (g : String) : ∃ c : Cmd α, cmdOfText cmd g = .ok c := by
  obtain ⟨q, hq⟩ := C18.parse_total ({} : Parser) cmd 0 (Nat.zero_le _)
  have : ({} : Parser).parse (some cmd) = .ok q := hq
  exact ⟨_, by simp only [cmdOfText, this, ok_bind]; rfl⟩

/-- **C09 (text entry point).** -/
theorem C09_text [OfDecimal α] (cfg : Config) (inch : α) (hinch : inch ≠ 0) (s : FState α)
    (cmd gcode : Text) (h : WF s) :
    ∃ s' r, handleGcodeText cfg inch s cmd gcode = .ok (s', r) ∧ WF s' ∧ Result.Shape r := by
  obtain ⟨c, hc⟩ := cmdOfText_total (α := α) cmd (String.ofList (gcode.map upperC))
  exact C09_text_partial cfg inch hinch s cmd gcode c hc h

end ERP.C09
