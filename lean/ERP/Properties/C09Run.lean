import ERP.Properties.C09Text
import ERP.Lemmas.Track
/-! # C09 — along a whole run, every command string the filter forwards is non-empty -/
namespace ERP.C09
open ERP T

set_option linter.unusedSectionVars false

variable {α : Type} [Field α] [LinearOrder α] [IsStrictOrderedRing α] [MathOps α] [MathSpec α]

/-- the configured enter/exit script lines are non-empty (what `_splitGcodeScript` guarantees:
`C18.splitGcodeScript_spec`) -/
def CfgOk (cfg : Config) : Prop :=
  (∀ l, cfg.enteringExcludedRegionGcode = some l → ∀ t ∈ l, t ≠ []) ∧
  (∀ l, cfg.exitingExcludedRegionGcode = some l → ∀ t ∈ l, t ≠ [])

/-- every deferred command text is non-empty -/
def StoreOk (s : FState α) : Prop := ∀ g c, (g, Pending.cmd c) ∈ s.pendingCommands → c.text ≠ []

def OutsOk (l : List (Out α)) : Prop := ∀ o ∈ l, OutOk o

theorem OutsOk.nil : OutsOk ([] : List (Out α)) := by intro o h; cases h

theorem OutsOk.append {a b : List (Out α)} (ha : OutsOk a) (hb : OutsOk b) : OutsOk (a ++ b) := by
  intro o h
  rcases List.mem_append.mp h with h | h
  · exact ha o h
  · exact hb o h

theorem OutsOk.single {o : Out α} (h : OutOk o) : OutsOk [o] := by
  intro x hx
  simp only [List.mem_singleton] at hx
  subst hx; exact h

theorem ok_orig (c : Cmd α) (h : c.text ≠ []) : OutsOk [Out.orig c] := OutsOk.single h
theorem ok_g92e (e : α) : OutsOk [Out.g92e e] := OutsOk.single (o := Out.g92e e) trivial
theorem ok_g0z (f z : α) : OutsOk [Out.g0z f z] := OutsOk.single (o := Out.g0z f z) trivial
theorem ok_g0xy (f x y : α) : OutsOk [Out.g0xy f x y] := OutsOk.single (o := Out.g0xy f x y) trivial

theorem addCommands_ok (r : Retraction α) (dir : α) (p : Position α) : OutsOk (addCommands r dir p).2 := by
  unfold addCommands
  split
  · exact OutsOk.single (o := Out.fw _ _) trivial
  · intro o ho
    simp only [List.mem_cons, List.mem_nil_iff, or_false] at ho
    rcases ho with rfl | rfl <;> trivial

theorem recordRetraction_ok (s : FState α) (r : Retraction α) (h : r.originalCommand.text ≠ []) :
    OutsOk (recordRetraction s r).2 ∧ (recordRetraction s r).1.pendingCommands = s.pendingCommands := by
  unfold recordRetraction
  split
  · dsimp only
    split
    · exact ⟨addCommands_ok _ _ _, rfl⟩
    · exact ⟨ok_orig _ h, rfl⟩
  · dsimp only
    split
    · exact ⟨OutsOk.nil, rfl⟩
    · split
      · split
        · exact ⟨addCommands_ok _ _ _, rfl⟩
        · exact ⟨ok_orig _ h, rfl⟩
      · split
        · exact ⟨OutsOk.nil, rfl⟩
        · exact ⟨ok_orig _ h, rfl⟩


theorem recoverRetraction_ok (s : FState α) (cmd : Cmd α) (lr : Retraction α) (h : cmd.text ≠ []) :
    OutsOk (recoverRetraction s cmd lr).2 ∧ (recoverRetraction s cmd lr).1.pendingCommands = s.pendingCommands := by
  unfold recoverRetraction
  refine ⟨OutsOk.append ?_ (ok_orig cmd h), rfl⟩
  split
  · exact addCommands_ok _ _ _
  · exact OutsOk.nil

theorem recoverIfNeeded_ok (s : FState α) (cmd : Cmd α) (b : Bool) (h : cmd.text ≠ []) :
    OutsOk (recoverRetractionIfNeeded s cmd b).2 ∧
      (recoverRetractionIfNeeded s cmd b).1.pendingCommands = s.pendingCommands := by
  unfold recoverRetractionIfNeeded
  split
  · dsimp only
    split
    · exact ⟨OutsOk.nil, rfl⟩
    · exact recoverRetraction_ok _ cmd _ h
  · split
    · exact ⟨ok_orig _ h, rfl⟩
    · exact ⟨OutsOk.nil, rfl⟩

theorem enter_ok (cfg : Config) (hc : CfgOk cfg) (s : FState α) :
    OutsOk (enterExcludedRegion cfg s).2 ∧ (enterExcludedRegion cfg s).1.pendingCommands = s.pendingCommands := by
  unfold enterExcludedRegion
  split
  · exact ⟨OutsOk.nil, rfl⟩
  · refine ⟨?_, rfl⟩
    cases hl : cfg.enteringExcludedRegionGcode with
    | none => exact OutsOk.nil
    | some l =>
      intro o ho
      simp only [List.mem_map] at ho
      obtain ⟨t, ht, rfl⟩ := ho
      exact hc.1 l hl t ht

theorem pending_ok (cfg : Config) (hc : CfgOk cfg) (s : FState α) (hs : StoreOk s) :
    OutsOk (s.processPendingCommands cfg).2 ∧ (s.processPendingCommands cfg).1.pendingCommands = [] := by
  unfold FState.processPendingCommands
  refine ⟨?_, rfl⟩
  apply OutsOk.append
  · intro o ho
    simp only [List.mem_map] at ho
    obtain ⟨⟨g, p⟩, hm, rfl⟩ := ho
    cases p with
    | cmd c => exact hs g c hm
    | args a => trivial
  · cases hl : cfg.exitingExcludedRegionGcode with
    | none => exact OutsOk.nil
    | some l =>
      intro o ho
      simp only [List.mem_map] at ho
      obtain ⟨t, ht, rfl⟩ := ho
      exact hc.2 l hl t ht

theorem StoreOk.of_eq {s s' : FState α} (h : StoreOk s) (e : s'.pendingCommands = s.pendingCommands) : StoreOk s' := by
  intro g c hm; rw [e] at hm; exact h g c hm

theorem StoreOk.of_nil {s : FState α} (e : s.pendingCommands = []) : StoreOk s := by
  intro g c hm; rw [e] at hm; cases hm

theorem exit_ok (cfg : Config) (hc : CfgOk cfg) (s : FState α) (hs : StoreOk s) :
    OutsOk (exitExcludedRegion cfg s).2 ∧ StoreOk (exitExcludedRegion cfg s).1 := by
  unfold exitExcludedRegion
  split
  · exact ⟨OutsOk.nil, hs⟩
  · have hp := pending_ok cfg hc { s with excluding := false } (hs.of_eq rfl)
    dsimp only
    refine ⟨?_, StoreOk.of_nil hp.2⟩
    have base : OutsOk ((FState.processPendingCommands cfg { s with excluding := false }).2 ++
        [Out.g92e (n2l (FState.processPendingCommands cfg { s with excluding := false }).1.position.e)]) :=
      hp.1.append (ok_g92e _)
    split <;> split <;>
      first
        | exact ((base.append (ok_g0z _ _)).append (ok_g0xy _ _ _)).append (ok_g0z _ _)
        | exact (base.append (ok_g0z _ _)).append (ok_g0xy _ _ _)
        | exact (base.append (ok_g0xy _ _ _)).append (ok_g0z _ _)
        | exact base.append (ok_g0xy _ _ _)


theorem disable_ok (cfg : Config) (hc : CfgOk cfg) (s : FState α) (hs : StoreOk s) :
    OutsOk (disableExclusion cfg s).2 ∧ StoreOk (disableExclusion cfg s).1 := by
  unfold disableExclusion
  split
  · dsimp only
    split
    · exact exit_ok cfg hc _ (hs.of_eq rfl)
    · exact ⟨OutsOk.nil, hs.of_eq rfl⟩
  · exact ⟨OutsOk.nil, hs⟩

theorem processNonMove_ok (s : FState α) (cmd : Cmd α) (d : α) (h : cmd.text ≠ []) :
    OutsOk (processNonMove s cmd d).2 ∧ (processNonMove s cmd d).1.pendingCommands = s.pendingCommands := by
  unfold processNonMove
  split
  · have := recordRetraction_ok s
      { firmwareRetract := false, extrusionAmount := some (-d), feedRate := some s.feedRate,
        originalCommand := cmd } h
    dsimp only
    split
    · exact ⟨ok_g92e _, this.2⟩
    · exact this
  · split
    · exact recoverIfNeeded_ok s cmd true h
    · split
      · exact ⟨ok_orig cmd h, rfl⟩
      · exact ⟨OutsOk.nil, rfl⟩

theorem processExcludedMove_ok (cfg : Config) (hc : CfgOk cfg) (s : FState α) (cmd : Cmd α) (d : α)
    (h : cmd.text ≠ []) :
    OutsOk (processExcludedMove cfg s cmd d).2 ∧
      (processExcludedMove cfg s cmd d).1.pendingCommands = s.pendingCommands := by
  unfold processExcludedMove
  have h1 : OutsOk (if !s.excluding then enterExcludedRegion cfg s else (s, [])).2 ∧
      (if !s.excluding then enterExcludedRegion cfg s else (s, [])).1.pendingCommands = s.pendingCommands := by
    split
    · exact enter_ok cfg hc s
    · exact ⟨OutsOk.nil, rfl⟩
  dsimp only
  split
  · have h2 := processNonMove_ok (if !s.excluding then enterExcludedRegion cfg s else (s, [])).1 cmd d h
    exact ⟨h1.1.append h2.1, h2.2.trans h1.2⟩
  · exact h1

theorem isAnyLoop_pending (s : FState α) (l : List (Option α × Option α)) (b : Bool) :
    (T.isAnyLoop s l b).1.pendingCommands = s.pendingCommands := by
  induction l generalizing s b with
  | nil => rfl
  | cons x xs ih =>
    obtain ⟨px, py⟩ := x
    unfold T.isAnyLoop
    rw [ih]


theorem OutsOk.insertBeforeLast {l : List (Out α)} (h : OutsOk l) (e : α) :
    OutsOk (insertBeforeLast l (Out.g92e e)) := by
  intro o ho
  rcases mem_insertBeforeLast l _ o ho with rfl | hm
  · trivial
  · exact h o hm

theorem moveBody_ok (cfg : Config) (hc : CfgOk cfg) (s1 : FState α) (cmd : Cmd α) (d pe : α)
    (sp : Position α) (xy : List (Option α × Option α)) (h : cmd.text ≠ []) (hs : StoreOk s1) :
    OutsOk (moveBody cfg s1 cmd d pe sp xy).2 ∧ StoreOk (moveBody cfg s1 cmd d pe sp xy).1 := by
  have hp := isAnyLoop_pending s1 xy false
  have hs' : StoreOk (T.isAnyLoop s1 xy false).1 := hs.of_eq hp
  unfold moveBody
  dsimp only
  split
  · have h2 := processExcludedMove_ok cfg hc (T.isAnyLoop s1 xy false).1 cmd d h
    refine ⟨h2.1, ?_⟩
    split
    · exact hs'.of_eq h2.2
    · exact hs'.of_eq h2.2
  · split
    · exact exit_ok cfg hc _ hs'
    · split
      · have h3 := recoverIfNeeded_ok (T.isAnyLoop s1 xy false).1 cmd false h
        split
        · split
          · exact ⟨h3.1.insertBeforeLast _, hs'.of_eq h3.2⟩
          · exact ⟨h3.1, hs'.of_eq h3.2⟩
        · exact ⟨h3.1, hs'.of_eq h3.2⟩
      · exact ⟨ok_orig cmd h, hs'⟩

theorem nonMoveBody_ok (s1 : FState α) (cmd : Cmd α) (d pe : α) (h : cmd.text ≠ []) (hs : StoreOk s1) :
    OutsOk (nonMoveBody s1 cmd d pe).2 ∧ StoreOk (nonMoveBody s1 cmd d pe).1 := by
  have h1 := processNonMove_ok s1 cmd d h
  unfold nonMoveBody
  dsimp only
  split
  · split
    · exact ⟨h1.1.insertBeforeLast _, hs.of_eq h1.2⟩
    · exact ⟨h1.1, hs.of_eq h1.2⟩
  · exact ⟨h1.1, hs.of_eq h1.2⟩

/-- a hook result whose replacement commands are all fine -/
def ResOk : Result α → Prop
  | .list l => OutsOk l
  | _ => True

theorem toResult_ok (p : FState α × List (Out α)) (h : OutsOk p.2) : ResOk (toResult p).2 := by
  unfold toResult
  split
  · trivial
  · exact h

theorem toResult_fst (p : FState α × List (Out α)) : (toResult p).1 = p.1 := by
  unfold toResult; split <;> rfl

theorem applyEZF_pending (s : FState α) (e f z : Option α) : (applyEZF s e f z).pendingCommands = s.pendingCommands := by
  unfold applyEZF
  cases f <;> rfl

theorem plm_ok (cfg : Config) (hc : CfgOk cfg) (s : FState α) (cmd : Cmd α) (e f z : Option α)
    (xy : List (Option α × Option α)) (h : cmd.text ≠ []) (hs : StoreOk s) :
    ResOk (processLinearMoves cfg s cmd e f z xy).2 ∧ StoreOk (processLinearMoves cfg s cmd e f z xy).1 := by
  have hs1 : StoreOk (applyEZF s e f z) := hs.of_eq (applyEZF_pending s e f z)
  unfold processLinearMoves
  dsimp only
  rw [toResult_fst]
  split
  · have := nonMoveBody_ok (applyEZF s e f z) cmd (deltaEOf s e) (cur s.position.e) h hs1
    exact ⟨toResult_ok _ this.1, this.2⟩
  · have := moveBody_ok cfg hc (applyEZF s e f z) cmd (deltaEOf s e) (cur s.position.e) s.position xy h hs1
    exact ⟨toResult_ok _ this.1, this.2⟩


theorem StoreOk.pop {p : List (String × Pending α)} (h : ∀ g c, (g, Pending.cmd c) ∈ p → c.text ≠ []) (k : String) :
    ∀ g c, (g, Pending.cmd c) ∈ pendingPop p k → c.text ≠ [] := by
  intro g c hm
  unfold pendingPop at hm
  exact h g c (List.mem_filter.mp hm).1

theorem extEntry_ok (s : FState α) (m : Mode) (cmd : Cmd α) (g : String) (h : cmd.text ≠ []) (hs : StoreOk s) :
    StoreOk (s.processExtendedGcodeEntry m cmd g) := by
  unfold FState.processExtendedGcodeEntry
  cases m with
  | exclude => exact hs
  | first =>
    dsimp only
    split
    · exact hs
    · intro g' c hm
      simp only [List.mem_append, List.mem_singleton, Prod.mk.injEq, Pending.cmd.injEq] at hm
      rcases hm with hm | ⟨_, rfl⟩
      · exact hs g' c hm
      · exact h
  | last =>
    intro g' c hm
    simp only [List.mem_append, List.mem_singleton, Prod.mk.injEq, Pending.cmd.injEq] at hm
    rcases hm with hm | ⟨_, rfl⟩
    · exact StoreOk.pop hs g g' c hm
    · exact h
  | merge =>
    intro g' c hm
    simp only [List.mem_append, List.mem_singleton, Prod.mk.injEq, reduceCtorEq, and_false, or_false] at hm
    exact StoreOk.pop hs g g' c hm

theorem ext_ok (cfg : Config) (s : FState α) (cmd : Cmd α) (g : String) (h : cmd.text ≠ []) (hs : StoreOk s) :
    ResOk (s.processExtendedGcode cfg cmd g).2 ∧ StoreOk (s.processExtendedGcode cfg cmd g).1 := by
  unfold FState.processExtendedGcode
  split
  · split
    · exact ⟨trivial, extEntry_ok s _ cmd g h hs⟩
    · exact ⟨trivial, hs⟩
  · exact ⟨trivial, hs⟩

theorem handleG2_outs (cfg : Config) (hc : CfgOk cfg) (s : FState α) (cmd : Cmd α) (cw : Bool)
    (h : cmd.text ≠ []) (hs : StoreOk s) :
    ResOk (T.handleG2 cfg s cmd cw).2 ∧ StoreOk (T.handleG2 cfg s cmd cw).1 := by
  unfold T.handleG2
  dsimp only
  split <;> split
  · exact plm_ok cfg hc s cmd _ _ _ _ h hs
  · exact ⟨trivial, hs⟩
  · exact plm_ok cfg hc s cmd _ _ _ _ h hs
  · exact ⟨trivial, hs⟩

/-- **one command**: the deferred store stays fine and every replacement command is fine -/
theorem handleGcode_outs (cfg : Config) (hc : CfgOk cfg) (inch : α) (s : FState α) (g : String) (cmd : Cmd α)
    (h : cmd.text ≠ []) (hs : StoreOk s) :
    ResOk (T.handleGcode cfg inch s g cmd).2 ∧ StoreOk (T.handleGcode cfg inch s g cmd).1 := by
  unfold T.handleGcode
  split
  · exact plm_ok cfg hc s cmd _ _ _ _ h hs
  · exact plm_ok cfg hc s cmd _ _ _ _ h hs
  · exact handleG2_outs cfg hc s cmd _ h hs
  · exact handleG2_outs cfg hc s cmd _ h hs
  · unfold T.handleG10
    split
    · exact ⟨trivial, hs⟩
    · have := recordRetraction_ok s
        { firmwareRetract := true, extrusionAmount := none, feedRate := none, originalCommand := cmd } h
      rw [toResult_fst]
      exact ⟨toResult_ok _ this.1, hs.of_eq this.2⟩
  · unfold T.handleG11
    have := recoverIfNeeded_ok s cmd true h
    rw [toResult_fst]
    exact ⟨toResult_ok _ this.1, hs.of_eq this.2⟩
  · exact ⟨trivial, hs.of_eq rfl⟩
  · exact ⟨trivial, hs.of_eq rfl⟩
  · exact ⟨trivial, hs.of_eq rfl⟩
  · exact ⟨trivial, hs.of_eq rfl⟩
  · exact ⟨trivial, hs.of_eq rfl⟩
  · exact ⟨trivial, hs.of_eq rfl⟩
  · exact ⟨trivial, hs.of_eq rfl⟩
  · exact ext_ok cfg s cmd g h hs

theorem atLoop_outs (cfg : Config) (hc : CfgOk cfg) (params : Text) (l : List AtEntry) :
    ∀ (s : FState α) (b : Bool) (sent : List (Out α)), StoreOk s → OutsOk sent →
      OutsOk (T.atLoop cfg params l s b sent).2.2 ∧ StoreOk (T.atLoop cfg params l s b sent).1 := by
  induction l with
  | nil => intro s b sent hs ho; exact ⟨ho, hs⟩
  | cons e rest ih =>
    intro s b sent hs ho
    unfold T.atLoop
    split
    · split
      · exact ih _ _ _ (hs.of_eq rfl) ho
      · have hd := disable_ok cfg hc s hs
        exact ih _ _ _ hd.2 (ho.append hd.1)
      · exact ih _ _ _ hs ho
    · exact ih _ _ _ hs ho

theorem handleAt_outs (cfg : Config) (hc : CfgOk cfg) (s : FState α) (st : Bool) (cmd : String) (ps : Text)
    (hs : StoreOk s) :
    OutsOk (T.handleAtCommand cfg s st cmd ps).2.2 ∧ StoreOk (T.handleAtCommand cfg s st cmd ps).1 := by
  unfold T.handleAtCommand
  split
  · exact ⟨OutsOk.nil, hs⟩
  · exact atLoop_outs cfg hc ps _ s false [] hs OutsOk.nil


/-- the commands handed to the filter are non-empty strings -/
def EvOk : Ev α → Prop
  | .gcode _ c => c.text ≠ []
  | _ => True

theorem step_outs (cfg : Config) (hc : CfgOk cfg) (inch : α) (s : FState α) (e : Ev α) (he : EvOk e)
    (hs : StoreOk s) :
    OutsOk ((stepT cfg inch s e).2.forwarded e) ∧ StoreOk (stepT cfg inch s e).1 := by
  cases e with
  | gcode g c =>
    have := handleGcode_outs cfg hc inch s g c he hs
    refine ⟨?_, this.2⟩
    simp only [stepT]
    cases hr : (T.handleGcode cfg inch s g c).2 with
    | none => exact ok_orig c he
    | ignore => exact OutsOk.nil
    | list l =>
      have h1 := this.1
      rw [hr] at h1
      exact h1
  | atCmd st cmd ps =>
    have := handleAt_outs cfg hc s st cmd ps hs
    exact ⟨this.1, this.2⟩
  | addRegion r =>
    simp only [stepT]
    cases hr : s.addRegion r with
    | ok s' =>
      refine ⟨OutsOk.nil, ?_⟩
      unfold FState.addRegion at hr
      split at hr
      · cases hr; exact hs.of_eq rfl
      · cases hr
    | error _ => exact ⟨OutsOk.nil, hs⟩

/-- **C09 (non-empty command strings, whole runs).**  From a state whose deferred commands are
non-empty (in particular after `resetState`), for every sequence of events whose commands are
non-empty strings and a configuration whose script lines are non-empty, everything the filter
forwards — the command itself when the hook returns `None`, every replacement command, every
command sent by an @-command — satisfies `OutOk`; by `render_nonempty` its text is non-empty. -/
theorem C09_run_outputs (cfg : Config) (hc : CfgOk cfg) (inch : α) (evs : List (Ev α)) :
    (∀ e ∈ evs, EvOk e) → ∀ s : FState α, StoreOk s →
      StoreOk (runT cfg inch s evs).1 ∧
      ∀ p ∈ List.zip evs (runT cfg inch s evs).2, OutsOk (p.2.forwarded p.1) := by
  induction evs with
  | nil => intro _ s hs; exact ⟨hs, by intro p hp; cases hp⟩
  | cons e es ih =>
    intro hev s hs
    have h1 := step_outs cfg hc inch s e (hev e (List.mem_cons_self ..)) hs
    have h2 := ih (fun e' he' => hev e' (List.mem_cons_of_mem _ he')) _ h1.2
    refine ⟨h2.1, ?_⟩
    intro p hp
    simp only [runT, List.zip_cons_cons, List.mem_cons] at hp
    rcases hp with rfl | hp
    · exact h1.1
    · exact h2.2 p hp

theorem reset_storeOk (regions : List (Region α)) : StoreOk (FState.reset regions) := by
  intro g c hm; cases hm

/-- the strings themselves -/
theorem C09_run_strings (nt : α → Text) (cfg : Config) (hc : CfgOk cfg) (inch : α) (evs : List (Ev α))
    (hev : ∀ e ∈ evs, EvOk e) (s : FState α) (hs : StoreOk s) :
    ∀ p ∈ List.zip evs (runT cfg inch s evs).2, ∀ o ∈ p.2.forwarded p.1, ∀ t, render nt o = .ok t → t ≠ [] := by
  intro p hp o ho t ht
  exact render_nonempty nt o t ((C09_run_outputs cfg hc inch evs hev s hs).2 p hp o ho) ht

end ERP.C09
