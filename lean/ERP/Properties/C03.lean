import ERP.Lemmas.StepInv
import ERP.Lemmas.RealOps
import ERP.Spec.Sys
import ERP.Lemmas.GenArith
import ERP.Lemmas.GenTies
/-! # C03 — Leaving a region re-synchronises the tool position

`phys` executes what the filter forwards, `virt` executes the unfiltered file (`ERP.Spec.Sys`).
The theorems hold for every program of the dialect `Dialect` (absolute or relative positioning,
mm or inch, any regions, entering moves that also change Z or E); the excluded commands are the
known findings K-D5 (arcs in relative mode), K-D10 (R-form arcs), K-D15 (G92 X/Y/Z, M206) and
K-D18 (G28 inside an episode). -/
namespace ERP.C03
open ERP T Spec
set_option linter.unusedSectionVars false

variable {α : Type} [Field α] [LinearOrder α] [IsStrictOrderedRing α] [MathOps α] [MathSpec α]

/-- the three components are consistent -/
structure Good (y : Sys α) : Prop where
  wf : WF y.s
  inv : InvXYZ y.s y.phys
  track : XYZeq y.s.position y.virt.pos

/-- every command of the program is in the dialect at the state in which it is processed -/
def DialectRun (cfg : Config) (inch : α) : Sys α → List (Ev α) → Prop
  | _, [] => True
  | y, e :: es => DialectEv y.s e ∧ DialectRun cfg inch (y.step cfg inch e) es

theorem good_step (cfg : Config) (inch : α) (hinch : inch ≠ 0) (y : Sys α) (e : Ev α)
    (hg : Good y) (hd : DialectEv y.s e) : Good (y.step cfg inch e) := by
  obtain ⟨hw, hi⟩ := step_inv cfg inch hinch y.s y.phys e hg.wf hg.inv hd
  refine ⟨hw, hi, ?_⟩
  cases e with
  | gcode g c => exact track_gcode cfg inch y.s y.virt g c hg.wf hd hg.track
  | atCmd st cmd ps =>
    -- @-commands never touch the tracked position
    simp only [Sys.step, stepT]
    have : (T.handleAtCommand cfg y.s st cmd ps).1.position = y.s.position := by
      unfold T.handleAtCommand
      split
      · rfl
      · generalize List.filter (fun e => e.command == cmd) cfg.atCommandActions = es
        suffices ∀ (s : FState α) (hd : Bool) (sent : List (Out α)),
            (T.atLoop cfg ps es s hd sent).1.position = s.position from this _ _ _
        induction es with
        | nil => intro s hd sent; rfl
        | cons e rest ih =>
          intro s hd sent
          unfold T.atLoop
          split
          · cases e.action with
            | enable => rw [ih]; rfl
            | disable =>
              simp only
              rw [ih]
              unfold T.disableExclusion
              split
              · dsimp only
                split
                · rw [exitExcludedRegion_state]; split <;> rfl
                · rfl
              · rfl
            | unsupported => exact ih _ _ _
          · exact ih _ _ _
    rw [this]; exact hg.track
  | addRegion r =>
    simp only [Sys.step, stepT]
    cases hr : y.s.addRegion r with
    | error _ => exact hg.track
    | ok s' =>
      unfold FState.addRegion at hr
      split at hr
      · cases hr; exact hg.track
      · cases hr

theorem good_run (cfg : Config) (inch : α) (hinch : inch ≠ 0) (es : List (Ev α)) :
    ∀ y : Sys α, Good y → DialectRun cfg inch y es → Good (y.run cfg inch es) := by
  induction es with
  | nil => intro y h _; exact h
  | cons e rest ih =>
    intro y h hd
    exact ih _ (good_step cfg inch hinch y e h hd.1) hd.2

/-- the homed start configuration is consistent (non-vacuity; any region list) -/
theorem good_start (regions : List (Region α)) : Good (Sys.start regions) := by
  have hw : WF (handleG28 (FState.reset regions) ({ text := [], words := [], code := "G28" } : Cmd α)) := by
    unfold handleG28
    simp only [hasLetter, List.any_nil, Bool.or_self, Bool.not_false, Bool.or_true, if_true]
    refine ⟨⟨⟨rfl, one_ne_zero⟩, ⟨rfl, one_ne_zero⟩, ⟨rfl, one_ne_zero⟩, ⟨rfl, one_ne_zero⟩⟩,
      one_ne_zero, ?_, ?_⟩
    · intro hx; simp [FState.reset] at hx
    · intro lr hlr; simp [FState.reset] at hlr
  refine ⟨hw, ?_, XYZeq.refl _⟩
  apply InvXYZ.mk_free
  · simp [Sys.start, handleG28, FState.reset]
  · exact XYZeq.refl _
  · intro e he; simp [Sys.start, handleG28, FState.reset] at he

/-- **C03 (position, mode, units).** In every reachable configuration in which no episode is open,
the printer's X, Y and Z axes — physical position, workspace offsets, positioning mode and units —
are exactly those the unfiltered file produces. -/
theorem C03_resync (cfg : Config) (inch : α) (hinch : inch ≠ 0) (regions : List (Region α))
    (es : List (Ev α)) (hd : DialectRun cfg inch (Sys.start regions) es) :
    let y := (Sys.start regions).run cfg inch es
    y.s.excluding = false → XYZeq y.phys.pos y.virt.pos := by
  intro y he
  have hg := good_run cfg inch hinch es _ (good_start regions) hd
  exact (hg.inv.of_not_excluding he).trans hg.track

/-- A move none of whose tested points (the destination of a linear move, every sample of an arc)
is excluded leaves no episode open … -/
theorem move_outside_closes (cfg : Config) (s : FState α) (cmd : Cmd α) (ep fr fz : Option α)
    (xy : List (Option α × Option α)) (hm : T.isMoveOf fz xy = true)
    (hout : (T.isAnyLoop (T.applyEZF s ep fr fz) xy false).2 = false) :
    (T.processLinearMoves cfg s cmd ep fr fz xy).1.excluding = false := by
  simp only [T.processLinearMoves, toResult_fst, hm, Bool.not_true, Bool.false_eq_true, if_false,
    T.moveBody, hout]
  generalize (T.isAnyLoop (T.applyEZF s ep fr fz) xy false).1 = s2
  by_cases hexc : s2.excluding = true
  · simp only [hexc, if_true]
    rw [exitExcludedRegion_state, if_pos hexc]
  · have hexc' : s2.excluding = false := by simpa using hexc
    simp only [hexc', Bool.false_eq_true, if_false]
    split
    · have := recoverRetractionIfNeeded_excluding s2 cmd false
      generalize T.recoverRetractionIfNeeded s2 cmd false = r3 at *
      cases s2.lastRetraction with
      | none => simp only; rw [this]; exact hexc'
      | some lr =>
        simp only
        split
        · exact this.trans hexc'
        · exact this.trans hexc'
    · exact hexc'

/-- … so for a linear move (G0/G1 with an X, Y or Z word) whose destination is outside every
enabled region, once the command has been processed the printer is where the file puts it. -/
theorem C03_linear_move (cfg : Config) (inch : α) (hinch : inch ≠ 0) (y : Sys α) (hg : Good y)
    (g : String) (c : Cmd α) (hd : Dialect y.s g c)
    (hcode : Code.ofString g = .G0 ∨ Code.ofString g = .G1)
    (hmove : T.isMoveOf (lastValue c.words 'Z') [(lastValue c.words 'X', lastValue c.words 'Y')] = true)
    (hout : (T.isAnyLoop (T.applyEZF y.s (lastValue c.words 'E') (lastValue c.words 'F') (lastValue c.words 'Z'))
              [(lastValue c.words 'X', lastValue c.words 'Y')] false).2 = false) :
    XYZeq (y.step cfg inch (.gcode g c)).phys.pos (y.step cfg inch (.gcode g c)).virt.pos := by
  have hg' := good_step cfg inch hinch y (.gcode g c) hg hd
  have hex : (y.step cfg inch (.gcode g c)).s.excluding = false := by
    simp only [Sys.step, stepT, T.handleGcode]
    rcases hcode with hc | hc <;> simp only [hc, T.handleG0] <;>
      exact move_outside_closes cfg y.s c _ _ _ _ hmove hout
  exact (hg'.inv.of_not_excluding hex).trans hg'.track

/-- the single tested point of a linear move is its destination: the flag computed by the loop is
the region test at the tracked (= the file's) new position -/
theorem linear_test_is_destination (s : FState α) (px py : Option α) :
    (T.isAnyLoop s [(px, py)] false).2 =
      T.isPointExcluded (T.isAnyLoop s [(px, py)] false).1
        (cur (T.isAnyLoop s [(px, py)] false).1.position.x)
        (cur (T.isAnyLoop s [(px, py)] false).1.position.y) := by
  simp [T.isAnyLoop, T.isPointExcluded]

/-- non-vacuity: over ℝ the start configuration is `Good` -/
example : Good (Sys.start ([Region.rect "a" 10 10 20 20] : List (Region ℝ))) := good_start _

end ERP.C03
