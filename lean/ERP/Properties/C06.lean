import ERP.Lemmas.Ctrl
import ERP.Lemmas.RealOps
import ERP.Lemmas.GenConsts
import ERP.Lemmas.GenTies
/-! # C06 — Deferred G-codes and enter/exit scripts: exactly once per exclusion episode -/
namespace ERP.C06
open ERP T Spec
set_option linter.unusedSectionVars false

variable {α : Type} [Field α] [LinearOrder α] [IsStrictOrderedRing α] [MathOps α] [MathSpec α]

/-! ## Scripts -/

def isScript : Out α → Bool
  | .script _ _ => true
  | _ => false

def enterLines (cfg : Config) : List (Out α) :=
  match cfg.enteringExcludedRegionGcode with
  | some l => l.map (.script false)
  | none => []

def exitLines (cfg : Config) : List (Out α) :=
  match cfg.exitingExcludedRegionGcode with
  | some l => l.map (.script true)
  | none => []

/-- the script lines among a list of returned commands -/
def scriptPart (l : List (Out α)) : List (Out α) := l.filter isScript

theorem scriptPart_append (a b : List (Out α)) : scriptPart (a ++ b) = scriptPart a ++ scriptPart b := by
  simp [scriptPart]

theorem scriptPart_none (l : List (Out α)) (h : ∀ o ∈ l, isScript o = false) : scriptPart l = [] := by
  simp only [scriptPart, List.filter_eq_nil_iff]
  intro o ho; simp [h o ho]

theorem scriptPart_all (l : List (Out α)) (h : ∀ o ∈ l, isScript o = true) : scriptPart l = l := by
  simp only [scriptPart, List.filter_eq_self]
  exact h

theorem enterLines_scripts (cfg : Config) : ∀ o ∈ (enterLines cfg : List (Out α)), isScript o = true := by
  intro o ho
  unfold enterLines at ho
  split at ho
  · obtain ⟨t, _, rfl⟩ := List.mem_map.mp ho; rfl
  · cases ho

theorem exitLines_scripts (cfg : Config) : ∀ o ∈ (exitLines cfg : List (Out α)), isScript o = true := by
  intro o ho
  unfold exitLines at ho
  split at ho
  · obtain ⟨t, _, rfl⟩ := List.mem_map.mp ho; rfl
  · cases ho

theorem addCommands_noScript (r : Retraction α) (dir : α) (p : Position α) :
    ∀ o ∈ (T.addCommands r dir p).2, isScript o = false := by
  unfold T.addCommands
  split <;> intro o ho <;> simp at ho
  · subst ho; rfl
  · rcases ho with rfl | rfl <;> rfl

theorem recordRetraction_noScript (s : FState α) (r : Retraction α) :
    ∀ o ∈ (T.recordRetraction s r).2, isScript o = false := by
  have hA := addCommands_noScript r 1 s.position
  unfold T.recordRetraction
  cases s.lastRetraction with
  | none =>
    by_cases he : s.excluding = true
    · simp only [he, if_true]; exact hA
    · simp only [he]; intro o ho; simp at ho; subst ho; rfl
  | some lr =>
    by_cases h1 : lr.recoverExcluded = true
    · simp [h1]
    · by_cases h2 : lr.allowCombine = true
      · by_cases he : s.excluding = true
        · simp only [h1, h2, he, if_true, Bool.false_eq_true, if_false]; exact hA
        · simp only [h1, h2, he, if_true, Bool.false_eq_true, if_false]
          intro o ho; simp at ho; subst ho; rfl
      · by_cases he : s.excluding = true
        · simp [h1, h2, he]
        · simp only [h1, h2, he, Bool.false_eq_true, if_false]
          intro o ho; simp at ho; subst ho; rfl

theorem recoverIfNeeded_noScript (s : FState α) (cmd : Cmd α) (b : Bool) :
    ∀ o ∈ (T.recoverRetractionIfNeeded s cmd b).2, isScript o = false := by
  unfold T.recoverRetractionIfNeeded T.recoverRetraction
  cases s.lastRetraction with
  | none =>
    by_cases he : s.excluding = true
    · simp [he]
    · simp only [he]; intro o ho; simp at ho; subst ho; rfl
  | some lr =>
    by_cases he : s.excluding = true
    · simp [he]
    · simp only [he, Bool.false_eq_true, if_false]
      intro o ho
      rcases List.mem_append.mp ho with ho | ho
      · split at ho
        · exact addCommands_noScript _ _ _ o ho
        · cases ho
      · simp at ho; subst ho; rfl

theorem nonMoveBody_noScript_of (s : FState α) (cmd : Cmd α) (dE pE : α)
    (h : ∀ o ∈ (T.processNonMove s cmd dE).2, isScript o = false) :
    ∀ o ∈ (T.nonMoveBody s cmd dE pE).2, isScript o = false := by
  unfold T.nonMoveBody
  cases s.lastRetraction with
  | none => exact h
  | some lr =>
    simp only
    split
    · intro o ho
      rcases mem_insertBeforeLast _ _ _ ho with rfl | ho
      · rfl
      · exact h o ho
    · exact h

theorem processNonMove_noScript (s : FState α) (cmd : Cmd α) (dE : α) :
    ∀ o ∈ (T.processNonMove s cmd dE).2, isScript o = false := by
  unfold T.processNonMove
  by_cases h1 : dE < 0
  · simp only [h1, if_true]
    have := recordRetraction_noScript s
      ({ firmwareRetract := false, extrusionAmount := some (-dE), feedRate := some s.feedRate, originalCommand := cmd } : Retraction α)
    generalize T.recordRetraction s _ = rr at *
    split
    · intro o ho; simp at ho; subst ho; rfl
    · exact this
  · by_cases h2 : 0 < dE
    · simp only [h1, h2, if_true, if_false]; exact recoverIfNeeded_noScript s cmd true
    · simp only [h1, h2, if_false]
      split
      · intro o ho; simp at ho; subst ho; rfl
      · intro o ho; cases ho

end ERP.C06

namespace ERP.C06
open ERP T Spec
set_option linter.unusedSectionVars false
variable {α : Type} [Field α] [LinearOrder α] [IsStrictOrderedRing α] [MathOps α] [MathSpec α]

/-- what `_processPendingCommands` turns the pending entries into -/
def flush (pending : List (String × Pending α)) : List (Out α) :=
  pending.map (fun (g, p) => match p with
    | .args a => Out.merged g a
    | .cmd c => Out.orig c)

theorem nonMoveBody_noScript (s : FState α) (cmd : Cmd α) (dE pE : α) :
    ∀ o ∈ (T.nonMoveBody s cmd dE pE).2, isScript o = false :=
  nonMoveBody_noScript_of s cmd dE pE (processNonMove_noScript s cmd dE)

theorem flush_noScript (pending : List (String × Pending α)) : ∀ o ∈ flush pending, isScript o = false := by
  intro o ho
  obtain ⟨e, _, rfl⟩ := List.mem_map.mp ho
  obtain ⟨g, p⟩ := e
  cases p <;> rfl

/-- the re-synchronisation commands at the end of an exit sequence -/
def IsResync : Out α → Prop
  | .g92e _ | .g0z _ _ | .g0xy _ _ _ => True
  | _ => False

/-- **Structure of every episode end** (move out, disable @-command, end of print — all go through
`exitExcludedRegion`): the deferred commands, then the exit script, then only re-synchronisation
commands (`G92 E`, `G0 … Z`, `G0 … X Y`); afterwards nothing is pending. -/
theorem exit_structure (cfg : Config) (s : FState α) (hex : s.excluding = true) :
    ∃ resync, (T.exitExcludedRegion cfg s).2 = flush s.pendingCommands ++ exitLines cfg ++ resync ∧
      (∀ o ∈ resync, IsResync o) ∧ resync ≠ [] ∧
      (T.exitExcludedRegion cfg s).1.pendingCommands = [] ∧ (T.exitExcludedRegion cfg s).1.excluding = false := by
  unfold T.exitExcludedRegion
  simp only [hex, Bool.not_true, Bool.false_eq_true, if_false, FState.processPendingCommands, T.lastPos]
  by_cases h1 : cur (s.lastPosition.getD s.position).z < cur s.position.z <;>
  by_cases h2 : cur s.position.z < cur (s.lastPosition.getD s.position).z <;>
  simp only [h1, h2, if_true, if_false]
  · exact absurd h2 (not_lt.mpr h1.le)
  all_goals first
    | exact ⟨[_, _, _], by simp only [List.append_assoc]; rfl, by intro o ho; simp at ho; rcases ho with rfl | rfl | rfl <;> trivial, by simp, by first | rfl | trivial, by first | rfl | trivial⟩
    | exact ⟨[_, _], by simp only [List.append_assoc]; rfl, by intro o ho; simp at ho; rcases ho with rfl | rfl <;> trivial, by simp, by first | rfl | trivial, by first | rfl | trivial⟩

theorem exit_scriptPart (cfg : Config) (s : FState α) (hex : s.excluding = true) :
    scriptPart (T.exitExcludedRegion cfg s).2 = exitLines cfg := by
  obtain ⟨resync, h1, h2, _⟩ := exit_structure cfg s hex
  rw [h1, scriptPart_append, scriptPart_append, scriptPart_none _ (flush_noScript _),
    scriptPart_all _ (exitLines_scripts cfg), scriptPart_none resync]
  · simp
  · intro o ho
    have := h2 o ho
    cases o <;> first | rfl | cases this

theorem processExcludedMove_scriptPart (cfg : Config) (s : FState α) (cmd : Cmd α) (dE : α) :
    scriptPart (T.processExcludedMove cfg s cmd dE).2 = if s.excluding then [] else enterLines cfg := by
  unfold T.processExcludedMove
  by_cases he : s.excluding = true
  · simp only [he, Bool.not_true, Bool.false_eq_true, if_false, if_true]
    split
    · simp only [List.nil_append]; exact scriptPart_none _ (processNonMove_noScript s cmd dE)
    · rfl
  · have he' : s.excluding = false := by simpa using he
    simp only [he', Bool.not_false, if_true, Bool.false_eq_true, if_false, T.enterExcludedRegion]
    have hE : scriptPart (enterLines cfg : List (Out α)) = enterLines cfg :=
      scriptPart_all _ (enterLines_scripts cfg)
    split
    · rw [scriptPart_append, scriptPart_none _ (processNonMove_noScript _ cmd dE), List.append_nil]
      exact hE
    · exact hE

/-- **Scripts, exactly once.** The script lines among the commands returned for a move are: the
enter script iff this move opens an episode, the exit script iff it closes one, nothing otherwise. -/
theorem scripts_exactly_on_transitions (cfg : Config) (s : FState α) (cmd : Cmd α) (ep fr fz : Option α)
    (xy : List (Option α × Option α)) (h : WF s) :
    let r := T.processLinearMoves cfg s cmd ep fr fz xy
    scriptPart (fwdOf cmd r.2) =
      if !s.excluding && r.1.excluding then enterLines cfg
      else if s.excluding && !r.1.excluding then exitLines cfg
      else [] := by
  intro r
  have hctrl := plm_ctrl cfg s cmd ep fr fz xy h
  have hs1 := applyEZF_WF s ep fr fz h
  have f3 : (T.applyEZF s ep fr fz).excluding = s.excluding := (applyEZF_frame s ep fr fz).1
  rw [hctrl.excluding]
  simp only [r, T.processLinearMoves, fwdOf_toResult, hitOf]
  by_cases hm : T.isMoveOf fz xy = true
  · simp only [hm, Bool.not_true, Bool.false_eq_true, if_false, T.moveBody, Bool.true_and, if_true]
    obtain ⟨hw2, g3, _⟩ := isAnyLoop_WF xy _ false hs1
    generalize T.isAnyLoop (T.applyEZF s ep fr fz) xy false = rr at *
    obtain ⟨s2, anyEx⟩ := rr
    simp only at hw2 g3 ⊢
    have e2 : s2.excluding = s.excluding := by rw [g3, f3]
    cases anyEx with
    | true =>
      simp only [if_true, Bool.and_true, Bool.not_true, Bool.and_false, Bool.false_eq_true, if_false]
      rw [processExcludedMove_scriptPart, e2]
      cases s.excluding <;> rfl
    | false =>
      simp only [Bool.false_eq_true, if_false, Bool.and_false, Bool.not_false, Bool.and_true]
      by_cases hexc : s2.excluding = true
      · rw [if_pos hexc, exit_scriptPart cfg s2 hexc, ← e2, hexc]; rfl
      · have hexc' : s2.excluding = false := by simpa using hexc
        rw [if_neg hexc, ← e2, hexc']
        simp only [Bool.false_eq_true, if_false]
        apply scriptPart_none
        split
        · have hn := recoverIfNeeded_noScript s2 cmd false
          generalize T.recoverRetractionIfNeeded s2 cmd false = r3 at *
          cases s2.lastRetraction with
          | none => exact hn
          | some lr =>
            simp only
            split
            · intro o ho
              rcases List.mem_append.mp ho with ho | ho
              · rcases List.mem_append.mp ho with ho | ho
                · exact hn o (List.mem_of_mem_dropLast ho)
                · simp at ho; subst ho; rfl
              · cases hl : r3.2.getLast? with
                | none => simp [hl] at ho
                | some c =>
                  simp [hl] at ho; subst ho
                  exact hn _ (List.mem_of_getLast? hl)
            · exact hn
        · intro o ho; simp at ho; subst ho; rfl
  · have hm' : T.isMoveOf fz xy = false := by simpa using hm
    simp only [hm', Bool.not_false, if_true, Bool.false_and, Bool.false_eq_true, if_false]
    rw [scriptPart_none _ (nonMoveBody_noScript _ cmd _ _)]
    cases s.excluding <;> rfl

end ERP.C06

namespace ERP.C06
open ERP T Spec
set_option linter.unusedSectionVars false
variable {α : Type} [Field α] [LinearOrder α] [IsStrictOrderedRing α] [MathOps α] [MathSpec α]

/-! ## Deferred commands -/

/-- one deferred command arriving during an episode: what it does to `pendingCommands` -/
def pendStep (pending : List (String × Pending α)) (mode : Mode) (g : String) (cmd : Cmd α) :
    List (String × Pending α) :=
  match mode with
  | .exclude => pending
  | .first => if (pendingGet pending g).isSome then pending else pending ++ [(g, .cmd cmd)]
  | .last => pendingPop pending g ++ [(g, .cmd cmd)]
  | .merge =>
    let old := match pendingGet pending g with
      | some (.args a) => a
      | _ => []
    pendingPop pending g ++ [(g, .args (cmd.words.foldl (fun a (k, v) => argsSet a k v) old))]

/-- **Withheld.** During an episode a code configured as exclude/first/last/merge is withheld
(the hook returns the ignore marker) and recorded by `pendStep`; a code that is not configured
passes through untouched. Outside an episode nothing is withheld or recorded. -/
theorem deferred_withheld (cfg : Config) (s : FState α) (cmd : Cmd α) (g : String) (hg : g ≠ "") :
    s.processExtendedGcode cfg cmd g =
      if s.excluding then
        match cfg.mode g with
        | some m => ({ s with pendingCommands := pendStep s.pendingCommands m g cmd }, .ignore)
        | none => (s, .none)
      else (s, .none) := by
  unfold FState.processExtendedGcode
  have : g.isEmpty = false := by
    cases h : g.isEmpty
    · rfl
    · exact absurd (String.isEmpty_iff.mp h) hg
  by_cases he : s.excluding = true
  · rw [if_pos he, if_pos (by simp [this, he])]
    cases cfg.mode g with
    | none => rfl
    | some m =>
      dsimp only
      unfold FState.processExtendedGcodeEntry pendStep
      cases m
      · rfl
      · dsimp only
        cases pendingGet s.pendingCommands g <;> rfl
      · rfl
      · rfl
  · rw [if_neg he, if_neg (by simp [he])]

/-- nothing deferred leaks out of an episode -/
def NoLeak (s : FState α) : Prop := s.excluding = false → s.pendingCommands = []

theorem nonmove_pending (cfg : Config) (inch : α) (s : FState α) (g : String) (cmd : Cmd α) (h : WF s)
    (hg : Code.ofString g ≠ .G0 ∧ Code.ofString g ≠ .G1 ∧ Code.ofString g ≠ .G2 ∧ Code.ofString g ≠ .G3) :
    (T.handleGcode cfg inch s g cmd).1.pendingCommands = s.pendingCommands ∨ s.excluding = true := by
  obtain ⟨n0, n1, n2, n3⟩ := hg
  unfold T.handleGcode
  generalize Code.ofString g = c at *
  cases c with
  | G0 => exact absurd rfl n0
  | G1 => exact absurd rfl n1
  | G2 => exact absurd rfl n2
  | G3 => exact absurd rfl n3
  | G10 =>
    left; simp only [T.handleG10]
    split
    · rfl
    · rw [toResult_fst, recordRetraction_frame _ _ h]
  | G11 => left; simp only [T.handleG11]; rw [toResult_fst, recoverIfNeeded_frame _ _ _ h]
  | G20 => left; rfl
  | G21 => left; rfl
  | G28 => left; rfl
  | G90 => left; simp only [FState.setAbsoluteMode]
  | G91 => left; simp only [FState.setAbsoluteMode]
  | G92 => left; rfl
  | M206 => left; rfl
  | other n =>
    dsimp only
    by_cases he : s.excluding = true
    · right; exact he
    · left; unfold FState.processExtendedGcode; rw [if_neg (by simp [he])]

theorem arc_ctrl (cfg : Config) (s : FState α) (cmd : Cmd α) (cw : Bool) (h : WF s) :
    (∃ ep fr fz xy, T.handleG2 cfg s cmd cw = T.processLinearMoves cfg s cmd ep fr fz xy) ∨
    T.handleG2 cfg s cmd cw = (s, .none) := by
  unfold T.handleG2
  dsimp only
  cases lastValue cmd.words 'R' with
  | none => dsimp only; split
            · left; exact ⟨_, _, _, _, rfl⟩
            · right; rfl
  | some r => dsimp only; split
              · left; exact ⟨_, _, _, _, rfl⟩
              · right; rfl

theorem plm_noLeak (cfg : Config) (s : FState α) (cmd : Cmd α) (ep fr fz : Option α)
    (xy : List (Option α × Option α)) (h : WF s) (hn : NoLeak s) :
    NoLeak (T.processLinearMoves cfg s cmd ep fr fz xy).1 := by
  have hc := plm_ctrl cfg s cmd ep fr fz xy h
  intro hex
  rw [hc.excluding] at hex
  rw [hc.pending]
  by_cases hm : T.isMoveOf fz xy = true
  · rw [if_pos hm] at hex
    simp only [hm, hex, Bool.not_false, Bool.true_and]
    by_cases he : s.excluding = true
    · simp [he]
    · simp only [he, Bool.false_eq_true, if_false]; exact hn (by simpa using he)
  · rw [if_neg hm] at hex
    simp only [hex, Bool.and_false, Bool.false_eq_true, if_false]; exact hn hex

/-- **No leak**, one G-code command. -/
theorem gcode_noLeak (cfg : Config) (inch : α) (s : FState α) (g : String) (cmd : Cmd α) (h : WF s)
    (hn : NoLeak s) : NoLeak (T.handleGcode cfg inch s g cmd).1 := by
  by_cases hg : Code.ofString g ≠ .G0 ∧ Code.ofString g ≠ .G1 ∧ Code.ofString g ≠ .G2 ∧ Code.ofString g ≠ .G3
  · intro hex
    rw [(nonmove_ctrl cfg inch s g cmd h hg).excluding] at hex
    rcases nonmove_pending cfg inch s g cmd h hg with hp | hp
    · rw [hp]; exact hn hex
    · rw [hp] at hex; cases hex
  · unfold T.handleGcode
    generalize Code.ofString g = c at *
    cases c <;> simp at hg
    · exact plm_noLeak cfg s cmd _ _ _ _ h hn
    · exact plm_noLeak cfg s cmd _ _ _ _ h hn
    · rcases arc_ctrl cfg s cmd true h with ⟨ep, fr, fz, xy, he⟩ | he <;> simp only [he]
      · exact plm_noLeak cfg s cmd _ _ _ _ h hn
      · exact hn
    · rcases arc_ctrl cfg s cmd false h with ⟨ep, fr, fz, xy, he⟩ | he <;> simp only [he]
      · exact plm_noLeak cfg s cmd _ _ _ _ h hn
      · exact hn

/-- a new print starts with nothing pending (`resetState`) -/
theorem reset_noLeak (regions : List (Region α)) : NoLeak (FState.reset regions) := fun _ => rfl

/-- the after-print hook and the disable @-command end the episode through `exitExcludedRegion`,
which leaves nothing pending -/
theorem exit_noLeak (cfg : Config) (s : FState α) (hn : NoLeak s) :
    NoLeak (T.exitExcludedRegion cfg s).1 := by
  rw [exitExcludedRegion_state]
  split
  · intro _; rfl
  · exact hn

end ERP.C06

namespace ERP.C06
open ERP T Spec
set_option linter.unusedSectionVars false
variable {α : Type} [Field α] [LinearOrder α] [IsStrictOrderedRing α] [MathOps α] [MathSpec α]

/-! ## What the recorded entries are (the declarative content of `pendStep`) -/

def keys (p : List (String × Pending α)) : List String := p.map (·.1)

theorem keys_pop (p : List (String × Pending α)) (g : String) :
    keys (pendingPop p g) = (keys p).filter (fun k => !(k == g)) := by
  unfold keys pendingPop
  induction p with
  | nil => rfl
  | cons e rest ih =>
    simp only [List.filter_cons, List.map_cons]
    split <;> simp_all

theorem pendingGet_none_iff (p : List (String × Pending α)) (g : String) :
    pendingGet p g = none ↔ g ∉ keys p := by
  unfold pendingGet keys
  simp only [Option.map_eq_none_iff, List.find?_eq_none, beq_iff_eq, List.mem_map, not_exists, not_and]

/-- **Exactly one command per code**: the recorded codes are pairwise distinct, so flushing yields
one command for each of them. -/
theorem pendStep_nodup (p : List (String × Pending α)) (m : Mode) (g : String) (c : Cmd α)
    (h : (keys p).Nodup) : (keys (pendStep p m g c)).Nodup := by
  have hpop : (keys (pendingPop p g ++ [(g, Pending.cmd c)])).Nodup ∧
      ∀ x : Pending α, (keys (pendingPop p g ++ [(g, x)])).Nodup := by
    have : ∀ x : Pending α, (keys (pendingPop p g ++ [(g, x)])).Nodup := by
      intro x
      simp only [keys, List.map_append, List.map_cons, List.map_nil]
      have hk := keys_pop p g
      simp only [keys] at hk
      rw [hk]
      apply List.Nodup.append (h.filter _) (by simp)
      intro a ha hb
      simp at hb; subst hb
      simp at ha
    exact ⟨this _, this⟩
  unfold pendStep
  cases m with
  | exclude => exact h
  | first =>
    simp only
    split
    · exact h
    · rename_i hn
      have : g ∉ keys p := (pendingGet_none_iff p g).mp (by simpa using hn)
      simp only [keys, List.map_append, List.map_cons, List.map_nil]
      exact List.Nodup.append h (by simp) (by intro a ha hb; simp at hb; subst hb; exact this ha)
  | last => exact hpop.1
  | merge => exact hpop.2 _

theorem flush_length (p : List (String × Pending α)) : (flush p).length = p.length := by
  simp [flush]

/-- exclude-mode codes yield nothing -/
theorem pendStep_exclude (p : List (String × Pending α)) (g : String) (c : Cmd α) :
    pendStep p .exclude g c = p := rfl

/-- `first`: the first instance is retained, later ones change nothing -/
theorem pendStep_first (p : List (String × Pending α)) (g : String) (c : Cmd α) :
    (g ∈ keys p → pendStep p .first g c = p) ∧
    (g ∉ keys p → pendStep p .first g c = p ++ [(g, .cmd c)]) := by
  unfold pendStep
  constructor
  · intro hg
    have : pendingGet p g ≠ none := fun hn => (pendingGet_none_iff p g).mp hn hg
    cases hp : pendingGet p g with
    | none => exact absurd hp this
    | some v => simp
  · intro hg
    have := (pendingGet_none_iff p g).mpr hg
    simp [this]

/-- `last`: the latest instance replaces any earlier one and moves to the end (so entries are
ordered by their retained — last — occurrence) -/
theorem pendStep_last (p : List (String × Pending α)) (g : String) (c : Cmd α) :
    pendStep p .last g c = pendingPop p g ++ [(g, .cmd c)] := rfl

/-- other codes' entries are untouched, in content and relative order -/
theorem pendStep_others (p : List (String × Pending α)) (m : Mode) (g : String) (c : Cmd α) :
    (pendStep p m g c).filter (fun e => !(e.1 == g)) = p.filter (fun e => !(e.1 == g)) := by
  have hpop : ∀ x : Pending α, (pendingPop p g ++ [(g, x)]).filter (fun e => !(e.1 == g)) =
      p.filter (fun e => !(e.1 == g)) := by
    intro x
    simp [pendingPop, List.filter_append, List.filter_filter]
  unfold pendStep
  cases m with
  | exclude => rfl
  | first =>
    simp only
    split
    · rfl
    · simp [List.filter_append]
  | last => exact hpop _
  | merge => exact hpop _

/-- latest value of a letter in an argument list -/
def argGet (a : List (Char × Option α)) (k : Char) : Option (Option α) :=
  (a.find? (fun p => p.1 == k)).map (·.2)

theorem argGet_argsSet (a : List (Char × Option α)) (k k' : Char) (v : Option α) :
    argGet (argsSet a k v) k' = if k' = k then some v else argGet a k' := by
  unfold argsSet argGet
  by_cases hany : a.any (fun p => p.1 == k) = true
  · simp only [hany, if_true]
    induction a with
    | nil => simp at hany
    | cons e rest ih =>
      simp only [List.map_cons, List.find?_cons]
      by_cases he : e.1 = k
      · subst he
        by_cases hk : k' = e.1
        · subst hk; simp
        · have : (e.1 == k') = false := by simp; exact fun h => hk h.symm
          simp only [beq_self_eq_true, if_true, this, hk, if_false]
          by_cases hr : rest.any (fun p => p.1 == e.1) = true
          · have := ih hr; simp only [hk, if_false] at this; exact this
          · -- no further occurrence: the map is the identity on the rest
            have hid : rest.map (fun p => if (p.1 == e.1) = true then (e.1, v) else p) = rest := by
              conv_rhs => rw [← List.map_id rest]
              apply List.map_congr_left
              intro p hp
              have : (p.1 == e.1) = false := by
                simp only [List.any_eq_true, not_exists, not_and] at hr
                simpa using hr p hp
              simp [this]
            rw [hid]
      · have hek : (e.1 == k) = false := by simpa using he
        simp only [hek, Bool.false_eq_true, if_false]
        have hr : rest.any (fun p => p.1 == k) = true := by
          simp only [List.any_cons, hek, Bool.false_or] at hany; exact hany
        by_cases hk : k' = k
        · subst hk
          have : (e.1 == k') = false := hek
          simp only [this, Bool.false_eq_true, if_false, if_true]
          have := ih hr; simpa using this
        · by_cases hek' : (e.1 == k') = true
          · simp [hek', hk]
          · simp only [hek', Bool.false_eq_true, if_false, hk]
            have := ih hr; simp only [hk, if_false] at this; exact this
  · simp only [hany, Bool.false_eq_true, if_false, List.find?_append]
    by_cases hk : k' = k
    · subst hk
      have : a.find? (fun p => p.1 == k') = none := by
        simp only [List.find?_eq_none]
        intro p hp
        simp only [List.any_eq_true, not_exists, not_and] at hany
        exact hany p hp
      simp [this]
    · have : (k == k') = false := by simp; exact fun h => hk h.symm
      simp [hk, this]

/-- **`merge`: one command carrying the latest value of every parameter seen.** After merging the
words `w` into the arguments `a`, a letter that occurs in `w` carries its last value in `w`, every
other letter keeps what it had. -/
theorem merge_latest (w : List (Char × Option α)) :
    ∀ (a : List (Char × Option α)) (k : Char),
      argGet (w.foldl (fun a (kv : Char × Option α) => argsSet a kv.1 kv.2) a) k =
        match (w.reverse.find? (fun p => p.1 == k)) with
        | some p => some p.2
        | none => argGet a k := by
  induction w with
  | nil => intro a k; rfl
  | cons kv rest ih =>
    intro a k
    simp only [List.foldl_cons, List.reverse_cons, List.find?_append]
    rw [ih]
    cases hr : rest.reverse.find? (fun p => p.1 == k) with
    | some p => simp
    | none =>
      simp only [Option.none_or, List.find?_cons, List.find?_nil]
      rw [argGet_argsSet]
      by_cases hk : k = kv.1
      · subst hk; simp
      · have : (kv.1 == k) = false := by simp; exact fun h => hk h.symm
        simp [hk, this]

end ERP.C06
