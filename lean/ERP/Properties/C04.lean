import ERP.Lemmas.EStep
import ERP.Properties.C03
import ERP.Lemmas.GenArith
import ERP.Lemmas.GenTies
/-! # C04 — Extruder coordinate and extruded amounts are preserved outside regions

`phys` executes what the filter forwards, `virt` executes the unfiltered file.  The theorems hold
for every program of the protocol `EDialect` (see `Lemmas/EStep.lean`): absolute extrusion, moves
that never retract, matched retract/recover cycles of one length `A` (E-only) or `G10`/`G11`, not
mixed, `G92 E` anywhere, mm or inch, any regions and any way episodes begin and end — together
with the X/Y/Z dialect of C03. -/
namespace ERP.C04
open ERP T Spec
set_option linter.unusedSectionVars false

variable {α : Type} [Field α] [LinearOrder α] [IsStrictOrderedRing α] [MathOps α] [MathSpec α]

/-- consistency of filter, physical and virtual printer, including the extruder -/
structure GoodE (pr : EProto α) (y : Sys α) : Prop where
  good : C03.Good y
  einv : EInv pr y.s y.phys.ev y.virt.ev

/-- every command of the program obeys the X/Y/Z dialect and the extrusion protocol at the state
in which it is processed -/
def ProtoRun (pr : EProto α) (cfg : Config) (inch : α) : Sys α → List (Ev α) → Prop
  | _, [] => True
  | y, e :: es => DialectEv y.s e ∧ EDialectEv pr cfg y.s y.virt.ev e ∧ ProtoRun pr cfg inch (y.step cfg inch e) es

theorem goodE_step (pr : EProto α) (cfg : Config) (inch : α) (hinch : inch ≠ 0) (y : Sys α) (e : Ev α)
    (hg : GoodE pr y) (hd : DialectEv y.s e) (he : EDialectEv pr cfg y.s y.virt.ev e) :
    GoodE pr (y.step cfg inch e) :=
  ⟨C03.good_step cfg inch hinch y e hg.good hd,
   sys_step_einv cfg inch pr y e hg.good.wf hg.good.inv.pend hg.einv he⟩

theorem goodE_run (pr : EProto α) (cfg : Config) (inch : α) (hinch : inch ≠ 0) (es : List (Ev α)) :
    ∀ y : Sys α, GoodE pr y → ProtoRun pr cfg inch y es → GoodE pr (y.run cfg inch es) := by
  induction es with
  | nil => intro y h _; exact h
  | cons e rest ih =>
    intro y h hd
    exact ih _ (goodE_step pr cfg inch hinch y e h hd.1 hd.2.1) hd.2.2

/-- the homed start configuration is consistent (non-vacuity; any regions, either style) -/
theorem goodE_start (pr : EProto α) (regions : List (Region α)) : GoodE pr (Sys.start regions) := by
  refine ⟨C03.good_start regions, ?_⟩
  have he : (Sys.start regions : Sys α).s.position.e.absoluteMode = true := by
    simp [Sys.start, handleG28, hasLetter, FState.reset, Position.init, Axis.init]
  have hl : (Sys.start regions : Sys α).s.lastRetraction = none := by
    simp [Sys.start, handleG28, FState.reset]
  refine ⟨rfl, he, sameFrame.refl _, fun _ => rfl, ?_⟩
  rw [hl]
  have d1 : (Sys.start regions : Sys α).phys.ev.depth = 0 := by simp [Sys.start, Printer.ev, EV.depth]
  have d2 : (Sys.start regions : Sys α).virt.ev.depth = 0 := by simp [Sys.start, Printer.ev, EV.depth]
  have f1 : (Sys.start regions : Sys α).phys.ev.fw = false := rfl
  have f2 : (Sys.start regions : Sys α).virt.ev.fw = false := rfl
  unfold RetrInv
  cases pr.fw
  · exact ⟨f1, f2, d1, d2⟩
  · exact ⟨d1, d2, f1, f2⟩

/-- **C04 (coordinate).** In every configuration reachable by a program of the protocol, whenever
no episode is open the extruder axis of the printer — coordinate, offsets, mode and unit — is
exactly the one the file assumes. -/
theorem C04_coordinate (pr : EProto α) (cfg : Config) (inch : α) (hinch : inch ≠ 0) (regions : List (Region α))
    (es : List (Ev α)) (hd : ProtoRun pr cfg inch (Sys.start regions) es)
    (hout : ((Sys.start regions).run cfg inch es).s.excluding = false) :
    ((Sys.start regions).run cfg inch es).phys.pos.e = ((Sys.start regions).run cfg inch es).virt.pos.e := by
  have hg := goodE_run pr cfg inch hinch es _ (goodE_start pr regions) hd
  have hi := hg.einv
  have h1 : ((Sys.start regions).run cfg inch es).phys.pos.e = ((Sys.start regions).run cfg inch es).s.position.e :=
    axis_eq_of hi.frame (hi.sync hout)
  rw [h1]; exact hi.track

/-- `g` is a linear move command -/
def isLinear (g : String) : Prop := Code.ofString g = .G0 ∨ Code.ofString g = .G1

theorem linear_handle (cfg : Config) (inch : α) (s : FState α) (g : String) (c : Cmd α) (hl : isLinear g) :
    T.handleGcode cfg inch s g c = T.processLinearMoves cfg s c (lastValue c.words 'E') (lastValue c.words 'F')
      (lastValue c.words 'Z') [(lastValue c.words 'X', lastValue c.words 'Y')] := by
  unfold T.handleGcode
  rcases hl with h | h <;> rw [h] <;> rfl

theorem linear_proto (pr : EProto α) (cfg : Config) (s : FState α) (V : EV α) (g : String) (c : Cmd α)
    (hl : isLinear g) (he : EDialect pr cfg s V g c) :
    c.code = g ∧
    if T.isMoveOf (lastValue c.words 'Z') [(lastValue c.words 'X', lastValue c.words 'Y')]
    then MoveOK V (T.deltaEOf s (lastValue c.words 'E'))
    else NonMoveOK pr V (T.deltaEOf s (lastValue c.words 'E')) := by
  obtain ⟨h1, h2⟩ := he
  rcases hl with h | h <;> rw [h] at h2 <;> exact ⟨h1, h2⟩

theorem linear_exec (g90e : Bool) (inch : α) (g : String) (c : Cmd α) (hl : isLinear g) (hc : c.code = g)
    (Q : EV α) : Q.out g90e inch (.orig c) = Q.lin (lastValue c.words 'E') := by
  simp only [EV.out, hc]
  rcases hl with h | h <;> rw [h] <;> rfl

/-- **C04 (amounts).** A linear move or E-only command that extrudes (`deltaE > 0`) and is handled
outside regions (no episode open before or after it) is forwarded as the last element of the
filter's output; when the printer reaches it, its extruder axis is exactly the file's and its
retraction depth and firmware-retraction flag are the file's — so the command pushes exactly the
filament length the file specifies. -/
theorem C04_amount (pr : EProto α) (cfg : Config) (inch : α) (y : Sys α) (g : String) (c : Cmd α)
    (hg : GoodE pr y) (hl : isLinear g) (he : EDialect pr cfg y.s y.virt.ev g c)
    (hpre : y.s.excluding = false) (hpost : (y.step cfg inch (.gcode g c)).s.excluding = false)
    (hpos : 0 < T.deltaEOf y.s (lastValue c.words 'E')) :
    ∃ pre, Emit.forwarded (.gcode g c) (stepT cfg inch y.s (.gcode g c)).2 = pre ++ [.orig c] ∧
      (y.phys.execOuts cfg.g90InfluencesExtruder inch pre).pos.e = y.virt.pos.e ∧
      (y.phys.execOuts cfg.g90InfluencesExtruder inch pre).depth = y.virt.depth ∧
      (y.phys.execOuts cfg.g90InfluencesExtruder inch pre).fwRetracted = y.virt.fwRetracted ∧
      ((y.phys.execOuts cfg.g90InfluencesExtruder inch pre).execOut cfg.g90InfluencesExtruder inch (.orig c)).fil
          - (y.phys.execOuts cfg.g90InfluencesExtruder inch pre).fil
        = (y.step cfg inch (.gcode g c)).virt.fil - y.virt.fil := by
  obtain ⟨hcode, hproto⟩ := linear_proto pr cfg y.s y.virt.ev g c hl he
  simp only [Sys.step, stepT, linear_handle cfg inch y.s g c hl] at hpost
  simp only [stepT, forwarded_gcode, linear_handle cfg inch y.s g c hl]
  obtain ⟨pre, k1, k2, k3, k4⟩ := plm_extrude_pre cfg.g90InfluencesExtruder inch cfg pr y.s y.phys.ev y.virt.ev c
    _ _ _ _ hg.good.wf hg.einv hproto hpre hpost hpos
  refine ⟨pre, k1, ?_, ?_, ?_, ?_⟩
  · have := k2; rw [← ev_execOuts] at this; exact this
  · have := k3; rw [← ev_execOuts] at this; exact this
  · have := k4; rw [← ev_execOuts] at this; exact this
  · have hQ : ((y.phys.execOuts cfg.g90InfluencesExtruder inch pre).execOut cfg.g90InfluencesExtruder inch (.orig c)).ev
        = (y.phys.execOuts cfg.g90InfluencesExtruder inch pre).ev.lin (lastValue c.words 'E') := by
      rw [ev_execOut]; exact linear_exec _ inch g c hl hcode _
    have hV : (y.step cfg inch (.gcode g c)).virt.ev = y.virt.ev.lin (lastValue c.words 'E') := by
      simp only [Sys.step, ev_exec]
      rcases hl with h | h <;> rw [h] <;> rfl
    have e1 : ((y.phys.execOuts cfg.g90InfluencesExtruder inch pre).execOut cfg.g90InfluencesExtruder inch (.orig c)).fil
        = (y.phys.execOuts cfg.g90InfluencesExtruder inch pre).fil +
          (coord (moveAxis (y.phys.execOuts cfg.g90InfluencesExtruder inch pre).pos.e (lastValue c.words 'E'))
            - coord (y.phys.execOuts cfg.g90InfluencesExtruder inch pre).pos.e) :=
      congrArg EV.fil hQ
    have e2 : (y.step cfg inch (.gcode g c)).virt.fil
        = y.virt.fil + (coord (moveAxis y.virt.pos.e (lastValue c.words 'E')) - coord y.virt.pos.e) :=
      congrArg EV.fil hV
    have e3 : (y.phys.execOuts cfg.g90InfluencesExtruder inch pre).pos.e = y.virt.pos.e := by
      have := k2; rw [← ev_execOuts] at this; exact this
    rw [e1, e2, e3]; ring

/-- **C04 (suppressed commands).** When the filter does not forward a linear move or E-only
command itself, whatever it sends instead (an in-region retraction, the exit sequence, a
coordinate re-sync, or nothing) does not advance the filament. -/
theorem C04_suppressed (pr : EProto α) (cfg : Config) (inch : α) (y : Sys α) (g : String) (c : Cmd α)
    (hg : GoodE pr y) (hl : isLinear g) (he : EDialect pr cfg y.s y.virt.ev g c)
    (hno : Out.orig c ∉ Emit.forwarded (.gcode g c) (stepT cfg inch y.s (.gcode g c)).2) :
    (y.step cfg inch (.gcode g c)).phys.fil ≤ y.phys.fil := by
  obtain ⟨hcode, hproto⟩ := linear_proto pr cfg y.s y.virt.ev g c hl he
  simp only [stepT, forwarded_gcode, linear_handle cfg inch y.s g c hl] at hno
  have := plm_nopush cfg.g90InfluencesExtruder inch cfg pr y.s y.phys.ev y.virt.ev c _ _ _ _ hg.good.wf hg.einv
    hg.good.inv.pend hproto hno
  rw [← ev_execOuts] at this
  simp only [Sys.step, stepT, forwarded_gcode, linear_handle cfg inch y.s g c hl]
  exact this

/-! ## The same for arcs (G2/G3 in I/J form) -/

/-- `g` is an arc command -/
def isArc (g : String) : Prop := Code.ofString g = .G2 ∨ Code.ofString g = .G3

/-- the arc is executed: a centre offset is given -/
def arcExecuted (c : Cmd α) : Prop :=
  (!((lastValue c.words 'I').getD 0 == 0) || !((lastValue c.words 'J').getD 0 == 0)) = true

theorem arc_handle (cfg : Config) (inch : α) (s : FState α) (g : String) (c : Cmd α) (ha : isArc g)
    (hR : lastValue c.words 'R' = none) (hx : arcExecuted c) :
    ∃ z pts, T.handleGcode cfg inch s g c =
      T.processLinearMoves cfg s c (lastValue c.words 'E') (lastValue c.words 'F') (some z) pts := by
  unfold T.handleGcode
  unfold arcExecuted at hx
  rcases ha with h | h <;> rw [h] <;> simp only [T.handleG2, hR, hx, if_true] <;> exact ⟨_, _, rfl⟩

theorem arc_proto (pr : EProto α) (cfg : Config) (s : FState α) (V : EV α) (g : String) (c : Cmd α)
    (ha : isArc g) (he : EDialect pr cfg s V g c) :
    c.code = g ∧ lastValue c.words 'R' = none ∧ MoveOK V (T.deltaEOf s (lastValue c.words 'E')) := by
  obtain ⟨h1, h2⟩ := he
  rcases ha with h | h <;> rw [h] at h2 <;> exact ⟨h1, h2.1, h2.2⟩

theorem arc_exec (g90e : Bool) (inch : α) (g : String) (c : Cmd α) (ha : isArc g) (hc : c.code = g)
    (hx : arcExecuted c) (Q : EV α) : Q.out g90e inch (.orig c) = Q.lin (lastValue c.words 'E') := by
  unfold arcExecuted at hx
  simp only [EV.out, hc]
  rcases ha with h | h <;> rw [h] <;> simp only [EV.exec, hx, if_true]

/-- **C04 (amounts), arcs.** -/
theorem C04_amount_arc (pr : EProto α) (cfg : Config) (inch : α) (y : Sys α) (g : String) (c : Cmd α)
    (hg : GoodE pr y) (ha : isArc g) (hx : arcExecuted c) (he : EDialect pr cfg y.s y.virt.ev g c)
    (hpre : y.s.excluding = false) (hpost : (y.step cfg inch (.gcode g c)).s.excluding = false)
    (hpos : 0 < T.deltaEOf y.s (lastValue c.words 'E')) :
    ∃ pre, Emit.forwarded (.gcode g c) (stepT cfg inch y.s (.gcode g c)).2 = pre ++ [.orig c] ∧
      (y.phys.execOuts cfg.g90InfluencesExtruder inch pre).pos.e = y.virt.pos.e ∧
      (y.phys.execOuts cfg.g90InfluencesExtruder inch pre).depth = y.virt.depth ∧
      (y.phys.execOuts cfg.g90InfluencesExtruder inch pre).fwRetracted = y.virt.fwRetracted := by
  obtain ⟨hcode, hR, hproto⟩ := arc_proto pr cfg y.s y.virt.ev g c ha he
  obtain ⟨z, pts, hh⟩ := arc_handle cfg inch y.s g c ha hR hx
  simp only [Sys.step, stepT, hh] at hpost
  simp only [stepT, forwarded_gcode, hh]
  have hmv : T.isMoveOf (some z) pts = true := by simp [T.isMoveOf]
  obtain ⟨pre, k1, k2, k3, k4⟩ := plm_extrude_pre cfg.g90InfluencesExtruder inch cfg pr y.s y.phys.ev y.virt.ev c
    _ _ (some z) pts hg.good.wf hg.einv (by rw [hmv]; simpa using hproto) hpre hpost hpos
  refine ⟨pre, k1, ?_, ?_, ?_⟩
  · have := k2; rw [← ev_execOuts] at this; exact this
  · have := k3; rw [← ev_execOuts] at this; exact this
  · have := k4; rw [← ev_execOuts] at this; exact this

/-- **C04 (suppressed commands), arcs.** -/
theorem C04_suppressed_arc (pr : EProto α) (cfg : Config) (inch : α) (y : Sys α) (g : String) (c : Cmd α)
    (hg : GoodE pr y) (ha : isArc g) (hx : arcExecuted c) (he : EDialect pr cfg y.s y.virt.ev g c)
    (hno : Out.orig c ∉ Emit.forwarded (.gcode g c) (stepT cfg inch y.s (.gcode g c)).2) :
    (y.step cfg inch (.gcode g c)).phys.fil ≤ y.phys.fil := by
  obtain ⟨hcode, hR, hproto⟩ := arc_proto pr cfg y.s y.virt.ev g c ha he
  obtain ⟨z, pts, hh⟩ := arc_handle cfg inch y.s g c ha hR hx
  simp only [stepT, forwarded_gcode, hh] at hno
  have hmv : T.isMoveOf (some z) pts = true := by simp [T.isMoveOf]
  have := plm_nopush cfg.g90InfluencesExtruder inch cfg pr y.s y.phys.ev y.virt.ev c _ _ (some z) pts hg.good.wf
    hg.einv hg.good.inv.pend (by rw [hmv]; simpa using hproto) hno
  rw [← ev_execOuts] at this
  simp only [Sys.step, stepT, forwarded_gcode, hh]
  exact this

end ERP.C04
