import ERP.Lemmas.Reparse
import ERP.Properties.C18
/-! # C18 — normalisation is stable (re-parsing a normalised command string)

`Parser.commandString` renders a parsed command as
`<indent>[N<line> ]<type><code>[.<sub>][ <parameters>]`.  `C18_reparse_partial` shows, by evaluating
the line regex regenerated from the Python source *exactly* on that string (first-match semantics of
the backtracking matcher, lazy parameter group included), that parsing it again consumes the whole
string and yields the same type, code, sub-code, parameters, line number and the same normalised
string.

The two `_partial` theorems take the *plain* shape of the command as a hypothesis (`NormCmd.WF`:
parameters non-empty when present, no backslash escape, none of `; * CR LF`, not starting or ending
with a blank); `Properties/C18Closure.lean` proves that the parser produces exactly this shape for
every source without a backslash and states the unconditional corollaries.  Escaped parameters
(`\\`, `\;`) are outside the theorems. -/
namespace ERP.C18
open ERP ERP.Rx ERP.NormCmd

/-- the parts of a parser state that `commandString` renders -/
def normOf (p : Parser) (ty : Char) (code : Nat) : NormCmd :=
  ⟨p.leadingWhitespace, p.lineNumber, ty, code, p.subCode, p.parameters, none⟩

theorem commandString_eq_render (p : Parser) (ty : Char) (code : Nat)
    (hty : p.type = some ty) (hc : p.code = some code) :
    p.commandString = (normOf p ty code).render := by
  unfold Parser.commandString Parser.stringify Parser.gcode
  cases hl : p.lineNumber <;> cases hs : p.subCode <;> cases hp : p.parameters <;>
    simp [hty, hc, render, nPart, gPart, subPart, pPart, ckPart, normOf, hl, hs, hp, List.intercalate]

/-- **C18 (idempotence, plain parameters)**: re-parsing the normalised command string of a command
gives back the same code, sub-code, parameters, line number and the same normalised string, and
consumes the string completely. -/
theorem C18_reparse_partial (p : Parser) (ty : Char) (code : Nat)
    (hty : p.type = some ty) (hc : p.code = some code) (hwf : (normOf p ty code).WF) :
    ∃ q, ({} : Parser).parse (some p.commandString) = .ok q ∧
      q.type = p.type ∧ q.code = p.code ∧ q.subCode = p.subCode ∧ q.parameters = p.parameters ∧
      q.lineNumber = p.lineNumber ∧ q.commandString = p.commandString ∧
      q.offset = 0 ∧ q.length = p.commandString.length ∧
      q.checksum = none ∧ q.comment = none ∧ q.eol = [] := by
  obtain ⟨q, hq, h1, h2, h3, h4, h5, h6, h7, _, h9, h10, _, h12, h13, _⟩ := reparse (normOf p ty code) hwf
  rw [commandString_eq_render p ty code hty hc]
  refine ⟨q, hq, by rw [h3, hty]; rfl, by rw [h4, hc]; rfl, h5, h6, h2, ?_, h12, h13, by rw [h7]; rfl, h9, h10⟩
  rw [commandString_eq_render q ty code h3 h4]
  congr 1
  simp only [normOf, h1, h2, h5, h6]

/-- **C18 (checksum self-validation, plain parameters)**: a command with a line number, rendered
with its checksum (`stringify()` includes the checksum whenever the line number is included),
parses back into a line whose checksum equals `computeChecksum` of its own text — `validate()`
accepts it — with the same line number, code, sub-code, parameters and normalised string. -/
theorem C18_checksum_validates_partial (p : Parser) (n : Nat) (ty : Char) (code : Nat)
    (hln : p.lineNumber = some n) (hty : p.type = some ty) (hc : p.code = some code)
    (hwf : (normOf p ty code).WF) :
    ∃ q, ({} : Parser).parse (some (p.stringify (includeComment := false) (includeEol := false))) = .ok q ∧
      q.validate = .ok () ∧ q.checksum = some (computeChecksum q.text) ∧
      q.lineNumber = some n ∧ q.type = p.type ∧ q.code = p.code ∧ q.subCode = p.subCode ∧
      q.parameters = p.parameters ∧ q.commandString = p.commandString := by
  let base := normOf p ty code
  let T : Text := base.nPart ++ base.gPart ++ base.pPart ++ [' ']
  let x : NormCmd := { base with ck := some (computeChecksum T) }
  have hx : x.WF := ⟨hwf.lw, hwf.ty, hwf.tsub, hwf.params⟩
  have hS : p.stringify (includeComment := false) (includeEol := false) = x.render := by
    unfold Parser.stringify Parser.gcode
    cases hs : p.subCode <;> cases hp : p.parameters <;>
      simp [x, T, base, hty, hc, hln, render, nPart, gPart, subPart, pPart, ckPart, normOf, hs, hp,
        List.intercalate]
  obtain ⟨q, hq, h1, h2, h3, h4, h5, h6, h7, _, _, _, _, _, _, h15⟩ := reparse x hx
  have htext : q.text = T := by rw [h15]; rfl
  have hck : q.checksum = some (computeChecksum q.text) := by rw [h7, htext]
  refine ⟨q, by rw [hS]; exact hq, ?_, hck, by rw [h2]; exact hln, by rw [h3, hty]; rfl,
    by rw [h4, hc]; rfl, h5, h6, ?_⟩
  · unfold Parser.validate
    have hl : q.lineNumber = some n := by rw [h2]; exact hln
    simp [hck, hl]
  · rw [commandString_eq_render q ty code h3 h4, commandString_eq_render p ty code hty hc]
    congr 1
    simp only [normOf, h1, h2, h5, h6]
    rfl

/-- the same, stated for an arbitrary well-formed rendered command -/
theorem C18_render_roundtrip (x : NormCmd) (h : x.WF) (hck : x.ck = none) :
    ∃ q, ({} : Parser).parse (some x.render) = .ok q ∧ q.commandString = x.render ∧
      q.type = some x.ty ∧ q.code = some x.code ∧ q.subCode = x.sub ∧ q.parameters = x.params := by
  obtain ⟨q, hq, h1, h2, h3, h4, h5, h6, _⟩ := reparse x h
  refine ⟨q, hq, ?_, h3, h4, h5, h6⟩
  rw [commandString_eq_render q x.ty x.code h3 h4]
  congr 1
  cases x
  simp only [normOf, h1, h2, h5, h6] at *
  simp_all

/-- non-vacuity: a command with line number, sub-code and parameters meets the hypotheses -/
example : (⟨[' ', ' '], some 12, 'G', 1, some 5, some "X1 Y-2.5 E.3".toList, none⟩ : NormCmd).WF where
  lw := by decide
  ty := by decide
  tsub := by decide
  params := by
    intro ps hp
    cases hp
    refine ⟨by decide, by decide, by decide, by decide⟩

example : (⟨[' ', ' '], some 12, 'G', 1, some 5, some "X1 Y-2.5 E.3".toList, none⟩ : NormCmd).render
    = "  N12 G1.5 X1 Y-2.5 E.3".toList := by decide

end ERP.C18
