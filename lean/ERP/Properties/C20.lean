import ERP.Model.Entry
import ERP.Lemmas.Monad
import ERP.Lemmas.GenTies
/-! # C20 — Offline stream filtering equals live filtering and is isolated

In the model the stream processor owns a *value* of the filter state (the deep copy), so isolation
is structural; the correspondence suite `stream` checks on every run that the implementation's
live objects are indeed untouched (digest before/after) and that the model's outputs equal
`process_line`'s byte for byte. The theorems below say what `process_line` returns in terms of the
live entry points `handleGcodeText` / `handleAtCommand`. -/
namespace ERP.C20
open ERP
set_option linter.unusedSectionVars false

variable {α : Type} [Add α] [Sub α] [Mul α] [Div α] [Neg α] [LT α] [LE α] [BEq α]
  [OfNat α 0] [OfNat α 1] [OfNat α 2] [DecidableLT α] [DecidableLE α] [MathOps α] [OfDecimal α]

/-- the command text the live queuing hook sees for a parsed line: normalised, without leading
blanks, line number, checksum, comment and line ending -/
def liveCommand (p : Parser) : Text :=
  p.stringify (includeLeadingWhitespace := false) (includeLineNumber := false) (includeComment := false)
    (includeEol := false)

/-- the command text the stream processor passes to the same handler -/
def streamCommand (p : Parser) : Text :=
  p.stringify (includeLineNumber := false) (includeComment := false) (includeEol := false)

/-- **Same command modulo leading blanks**: the stream processor passes the live command prefixed
by the line's own indentation (which a G-code reader skips). -/
theorem streamCommand_eq (p : Parser) : streamCommand p = p.leadingWhitespace ++ liveCommand p := by
  unfold streamCommand liveCommand Parser.stringify
  simp only [Bool.false_eq_true, if_false, if_true, Bool.false_and, List.append_nil, List.nil_append]
  cases p.gcode <;> simp

/-- the line ending used for emitted lines: the most recent one seen, `"\n"` if none yet -/
def eolFor (sp : StreamProc α) (p : Parser) : Text :=
  if p.eol.isEmpty then sp.eol.getD ['\n'] else p.eol

/-- **G-code lines.** For a line that parses to a command, `process_line` calls exactly the live
handler on `streamCommand`, and returns: the input line itself when the handler leaves the command
unchanged; nothing when it suppresses it; otherwise the handler's commands joined and terminated
by the file's line ending. The copied filter state advances exactly as the live one would. -/
theorem gcode_line (cfg : Config) (inch : α) (sp : StreamProc α) (line : Text) (p : Parser) (c : Char)
    (hp : ({} : Parser).parse (some line) = .ok p) (ht : p.type = some c) :
    sp.processLine cfg inch line =
      (handleGcodeText cfg inch sp.st (streamCommand p) (p.gcode.getD [])).map (fun r =>
        match r.2 with
        | .none => ({ sp with st := r.1, eol := if p.eol.isEmpty then sp.eol else some p.eol }, LineOut.unchanged)
        | .ignore => ({ sp with st := r.1, eol := if p.eol.isEmpty then sp.eol else some p.eol }, LineOut.omit)
        | .list l => ({ st := r.1, eol := some (eolFor sp p) }, LineOut.lines l (eolFor sp p))) := by
  unfold StreamProc.processLine
  simp only [hp, M.ok_bind, ht, streamCommand]
  cases hh : handleGcodeText cfg inch
      (if p.eol.isEmpty then sp else { sp with eol := some p.eol }).st
      (p.stringify (includeLineNumber := false) (includeComment := false) (includeEol := false))
      (p.gcode.getD []) with
  | error e =>
    have : (if p.eol.isEmpty then sp else { sp with eol := some p.eol }).st = sp.st := by split <;> rfl
    rw [this] at hh
    simp [hh, Except.map]
  | ok r =>
    have : (if p.eol.isEmpty then sp else { sp with eol := some p.eol }).st = sp.st := by split <;> rfl
    rw [this] at hh
    simp only [hh, M.ok_bind, Except.map]
    obtain ⟨st, res⟩ := r
    cases res <;> simp only [eolFor] <;> split <;> simp_all

/-- **Everything else** (blank, comment-only, unknown text, or an @-command that is not handled) is
returned untouched — the input line itself, byte for byte. -/
theorem other_line (cfg : Config) (inch : α) (sp : StreamProc α) (line : Text) (p : Parser)
    (hp : ({} : Parser).parse (some line) = .ok p) (ht : p.type = none) (hat : p.text.head? ≠ some '@') :
    ∃ sp', sp.processLine cfg inch line = .ok (sp', .unchanged) ∧ sp'.st = sp.st := by
  unfold StreamProc.processLine
  simp only [hp, M.ok_bind, ht]
  rw [if_neg (by simpa using hat)]
  exact ⟨_, rfl, by split <;> rfl⟩

/-- **@-command lines** go through the same `handleAtCommand` the live hook calls (with a comm
object that is never streaming); unhandled ones are returned untouched. -/
theorem at_line (cfg : Config) (inch : α) (sp : StreamProc α) (line : Text) (p : Parser)
    (hp : ({} : Parser).parse (some line) = .ok p) (ht : p.type = none) (hat : p.text.head? = some '@') :
    sp.processLine cfg inch line =
      (handleAtCommand cfg sp.st false (String.ofList (splitAtCommand p.text).1) (splitAtCommand p.text).2).map
        (fun r =>
          if r.2.1 then
            if r.2.2.isEmpty then ({ sp with st := r.1, eol := if p.eol.isEmpty then sp.eol else some p.eol }, LineOut.omit)
            else ({ st := r.1, eol := some (eolFor sp p) }, LineOut.lines r.2.2 (eolFor sp p))
          else ({ sp with st := r.1, eol := if p.eol.isEmpty then sp.eol else some p.eol }, LineOut.unchanged)) := by
  unfold StreamProc.processLine
  simp only [hp, M.ok_bind, ht, hat, beq_self_eq_true, if_true]
  by_cases he : p.eol.isEmpty = true
  · simp only [he, if_true, eolFor]
    cases hh : handleAtCommand cfg sp.st false (String.ofList (splitAtCommand p.text).1) (splitAtCommand p.text).2 with
    | error e => simp [Except.map]
    | ok r =>
      obtain ⟨st, handled, sent⟩ := r
      simp only [M.ok_bind, Except.map]
      cases handled <;> simp only [Bool.false_eq_true, if_false, if_true]
      split <;> rfl
  · simp only [he, Bool.false_eq_true, if_false, eolFor]
    cases hh : handleAtCommand cfg sp.st false (String.ofList (splitAtCommand p.text).1) (splitAtCommand p.text).2 with
    | error e => simp [Except.map]
    | ok r =>
      obtain ⟨st, handled, sent⟩ := r
      simp only [M.ok_bind, Except.map, Option.getD]
      cases handled <;> simp only [Bool.false_eq_true, if_false, if_true]
      split <;> rfl

end ERP.C20
