import ERP.Properties.C04
import ERP.Lemmas.Fresh
import ERP.Lemmas.GenArith
import ERP.Lemmas.GenTies
import ERP.Lemmas.RetractExact
/-! # C05 — Retractions are never doubled and are recovered before printing resumes

Same setting and protocol as C04 (`ERP.C04.ProtoRun`): matched retract/recover cycles of one
length `A` (E-only), or `G10`/`G11`, not mixed; every way episodes can begin and end relative to
those cycles.  `depth` is the physical retraction depth of a printer: its filament high-water mark
minus the filament position. -/
namespace ERP.C05
open ERP T Spec ERP.C04
set_option linter.unusedSectionVars false

variable {α : Type} [Field α] [LinearOrder α] [IsStrictOrderedRing α] [MathOps α] [MathSpec α]

/-- **Never shallower than the file assumes, never doubled.**  In every reachable configuration
the printer is retracted at least as deep as the file currently assumes, and its depth is either
`0` or exactly one retraction length `A` (E-only style), resp. `0` with the firmware flag set at
most once (firmware style). -/
theorem C05_depth (pr : EProto α) (cfg : Config) (inch : α) (hinch : inch ≠ 0) (regions : List (Region α))
    (es : List (Ev α)) (hd : ProtoRun pr cfg inch (Sys.start regions) es) :
    let y := (Sys.start regions).run cfg inch es
    y.virt.depth ≤ y.phys.depth ∧ 0 ≤ y.virt.depth ∧
    (pr.fw = false → (y.phys.depth = 0 ∨ y.phys.depth = pr.A) ∧ y.phys.fwRetracted = false) ∧
    (pr.fw = true → y.phys.depth = 0 ∧ y.virt.depth = 0 ∧ (y.virt.fwRetracted = true → y.phys.fwRetracted = true)) := by
  intro y
  have hg := goodE_run pr cfg inch hinch es _ (goodE_start pr regions) hd
  have hr := hg.einv.retr
  have hn := hr.nonneg
  refine ⟨hn.2.2, hn.2.1, ?_, ?_⟩
  · intro hf
    unfold RetrInv at hr
    cases hl : y.s.lastRetraction with
    | none =>
      rw [hl] at hr; simp only [hf] at hr
      exact ⟨Or.inl hr.2.2.1, hr.1⟩
    | some r =>
      rw [hl] at hr; simp only [hf] at hr
      exact ⟨Or.inr hr.2.2.2.2.1, hr.1⟩
  · intro hf
    cases hl : y.s.lastRetraction with
    | none =>
      rw [hl] at hr
      obtain ⟨h1, h2, h3, h4⟩ := hr.of_fw_none hf
      exact ⟨h1, h2, fun h => by have h4' : y.virt.fwRetracted = false := h4
                                 rw [h4'] at h; cases h⟩
    | some r =>
      rw [hl] at hr
      obtain ⟨h1, h2, h3, h4, h5⟩ := hr.of_fw_some hf
      exact ⟨h1, h2, fun _ => h4⟩

/-- **Recovered exactly once before printing resumes** (restating `C04_amount`): when an
extruding linear move or E-only extrusion is forwarded outside regions, the printer reaches it at
the file's retraction depth — an owed recovery has just been issued in the same output, once. -/
theorem C05_recovered_first (pr : EProto α) (cfg : Config) (inch : α) (y : Sys α) (g : String) (c : Cmd α)
    (hg : GoodE pr y) (hl : isLinear g) (he : EDialect pr cfg y.s y.virt.ev g c)
    (hpre : y.s.excluding = false) (hpost : (y.step cfg inch (.gcode g c)).s.excluding = false)
    (hpos : 0 < T.deltaEOf y.s (lastValue c.words 'E')) :
    ∃ pre, Emit.forwarded (.gcode g c) (stepT cfg inch y.s (.gcode g c)).2 = pre ++ [.orig c] ∧
      (y.phys.execOuts cfg.g90InfluencesExtruder inch pre).depth = y.virt.depth ∧
      (y.phys.execOuts cfg.g90InfluencesExtruder inch pre).fwRetracted = y.virt.fwRetracted := by
  obtain ⟨pre, h1, _, h3, h4, _⟩ := C04_amount pr cfg inch y g c hg hl he hpre hpost hpos
  exact ⟨pre, h1, h3, h4⟩

/-- injected firmware retract/recover commands carry the text of the original `G10` -/
theorem C05_firmware_params (r : Retraction α) (dir : α) (p : Position α) (h : r.firmwareRetract = true) :
    (T.addCommands r dir p).2 = [.fw (decide (dir < 0)) r.originalCommand.text] := by
  unfold T.addCommands; simp only [h, if_true]

/-- `G10` records the command it was issued with -/
theorem C05_g10_records (s : FState α) (c : Cmd α) (hn : s.lastRetraction = none)
    (hpl : (hasLetter c.words 'P' || hasLetter c.words 'L') = false) :
    ∃ r, (T.handleG10 s c).1.lastRetraction = some r ∧ r.firmwareRetract = true ∧ r.originalCommand = c := by
  unfold T.handleG10
  simp only [hpl, Bool.false_eq_true, if_false, toResult_fst]
  unfold T.recordRetraction
  simp only [hn]
  split
  · exact ⟨_, rfl, rfl, rfl⟩
  · exact ⟨_, rfl, rfl, rfl⟩

/-- @-commands never touch the recorded retraction -/
theorem at_lastRetraction (cfg : Config) (s : FState α) (st : Bool) (cmd : String) (ps : Text) :
    (T.handleAtCommand cfg s st cmd ps).1.lastRetraction = s.lastRetraction := by
  unfold T.handleAtCommand
  split
  · rfl
  · generalize List.filter (fun e => e.command == cmd) cfg.atCommandActions = es
    suffices ∀ (s : FState α) (hd : Bool) (sent : List (Out α)),
        (T.atLoop cfg ps es s hd sent).1.lastRetraction = s.lastRetraction from this _ _ _
    induction es with
    | nil => intro s hd sent; rfl
    | cons e rest ih =>
      intro s hd sent
      unfold T.atLoop
      split
      · cases e.action with
        | enable => rw [ih]; rfl
        | disable =>
          simp only
          rw [ih]
          unfold T.disableExclusion
          split
          · dsimp only
            split
            · rw [exitExcludedRegion_state]; split <;> rfl
            · rfl
          · rfl
        | unsupported => exact ih _ _ _
      · exact ih _ _ _

theorem step_fresh (cfg : Config) (inch : α) (y : Sys α) (e : Ev α) :
    FreshLR y.s.lastRetraction (y.step cfg inch e).s.lastRetraction := by
  cases e with
  | gcode g c => exact gcode_fresh cfg inch y.s g c
  | atCmd st cmd ps =>
    simp only [Sys.step, stepT]
    rw [at_lastRetraction]; exact FreshLR.same _
  | addRegion r =>
    simp only [Sys.step, stepT]
    cases hr : y.s.addRegion r with
    | error _ => exact FreshLR.same _
    | ok s' =>
      unfold FState.addRegion at hr
      split at hr
      · cases hr; exact FreshLR.same _
      · cases hr

/-- the deepest retraction the file has requested along a run: the maximum of the virtual
printer's depth over all configurations visited, the final one included -/
def deepest (cfg : Config) (inch : α) : Sys α → List (Ev α) → α
  | y, [] => y.virt.depth
  | y, e :: es => max y.virt.depth (deepest cfg inch (y.step cfg inch e) es)

theorem deepest_ge_head (cfg : Config) (inch : α) (y : Sys α) (es : List (Ev α)) :
    y.virt.depth ≤ deepest cfg inch y es := by
  cases es with
  | nil => exact le_refl _
  | cons e rest => exact le_max_left _ _

theorem never_deeper_aux (pr : EProto α) (cfg : Config) (inch : α) (hinch : inch ≠ 0) (es : List (Ev α)) :
    ∀ (y : Sys α) (D : α), GoodE pr y → ProtoRun pr cfg inch y es →
      (pr.fw = false → y.s.lastRetraction ≠ none → pr.A ≤ D) →
      (y.run cfg inch es).phys.depth ≤ max D (deepest cfg inch y es) := by
  induction es with
  | nil =>
    intro y D hg _ hK
    have hr := hg.einv.retr
    have hn := hr.nonneg
    show y.phys.depth ≤ max D y.virt.depth
    cases hf : pr.fw
    · cases hl : y.s.lastRetraction with
      | none =>
        unfold RetrInv at hr; rw [hl] at hr; simp only [hf] at hr
        have : y.phys.depth = 0 := hr.2.2.1
        rw [this]; exact le_trans hn.2.1 (le_max_right _ _)
      | some r =>
        unfold RetrInv at hr; rw [hl] at hr; simp only [hf] at hr
        have : y.phys.depth = pr.A := hr.2.2.2.2.1
        rw [this]
        exact le_trans (hK hf (by rw [hl]; exact Option.some_ne_none r)) (le_max_left _ _)
    · have : y.phys.depth = 0 := by
        cases hl : y.s.lastRetraction with
        | none => rw [hl] at hr; exact (hr.of_fw_none hf).1
        | some r => rw [hl] at hr; exact (hr.of_fw_some hf).1
      rw [this]; exact le_trans hn.2.1 (le_max_right _ _)
  | cons e rest ih =>
    intro y D hg hd hK
    have hg' := goodE_step pr cfg inch hinch y e hg hd.1 hd.2.1
    have hfresh := step_fresh cfg inch y e
    have key := ih (y.step cfg inch e) (max D (y.step cfg inch e).virt.depth) hg' hd.2.2 (by
      intro hf hne
      by_cases hpre : y.s.lastRetraction = none
      · -- freshly recorded: the file has just retracted by `A`
        cases hl : (y.step cfg inch e).s.lastRetraction with
        | none => exact absurd hl hne
        | some r =>
          have hro := hfresh hpre r hl
          have hr := hg'.einv.retr
          unfold RetrInv at hr; rw [hl] at hr; simp only [hf] at hr
          have hv : (y.step cfg inch e).virt.depth = pr.A := by
            have := hr.2.2.2.2.2; rw [hro] at this
            simp only [Bool.false_eq_true, if_false] at this
            exact this
          rw [← hv]; exact le_max_right _ _
      · exact le_trans (hK hf hpre) (le_max_left _ _))
    show ((y.step cfg inch e).run cfg inch rest).phys.depth ≤
      max D (max y.virt.depth (deepest cfg inch (y.step cfg inch e) rest))
    refine le_trans key ?_
    apply max_le
    · apply max_le
      · exact le_max_left _ _
      · exact le_trans (deepest_ge_head cfg inch _ rest) (le_trans (le_max_right _ _) (le_max_right _ _))
    · exact le_trans (le_max_right _ _) (le_max_right _ _)

/-- **Never retracted deeper than the deepest retraction the file has requested so far.** -/
theorem C05_never_deeper (pr : EProto α) (cfg : Config) (inch : α) (hinch : inch ≠ 0)
    (regions : List (Region α)) (es : List (Ev α)) (hd : ProtoRun pr cfg inch (Sys.start regions) es) :
    ((Sys.start regions).run cfg inch es).phys.depth ≤ deepest cfg inch (Sys.start regions) es := by
  have h := never_deeper_aux pr cfg inch hinch es (Sys.start regions) 0 (goodE_start pr regions) hd (by
    intro _ hne
    exact absurd (by simp [Sys.start, handleG28, FState.reset]) hne)
  refine le_trans h (max_le ?_ (le_refl _))
  have h0 : (Sys.start regions : Sys α).virt.depth = 0 := by simp [Sys.start, Printer.depth]
  rw [← h0]; exact deepest_ge_head cfg inch _ es

end ERP.C05

/-! ## The protocol is not vacuous

In every consistent configuration the commands the protocol is about are admissible: an E-only
retraction by `A` when nothing is recorded, the matching recovery afterwards, and an extruding
move while the file is not retracted.  (Together with `goodE_start` — the homed start state is
consistent for every region list — this shows that `ProtoRun` has non-trivial inhabitants of any
length.) -/
namespace ERP.C05
open ERP T Spec ERP.C04
set_option linter.unusedSectionVars false
variable {α : Type} [Field α] [LinearOrder α] [IsStrictOrderedRing α] [MathOps α] [MathSpec α]

/-- the logical E word that moves the extruder by `d` (native mm) from where it is -/
def eWord (s : FState α) (d : α) : α :=
  (cur s.position.e + d - (s.position.e.offset + s.position.e.homeOffset)) / s.position.e.unitMultiplier

theorem deltaE_eWord (s : FState α) (d : α) (habs : s.position.e.absoluteMode = true)
    (hu : s.position.e.unitMultiplier ≠ 0) : T.deltaEOf s (some (eWord s d)) = d := by
  simp only [T.deltaEOf, setLog, l2n, habs, if_true, eWord, cur, Option.getD_some]
  field_simp
  ring

theorem lastValue_single (k c : Char) (v : Option α) :
    lastValue [(k, v)] c = if k == c then v else none := by
  unfold lastValue
  simp only [List.foldl_cons, List.foldl_nil]
  split
  · cases v <;> rfl
  · rfl

/-- an E-only retraction of length `A` is admissible whenever no retraction is recorded -/
theorem retraction_admissible (pr : EProto α) (cfg : Config) (y : Sys α) (hg : GoodE pr y)
    (hfw : pr.fw = false) (hn : y.s.lastRetraction = none) (t : Text) :
    EDialect pr cfg y.s y.virt.ev "G1" { text := t, words := [('E', some (eWord y.s (-pr.A)))], code := "G1" } := by
  have hu := hg.good.wf.pos.2.2.2.2
  have hd := deltaE_eWord y.s (-pr.A) hg.einv.abs hu
  have hr := hg.einv.retr
  unfold RetrInv at hr; rw [hn] at hr; simp only [hfw] at hr
  refine ⟨rfl, ?_⟩
  show (if T.isMoveOf (lastValue [('E', some (eWord y.s (-pr.A)))] 'Z')
      [(lastValue [('E', some (eWord y.s (-pr.A)))] 'X', lastValue [('E', some (eWord y.s (-pr.A)))] 'Y')] = true
    then _ else _)
  simp only [lastValue_single, T.isMoveOf]
  simp only [show (('E' : Char) == 'Z') = false from by decide, show (('E' : Char) == 'X') = false from by decide,
    show (('E' : Char) == 'Y') = false from by decide, show (('E' : Char) == 'E') = true from by decide,
    Bool.false_eq_true, if_false, if_true, Option.isSome_none, List.any_cons, List.any_nil, Bool.or_self]
  rw [hd]
  have hA := pr.hA
  exact ⟨fun _ => ⟨hfw, hr.2.2.2, by ring⟩, fun h => absurd h (by linarith)⟩

/-- the matching recovery is admissible while the file is retracted -/
theorem recovery_admissible (pr : EProto α) (cfg : Config) (y : Sys α) (hg : GoodE pr y)
    (hfw : pr.fw = false) (r : Retraction α) (hn : y.s.lastRetraction = some r)
    (ho : r.recoverExcluded = false) (t : Text) :
    EDialect pr cfg y.s y.virt.ev "G1" { text := t, words := [('E', some (eWord y.s pr.A))], code := "G1" } := by
  have hu := hg.good.wf.pos.2.2.2.2
  have hd := deltaE_eWord y.s pr.A hg.einv.abs hu
  have hr := hg.einv.retr
  unfold RetrInv at hr; rw [hn] at hr; simp only [hfw, ho] at hr
  refine ⟨rfl, ?_⟩
  show (if T.isMoveOf (lastValue [('E', some (eWord y.s pr.A))] 'Z')
      [(lastValue [('E', some (eWord y.s pr.A))] 'X', lastValue [('E', some (eWord y.s pr.A))] 'Y')] = true
    then _ else _)
  simp only [lastValue_single, T.isMoveOf]
  simp only [show (('E' : Char) == 'Z') = false from by decide, show (('E' : Char) == 'X') = false from by decide,
    show (('E' : Char) == 'Y') = false from by decide, show (('E' : Char) == 'E') = true from by decide,
    Bool.false_eq_true, if_false, if_true, Option.isSome_none, List.any_cons, List.any_nil, Bool.or_self]
  rw [hd]
  have hA := pr.hA
  refine ⟨fun h => absurd h (by linarith), fun _ => ⟨hr.2.1, Or.inr ⟨?_, rfl⟩⟩⟩
  simpa using hr.2.2.2.2.2

/-- an extruding move to any point is admissible while nothing is recorded (either style) -/
theorem extruding_move_admissible (pr : EProto α) (cfg : Config) (y : Sys α) (hg : GoodE pr y)
    (hn : y.s.lastRetraction = none) (x yy d : α) (hd0 : 0 ≤ d) (t : Text) :
    EDialect pr cfg y.s y.virt.ev "G1"
      { text := t, words := [('X', some x), ('Y', some yy), ('E', some (eWord y.s d))], code := "G1" } := by
  have hu := hg.good.wf.pos.2.2.2.2
  have hd := deltaE_eWord y.s d hg.einv.abs hu
  have hr := hg.einv.retr
  rw [hn] at hr
  have hV : y.virt.ev.depth = 0 ∧ y.virt.ev.fw = false := by
    unfold RetrInv at hr
    cases hf : pr.fw <;> simp only [hf] at hr
    · exact ⟨hr.2.2.2, hr.2.1⟩
    · exact ⟨hr.2.1, hr.2.2.2⟩
  refine ⟨rfl, ?_⟩
  have hE : lastValue [('X', some x), ('Y', some yy), ('E', some (eWord y.s d))] 'E' = some (eWord y.s d) := by
    simp [lastValue]
  have hX : lastValue [('X', some x), ('Y', some yy), ('E', some (eWord y.s d))] 'X' = some x := by
    simp [lastValue]
  show (if T.isMoveOf (lastValue _ 'Z') [(lastValue _ 'X', lastValue _ 'Y')] = true then _ else _)
  rw [hE, hX, hd]
  simp only [T.isMoveOf, List.any_cons, Option.isSome_some, Bool.true_or, Bool.or_true, if_true]
  exact ⟨hd0, fun _ => hV⟩

end ERP.C05
