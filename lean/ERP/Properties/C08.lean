import ERP.Lemmas.Ctrl
import ERP.Properties.C03
import Mathlib.Tactic.FieldSimp
import Mathlib.Tactic.NormNum
import Mathlib.Algebra.Order.Field.Rat
import ERP.Lemmas.GenArith
import ERP.Lemmas.GenConsts
import ERP.Lemmas.GenTies
/-! # C08 — Exclusion decisions are invariant under re-encoding of the same tool path

The decision taken for a move is a function of its *native* destination, the regions and the
switch (`decision_is_native`); each re-encoding reaches the same native destination
(`enc_inch`, `enc_rel`) or shifts membership consistently (`enc_translate`). Re-basing with
G92 X/Y/Z is the known finding K-D15 (`g92_rebase_counterexample`). -/
namespace ERP.C08
open ERP T Spec
set_option linter.unusedSectionVars false

variable {α : Type} [Field α] [LinearOrder α] [IsStrictOrderedRing α] [MathOps α] [MathSpec α]

/-- **Decisions are native.** Whether a linear move is treated as excluded is the region test at
the native destination the tracked axes reach — nothing else about the encoding enters. -/
theorem decision_is_native (s : FState α) (ep fr fz : Option α) (px py : Option α) :
    hitOf s ep fr fz [(px, py)] =
      (T.isMoveOf fz [(px, py)] &&
        (s.exclusionEnabled && T.anyContains s.excludedRegions
          (cur (setLog s.position.x px)) (cur (setLog s.position.y py)))) := by
  unfold hitOf
  congr 1
  have hr : (T.applyEZF s ep fr fz).excludedRegions = s.excludedRegions := by
    unfold T.applyEZF; cases fr <;> rfl
  obtain ⟨_, he, hx, hy⟩ := applyEZF_frame s ep fr fz
  simp [T.isAnyLoop, T.isPointExcluded, hr, he, hx, hy]

/-- … so two runs that agree on regions, switch and native destination take the same decision and
end in the same episode state. -/
theorem linear_decision_congr (cfg : Config) (s s' : FState α) (cmd cmd' : Cmd α)
    (ep fr fz px py ep' fr' fz' px' py' : Option α) (h : WF s) (h' : WF s')
    (hreg : s'.excludedRegions = s.excludedRegions) (hen : s'.exclusionEnabled = s.exclusionEnabled)
    (hm : T.isMoveOf fz' [(px', py')] = T.isMoveOf fz [(px, py)])
    (hmove : T.isMoveOf fz [(px, py)] = true)
    (hdx : cur (setLog s'.position.x px') = cur (setLog s.position.x px))
    (hdy : cur (setLog s'.position.y py') = cur (setLog s.position.y py)) :
    (T.processLinearMoves cfg s' cmd' ep' fr' fz' [(px', py')]).1.excluding =
    (T.processLinearMoves cfg s cmd ep fr fz [(px, py)]).1.excluding := by
  rw [(plm_ctrl cfg s' cmd' _ _ _ _ h').excluding, (plm_ctrl cfg s cmd _ _ _ _ h).excluding,
    decision_is_native, decision_is_native, hm, hmove, hreg, hen, hdx, hdy]
  simp

/-! ## The encoders reach the same native destination -/

/-- inches: scaling the logical value by the unit reaches the same native target -/
theorem enc_inch (a : Axis α) (u : α) (hu : u ≠ 0) (habs : a.absoluteMode = true) (w : α) :
    l2n { a with unitMultiplier := u } (w / u) = l2n { a with unitMultiplier := 1 } w := by
  simp only [l2n, habs, if_true]
  field_simp

/-- absolute or relative: either way of writing the same native target `t` reaches `t` -/
theorem enc_rel (a : Axis α) (hu : a.unitMultiplier ≠ 0) (t : α) :
    l2n { a with absoluteMode := true } ((t - (a.offset + a.homeOffset)) / a.unitMultiplier) = t ∧
    l2n { a with absoluteMode := false } ((t - cur a) / a.unitMultiplier) = t := by
  constructor
  · simp only [l2n, if_true]; field_simp; ring
  · simp only [l2n, Bool.false_eq_true, if_false, cur]; field_simp; ring

def translate (v : α × α) : Region α → Region α
  | .rect i x1 y1 x2 y2 => .rect i (x1 + v.1) (y1 + v.2) (x2 + v.1) (y2 + v.2)
  | .circle i cx cy r => .circle i (cx + v.1) (cy + v.2) r

/-- translating a region and a point by the same vector does not change membership -/
theorem enc_translate (r : Region α) (v : α × α) (x y : α) :
    (translate v r).containsPoint (x + v.1) (y + v.2) = r.containsPoint x y := by
  cases r with
  | rect i x1 y1 x2 y2 =>
    simp only [translate, Region.containsPoint, add_le_add_iff_right]
  | circle i cx cy rr =>
    simp only [translate, Region.containsPoint]
    have e1 : x + v.1 - (cx + v.1) = x - cx := by ring
    have e2 : y + v.2 - (cy + v.2) = y - cy := by ring
    rw [e1, e2]

theorem enc_translate_any (rs : List (Region α)) (v : α × α) (x y : α) :
    T.anyContains (rs.map (translate v)) (x + v.1) (y + v.2) = T.anyContains rs x y := by
  unfold T.anyContains
  induction rs with
  | nil => rfl
  | cons r rest ih => simp only [List.map_cons, List.any_cons, enc_translate, ih]

end ERP.C08

namespace ERP.C08
open ERP T

/-- **Known finding K-D15 on the model.** `G92 X0` at x = 25 should make the current position read
as 0; with the plugin's offset arithmetic it reads as 50 (and a following `X-10` is tracked at 40
instead of 15). -/
theorem g92_rebase_counterexample :
    let a : Axis ℚ := { current := some 25, homeOffset := 0, offset := 0, absoluteMode := true, unitMultiplier := 1 }
    T.n2l (T.setOffsetPos a 0) = 50 ∧ T.l2n (T.setOffsetPos a 0) (-10) = -35 := by
  constructor <;> norm_num [T.n2l, T.setOffsetPos, T.l2n, T.cur]

/-- what a correct re-basing does (the reference printer's `rebase`): the position reads as `v` -/
theorem spec_rebase_reads_back (a : Axis ℚ) (v : ℚ) (hu : a.unitMultiplier ≠ 0) (hc : a.current.isSome) :
    T.n2l (Spec.rebase a (some v)) = v := by
  obtain ⟨c, hc⟩ := Option.isSome_iff_exists.mp hc
  simp only [Spec.rebase, T.n2l, T.cur, Spec.coord, hc, Option.getD]
  field_simp
  ring

end ERP.C08
