import ERP.Total
import ERP.Lemmas.RealOps
import ERP.Lemmas.Refine
import Mathlib.Tactic.Linarith
import Mathlib.Tactic.Ring
import Mathlib.Tactic.FieldSimp
import ERP.Lemmas.GenArith
import ERP.Lemmas.GenConsts
import ERP.Lemmas.GenTies
/-! # C16 — Arc moves are sampled faithfully (over ℝ, with `Real.sqrt/sin/cos`, `atan2 = Complex.arg`)

About `T.planArc`, which the refinement theorem identifies with `planArc` of the faithful model on
homed states. -/
namespace ERP.C16
open ERP Real

/-- the `k`-th intermediate sample angle / point -/
noncomputable def samplePoint (cx cy r a inc : ℝ) (k : ℕ) : ℝ × ℝ :=
  (cx + Real.cos (a + (k + 1 : ℕ) * inc) * r, cy + Real.sin (a + (k + 1 : ℕ) * inc) * r)

/-- closed form of the sampling loop: equal angular steps -/
theorem arcLoop_spec (cx cy r inc : ℝ) (m : ℕ) :
    ∀ (a : ℝ) (acc : List (ℝ × ℝ)),
      ERP.arcLoop cx cy r inc m a acc = acc ++ (List.range m).map (samplePoint cx cy r a inc) := by
  induction m with
  | zero => intro a acc; simp [ERP.arcLoop]
  | succ n ih =>
    intro a acc
    simp only [ERP.arcLoop, MathOps.cos, MathOps.sin]
    rw [ih]
    rw [List.range_succ_eq_map, List.map_cons, List.map_map, List.append_assoc]
    congr 1
    simp only [List.singleton_append, List.cons.injEq]
    refine ⟨?_, ?_⟩
    · simp [samplePoint]
    · apply List.map_congr_left
      intro k _
      simp only [Function.comp, samplePoint]
      push_cast
      have : a + inc + ((k : ℝ) + 1) * inc = a + ((k : ℝ) + 1 + 1) * inc := by ring
      rw [this]

/-- **On the circle.** Every intermediate sample is at distance `radius` from the centre. -/
theorem sample_on_circle (cx cy r a inc : ℝ) (k : ℕ) :
    ((samplePoint cx cy r a inc k).1 - cx) ^ 2 + ((samplePoint cx cy r a inc k).2 - cy) ^ 2 = r ^ 2 := by
  simp only [samplePoint]
  have := Real.cos_sq_add_sin_sq (a + (k + 1 : ℕ) * inc)
  ring_nf
  ring_nf at this
  nlinarith [this]

/-- squared chord between two points of a circle of radius `r` at angles `u` and `v` -/
theorem chord_sq (cx cy r u v : ℝ) :
    ((cx + Real.cos u * r) - (cx + Real.cos v * r)) ^ 2 + ((cy + Real.sin u * r) - (cy + Real.sin v * r)) ^ 2 =
      r ^ 2 * (2 - 2 * Real.cos (u - v)) := by
  rw [Real.cos_sub]
  have h1 := Real.cos_sq_add_sin_sq u
  have h2 := Real.cos_sq_add_sin_sq v
  ring_nf
  ring_nf at h1 h2
  nlinarith [h1, h2]

/-- … which is at most `(r · (u − v))²` -/
theorem chord_le (cx cy r u v : ℝ) :
    ((cx + Real.cos u * r) - (cx + Real.cos v * r)) ^ 2 + ((cy + Real.sin u * r) - (cy + Real.sin v * r)) ^ 2 ≤
      (r * (u - v)) ^ 2 := by
  rw [chord_sq]
  have := Real.one_sub_sq_div_two_le_cos (x := u - v)
  nlinarith [sq_nonneg r, this]

/-- **Consecutive samples are at most one length unit apart**, given that the number of segments
is at least the arc length (`numSegments = max 1 ⌈|travel| · radius⌉`). -/
theorem consecutive_samples_close (cx cy r a travel : ℝ) (n : ℕ) (hn : 1 ≤ n) (hr : 0 ≤ r)
    (hseg : |travel| * r ≤ n) (k : ℕ) :
    ((samplePoint cx cy r a (travel / n) (k + 1)).1 - (samplePoint cx cy r a (travel / n) k).1) ^ 2 +
    ((samplePoint cx cy r a (travel / n) (k + 1)).2 - (samplePoint cx cy r a (travel / n) k).2) ^ 2 ≤ 1 := by
  simp only [samplePoint]
  refine le_trans (chord_le cx cy r _ _) ?_
  have hnpos : (0 : ℝ) < n := by exact_mod_cast hn
  have : (a + ((k + 1 + 1 : ℕ) : ℝ) * (travel / n)) - (a + ((k + 1 : ℕ) : ℝ) * (travel / n)) = travel / n := by
    push_cast; ring
  rw [this]
  have h1 : |r * (travel / n)| ≤ 1 := by
    rw [abs_mul, abs_div, abs_of_nonneg hr, abs_of_pos hnpos]
    rw [← mul_div_assoc, div_le_one hnpos, mul_comm]
    exact hseg
  have := sq_le_one_iff_abs_le_one (r * (travel / n)) |>.mpr h1
  exact this

/-- the number of segments `planArc` uses is at least the arc length -/
theorem numSegments_ge (x : ℝ) : x ≤ ((max 1 (Nat.ceil x) : ℕ) : ℝ) := by
  have := Nat.le_ceil x
  have h2 : ((Nat.ceil x : ℕ) : ℝ) ≤ ((max 1 (Nat.ceil x) : ℕ) : ℝ) := by exact_mod_cast le_max_right 1 _
  linarith

/-- **Structure of `planArc`** (ℝ instance): `n − 1` intermediate samples at equal angular steps
`travel / n` on the circle about the centre, then exactly the commanded end point; `n` is at least
the arc length `|travel| · radius`. -/
theorem planArc_structure (p : Position ℝ) (endX endY i j : ℝ) (cw : Bool) :
    let travel := T.angularTravel (T.n2l p.x) (T.n2l p.y) endX endY i j cw
    let n := T.numSegments travel (Real.sqrt (i * i + j * j))
    1 ≤ n ∧ |travel| * Real.sqrt (i * i + j * j) ≤ n ∧
      T.planArc p endX endY i j cw =
        (List.range (n - 1)).map (samplePoint (T.n2l p.x + i) (T.n2l p.y + j) (Real.sqrt (i * i + j * j))
          (Complex.arg ⟨-i, -j⟩) (travel / n)) ++ [(endX, endY)] := by
  intro travel n
  refine ⟨le_max_left 1 _, ?_, ?_⟩
  · have h := numSegments_ge (pyAbs travel * Real.sqrt (i * i + j * j) / 1)
    rw [div_one, pyAbs_eq] at h
    show |travel| * Real.sqrt (i * i + j * j) ≤ ((T.numSegments travel (Real.sqrt (i * i + j * j)) : ℕ) : ℝ)
    unfold T.numSegments
    simp only [MathOps.ceilNat, div_one, pyAbs_eq]
    exact h
  · unfold T.planArc
    simp only [MathOps.hypot, MathOps.atan2, MathOps.ofNat]
    rw [arcLoop_spec]; simp only [List.nil_append]
    rfl

/-- **The last sample is exactly the commanded end point.** -/
theorem planArc_last (p : Position ℝ) (endX endY i j : ℝ) (cw : Bool) :
    (T.planArc p endX endY i j cw).getLast? = some (endX, endY) := by
  obtain ⟨_, _, h⟩ := planArc_structure p endX endY i j cw
  rw [h]; simp

/-- the start point is on the same circle, at the angle the sampling starts from -/
theorem start_on_circle (i j : ℝ) (h : i ≠ 0 ∨ j ≠ 0) :
    Real.cos (Complex.arg ⟨-i, -j⟩) * Real.sqrt (i * i + j * j) = -i ∧
    Real.sin (Complex.arg ⟨-i, -j⟩) * Real.sqrt (i * i + j * j) = -j := by
  have hz : (⟨-i, -j⟩ : ℂ) ≠ 0 := by
    intro hc
    have h1 := congrArg Complex.re hc
    have h2 := congrArg Complex.im hc
    simp at h1 h2
    rcases h with h | h
    · exact h h1
    · exact h h2
  have hn : ‖(⟨-i, -j⟩ : ℂ)‖ = Real.sqrt (i * i + j * j) := by
    rw [Complex.norm_def, Complex.normSq_mk]; congr 1; ring
  have hpos : ‖(⟨-i, -j⟩ : ℂ)‖ ≠ 0 := norm_ne_zero_iff.mpr hz
  constructor
  · rw [Complex.cos_arg hz, ← hn]; field_simp
  · rw [Complex.sin_arg, ← hn]; field_simp

end ERP.C16

namespace ERP.C16
open ERP Real

/-- **Radius form.** The centre offsets `computeArcCenterOffsets` returns, when it computes a
centre at all, satisfy `i² + j² = R² − 2·e·h·Δx·Δy / d`: the centre is at distance `|R|` from the
start point exactly when the chord is axis-aligned (`Δx·Δy = 0`) or the arc is a semicircle
(`h = 0`). This is the known finding K-D10 (the "perpendicular" is `(−Δy, −Δx)`). -/
theorem centre_distance_sq (p : Position ℝ) (endX endY R : ℝ) (cw : Bool)
    (hR : R ≠ 0) (hne : T.n2l p.x ≠ endX ∨ T.n2l p.y ≠ endY)
    (hhalf : Real.sqrt ((endX - T.n2l p.x) * (endX - T.n2l p.x) + (endY - T.n2l p.y) * (endY - T.n2l p.y)) / 2 ≤ |R|) :
    let dx := endX - T.n2l p.x
    let dy := endY - T.n2l p.y
    let d := Real.sqrt (dx * dx + dy * dy)
    let h := Real.sqrt (R * R - d / 2 * (d / 2))
    let e : ℝ := if xor cw (decide (R < 0)) then -1 else 1
    let ij := T.computeArcCenterOffsets p endX endY R cw
    ij.1 * ij.1 + ij.2 * ij.2 = R * R - 2 * e * h * dx * dy / d := by
  intro dx dy d h e ij
  have hd0 : 0 < dx * dx + dy * dy := by
    rcases hne with hx | hy
    · have : dx ≠ 0 := sub_ne_zero.mpr (Ne.symm hx)
      nlinarith [mul_self_pos.mpr this, mul_self_nonneg dy]
    · have : dy ≠ 0 := sub_ne_zero.mpr (Ne.symm hy)
      nlinarith [mul_self_pos.mpr this, mul_self_nonneg dx]
  have hdpos : 0 < d := Real.sqrt_pos.mpr hd0
  have hdsq : d * d = dx * dx + dy * dy := Real.mul_self_sqrt hd0.le
  have harg : 0 ≤ R * R - d / 2 * (d / 2) := by
    have h0 : 0 ≤ d / 2 := by positivity
    have := mul_le_mul hhalf hhalf h0 (abs_nonneg R)
    rw [abs_mul_abs_self] at this
    linarith
  have hhsq : h * h = R * R - d / 2 * (d / 2) := Real.mul_self_sqrt harg
  have he : e * e = 1 := by
    simp only [e]; split <;> norm_num
  have hcond : (!(R == 0) && (!(T.n2l p.x == endX) || !(T.n2l p.y == endY))) = true := by
    simp only [Bool.and_eq_true, Bool.not_eq_true', beq_eq_false_iff_ne, ne_eq, Bool.or_eq_true]
    exact ⟨hR, hne⟩
  have hij : ij = ((T.n2l p.x + endX) / 2 + e * h * (-dy / d) - T.n2l p.x,
      (T.n2l p.y + endY) / 2 + e * h * (-dx / d) - T.n2l p.y) := by
    simp only [ij, T.computeArcCenterOffsets, MathOps.hypot, MathOps.sqrt, hcond, if_true, pyAbs_eq]
    rw [if_pos hhalf]
  have hdne : d ≠ 0 := hdpos.ne'
  have hi : ij.1 = dx / 2 - e * h * dy / d := by
    rw [hij]; simp only [dx]; field_simp; ring
  have hj : ij.2 = dy / 2 - e * h * dx / d := by
    rw [hij]; simp only [dy]; field_simp; ring
  rw [hi, hj]
  have key : (dx / 2 - e * h * dy / d) * (dx / 2 - e * h * dy / d) +
      (dy / 2 - e * h * dx / d) * (dy / 2 - e * h * dx / d) =
      (dx * dx + dy * dy) / 4 + (e * e) * (h * h) * ((dx * dx + dy * dy) / (d * d)) - 2 * e * h * dx * dy / d := by
    field_simp; ring
  rw [key, he, hhsq, ← hdsq]
  field_simp
  ring

end ERP.C16

namespace ERP.C16
open ERP Real

/-- **C16 (radius form), proved part**: for an axis-aligned chord the centre is at distance `|R|`
from the start point (`i² + j² = R²`). -/
theorem centre_partial (p : Position ℝ) (endX endY R : ℝ) (cw : Bool)
    (hR : R ≠ 0) (hne : T.n2l p.x ≠ endX ∨ T.n2l p.y ≠ endY)
    (hhalf : Real.sqrt ((endX - T.n2l p.x) * (endX - T.n2l p.x) + (endY - T.n2l p.y) * (endY - T.n2l p.y)) / 2 ≤ |R|)
    (hax : (endX - T.n2l p.x) * (endY - T.n2l p.y) = 0) :
    (T.computeArcCenterOffsets p endX endY R cw).1 * (T.computeArcCenterOffsets p endX endY R cw).1 +
    (T.computeArcCenterOffsets p endX endY R cw).2 * (T.computeArcCenterOffsets p endX endY R cw).2 = R * R := by
  have := centre_distance_sq p endX endY R cw hR hne hhalf
  simp only at this
  rw [this]
  have : 2 * (if (cw ^^ decide (R < 0)) = true then (-1 : ℝ) else 1) *
      Real.sqrt (R * R - Real.sqrt ((endX - T.n2l p.x) * (endX - T.n2l p.x) + (endY - T.n2l p.y) * (endY - T.n2l p.y)) / 2 *
        (Real.sqrt ((endX - T.n2l p.x) * (endX - T.n2l p.x) + (endY - T.n2l p.y) * (endY - T.n2l p.y)) / 2)) *
      (endX - T.n2l p.x) * (endY - T.n2l p.y) = 0 := by
    rw [mul_assoc _ (endX - T.n2l p.x), hax, mul_zero]
  rw [this, zero_div, sub_zero]

/-- the position used in the counterexample: homed at the origin, millimetres, no offsets -/
noncomputable def origin : Position ℝ :=
  { x := Axis.init (some 0), y := Axis.init (some 0), z := Axis.init (some 0), e := Axis.init (some 0) }

/-- **Known finding K-D10 on the model**: from the origin, `G3 X3 Y4 R5` — the computed centre is
*not* at distance 5 from the start point. -/
theorem centre_counterexample :
    (T.computeArcCenterOffsets origin 3 4 5 false).1 * (T.computeArcCenterOffsets origin 3 4 5 false).1 +
    (T.computeArcCenterOffsets origin 3 4 5 false).2 * (T.computeArcCenterOffsets origin 3 4 5 false).2 ≠ 5 * 5 := by
  have hx : T.n2l origin.x = 0 := by simp [origin, T.n2l, T.cur, Axis.init]
  have hy : T.n2l origin.y = 0 := by simp [origin, T.n2l, T.cur, Axis.init]
  have hd : Real.sqrt ((3 - (0:ℝ)) * (3 - 0) + (4 - (0:ℝ)) * (4 - 0)) = 5 := by
    rw [show ((3 - (0:ℝ)) * (3 - 0) + (4 - (0:ℝ)) * (4 - 0)) = 5 ^ 2 by norm_num]
    exact Real.sqrt_sq (by norm_num)
  have := centre_distance_sq origin 3 4 5 false (by norm_num) (Or.inl (by rw [hx]; norm_num))
    (by rw [hx, hy, hd, abs_of_pos (by norm_num : (0:ℝ) < 5)]; norm_num)
  simp only at this
  rw [this, hx, hy, hd]
  have hh : 0 < Real.sqrt (5 * 5 - 5 / 2 * (5 / 2)) := Real.sqrt_pos.mpr (by norm_num)
  simp only [Bool.false_xor, decide_eq_true_eq]
  rw [if_neg (by norm_num)]
  intro hc
  nlinarith [hh]

end ERP.C16

namespace ERP.C16
open ERP Real

/-! ## Direction, sweep and coverage -/

/-- cosine and sine of `arg ⟨x, y⟩` -/
theorem cos_sin_arg (x y : ℝ) (h : x ≠ 0 ∨ y ≠ 0) :
    Real.cos (Complex.arg ⟨x, y⟩) * Real.sqrt (x * x + y * y) = x ∧
    Real.sin (Complex.arg ⟨x, y⟩) * Real.sqrt (x * x + y * y) = y := by
  have hz : (⟨x, y⟩ : ℂ) ≠ 0 := by
    intro hc
    have h1 := congrArg Complex.re hc
    have h2 := congrArg Complex.im hc
    simp at h1 h2
    rcases h with h | h
    · exact h h1
    · exact h h2
  have hn : ‖(⟨x, y⟩ : ℂ)‖ = Real.sqrt (x * x + y * y) := by
    rw [Complex.norm_def, Complex.normSq_mk]
  have hpos : ‖(⟨x, y⟩ : ℂ)‖ ≠ 0 := norm_ne_zero_iff.mpr hz
  constructor
  · rw [Complex.cos_arg hz, ← hn]; field_simp
  · rw [Complex.sin_arg, ← hn]; field_simp

/-- the three normalisation steps of `angularTravel`, spelled out -/
theorem angularTravel_eq (x y endX endY i j : ℝ) (cw : Bool) :
    T.angularTravel x y endX endY i j cw =
      (let a0 := Complex.arg ⟨-i * (endX - (x + i)) - j * (endY - (y + j)),
                              -i * (endY - (y + j)) + j * (endX - (x + i))⟩
       let a1 := if a0 < 0 then a0 + 2 * π else a0
       let a2 := if cw then a1 - 2 * π else a1
       if a2 == 0 && x == endX && y == endY then 2 * π else a2) := rfl

/-- **Direction and size of the sweep**: counter-clockwise arcs sweep an angle in `[0, 2π]`,
clockwise arcs an angle in `[-2π, 0)` — or the full circle `2π` when start and end coincide. -/
theorem travel_range (x y endX endY i j : ℝ) (cw : Bool) :
    (cw = false → 0 ≤ T.angularTravel x y endX endY i j cw ∧ T.angularTravel x y endX endY i j cw ≤ 2 * π) ∧
    (cw = true → (-(2 * π) ≤ T.angularTravel x y endX endY i j cw ∧ T.angularTravel x y endX endY i j cw < 0) ∨
      T.angularTravel x y endX endY i j cw = 2 * π) := by
  have hpi := Real.pi_pos
  rw [angularTravel_eq]
  have ha := Complex.arg_le_pi (⟨-i * (endX - (x + i)) - j * (endY - (y + j)), -i * (endY - (y + j)) + j * (endX - (x + i))⟩ : ℂ)
  have hb := Complex.neg_pi_lt_arg (⟨-i * (endX - (x + i)) - j * (endY - (y + j)), -i * (endY - (y + j)) + j * (endX - (x + i))⟩ : ℂ)
  generalize Complex.arg (⟨-i * (endX - (x + i)) - j * (endY - (y + j)), -i * (endY - (y + j)) + j * (endX - (x + i))⟩ : ℂ) = a0 at *
  dsimp only
  have h1 : 0 ≤ (if a0 < 0 then a0 + 2 * π else a0) ∧ (if a0 < 0 then a0 + 2 * π else a0) < 2 * π := by
    split <;> constructor <;> linarith
  generalize (if a0 < 0 then a0 + 2 * π else a0) = a1 at *
  constructor
  · intro hc
    subst hc
    simp only [Bool.false_eq_true, if_false]
    split
    · constructor <;> linarith
    · constructor <;> linarith
  · intro hc
    subst hc
    simp only [if_true]
    split
    · right; rfl
    · left; constructor <;> linarith

/-- **The commanded end point is where the sweep ends**: if the end point lies on the circle
through the start point about the centre, it is the point at angle `start angle + travel`. -/
theorem end_at_travel (x y endX endY i j : ℝ) (cw : Bool) (hij : i ≠ 0 ∨ j ≠ 0)
    (hon : (endX - (x + i)) ^ 2 + (endY - (y + j)) ^ 2 = i * i + j * j) :
    endX = x + i + Real.cos (Complex.arg ⟨-i, -j⟩ + T.angularTravel x y endX endY i j cw) * Real.sqrt (i * i + j * j) ∧
    endY = y + j + Real.sin (Complex.arg ⟨-i, -j⟩ + T.angularTravel x y endX endY i j cw) * Real.sqrt (i * i + j * j) := by
  have hpi := Real.pi_pos
  obtain ⟨X, hX⟩ : ∃ X, X = endX - (x + i) := ⟨_, rfl⟩
  obtain ⟨Y, hY⟩ : ∃ Y, Y = endY - (y + j) := ⟨_, rfl⟩
  obtain ⟨r, hr⟩ : ∃ r, r = Real.sqrt (i * i + j * j) := ⟨_, rfl⟩
  obtain ⟨a, haa⟩ : ∃ a, a = Complex.arg (⟨-i, -j⟩ : ℂ) := ⟨_, rfl⟩
  rw [← hX, ← hY] at hon
  rw [← hr, ← haa]
  have hnn : 0 ≤ i * i + j * j := add_nonneg (mul_self_nonneg i) (mul_self_nonneg j)
  have hr2 : r * r = i * i + j * j := by rw [hr]; exact Real.mul_self_sqrt hnn
  have hrpos : 0 < r := by
    rw [hr]
    apply Real.sqrt_pos.mpr
    rcases hij with h | h
    · have := mul_self_pos.mpr h; nlinarith [mul_self_nonneg j]
    · have := mul_self_pos.mpr h; nlinarith [mul_self_nonneg i]
  -- start angle
  obtain ⟨ca, sa⟩ := cos_sin_arg (-i) (-j) (by
    rcases hij with h | h
    · exact Or.inl (neg_ne_zero.mpr h)
    · exact Or.inr (neg_ne_zero.mpr h))
  have hr' : Real.sqrt (-i * -i + -j * -j) = r := by
    rw [hr]; congr 1; ring
  rw [hr', ← haa] at ca sa
  -- rotation angle: dot and cross product
  obtain ⟨d, hd⟩ : ∃ d, d = -i * X - j * Y := ⟨_, rfl⟩
  obtain ⟨c, hc⟩ : ∃ c, c = -i * Y + j * X := ⟨_, rfl⟩
  have hlag : d * d + c * c = (r * r) * (r * r) := by
    rw [hr2, hd, hc]
    have : X ^ 2 + Y ^ 2 = i * i + j * j := hon
    have e : (-i * X - j * Y) * (-i * X - j * Y) + (-i * Y + j * X) * (-i * Y + j * X) =
        (i * i + j * j) * (X ^ 2 + Y ^ 2) := by ring
    rw [e, this]
  have hsq : Real.sqrt (d * d + c * c) = r * r := by
    rw [hlag]; exact Real.sqrt_mul_self (le_of_lt (mul_pos hrpos hrpos))
  have hdc : d ≠ 0 ∨ c ≠ 0 := by
    by_cases hd0 : d = 0
    · right
      intro hc0
      rw [hd0, hc0] at hlag
      have : 0 < r * r * (r * r) := mul_pos (mul_pos hrpos hrpos) (mul_pos hrpos hrpos)
      linarith
    · exact Or.inl hd0
  obtain ⟨c0, s0⟩ := cos_sin_arg d c hdc
  rw [hsq] at c0 s0
  -- the travel is the rotation angle up to full turns
  have hper : Real.cos (a + T.angularTravel x y endX endY i j cw) = Real.cos (a + Complex.arg ⟨d, c⟩) ∧
      Real.sin (a + T.angularTravel x y endX endY i j cw) = Real.sin (a + Complex.arg ⟨d, c⟩) := by
    rw [angularTravel_eq]
    have hdd : (⟨-i * (endX - (x + i)) - j * (endY - (y + j)), -i * (endY - (y + j)) + j * (endX - (x + i))⟩ : ℂ) = ⟨d, c⟩ := by
      rw [hd, hc, hX, hY]
    rw [hdd]
    generalize Complex.arg (⟨d, c⟩ : ℂ) = a0
    dsimp only
    have p1 : ∀ z : ℝ, Real.cos (a + (z + 2 * π)) = Real.cos (a + z) ∧ Real.sin (a + (z + 2 * π)) = Real.sin (a + z) := by
      intro z
      rw [← add_assoc, Real.cos_add_two_pi, Real.sin_add_two_pi]; exact ⟨rfl, rfl⟩
    have p2 : ∀ z : ℝ, Real.cos (a + (z - 2 * π)) = Real.cos (a + z) ∧ Real.sin (a + (z - 2 * π)) = Real.sin (a + z) := by
      intro z
      rw [← add_sub_assoc, Real.cos_sub_two_pi, Real.sin_sub_two_pi]; exact ⟨rfl, rfl⟩
    -- a1 ≡ a0, a2 ≡ a1 (mod 2π)
    have q1 : Real.cos (a + (if a0 < 0 then a0 + 2 * π else a0)) = Real.cos (a + a0) ∧
        Real.sin (a + (if a0 < 0 then a0 + 2 * π else a0)) = Real.sin (a + a0) := by
      split
      · exact p1 a0
      · exact ⟨rfl, rfl⟩
    generalize (if a0 < 0 then a0 + 2 * π else a0) = a1 at *
    have q2 : Real.cos (a + (if cw = true then a1 - 2 * π else a1)) = Real.cos (a + a0) ∧
        Real.sin (a + (if cw = true then a1 - 2 * π else a1)) = Real.sin (a + a0) := by
      split
      · rw [(p2 a1).1, (p2 a1).2]; exact q1
      · exact q1
    generalize (if cw = true then a1 - 2 * π else a1) = a2 at *
    split
    · rename_i h0
      simp only [Bool.and_eq_true, beq_iff_eq] at h0
      obtain ⟨⟨hz, _⟩, _⟩ := h0
      rw [hz] at q2
      have := p1 0
      simp only [zero_add] at this
      rw [this.1, this.2]; exact q2
    · exact q2
  rw [hper.1, hper.2, Real.cos_add, Real.sin_add]
  have hr3 : r * r ≠ 0 := ne_of_gt (mul_pos hrpos hrpos)
  constructor
  · have key : (Real.cos a * Real.cos (Complex.arg ⟨d, c⟩) - Real.sin a * Real.sin (Complex.arg ⟨d, c⟩)) * r = X := by
      have e1 : (Real.cos a * Real.cos (Complex.arg ⟨d, c⟩) - Real.sin a * Real.sin (Complex.arg ⟨d, c⟩)) * r * (r * r)
          = (Real.cos a * r) * (Real.cos (Complex.arg ⟨d, c⟩) * (r * r)) -
            (Real.sin a * r) * (Real.sin (Complex.arg ⟨d, c⟩) * (r * r)) := by ring
      rw [ca, sa, c0, s0] at e1
      have e2 : -i * d - -j * c = X * (r * r) := by rw [hd, hc, hr2]; ring
      rw [e2] at e1
      exact mul_right_cancel₀ hr3 e1
    rw [key, hX]; ring
  · have key : (Real.sin a * Real.cos (Complex.arg ⟨d, c⟩) + Real.cos a * Real.sin (Complex.arg ⟨d, c⟩)) * r = Y := by
      have e1 : (Real.sin a * Real.cos (Complex.arg ⟨d, c⟩) + Real.cos a * Real.sin (Complex.arg ⟨d, c⟩)) * r * (r * r)
          = (Real.sin a * r) * (Real.cos (Complex.arg ⟨d, c⟩) * (r * r)) +
            (Real.cos a * r) * (Real.sin (Complex.arg ⟨d, c⟩) * (r * r)) := by ring
      rw [ca, sa, c0, s0] at e1
      have e2 : -j * d + -i * c = Y * (r * r) := by rw [hd, hc, hr2]; ring
      rw [e2] at e1
      exact mul_right_cancel₀ hr3 e1
    rw [key, hY]; ring

end ERP.C16

namespace ERP.C16
open ERP Real

/-- the point of the commanded arc at parameter `t ∈ [0, 1]` -/
noncomputable def arcPoint (cx cy r a travel t : ℝ) : ℝ × ℝ :=
  (cx + Real.cos (a + t * travel) * r, cy + Real.sin (a + t * travel) * r)

/-- every point of the arc is within one length unit of one of the `n` sampling angles
`a + k·travel/n`, `1 ≤ k ≤ n` -/
theorem arc_near_grid (cx cy r a travel : ℝ) (n : ℕ) (hn : 1 ≤ n) (hr : 0 ≤ r)
    (hseg : |travel| * r ≤ n) (t : ℝ) (ht0 : 0 ≤ t) (ht1 : t ≤ 1) :
    ∃ k : ℕ, 1 ≤ k ∧ k ≤ n ∧
      ((arcPoint cx cy r a travel t).1 - (cx + Real.cos (a + (k : ℝ) * (travel / n)) * r)) ^ 2 +
      ((arcPoint cx cy r a travel t).2 - (cy + Real.sin (a + (k : ℝ) * (travel / n)) * r)) ^ 2 ≤ 1 := by
  have hnpos : (0 : ℝ) < n := by exact_mod_cast hn
  -- the grid index
  obtain ⟨k, hk1, hkn, hclose⟩ : ∃ k : ℕ, 1 ≤ k ∧ k ≤ n ∧ |t - (k : ℝ) / n| ≤ 1 / n := by
    by_cases hsmall : t * n ≤ 1
    · refine ⟨1, le_refl _, hn, ?_⟩
      rw [abs_le]
      constructor
      · have : 0 ≤ t := ht0
        have h1 : ((1 : ℕ) : ℝ) / n = 1 / n := by norm_num
        rw [h1]; linarith
      · have h1 : ((1 : ℕ) : ℝ) / n = 1 / n := by norm_num
        rw [h1]
        have : t ≤ 1 / n := by rw [le_div_iff₀ hnpos]; exact hsmall
        have : (0:ℝ) ≤ 1 / n := by positivity
        linarith
    · have hbig : 1 < t * n := not_le.mp hsmall
      refine ⟨Nat.ceil (t * n), ?_, ?_, ?_⟩
      · exact Nat.one_le_iff_ne_zero.mpr (by
          intro h0
          have := Nat.le_ceil (t * n)
          rw [h0] at this
          simp at this
          linarith)
      · apply Nat.ceil_le.mpr
        have : t * n ≤ 1 * n := mul_le_mul_of_nonneg_right ht1 (le_of_lt hnpos)
        simpa using this
      · have h1 := Nat.le_ceil (t * n)
        have h2 := Nat.ceil_lt_add_one (le_of_lt (lt_trans zero_lt_one hbig))
        rw [abs_le]
        constructor
        · have : ((Nat.ceil (t * n) : ℕ) : ℝ) / n < (t * n + 1) / n := by
            apply div_lt_div_of_pos_right h2 hnpos
          have e : (t * n + 1) / n = t + 1 / n := by field_simp
          rw [e] at this
          linarith
        · have : t ≤ ((Nat.ceil (t * n) : ℕ) : ℝ) / n := by
            rw [le_div_iff₀ hnpos]; exact h1
          have : (0:ℝ) ≤ 1 / n := by positivity
          linarith
  refine ⟨k, hk1, hkn, ?_⟩
  simp only [arcPoint]
  refine le_trans (chord_le cx cy r _ _) ?_
  have hdiff : (a + t * travel) - (a + (k : ℝ) * (travel / n)) = (t - (k : ℝ) / n) * travel := by
    field_simp; ring
  rw [hdiff]
  have h1 : |r * ((t - (k : ℝ) / n) * travel)| ≤ 1 := by
    rw [abs_mul, abs_mul, abs_of_nonneg hr]
    have hb : |t - (k : ℝ) / n| * |travel| ≤ 1 / n * |travel| :=
      mul_le_mul_of_nonneg_right hclose (abs_nonneg _)
    have : r * (|t - (k : ℝ) / n| * |travel|) ≤ r * (1 / n * |travel|) := mul_le_mul_of_nonneg_left hb hr
    have e : r * (1 / n * |travel|) = (|travel| * r) / n := by field_simp
    rw [e] at this
    have : (|travel| * r) / n ≤ 1 := by rw [div_le_one hnpos]; exact hseg
    linarith
  exact (sq_le_one_iff_abs_le_one _).mpr h1

/-- **Coverage.** For an I/J arc whose end point lies on the circle, every point of the commanded
arc is within one length unit of a point `planArc` hands to the region test.  Consequently an arc
that reaches more than one unit deep into a region has a tested point inside it and is excluded
as a whole. -/
theorem planArc_covers (p : Position ℝ) (endX endY i j : ℝ) (cw : Bool) (hij : i ≠ 0 ∨ j ≠ 0)
    (hon : (endX - (T.n2l p.x + i)) ^ 2 + (endY - (T.n2l p.y + j)) ^ 2 = i * i + j * j)
    (t : ℝ) (ht0 : 0 ≤ t) (ht1 : t ≤ 1) :
    ∃ q ∈ T.planArc p endX endY i j cw,
      ((arcPoint (T.n2l p.x + i) (T.n2l p.y + j) (Real.sqrt (i * i + j * j)) (Complex.arg ⟨-i, -j⟩)
          (T.angularTravel (T.n2l p.x) (T.n2l p.y) endX endY i j cw) t).1 - q.1) ^ 2 +
      ((arcPoint (T.n2l p.x + i) (T.n2l p.y + j) (Real.sqrt (i * i + j * j)) (Complex.arg ⟨-i, -j⟩)
          (T.angularTravel (T.n2l p.x) (T.n2l p.y) endX endY i j cw) t).2 - q.2) ^ 2 ≤ 1 := by
  obtain ⟨hn, hseg, hstruct⟩ := planArc_structure p endX endY i j cw
  obtain ⟨e1, e2⟩ := end_at_travel (T.n2l p.x) (T.n2l p.y) endX endY i j cw hij hon
  generalize T.angularTravel (T.n2l p.x) (T.n2l p.y) endX endY i j cw = travel at *
  generalize T.numSegments travel (Real.sqrt (i * i + j * j)) = n at *
  obtain ⟨k, hk1, hkn, hk⟩ := arc_near_grid (T.n2l p.x + i) (T.n2l p.y + j) (Real.sqrt (i * i + j * j))
    (Complex.arg ⟨-i, -j⟩) travel n hn (Real.sqrt_nonneg _) hseg t ht0 ht1
  have hnpos : (0 : ℝ) < n := by exact_mod_cast hn
  rw [hstruct]
  by_cases hlast : k = n
  · -- the last grid point is the commanded end point
    refine ⟨(endX, endY), by simp, ?_⟩
    have hang : (k : ℝ) * (travel / n) = travel := by rw [hlast]; field_simp
    rw [hang] at hk
    rw [← e1, ← e2] at hk
    exact hk
  · refine ⟨samplePoint (T.n2l p.x + i) (T.n2l p.y + j) (Real.sqrt (i * i + j * j))
        (Complex.arg ⟨-i, -j⟩) (travel / n) (k - 1), ?_, ?_⟩
    · apply List.mem_append_left
      apply List.mem_map.mpr
      exact ⟨k - 1, List.mem_range.mpr (by omega), rfl⟩
    · simp only [samplePoint]
      have : ((k - 1 + 1 : ℕ) : ℝ) = (k : ℝ) := by
        have : k - 1 + 1 = k := by omega
        rw [this]
      rw [this]
      exact hk

end ERP.C16

namespace ERP.C16
open ERP Real T

/-! ## From sampling to suppression -/

/-- in absolute mode the native coordinate a word leads to does not depend on where the axis is -/
theorem cur_setLog_abs (a : Axis ℝ) (v : ℝ) (h : a.absoluteMode = true) :
    cur (setLog a (some v)) = v * a.unitMultiplier + (a.offset + a.homeOffset) := by
  simp [setLog, l2n, h, cur]

/-- the point loop of `isAnyPointExcluded` reports a hit as soon as one tested point (converted to
native coordinates in the *current* frame) lies in an enabled region -/
theorem isAnyLoop_hit (pts : List (ℝ × ℝ)) :
    ∀ (s : FState ℝ) (any : Bool), s.position.x.absoluteMode = true → s.position.y.absoluteMode = true →
      (∃ q ∈ pts, T.isPointExcluded s (q.1 * s.position.x.unitMultiplier + (s.position.x.offset + s.position.x.homeOffset))
                                      (q.2 * s.position.y.unitMultiplier + (s.position.y.offset + s.position.y.homeOffset)) = true) →
      (T.isAnyLoop s (pts.map (fun q : ℝ × ℝ => (some q.1, some q.2))) any).2 = true := by
  -- once true, always true
  have mono : ∀ (l : List (Option ℝ × Option ℝ)) (s' : FState ℝ), (T.isAnyLoop s' l true).2 = true := by
    intro l
    induction l with
    | nil => intro s'; rfl
    | cons p' r' ih' => intro s'; obtain ⟨u, v⟩ := p'; simp only [T.isAnyLoop, Bool.true_or]; exact ih' _
  induction pts with
  | nil => intro s any _ _ h; obtain ⟨q, hq, _⟩ := h; cases hq
  | cons p rest ih =>
    intro s any hx hy h
    obtain ⟨a, b⟩ := p
    simp only [List.map_cons, T.isAnyLoop]
    obtain ⟨q, hq, hex⟩ := h
    rcases List.mem_cons.mp hq with hqe | hq'
    · -- this very point is excluded: the accumulator becomes true and stays true
      rw [hqe] at hex
      have hacc : (any || T.isPointExcluded
          { s with position := { s.position with x := setLog s.position.x (some a), y := setLog s.position.y (some b) } }
          (cur (setLog s.position.x (some a))) (cur (setLog s.position.y (some b)))) = true := by
        rw [cur_setLog_abs _ _ hx, cur_setLog_abs _ _ hy]
        have : T.isPointExcluded
            { s with position := { s.position with x := setLog s.position.x (some a), y := setLog s.position.y (some b) } }
            (a * s.position.x.unitMultiplier + (s.position.x.offset + s.position.x.homeOffset))
            (b * s.position.y.unitMultiplier + (s.position.y.offset + s.position.y.homeOffset)) = true := hex
        rw [this]; simp
      rw [hacc]
      exact mono _ _
    · exact ih { s with position := { s.position with x := setLog s.position.x (some a), y := setLog s.position.y (some b) } }
        _ hx hy ⟨q, hq', hex⟩

/-- **An arc that reaches deeper into a region than the sampling resolution is excluded as a
whole** (millimetres, no workspace offsets, absolute positioning): if some point of the commanded
arc has its whole closed unit disc inside one enabled region, the region test of the arc reports a
hit, so the command is suppressed. -/
theorem deep_arc_is_hit (s : FState ℝ) (endX endY i j : ℝ) (cw : Bool) (hij : i ≠ 0 ∨ j ≠ 0)
    (hx : s.position.x.absoluteMode = true) (hy : s.position.y.absoluteMode = true)
    (ux : s.position.x.unitMultiplier = 1) (uy : s.position.y.unitMultiplier = 1)
    (ox : s.position.x.offset + s.position.x.homeOffset = 0) (oy : s.position.y.offset + s.position.y.homeOffset = 0)
    (hen : s.exclusionEnabled = true)
    (hon : (endX - (T.n2l s.position.x + i)) ^ 2 + (endY - (T.n2l s.position.y + j)) ^ 2 = i * i + j * j)
    (t : ℝ) (ht0 : 0 ≤ t) (ht1 : t ≤ 1) (R : Region ℝ) (hR : R ∈ s.excludedRegions)
    (hdeep : ∀ q : ℝ × ℝ,
      ((arcPoint (T.n2l s.position.x + i) (T.n2l s.position.y + j) (Real.sqrt (i * i + j * j)) (Complex.arg ⟨-i, -j⟩)
          (T.angularTravel (T.n2l s.position.x) (T.n2l s.position.y) endX endY i j cw) t).1 - q.1) ^ 2 +
      ((arcPoint (T.n2l s.position.x + i) (T.n2l s.position.y + j) (Real.sqrt (i * i + j * j)) (Complex.arg ⟨-i, -j⟩)
          (T.angularTravel (T.n2l s.position.x) (T.n2l s.position.y) endX endY i j cw) t).2 - q.2) ^ 2 ≤ 1 →
      R.containsPoint q.1 q.2 = true) :
    (T.isAnyLoop s ((T.planArc s.position endX endY i j cw).map (fun (a, b) => (some a, some b))) false).2 = true := by
  obtain ⟨q, hq, hnear⟩ := planArc_covers s.position endX endY i j cw hij hon t ht0 ht1
  have hf : (fun (x : ℝ × ℝ) => match x with | (a, b) => (some a, some b)) = (fun q : ℝ × ℝ => (some q.1, some q.2)) := by
    funext ⟨a, b⟩; rfl
  rw [hf]
  apply isAnyLoop_hit _ s false hx hy
  refine ⟨q, hq, ?_⟩
  rw [ux, uy, ox, oy]
  simp only [mul_one, add_zero, T.isPointExcluded, hen, Bool.true_and, T.anyContains, List.any_eq_true]
  exact ⟨R, hR, hdeep q hnear⟩

end ERP.C16
