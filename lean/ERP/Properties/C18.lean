import ERP.Model.Parser
import ERP.Lemmas.LineSpans
import ERP.Lemmas.LineTotal
/-! # C18 — Parser is lossless and its normalisation is stable

Proved here, for every source string and offset, about the parser model whose regular expressions
are regenerated from the Python source on every run:

* `parse_lossless`: the attributes of a parsed line concatenate (`fullText`) to exactly the slice
  of the source the line covers;
* `parse_progress`: a line parsed before the end of the source is not empty;
* `parseLines_lossless`: the full texts of the lines yielded by `parseLines`, in order,
  concatenate to the source from the starting offset, and the loop stops at the end of the source.

The idempotence of normalisation and the self-validation of rendered checksums are proved in
`ERP/Properties/C18Idem.lean` for commands with plain parameters (no backslash escapes) by exact
evaluation of the line regex; escaped parameters are decided by the correspondence suite `parser`
plus the oracle search; see `DESIGN.md`. -/
namespace ERP.C18
open ERP ERP.Rx

theorem slice_append (s : Text) (a b c : Nat) (hab : a ≤ b) (hbc : b ≤ c) :
    slice s a b ++ slice s b c = slice s a c := by
  unfold slice
  have h1 : c - a = (b - a) + (c - b) := by omega
  have h2 : s.drop b = (s.drop a).drop (b - a) := by rw [List.drop_drop]; congr 1; omega
  rw [h1, List.take_add, h2]

theorem slice_self (s : Text) (a : Nat) : slice s a a = [] := by simp [slice]

theorem slice_length (s : Text) (a b : Nat) (hab : a ≤ b) (hb : b ≤ s.length) : (slice s a b).length = b - a := by
  simp [slice]; omega

theorem slice_single (s : Text) (i : Nat) (h : i < s.length) : slice s i (i + 1) = [s[i]] := by
  unfold slice
  have : i + 1 - i = 1 := by omega
  rw [this]
  rw [List.drop_eq_getElem_cons h]; rfl

theorem slice_take (s : Text) (a b n : Nat) (hab : a ≤ b) (hb : b ≤ s.length) (hn : n ≤ b - a) :
    (slice s a b).take n = slice s a (a + n) := by
  unfold slice
  rw [List.take_take]
  congr 1; omega

/-- the parsed attributes in terms of the regex captures -/
theorem parse_ok_inv (p q : Parser) (src : Text) (off : Nat)
    (h : p.parse (some src) (some off) = .ok q) :
    ∃ e caps, matchAt Gen.gcodeLine src.toArray off = some (e, caps) ∧
      q.source = src ∧ q.offset = off ∧ q.length = e - off ∧
      q.leadingWhitespace = (capText src caps 1).getD [] ∧
      q.trailingWhitespace = (capText src caps 11).getD [] ∧
      q.comment = capText src caps 12 ∧ q.eol = (capText src caps 13).getD [] ∧
      (match capText src caps 10 with
        | some cs => q.rawChecksum = some ('*' :: cs) ∧
            q.text = ((capText src caps 2).getD []).take (((capText src caps 2).getD []).length - (cs.length + 1))
        | none => q.rawChecksum = none ∧ q.text = (capText src caps 2).getD []) := by
  unfold Parser.parse at h
  simp only [Option.getD_some] at h
  split at h
  · cases h
  · rename_i e caps hm
    refine ⟨e, caps, hm, ?_⟩
    cases hc : capText src caps 10 with
    | none =>
      simp only [hc] at h
      cases h
      simp [Parser.gcodeMatch]
      split <;> simp
    | some cs =>
      simp only [hc] at h
      cases h
      simp [Parser.gcodeMatch]
      split <;> simp

/-- **Lossless (one line).** The attributes of a parsed line reproduce exactly the characters of
the source between the line's offset and its end. -/
theorem parse_lossless (p q : Parser) (src : Text) (off : Nat) (hoff : off ≤ src.length)
    (h : p.parse (some src) (some off) = .ok q) :
    q.fullText = slice src off (off + q.length) ∧ off + q.length ≤ src.length := by
  obtain ⟨e, caps, hm, -, -, hlen, hlw, htw, hcm, heol, hck⟩ := parse_ok_inv p q src off h
  have hsz : src.toArray.size = src.length := by simp
  obtain ⟨⟨p1, p2, p3, p4, h01, h12, h23, h34, h4e, he, c1, c2, c11, c12, c13, c10⟩⟩ :=
    gcodeLine_spans src.toArray off e caps (by omega) hm
  rw [hsz] at he
  have hoe : off + q.length = e := by omega
  refine ⟨?_, by omega⟩
  rw [hoe]
  unfold Parser.fullText
  rw [hlw, htw, hcm, heol]
  simp only [capText, c1, c11, c13, Option.map_some, Option.getD_some]
  -- text ++ rawChecksum = slice p1 p2
  have htext : q.text ++ q.rawChecksum.getD [] = slice src p1 p2 := by
    rcases c10 with h10 | ⟨a, h10, ha1, ha2, hlt, hstar⟩
    · simp only [capText, h10, Option.map_none, c2, Option.map_some, Option.getD_some] at hck
      rw [hck.1, hck.2]; simp
    · simp only [capText, h10, Option.map_some, c2, Option.getD_some] at hck
      rw [hck.1, hck.2]
      simp only [Option.getD_some]
      have hal : a ≤ src.length := by omega
      rw [slice_length src p1 p2 h12 (by omega), slice_length src a p2 ha2 (by omega),
        slice_take src p1 p2 _ h12 (by omega) (by omega)]
      have e1 : p1 + (p2 - p1 - (p2 - a + 1)) = a - 1 := by omega
      rw [e1]
      have hs : ['*'] = slice src (a - 1) a := by
        have h' : a - 1 < src.length := by omega
        have := slice_single src (a - 1) h'
        rw [show a - 1 + 1 = a by omega] at this
        rw [this]
        have hh : src.toArray[a - 1]'(by simpa using h') = '*' := hstar
        simp only [List.getElem_toArray] at hh
        rw [hh]
      rw [show ('*' :: slice src a p2) = ['*'] ++ slice src a p2 from rfl, hs,
        slice_append src (a - 1) a p2 (by omega) ha2, slice_append src p1 (a - 1) p2 (by omega) (by omega)]
  have hcomment : (Option.map (fun x : Nat × Nat => slice src x.1 x.2) (capOf caps 12)).getD [] = slice src p3 p4 := by
    rcases c12 with ⟨h12', rfl⟩ | h12'
    · rw [h12']; simp [slice_self]
    · rw [h12']; simp
  rw [List.append_assoc (slice src off p1), htext]
  simp only [hcomment]
  rw [slice_append src off p1 p2 h01 h12, slice_append src off p2 p3 (by omega) h23,
    slice_append src off p3 p4 (by omega) h34, slice_append src off p4 e (by omega) h4e]

/-- **Never fails.** `parse` succeeds at every offset inside (or at the end of) every text: the
assertion `Regex did not match` cannot fire. -/
theorem parse_total (p : Parser) (src : Text) (off : Nat) (hoff : off ≤ src.length) :
    ∃ q, p.parse (some src) (some off) = .ok q := by
  have h := gcodeLine_total src.toArray off (by simpa using hoff)
  cases hm : matchAt Gen.gcodeLine src.toArray off with
  | none => rw [hm] at h; cases h
  | some r =>
    obtain ⟨e, caps⟩ := r
    unfold Parser.parse
    simp only [Option.getD_some, hm]
    exact ⟨_, rfl⟩

/-- **Progress.** A line parsed before the end of the text is not empty. -/
theorem parse_progress (p q : Parser) (src : Text) (off : Nat) (hoff : off < src.length)
    (h : p.parse (some src) (some off) = .ok q) : 0 < q.length := by
  obtain ⟨e, caps, hm, -, -, hlen, -⟩ := parse_ok_inv p q src off h
  have := gcodeLine_progress src.toArray off e caps (by simp; omega) hm
  simp only [List.size_toArray] at this
  omega

/-- resuming (`parse()` without arguments) is parsing the same source right after the current line -/
theorem parse_resume (p : Parser) : p.parse none none = p.parse (some p.source) (some (p.offset + p.length)) := rfl

/-- what `parseLines` relies on about the current line -/
structure LineOK (src : Text) (q : Parser) : Prop where
  source : q.source = src
  bound : q.offset + q.length ≤ src.length
  full : q.fullText = slice src q.offset (q.offset + q.length)
  progress : q.offset < src.length → 0 < q.length

theorem parse_lineOK (p : Parser) (src : Text) (off : Nat) (hoff : off ≤ src.length) :
    ∃ q, p.parse (some src) (some off) = .ok q ∧ LineOK src q ∧ q.offset = off := by
  obtain ⟨q, hq⟩ := parse_total p src off hoff
  obtain ⟨e, caps, -, hs, ho, -⟩ := parse_ok_inv p q src off hq
  obtain ⟨h1, h2⟩ := parse_lossless p q src off hoff hq
  refine ⟨q, hq, ⟨hs, by rw [ho]; exact h2, by rw [ho]; exact h1, fun hlt => ?_⟩, ho⟩
  exact parse_progress p q src off (by rw [← ho]; exact hlt) hq

theorem slice_drop (s : Text) (a b : Nat) (hab : a ≤ b) : slice s a b ++ s.drop b = s.drop a := by
  unfold slice
  have h2 : s.drop b = (s.drop a).drop (b - a) := by rw [List.drop_drop]; congr 1; omega
  rw [h2, List.take_append_drop]

theorem linesLoop_lossless (src : Text) :
    ∀ fuel (q : Parser), LineOK src q → src.length - q.offset < fuel →
      ∃ qs fin, Parser.linesLoop fuel q = .ok (qs, fin) ∧
        (qs.map Parser.fullText).flatten = src.drop q.offset ∧ fin.offset = src.length ∧
        (∀ x ∈ qs, x.offset < src.length ∧ 0 < x.length) ∧ fin.fullText = [] := by
  intro fuel
  induction fuel with
  | zero => intro q _ h; omega
  | succ f ih =>
    intro q hq hf
    unfold Parser.linesLoop
    rw [hq.source]
    by_cases hlt : q.offset < src.length
    · simp only [hlt, if_true]
      have hpos := hq.progress hlt
      obtain ⟨q', hp', hok', ho'⟩ := parse_lineOK q src (q.offset + q.length) hq.bound
      rw [parse_resume, hq.source, hp']
      obtain ⟨qs, fin, hl, hcat, hfin, hall, hempty⟩ := ih q' hok' (by rw [ho']; omega)
      refine ⟨q :: qs, fin, ?_, ?_, hfin, ?_, hempty⟩
      · simp only [bind, Except.bind, hl]
      · simp only [List.map_cons, List.flatten_cons, hcat, ho', hq.full]
        exact slice_drop src _ _ (by omega)
      · intro x hx
        rcases List.mem_cons.mp hx with rfl | hx
        · exact ⟨hlt, hpos⟩
        · exact hall x hx
    · simp only [hlt, if_false]
      have hb := hq.bound
      have he : q.offset = src.length := by omega
      refine ⟨[], q, ?_, ?_, he, ?_, ?_⟩
      · rfl
      · simp [he]
      · intro x hx; cases hx
      · rw [hq.full]; unfold slice; rw [he]; simp

/-- **Lossless, complete consumption.**  `parseLines` never fails; the lines it yields are all
non-empty and start inside the text; their full texts concatenate, in order, to the text from the
starting offset, byte for byte; and the parser is left at the end of the text on an empty line. -/
theorem parseLines_lossless (p : Parser) (src : Text) (off : Nat) (hoff : off ≤ src.length) :
    ∃ qs fin, p.parseLines (some src) (some off) = .ok (qs, fin) ∧
      (qs.map Parser.fullText).flatten = src.drop off ∧ fin.offset = src.length ∧
      (∀ x ∈ qs, x.offset < src.length ∧ 0 < x.length) ∧ fin.fullText = [] := by
  obtain ⟨q, hq, hok, ho⟩ := parse_lineOK p src off hoff
  obtain ⟨qs, fin, hl, hcat, hrest⟩ := linesLoop_lossless src (src.length + 1) q hok (by omega)
  refine ⟨qs, fin, ?_, by rw [← ho]; exact hcat, hrest⟩
  unfold Parser.parseLines
  simp only [bind, Except.bind, hq, hok.source, hl]

/-- the whole text, from the start -/
theorem parseLines_whole (p : Parser) (src : Text) :
    ∃ qs fin, p.parseLines (some src) none = .ok (qs, fin) ∧ (qs.map Parser.fullText).flatten = src := by
  obtain ⟨qs, fin, h, hc, -⟩ := parseLines_lossless p src 0 (Nat.zero_le _)
  exact ⟨qs, fin, h, by simpa using hc⟩

/-- non-vacuity: a concrete three-line text, one of them with line number and checksum -/
example : ((({} : Parser).parseLines (some "N3 G1 X1*7 ; c\r\n  hello\nM117 x".toList) none).toOption.map
    (fun r => r.1.map Parser.fullText)) =
    some ["N3 G1 X1*7 ; c\r\n".toList, "  hello\n".toList, "M117 x".toList] := by decide +kernel

end ERP.C18

namespace ERP.C18
open ERP

/-- **The enter/exit scripts the filter emits never contain an empty line**, and splitting a
configured script never fails (`ExcludeRegionPlugin._splitGcodeScript`). -/
theorem splitGcodeScript_spec (t : Option Text) :
    ∃ r, splitGcodeScript t = .ok r ∧ ∀ ls, r = some ls → ∀ l ∈ ls, l ≠ [] := by
  cases t with
  | none => exact ⟨none, rfl, fun ls h => by cases h⟩
  | some s =>
    obtain ⟨qs, fin, h, _⟩ := parseLines_lossless ({} : Parser) s 0 (Nat.zero_le _)
    have h' : ({} : Parser).parseLines (some s) = .ok (qs, fin) := h
    refine ⟨_, by simp only [splitGcodeScript, h', bind, Except.bind]; rfl, ?_⟩
    intro ls hls l hl
    split at hls
    · cases hls
    · cases hls
      have := (List.mem_filter.mp hl).2
      intro he
      rw [he] at this
      simp at this

end ERP.C18
