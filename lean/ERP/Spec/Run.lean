import ERP.Total
/-! # Programs: sequences of hook events, and running them through the filter

An event is what reaches `GcodeHandlers` while a print is active: a G-code command (`handleGcode`),
an @-command (`handleAtCommand`), or a region added through the API in between. `runE` is the
faithful (exception-aware) run, `runT` the total one. -/
namespace ERP

inductive Ev (α : Type) where
  | gcode (g : String) (c : Cmd α)
  | atCmd (streaming : Bool) (cmd : String) (params : Text)
  | addRegion (r : Region α)

/-- What one event hands to the printer queue. -/
inductive Emit (α : Type) where
  | result (r : Result α)                 -- return value of the queuing hook
  | sent (handled : Bool) (l : List (Out α))   -- commands sent through the comm object
  | api (ok : Bool)

section
variable {α : Type} [Add α] [Sub α] [Mul α] [Div α] [Neg α] [LT α] [LE α] [BEq α]
  [OfNat α 0] [OfNat α 1] [OfNat α 2] [DecidableLT α] [DecidableLE α] [MathOps α]

def stepE (cfg : Config) (inch : α) (s : FState α) : Ev α → Except PyErr (FState α × Emit α)
  | .gcode g c => do let (s, r) ← handleGcode cfg inch s g c; pure (s, .result r)
  | .atCmd st cmd ps => do let (s, h, l) ← handleAtCommand cfg s st cmd ps; pure (s, .sent h l)
  | .addRegion r =>
    match s.addRegion r with
    | .ok s' => pure (s', .api true)
    | .error _ => pure (s, .api false)

def stepT (cfg : Config) (inch : α) (s : FState α) : Ev α → FState α × Emit α
  | .gcode g c => let r := T.handleGcode cfg inch s g c; (r.1, .result r.2)
  | .atCmd st cmd ps => let r := T.handleAtCommand cfg s st cmd ps; (r.1, .sent r.2.1 r.2.2)
  | .addRegion r =>
    match s.addRegion r with
    | .ok s' => (s', .api true)
    | .error _ => (s, .api false)

def runE (cfg : Config) (inch : α) : FState α → List (Ev α) → Except PyErr (FState α × List (Emit α))
  | s, [] => pure (s, [])
  | s, e :: es => do
    let (s1, o) ← stepE cfg inch s e
    let (s2, os) ← runE cfg inch s1 es
    pure (s2, o :: os)

def runT (cfg : Config) (inch : α) : FState α → List (Ev α) → FState α × List (Emit α)
  | s, [] => (s, [])
  | s, e :: es =>
    let r1 := stepT cfg inch s e
    let r2 := runT cfg inch r1.1 es
    (r2.1, r1.2 :: r2.2)

/-- the commands one emission forwards to the printer; `orig` is the event's own command -/
def Emit.forwarded (e : Ev α) : Emit α → List (Out α)
  | .result .none => match e with | .gcode _ c => [.orig c] | _ => []
  | .result .ignore => []
  | .result (.list l) => l
  | .sent _ l => l
  | .api _ => []

end
end ERP
