import ERP.Model.Plugin
/-! # Plugin-level operations and a reference lifecycle automaton (C10–C13, C15) -/
namespace ERP

/-- Everything OctoPrint can do to the plugin object. `save s` is a settings save: the new values
are stored and the `SettingsUpdated` event is delivered (OctoPrint fires it from `on_settings_save`). -/
inductive POp (α : Type) where
  | event (e : Event)
  | save (s : Settings)
  | api (anonymous : Bool) (req : ApiReq α)
  | get
  | gcode (cmd : Text) (gcode : Option Text)
  | atCmd (streaming : Bool) (cmd : String) (params : Text)
  | script (scriptType scriptName : String)

/-- What an operation returns / sends. -/
inductive POut (α : Type) where
  | unit
  | resp (r : ApiResp)
  | regions (l : List (Region α))
  | result (r : Result α)
  | sent (l : List (Out α))
  | scriptPrefix (o : Option (List (Out α)))
  | raised (e : PyErr)

section
variable {α : Type} [Add α] [Sub α] [Mul α] [Div α] [Neg α] [LT α] [LE α] [BEq α]
  [OfNat α 0] [OfNat α 1] [OfNat α 2] [DecidableLT α] [DecidableLE α] [MathOps α] [OfDecimal α]

/-- One operation. A hook that raises leaves the model state unchanged (what Python leaves behind
after an exception inside a handler is not modelled). -/
def Plugin.step (inch : α) (p : Plugin α) : POp α → Plugin α × POut α
  | .event e => (p.onEvent e, .unit)
  | .save s => (({ p with settings := s }).onEvent .settingsUpdated, .unit)
  | .api anon req => let r := p.onApiCommand anon req; (r.1, .resp r.2)
  | .get => (p, .regions p.onApiGet)
  | .gcode cmd g =>
    match p.handleGcodeQueuing inch cmd g with
    | .ok (p', r) => (p', .result r)
    | .error e => (p, .raised e)
  | .atCmd st cmd ps =>
    match p.handleAtCommandQueuing st cmd ps with
    | .ok (p', l) => (p', .sent l)
    | .error e => (p, .raised e)
  | .script ty nm =>
    match p.handleScriptHook ty nm with
    | .ok (p', o) => (p', .scriptPrefix o)
    | .error e => (p, .raised e)

def Plugin.run (inch : α) : Plugin α → List (POp α) → Plugin α × List (POut α)
  | p, [] => (p, [])
  | p, op :: ops =>
    let r1 := p.step inch op
    let r2 := Plugin.run inch r1.1 ops
    (r2.1, r1.2 :: r2.2)

end

/-- Reference lifecycle: a print is active from print-started until done / failed / cancelling /
cancelled / error; nothing else (pause, resume, …) matters. -/
def specActive (active : Bool) : Event → Bool
  | .printStarted => true
  | .printDone | .printFailed | .printCancelling | .printCancelled | .error => false
  | _ => active

def specActiveOp {α : Type} (active : Bool) : POp α → Bool
  | .event e => specActive active e
  | _ => active

end ERP
