import ERP.Model.Handlers
/-! # Reference printer (Marlin-like) — the oracle the motion / extrusion theorems are stated against

Independent of the filter's tracking code: it reads structured commands (code + words) and moves.
`virt` = this printer run on the unfiltered program, `phys` = run on the filter's output.
It re-uses the `Axis` record only as a container for (position, offsets, mode, unit). -/
namespace ERP
namespace Spec

structure Printer (α : Type) where
  pos : Position α       -- native positions of X Y Z E, workspace offsets, modes, units
  fil : α                -- net filament pushed so far (mm)
  hw : α                 -- its high-water mark: physical retraction depth is `hw - fil`
  fwRetracted : Bool     -- firmware retraction state (G10/G11)

section
variable {α : Type} [Add α] [Sub α] [Mul α] [Div α] [Neg α] [LT α] [LE α] [BEq α]
  [OfNat α 0] [OfNat α 1] [DecidableLT α] [DecidableLE α]

def coord (a : Axis α) : α := a.current.getD 0

/-- where a word value `v` sends an axis: absolute → `v·unit + workspace offset`, relative →
`current + v·unit` -/
def target (a : Axis α) (v : α) : α :=
  if a.absoluteMode then v * a.unitMultiplier + (a.offset + a.homeOffset)
  else coord a + v * a.unitMultiplier

def moveAxis (a : Axis α) (v : Option α) : Axis α :=
  match v with
  | some v => { a with current := some (target a v) }
  | none => a

def maxA (a b : α) : α := if a < b then b else a

/-- a linear move with optional X Y Z E words -/
def Printer.linear (p : Printer α) (x y z e : Option α) : Printer α :=
  let ea := moveAxis p.pos.e e
  let de := coord ea - coord p.pos.e
  let fil := p.fil + de
  { p with pos := { x := moveAxis p.pos.x x, y := moveAxis p.pos.y y, z := moveAxis p.pos.z z, e := ea },
           fil := fil, hw := maxA p.hw fil }

/-- G92 X/Y/Z: the physical position stays, the workspace offset changes so that the current
position reads as `v` -/
def rebase (a : Axis α) (v : Option α) : Axis α :=
  match v with
  | some v => { a with offset := coord a - v * a.unitMultiplier - a.homeOffset }
  | none => a

def setHomeOff (a : Axis α) (v : Option α) : Axis α :=
  match v with
  | some v => { a with homeOffset := v * a.unitMultiplier }
  | none => a

def homeAxis (a : Axis α) : Axis α := { a with current := some 0, offset := 0 }

/-- Execute one command given by its code and words. `g90e` = "G90/G91 influence the extruder". -/
def Printer.exec (g90e : Bool) (inch : α) (p : Printer α) (code : Code) (w : List (Char × Option α)) :
    Printer α :=
  match code with
  | .G0 | .G1 => p.linear (lastValue w 'X') (lastValue w 'Y') (lastValue w 'Z') (lastValue w 'E')
  | .G2 | .G3 =>
    -- I/J form: executed iff a centre offset is given; moves to the end point
    if !((lastValue w 'I').getD 0 == 0) || !((lastValue w 'J').getD 0 == 0) then
      p.linear (lastValue w 'X') (lastValue w 'Y') (lastValue w 'Z') (lastValue w 'E')
    else p
  | .G92 =>
    let pos := p.pos
    { p with pos := { x := rebase pos.x (lastValue w 'X'), y := rebase pos.y (lastValue w 'Y'),
                      z := rebase pos.z (lastValue w 'Z'),
                      e := match lastValue w 'E' with
                        | some v => { pos.e with current := some (v * pos.e.unitMultiplier + (pos.e.offset + pos.e.homeOffset)) }
                        | none => pos.e } }
  | .M206 =>
    let pos := p.pos
    { p with pos := { pos with x := setHomeOff pos.x (lastValue w 'X'), y := setHomeOff pos.y (lastValue w 'Y'),
                               z := setHomeOff pos.z (lastValue w 'Z') } }
  | .G90 => { p with pos := if g90e then (p.pos.setPositionAbsoluteMode true).setExtruderAbsoluteMode true
                            else p.pos.setPositionAbsoluteMode true }
  | .G91 => { p with pos := if g90e then (p.pos.setPositionAbsoluteMode false).setExtruderAbsoluteMode false
                            else p.pos.setPositionAbsoluteMode false }
  | .G20 => { p with pos := p.pos.setUnitMultiplier inch }
  | .G21 => { p with pos := p.pos.setUnitMultiplier 1 }
  | .G28 =>
    let hx := hasLetter w 'X'
    let hy := hasLetter w 'Y'
    let hz := hasLetter w 'Z'
    let all := !(hx || hy || hz)
    let pos := p.pos
    { p with pos := { pos with x := if hx || all then homeAxis pos.x else pos.x,
                               y := if hy || all then homeAxis pos.y else pos.y,
                               z := if hz || all then homeAxis pos.z else pos.z } }
  | .G10 => if hasLetter w 'P' || hasLetter w 'L' then p else { p with fwRetracted := true }
  | .G11 => { p with fwRetracted := false }
  | .other _ => p

/-- Execute a command the filter returned. Script lines and merged deferred commands are
non-motion by the dialect the theorems are about (configured codes have no built-in handler). -/
def Printer.execOut (g90e : Bool) (inch : α) (p : Printer α) : Out α → Printer α
  | .orig c => p.exec g90e inch (Code.ofString c.code) c.words
  | .script _ _ => p
  | .g92e e =>
    { p with pos := { p.pos with e := { p.pos.e with
        current := some (e * p.pos.e.unitMultiplier + (p.pos.e.offset + p.pos.e.homeOffset)) } } }
  | .g0z _ z => p.linear none none (some z) none
  | .g0xy _ x y => p.linear (some x) (some y) none none
  | .g1fe _ e => p.linear none none none (some e)
  | .fw recover _ => { p with fwRetracted := !recover }
  | .merged _ _ => p

def Printer.execOuts (g90e : Bool) (inch : α) (p : Printer α) (l : List (Out α)) : Printer α :=
  l.foldl (Printer.execOut g90e inch) p

/-- physical retraction depth -/
def Printer.depth (p : Printer α) : α := p.hw - p.fil

end
end Spec
end ERP
