import ERP.Lemmas.ParamScan
import ERP.Model.Parser
/-! # Reference reading of a parameter string (C19)

A maximal-munch scanner, independent of the regular-expression matcher: skip blanks; a letter;
blanks; the longest number `[+-]? digits* (. digits+)?` with at least one digit — otherwise the
letter is a valueless flag; any other character is skipped.  Executed by the driver (`specwords`)
and compared with the Python reference reader in the `text` suite; proved equal to the plugin's
tokenizer in `Properties/C19.lean`. -/
namespace ERP.C19
open ERP ERP.Rx

variable {α : Type} [OfDecimal α]

/-- straightforward reading of a parameter string from offset `off` (`fuel` bounds the number of
tokens; every token consumes at least one character) -/
def specWords (src : Text) : Nat → Nat → List (Char × Option α)
  | 0, _ => []
  | fuel+1, off =>
    let ctx : Ctx := ⟨src.toArray⟩
    let p1 := span ctx false SP off
    if passes ctx false LET p1 then
      let name := upperC ((src.drop p1).headD ' ')
      let p2 := span ctx false SP (p1 + 1)
      match numEnd ctx p2 with
      | some e => (name, some (floatOfText (slice src p2 e))) :: specWords src fuel e
      | none => (name, none) :: specWords src fuel p2
    else if passes ctx true LET p1 then specWords src fuel (p1 + 1)
    else []

/-- the reference reading of a whole parameter string -/
def specRead (src : Text) : List (Char × Option α) := specWords src (src.length + 1) 0

end ERP.C19
