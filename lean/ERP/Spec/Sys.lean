import ERP.Spec.Run
import ERP.Spec.Printer
/-! # The observed system: filter state, physical printer (executes the filter's output), virtual
printer (executes the unfiltered program) -/
namespace ERP
open Spec

structure Sys (α : Type) where
  s : FState α
  phys : Printer α
  virt : Printer α

section
variable {α : Type} [Add α] [Sub α] [Mul α] [Div α] [Neg α] [LT α] [LE α] [BEq α]
  [OfNat α 0] [OfNat α 1] [OfNat α 2] [DecidableLT α] [DecidableLE α] [MathOps α]

def Sys.step (cfg : Config) (inch : α) (y : Sys α) (e : Ev α) : Sys α :=
  let r := stepT cfg inch y.s e
  { s := r.1,
    phys := y.phys.execOuts cfg.g90InfluencesExtruder inch (Emit.forwarded e r.2),
    virt := match e with
      | .gcode g c => y.virt.exec cfg.g90InfluencesExtruder inch (Code.ofString g) c.words
      | _ => y.virt }

def Sys.run (cfg : Config) (inch : α) (y : Sys α) (es : List (Ev α)) : Sys α :=
  es.foldl (Sys.step cfg inch) y

/-- all three start from the same homed position -/
def Sys.start (regions : List (Region α)) : Sys α :=
  let s : FState α := handleG28 (FState.reset regions) { text := [], words := [], code := "G28" }
  { s := s, phys := { pos := s.position, fil := 0, hw := 0, fwRetracted := false },
    virt := { pos := s.position, fil := 0, hw := 0, fwRetracted := false } }

end
end ERP
