import ERP.Lemmas.RegexExact
import ERP.Gen.Regexes
/-! # `REGEX_PARAMETER_OR_STR` is a maximal-munch scanner

`scan` is a straightforward reading of one token: skip blanks; a letter, blanks, and the longest
number `[+-]? digits* ( . digits+ )?` with at least one digit — or any other single character.
`scan_eq` proves that the backtracking matcher on the regex regenerated from the source returns
exactly this, for every text and offset. -/
namespace ERP.Rx

abbrev SP : List CC := [.lit (Char.ofNat 32)]
abbrev LET : List CC := [.range (Char.ofNat 65) (Char.ofNat 90), .range (Char.ofNat 97) (Char.ofNat 122)]
abbrev SIGN : List CC := [.lit (Char.ofNat 45), .lit (Char.ofNat 43)]
abbrev DIG : List CC := [.range (Char.ofNat 48) (Char.ofNat 57)]
abbrev DOT : List CC := [.lit (Char.ofNat 46)]

/-- first position at or after `p` where the class test fails (fuel-bounded) -/
def spanEnd (ctx : Ctx) (neg : Bool) (items : List CC) : Nat → Nat → Nat
  | 0, p => p
  | f+1, p => if passes ctx neg items p then spanEnd ctx neg items f (p+1) else p

/-- end of the maximal run of the class starting at `p` -/
def span (ctx : Ctx) (neg : Bool) (items : List CC) (p : Nat) : Nat :=
  spanEnd ctx neg items (ctx.s.size - p + 1) p

theorem passes_lt {ctx : Ctx} {neg : Bool} {items : List CC} {p : Nat} (h : passes ctx neg items p = true) :
    p < ctx.s.size := by
  unfold passes at h
  split at h
  · assumption
  · cases h

theorem spanEnd_spec (ctx : Ctx) (neg : Bool) (items : List CC) :
    ∀ f p, ctx.s.size - p < f →
      p ≤ spanEnd ctx neg items f p ∧
      (∀ i, p ≤ i → i < spanEnd ctx neg items f p → passes ctx neg items i = true) ∧
      passes ctx neg items (spanEnd ctx neg items f p) = false := by
  intro f
  induction f with
  | zero => intro p h; omega
  | succ f ih =>
    intro p hf
    simp only [spanEnd]
    by_cases hp : passes ctx neg items p = true
    · have hlt := passes_lt hp
      simp only [hp, if_true]
      obtain ⟨h1, h2, h3⟩ := ih (p+1) (by omega)
      refine ⟨by omega, fun i hi1 hi2 => ?_, h3⟩
      by_cases hip : i = p
      · subst hip; exact hp
      · exact h2 i (by omega) hi2
    · have hp' : passes ctx neg items p = false := by simpa using hp
      rw [if_neg hp]
      exact ⟨Nat.le_refl _, fun i h1 h2 => by omega, hp'⟩

theorem span_spec (ctx : Ctx) (neg : Bool) (items : List CC) (p : Nat) :
    p ≤ span ctx neg items p ∧
    (∀ i, p ≤ i → i < span ctx neg items p → passes ctx neg items i = true) ∧
    passes ctx neg items (span ctx neg items p) = false :=
  spanEnd_spec ctx neg items _ p (by omega)

/-- the stop position of a run is unique -/
theorem stop_unique (ctx : Ctx) (neg : Bool) (items : List CC) (p a b : Nat)
    (ha : p ≤ a) (ha1 : ∀ i, p ≤ i → i < a → passes ctx neg items i = true) (ha2 : passes ctx neg items a = false)
    (hb : p ≤ b) (hb1 : ∀ i, p ≤ i → i < b → passes ctx neg items i = true) (hb2 : passes ctx neg items b = false) :
    a = b := by
  rcases Nat.lt_trichotomy a b with h | h | h
  · have := hb1 a ha h; rw [ha2] at this; cases this
  · exact h
  · have := ha1 b hb h; rw [hb2] at this; cases this

theorem span_of_stop (ctx : Ctx) (neg : Bool) (items : List CC) (p : Nat)
    (h : passes ctx neg items p = false) : span ctx neg items p = p := by
  obtain ⟨h1, h2, h3⟩ := span_spec ctx neg items p
  exact stop_unique ctx neg items p _ p h1 h2 h3 (Nat.le_refl _) (fun i a b => by omega) h

theorem span_of_pass (ctx : Ctx) (neg : Bool) (items : List CC) (p : Nat)
    (h : passes ctx neg items p = true) : span ctx neg items p = span ctx neg items (p+1) := by
  obtain ⟨h1, h2, h3⟩ := span_spec ctx neg items p
  obtain ⟨g1, g2, g3⟩ := span_spec ctx neg items (p+1)
  have hne : span ctx neg items p ≠ p := by
    intro he; rw [he] at h3; rw [h3] at h; cases h
  exact stop_unique ctx neg items (p+1) _ _ (by omega) (fun i a b => h2 i (by omega) b) h3 g1 g2 g3

theorem span_le_size (ctx : Ctx) (neg : Bool) (items : List CC) (p : Nat) (hp : p ≤ ctx.s.size) :
    span ctx neg items p ≤ ctx.s.size := by
  obtain ⟨h1, h2, h3⟩ := span_spec ctx neg items p
  rcases Nat.lt_or_ge ctx.s.size (span ctx neg items p) with hgt | hle
  · have := passes_lt (h2 ctx.s.size hp hgt)
    omega
  · exact hle

/-- greedy star followed by a continuation that succeeds at the end of the run -/
theorem m_star_max {R : Type} (ctx : Ctx) (neg : Bool) (items : List CC) (p : Nat) (c : Caps)
    (k : Nat → Caps → Option R) (r : R) (hp : p ≤ ctx.s.size)
    (hk : k (span ctx neg items p) c = some r) :
    m ctx (.rep true 0 none (.chars neg items)) p c k = some r := by
  obtain ⟨h1, h2, h3⟩ := span_spec ctx neg items p
  have hle := span_le_size ctx neg items p hp
  rw [m_star_eq]
  exact starG_at_stop ctx neg items k c _ r h3 hk _ p h1 (by omega) h2

/-- … that fails at the end of the run but succeeds one character earlier -/
theorem m_star_second {R : Type} (ctx : Ctx) (neg : Bool) (items : List CC) (p : Nat) (c : Caps)
    (k : Nat → Caps → Option R) (r : R) (hp : p ≤ ctx.s.size) (hlt : p < span ctx neg items p)
    (hk0 : k (span ctx neg items p) c = none) (hk : k (span ctx neg items p - 1) c = some r) :
    m ctx (.rep true 0 none (.chars neg items)) p c k = some r := by
  obtain ⟨h1, h2, h3⟩ := span_spec ctx neg items p
  have hle := span_le_size ctx neg items p hp
  rw [m_star_eq]
  exact starG_second ctx neg items k c _ r h3 hk0 hk _ p hlt (by omega) h2

/-- … an empty run: the star is transparent -/
theorem m_star_empty {R : Type} (ctx : Ctx) (neg : Bool) (items : List CC) (p : Nat) (c : Caps)
    (k : Nat → Caps → Option R) (h : passes ctx neg items p = false) :
    m ctx (.rep true 0 none (.chars neg items)) p c k = k p c := by
  rw [m_star_eq]; exact starG_stop ctx neg items k c _ p h

/-- one-or-more of a class followed by a continuation that succeeds at the end of the run -/
theorem m_plus_max {R : Type} (ctx : Ctx) (neg : Bool) (items : List CC) (p : Nat) (c : Caps)
    (k : Nat → Caps → Option R) (hp : p ≤ ctx.s.size)
    (hk : passes ctx neg items p = true → (k (span ctx neg items p) c).isSome) :
    m ctx (.rep true 1 none (.chars neg items)) p c k =
      if passes ctx neg items p then k (span ctx neg items p) c else none := by
  rw [m_plus_eq]
  by_cases h : passes ctx neg items p = true
  · simp only [h, if_true]
    rw [span_of_pass ctx neg items p h]
    obtain ⟨h1, h2, h3⟩ := span_spec ctx neg items (p+1)
    have hlt := passes_lt h
    have hle := span_le_size ctx neg items (p+1) (by omega)
    have hk' := hk h
    rw [span_of_pass ctx neg items p h] at hk'
    obtain ⟨r, hr⟩ := Option.isSome_iff_exists.mp hk'
    rw [hr]
    exact starG_at_stop ctx neg items k c _ r h3 hr _ (p+1) h1 (by omega) h2
  · have h' : passes ctx neg items p = false := by simpa using h
    simp only [h', Bool.false_eq_true, if_false]

end ERP.Rx

namespace ERP.Rx

/-! ## Character classes on the same character -/

theorem dot_not_digit (ctx : Ctx) (p : Nat) (h : passes ctx false DOT p = true) :
    passes ctx false DIG p = false := by
  unfold passes at h ⊢
  split
  · rename_i hp
    simp only [hp, dite_true, List.any_cons, List.any_nil, Bool.or_false, CC.test, bne_iff_ne, ne_eq,
      Bool.not_eq_false, beq_iff_eq] at h
    simp [h, CC.test]
  · rfl

theorem sign_not_digit (ctx : Ctx) (p : Nat) (h : passes ctx false SIGN p = true) :
    passes ctx false DIG p = false ∧ passes ctx false DOT p = false := by
  unfold passes at h ⊢
  split
  · rename_i hp
    simp only [hp, dite_true, List.any_cons, List.any_nil, Bool.or_false, CC.test, bne_iff_ne, ne_eq,
      Bool.not_eq_false, Bool.or_eq_true, beq_iff_eq] at h
    rcases h with h | h <;> simp [h, CC.test]
  · exact ⟨rfl, rfl⟩

theorem digit_not_dot (ctx : Ctx) (p : Nat) (h : passes ctx false DIG p = true) :
    passes ctx false DOT p = false := by
  cases hd : passes ctx false DOT p with
  | false => rfl
  | true => rw [dot_not_digit ctx p hd] at h; cases h

/-- a character is a letter or not -/
theorem nonletter_iff (ctx : Ctx) (p : Nat) (hp : p < ctx.s.size) :
    passes ctx true LET p = !passes ctx false LET p := by
  unfold passes
  simp only [hp, dite_true]
  cases (LET.any (CC.test ctx.s[p])) <;> rfl

theorem space_not_letter (ctx : Ctx) (p : Nat) (h : passes ctx false SP p = true) :
    passes ctx false LET p = false ∧ passes ctx true LET p = true := by
  have hp := passes_lt h
  have h1 : passes ctx false LET p = false := by
    unfold passes at h ⊢
    simp only [hp, dite_true, List.any_cons, List.any_nil, Bool.or_false, CC.test, bne_iff_ne, ne_eq,
      Bool.not_eq_false, beq_iff_eq] at h ⊢
    simp [h]
  exact ⟨h1, by rw [nonletter_iff ctx p hp, h1]; rfl⟩

end ERP.Rx

namespace ERP.Rx

def PLUSD : Re := .rep true 1 none (.chars false DIG)
def OPTDOT : Re := .rep true 0 (some 1) (.chars false DOT)
def STARD : Re := .rep true 0 none (.chars false DIG)
def OPTSIGN : Re := .rep true 0 (some 1) (.chars false SIGN)
/-- `[-+]?[0-9]*\.?[0-9]+` -/
def FLOAT : Re := .seq OPTSIGN (.seq STARD (.seq OPTDOT PLUSD))

/-- end of the number starting at `p`, if there is one: optional sign, digits, and a fraction only
if a digit follows the point; at least one digit in all -/
def numEnd (ctx : Ctx) (p : Nat) : Option Nat :=
  let q := if passes ctx false SIGN p then p + 1 else p
  let d1 := span ctx false DIG q
  if passes ctx false DOT d1 && passes ctx false DIG (d1 + 1) then some (span ctx false DIG (d1 + 1))
  else if q < d1 then some d1 else none

theorem orElse'_none_r {R : Type} (a : Option R) : orElse' a (fun _ => none) = a := by
  cases a <;> rfl

theorem numEnd_match {R : Type} (A : Bool) (B : Prop) [Decidable B] (x y : Nat) (c : Caps)
    (k : Nat → Caps → Option R) :
    (match (if A = true then some x else if B then some y else none) with
      | some e => k e c
      | none => none) = if A = true then k x c else if B then k y c else none := by
  cases A
  · by_cases hB : B <;> simp [hB]
  · simp

section
variable {R : Type} (ctx : Ctx) (k : Nat → Caps → Option R) (p0 : Nat)
  (hk : ∀ q c, p0 < q → (k q c).isSome)
include hk

omit hk in
theorem span_gt_of_pass' (neg : Bool) (items : List CC) (q : Nat) (h : passes ctx neg items q = true) :
    q < span ctx neg items q := by
  obtain ⟨h1, h2, h3⟩ := span_spec ctx neg items q
  rcases Nat.lt_or_ge q (span ctx neg items q) with hlt | hge
  · exact hlt
  · have : span ctx neg items q = q := by omega
    rw [this] at h3; rw [h3] at h; cases h

theorem f3_eval (q : Nat) (c : Caps) (hq : q ≤ ctx.s.size) (hq0 : p0 ≤ q) :
    m ctx PLUSD q c k = if passes ctx false DIG q then k (span ctx false DIG q) c else none :=
  m_plus_max ctx false DIG q c k hq (fun h => hk _ c (by have := span_gt_of_pass' ctx false DIG q h; omega))

theorem f2_eval (q : Nat) (c : Caps) (hq : q ≤ ctx.s.size) (hq0 : p0 ≤ q) :
    m ctx (.seq OPTDOT PLUSD) q c k =
      if passes ctx false DOT q then m ctx PLUSD (q + 1) c k else m ctx PLUSD q c k := by
  rw [m.eq_3]
  unfold OPTDOT
  rw [m_opt_eq ctx _ q c _ hq, m_chars_eq]
  by_cases hd : passes ctx false DOT q = true
  · have hne : (q + 1 == q) = false := by simp
    simp only [hd, if_true, hne, Bool.false_eq_true, if_false]
    rw [f3_eval ctx k p0 hk q c hq hq0, dot_not_digit ctx q hd]
    simp only [Bool.false_eq_true, if_false]
    exact orElse'_none_r _
  · have hd' : passes ctx false DOT q = false := by simpa using hd
    simp only [hd', Bool.false_eq_true, if_false, orElse'_none]

theorem f1_eval (q : Nat) (c : Caps) (hq : q ≤ ctx.s.size) (hq0 : p0 ≤ q) :
    m ctx (.seq STARD (.seq OPTDOT PLUSD)) q c k =
      if passes ctx false DOT (span ctx false DIG q) && passes ctx false DIG (span ctx false DIG q + 1)
      then k (span ctx false DIG (span ctx false DIG q + 1)) c
      else if q < span ctx false DIG q then k (span ctx false DIG q) c else none := by
  rw [m.eq_3]
  unfold STARD
  obtain ⟨h1, h2, h3⟩ := span_spec ctx false DIG q
  have hle := span_le_size ctx false DIG q hq
  generalize hd1 : span ctx false DIG q = d1 at *
  -- the continuation after the digit run, at the end of the run
  have kd1 : m ctx (.seq OPTDOT PLUSD) d1 c k =
      if passes ctx false DOT d1 && passes ctx false DIG (d1 + 1)
      then k (span ctx false DIG (d1 + 1)) c else none := by
    rw [f2_eval ctx k p0 hk d1 c hle (by omega)]
    by_cases hd : passes ctx false DOT d1 = true
    · have hlt := passes_lt hd
      simp only [hd, if_true, Bool.true_and]
      rw [f3_eval ctx k p0 hk (d1 + 1) c (by omega) (by omega)]
    · have hd' : passes ctx false DOT d1 = false := by simpa using hd
      simp only [hd', Bool.false_eq_true, if_false, Bool.false_and]
      rw [f3_eval ctx k p0 hk d1 c hle (by omega), h3]
      simp
  by_cases hA : (passes ctx false DOT d1 && passes ctx false DIG (d1 + 1)) = true
  · simp only [hA, if_true] at kd1 ⊢
    have hdig1 : passes ctx false DIG (d1 + 1) = true := by
      simp only [Bool.and_eq_true] at hA; exact hA.2
    obtain ⟨r, hr⟩ := Option.isSome_iff_exists.mp (hk (span ctx false DIG (d1 + 1)) c
      (by have := span_gt_of_pass' ctx false DIG (d1 + 1) hdig1; omega))
    rw [hr] at kd1 ⊢
    exact m_star_max ctx false DIG q c _ r hq (by rw [hd1]; exact kd1)
  · have hA' : (passes ctx false DOT d1 && passes ctx false DIG (d1 + 1)) = false := by simpa using hA
    simp only [hA', Bool.false_eq_true, if_false] at kd1 ⊢
    by_cases hlt : q < d1
    · simp only [hlt, if_true]
      have hdig : passes ctx false DIG (d1 - 1) = true := h2 (d1 - 1) (by omega) (by omega)
      have kprev : m ctx (.seq OPTDOT PLUSD) (d1 - 1) c k = k d1 c := by
        rw [f2_eval ctx k p0 hk (d1 - 1) c (by omega) (by omega), digit_not_dot ctx _ hdig]
        simp only [Bool.false_eq_true, if_false]
        rw [f3_eval ctx k p0 hk (d1 - 1) c (by omega) (by omega), hdig, if_pos rfl,
          span_of_pass ctx false DIG (d1 - 1) hdig]
        have : d1 - 1 + 1 = d1 := by omega
        rw [this, span_of_stop ctx false DIG d1 h3]
      obtain ⟨r, hr⟩ := Option.isSome_iff_exists.mp (hk d1 c (by omega))
      rw [hr] at kprev ⊢
      exact m_star_second ctx false DIG q c _ r hq (by rw [hd1]; exact hlt) (by rw [hd1]; exact kd1)
        (by rw [hd1]; exact kprev)
    · simp only [hlt, if_false]
      have hq1 : q = d1 := by omega
      subst hq1
      rw [m_star_empty ctx false DIG q c _ h3]
      exact kd1

/-- **The number grammar is read greedily.** -/
theorem float_eval (p : Nat) (c : Caps) (hp : p ≤ ctx.s.size) (hp0 : p0 = p) :
    m ctx FLOAT p c k = match numEnd ctx p with | some e => k e c | none => none := by
  unfold FLOAT
  rw [m.eq_3]
  unfold OPTSIGN
  rw [m_opt_eq ctx _ p c _ hp, m_chars_eq]
  unfold numEnd
  by_cases hs : passes ctx false SIGN p = true
  · have hlt := passes_lt hs
    obtain ⟨n1, n2⟩ := sign_not_digit ctx p hs
    have hne : (p + 1 == p) = false := by simp
    simp only [hs, if_true, hne, Bool.false_eq_true, if_false]
    -- without the sign there is no number
    have hnone : m ctx (.seq STARD (.seq OPTDOT PLUSD)) p c k = none := by
      rw [f1_eval ctx k p0 hk p c hp (by omega), span_of_stop ctx false DIG p n1, n2]
      simp
    rw [hnone, orElse'_none_r, f1_eval ctx k p0 hk (p + 1) c (by omega) (by omega)]
    exact (numEnd_match _ _ _ _ c k).symm
  · have hs' : passes ctx false SIGN p = false := by simpa using hs
    simp only [hs', Bool.false_eq_true, if_false, orElse'_none]
    rw [f1_eval ctx k p0 hk p c hp (by omega)]
    exact (numEnd_match _ _ _ _ c k).symm

end

end ERP.Rx

namespace ERP.Rx

theorem numEnd_gt (ctx : Ctx) (p e : Nat) (hp : p ≤ ctx.s.size) (h : numEnd ctx p = some e) :
    p < e ∧ e ≤ ctx.s.size := by
  unfold numEnd at h
  have hq : (if passes ctx false SIGN p = true then p + 1 else p) ≤ ctx.s.size := by
    split
    · rename_i hs; have := passes_lt hs; omega
    · exact hp
  have hqp : p ≤ (if passes ctx false SIGN p = true then p + 1 else p) := by split <;> omega
  generalize (if passes ctx false SIGN p = true then p + 1 else p) = q at *
  obtain ⟨h1, h2, h3⟩ := span_spec ctx false DIG q
  have hle := span_le_size ctx false DIG q hq
  dsimp only at h
  split at h
  · rename_i hA
    simp only [Bool.and_eq_true] at hA
    cases h
    have hlt := passes_lt hA.2
    have := span_gt_of_pass' ctx false DIG _ hA.2
    exact ⟨by omega, span_le_size ctx false DIG _ (by omega)⟩
  · split at h
    · cases h; exact ⟨by omega, hle⟩
    · cases h

theorem span_eq_of_stop (ctx : Ctx) (neg : Bool) (items : List CC) (p p' : Nat) (h1 : p ≤ p')
    (h2 : ∀ i, p ≤ i → i < p' → passes ctx neg items i = true) (h3 : passes ctx neg items p' = false) :
    span ctx neg items p = p' := by
  obtain ⟨g1, g2, g3⟩ := span_spec ctx neg items p
  exact stop_unique ctx neg items p _ _ g1 g2 g3 h1 h2 h3

theorem m_star_max' {R : Type} (ctx : Ctx) (p p' : Nat) (h1 : p ≤ p')
    (h2 : ∀ i, p ≤ i → i < p' → passes ctx false SP i = true) (h3 : passes ctx false SP p' = false)
    (hp : p ≤ ctx.s.size) (k : Nat → Caps → Option R) (r : R) (hk : k p' [] = some r) :
    m ctx (.rep true 0 none (.chars false SP)) p [] k = some r :=
  m_star_max ctx false SP p [] k r hp (by rw [span_eq_of_stop ctx false SP p p' h1 h2 h3]; exact hk)

theorem m_star_second' {R : Type} (ctx : Ctx) (p p' : Nat) (h1 : p ≤ p')
    (h2 : ∀ i, p ≤ i → i < p' → passes ctx false SP i = true) (h3 : passes ctx false SP p' = false)
    (hp : p ≤ ctx.s.size) (hlt : p < p') (k : Nat → Caps → Option R) (r : R) (hk0 : k p' [] = none)
    (hk : k (p' - 1) [] = some r) :
    m ctx (.rep true 0 none (.chars false SP)) p [] k = some r := by
  have he := span_eq_of_stop ctx false SP p p' h1 h2 h3
  exact m_star_second ctx false SP p [] k r hp (by rw [he]; exact hlt) (by rw [he]; exact hk0)
    (by rw [he]; exact hk)

/-- one token of the parameter string, read directly -/
def scan (ctx : Ctx) (off : Nat) : Option (Nat × Caps) :=
  let p1 := span ctx false SP off
  if passes ctx false LET p1 then
    let p2 := span ctx false SP (p1 + 1)
    match numEnd ctx p2 with
    | some e => some (e, [(2, p2, e), (1, p1, p1 + 1)])
    | none => some (p2, [(1, p1, p1 + 1)])
  else if passes ctx true LET p1 then some (p1 + 1, [(3, p1, p1 + 1)])
  else if off < p1 then some (p1, [(3, p1 - 1, p1)])
  else none

/-- the regex regenerated from the source has the shape the scanner theorem is about -/
theorem paramOrStr_shape : Gen.paramOrStr =
    .seq (.rep true 0 none (.chars false SP))
      (.alt (.seq (.group 1 (.chars false LET)) (.seq (.rep true 0 none (.chars false SP))
          (.rep true 0 (some 1) (.group 2 FLOAT))))
        (.group 3 (.chars true LET))) := rfl

/-- **`REGEX_PARAMETER_OR_STR.match(source, off)` is the scanner.** -/
theorem scan_eq (s : Array Char) (off : Nat) (hoff : off ≤ s.size) :
    matchAt Gen.paramOrStr s off = scan ⟨s⟩ off := by
  rw [paramOrStr_shape]
  unfold matchAt scan
  generalize hctx : (⟨s⟩ : Ctx) = ctx
  have hsz : ctx.s.size = s.size := by rw [← hctx]
  rw [← hsz] at hoff
  clear hsz hctx
  rw [m.eq_3]
  obtain ⟨a1, a2, a3⟩ := span_spec ctx false SP off
  have hp1 := span_le_size ctx false SP off hoff
  generalize span ctx false SP off = p1 at *
  -- the alternative at a position `p`
  have alt_at : ∀ (p : Nat) (c : Caps), p ≤ ctx.s.size →
      m ctx (.alt (.seq (.group 1 (.chars false LET)) (.seq (.rep true 0 none (.chars false SP))
          (.rep true 0 (some 1) (.group 2 FLOAT)))) (.group 3 (.chars true LET))) p c
        (fun p c => some (p, c)) =
      if passes ctx false LET p then
        (match numEnd ctx (span ctx false SP (p + 1)) with
          | some e => some (e, (2, span ctx false SP (p + 1), e) :: (1, p, p + 1) :: c)
          | none => some (span ctx false SP (p + 1), (1, p, p + 1) :: c))
      else if passes ctx true LET p then some (p + 1, (3, p, p + 1) :: c) else none := by
    intro p c hp
    rw [m.eq_4, m.eq_3, m.eq_6, m_chars_eq, m.eq_6, m_chars_eq]
    by_cases hl : passes ctx false LET p = true
    · have hlt := passes_lt hl
      simp only [hl, if_true]
      rw [m.eq_3]
      have hp2 := span_le_size ctx false SP (p + 1) (by omega)
      obtain ⟨b1, b2, b3⟩ := span_spec ctx false SP (p + 1)
      generalize hp2e : span ctx false SP (p + 1) = p2 at *
      -- the optional number at p2
      have opt : m ctx (.rep true 0 (some 1) (.group 2 FLOAT)) p2 ((1, p, p + 1) :: c)
          (fun p c => some (p, c)) =
          (match numEnd ctx p2 with
            | some e => some (e, (2, p2, e) :: (1, p, p + 1) :: c)
            | none => some (p2, (1, p, p + 1) :: c)) := by
        rw [m_opt_eq ctx _ p2 _ _ hp2, m.eq_6]
        rw [float_eval ctx _ p2 (fun q c' hq => by
            have hne : (q == p2) = false := by
              simp only [beq_eq_false_iff_ne, ne_eq]; omega
            simp only [hne, Bool.false_eq_true, if_false]; rfl) p2 _ hp2 rfl]
        cases hn : numEnd ctx p2 with
        | none => simp only [orElse'_none]
        | some e =>
          have hgt := (numEnd_gt ctx p2 e hp2 hn).1
          have hne : (e == p2) = false := by simp only [beq_eq_false_iff_ne, ne_eq]; omega
          simp only [hne, Bool.false_eq_true, if_false]
          rfl
      obtain ⟨r, hr⟩ : ∃ r, (match numEnd ctx p2 with
            | some e => some (e, (2, p2, e) :: (1, p, p + 1) :: c)
            | none => some (p2, (1, p, p + 1) :: c)) = some r := by
        cases numEnd ctx p2 <;> exact ⟨_, rfl⟩
      rw [hr] at opt ⊢
      have := m_star_max ctx false SP (p + 1) ((1, p, p + 1) :: c)
        (fun p' c' => m ctx (.rep true 0 (some 1) (.group 2 FLOAT)) p' c' (fun p c => some (p, c))) r
        (by omega) (by rw [hp2e]; exact opt)
      rw [this]; rfl
    · have hl' : passes ctx false LET p = false := by simpa using hl
      simp only [hl', Bool.false_eq_true, if_false, orElse'_none]
  by_cases hl : passes ctx false LET p1 = true
  · -- a letter after the blanks
    simp only [hl, if_true]
    have := alt_at p1 [] hp1
    simp only [hl, if_true] at this
    obtain ⟨r, hr⟩ : ∃ r, (match numEnd ctx (span ctx false SP (p1 + 1)) with
          | some e => some (e, [(2, span ctx false SP (p1 + 1), e), (1, p1, p1 + 1)])
          | none => some (span ctx false SP (p1 + 1), [(1, p1, p1 + 1)])) = some r := by
      cases numEnd ctx (span ctx false SP (p1 + 1)) <;> exact ⟨_, rfl⟩
    rw [hr] at this ⊢
    exact m_star_max' ctx off p1 a1 a2 a3 hoff _ r this
  · have hl' : passes ctx false LET p1 = false := by simpa using hl
    simp only [hl', Bool.false_eq_true, if_false]
    by_cases hn : passes ctx true LET p1 = true
    · simp only [hn, if_true]
      have := alt_at p1 [] hp1
      simp only [hl', Bool.false_eq_true, if_false, hn, if_true] at this
      exact m_star_max' ctx off p1 a1 a2 a3 hoff _ _ this
    · have hn' : passes ctx true LET p1 = false := by simpa using hn
      simp only [hn', Bool.false_eq_true, if_false]
      have hk0 := alt_at p1 [] hp1
      simp only [hl', hn', Bool.false_eq_true, if_false] at hk0
      by_cases hlt : off < p1
      · simp only [hlt, if_true]
        -- back off one blank: it is matched as "any other character"
        have hsp : passes ctx false SP (p1 - 1) = true := a2 (p1 - 1) (by omega) (by omega)
        obtain ⟨s1, s2⟩ := space_not_letter ctx (p1 - 1) hsp
        have hk1 := alt_at (p1 - 1) [] (by omega)
        simp only [s1, s2, Bool.false_eq_true, if_false, if_true] at hk1
        have e1 : p1 - 1 + 1 = p1 := by omega
        rw [e1] at hk1
        exact m_star_second' ctx off p1 a1 a2 a3 hoff hlt _ _ hk0 hk1
      · simp only [hlt, if_false]
        have : off = p1 := by omega
        subst this
        rw [m_star_empty ctx false SP off [] _ a3]
        exact hk0

end ERP.Rx
