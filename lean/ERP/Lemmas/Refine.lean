import ERP.Total
import ERP.Lemmas.Spec
/-! # Refinement: on well-formed states the faithful (exception-aware) model is `.ok` of the total model -/
namespace ERP
open T

section
variable {ε β γ : Type}
@[simp] theorem ok_bind (a : β) (f : β → Except ε γ) : (Except.ok a >>= f) = f a := rfl
@[simp] theorem pure_eq_ok (a : β) : (pure a : Except ε β) = .ok a := rfl
end

set_option linter.unusedSectionVars false

variable {α : Type} [Field α] [LinearOrder α] [IsStrictOrderedRing α] [MathOps α]

def AxisOk (a : Axis α) : Prop := a.current.isSome = true ∧ a.unitMultiplier ≠ 0
def PosOk (p : Position α) : Prop := AxisOk p.x ∧ AxisOk p.y ∧ AxisOk p.z ∧ AxisOk p.e

/-- Well-formed filter states: every axis position known, unit multipliers non-zero, an open
episode has a (homed) pre-episode position, a non-firmware retraction carries its numbers. -/
structure WF (s : FState α) : Prop where
  pos : PosOk s.position
  fru : s.feedRateUnitMultiplier ≠ 0
  lastPos : s.excluding = true → ∃ lp, s.lastPosition = some lp ∧ PosOk lp
  retr : ∀ lr, s.lastRetraction = some lr → lr.firmwareRetract = false →
    lr.extrusionAmount.isSome = true ∧ lr.feedRate.isSome = true

theorem pyDiv_ok (a b : α) (h : b ≠ 0) : pyDiv a b = .ok (a / b) := by
  simp [pyDiv, h]

theorem AxisOk.cur_eq {a : Axis α} (h : AxisOk a) : a.current = some (cur a) := by
  obtain ⟨h1, _⟩ := h
  cases hc : a.current with
  | none => simp [hc] at h1
  | some c => simp [cur, hc]

theorem l2n_ok {a : Axis α} (h : AxisOk a) (v : α) : a.logicalToNative v = .ok (l2n a v) := by
  have hc := h.cur_eq
  unfold Axis.logicalToNative l2n
  by_cases ha : a.absoluteMode = true
  · simp [ha]
  · simp [ha]; rw [hc]

theorem l2n_ok_abs (a : Axis α) (v : α) :
    a.logicalToNative v (some true) = .ok (v * a.unitMultiplier + (a.offset + a.homeOffset)) := by
  simp [Axis.logicalToNative]

theorem n2l_ok {a : Axis α} (h : AxisOk a) : a.nativeToLogical = .ok (n2l a) := by
  have hc := h.cur_eq
  unfold Axis.nativeToLogical n2l
  rw [hc]
  simp [pyDiv_ok _ _ h.2]

theorem n2lAbs_ok {a : Axis α} (h : AxisOk a) (v : α) :
    a.nativeToLogical (some v) (some true) = .ok (n2lAbs a v) := by
  unfold Axis.nativeToLogical n2lAbs
  simp [pyDiv_ok _ _ h.2]

theorem setLog_ok {a : Axis α} (h : AxisOk a) (p : Option α) :
    a.setLogicalPosition p = .ok (setLog a p, (setLog a p).current) := by
  cases p with
  | none => simp [Axis.setLogicalPosition, setLog]
  | some v => simp [Axis.setLogicalPosition, setLog, l2n_ok h]

theorem setLog_AxisOk {a : Axis α} (h : AxisOk a) (p : Option α) : AxisOk (setLog a p) := by
  cases p with
  | none => exact h
  | some v => exact ⟨by simp [setLog], by simpa [setLog] using h.2⟩

@[simp] theorem cur_setLog_some (a : Axis α) (v : α) : cur (setLog a (some v)) = l2n a v := by
  simp [cur, setLog]

theorem setOffsetPos_ok {a : Axis α} (h : AxisOk a) (v : α) :
    a.setLogicalOffsetPosition v = .ok (setOffsetPos a v) := by
  have hc := h.cur_eq
  unfold Axis.setLogicalOffsetPosition
  rw [l2n_ok h]
  simp only [ok_bind]
  cases hcur : a.current with
  | none => simp [hcur] at hc
  | some c =>
    have : cur a = c := by simp [cur, hcur]
    simp [setOffsetPos, this, hcur]

theorem setHomeOffset_ok {a : Axis α} (h : AxisOk a) (v : α) :
    a.setHomeOffset v = .ok (T.setHomeOffset a v) := by
  have hc := h.cur_eq
  unfold Axis.setHomeOffset
  cases hcur : a.current with
  | none => simp [hcur] at hc
  | some c =>
    have : cur a = c := by simp [cur, hcur]
    simp [T.setHomeOffset, this, hcur]

end ERP

namespace ERP
open T
set_option linter.unusedSectionVars false
set_option linter.unusedSimpArgs false
variable {α : Type} [Field α] [LinearOrder α] [IsStrictOrderedRing α] [MathOps α]

theorem containsPointO_ok (r : Region α) (x y : α) :
    r.containsPointO (some x) (some y) = .ok (r.containsPoint x y) := by
  cases r with
  | rect i x1 y1 x2 y2 =>
    simp only [Region.containsPointO, Region.containsPoint]
    by_cases h : (decide (x1 ≤ x) && decide (x ≤ x2)) = true
    · simp [h, Bool.and_assoc]
    · simp [h]
  | circle i cx cy rr => rfl

theorem anyRegionContains_ok (rs : List (Region α)) (x y : α) :
    anyRegionContains rs (some x) (some y) = .ok (anyContains rs x y) := by
  induction rs with
  | nil => rfl
  | cons r rest ih =>
    simp only [anyRegionContains, containsPointO_ok, ok_bind, anyContains, List.any_cons]
    by_cases h : r.containsPoint x y = true
    · simp [h]
    · simp [h]; simpa [anyContains] using ih

theorem isPointExcluded_ok (s : FState α) (x y : α) :
    s.isPointExcluded (some x) (some y) = .ok (T.isPointExcluded s x y) := by
  unfold FState.isPointExcluded T.isPointExcluded
  by_cases h : s.exclusionEnabled = true
  · simp [h, anyRegionContains_ok]
  · simp [h]

theorem isAnyLoop_ok (pairs : List (Option α × Option α)) :
    ∀ (s : FState α) (any : Bool), AxisOk s.position.x → AxisOk s.position.y →
      ERP.isAnyLoop s pairs any = .ok (T.isAnyLoop s pairs any) := by
  induction pairs with
  | nil => intro s any _ _; rfl
  | cons p rest ih =>
    intro s any hx hy
    obtain ⟨px, py⟩ := p
    simp only [ERP.isAnyLoop, T.isAnyLoop, setLog_ok hx, setLog_ok hy, ok_bind]
    have hx' := setLog_AxisOk hx px
    have hy' := setLog_AxisOk hy py
    rw [hx'.cur_eq, hy'.cur_eq, isPointExcluded_ok]
    cases any with
    | true =>
      simp only [if_true, pure_eq_ok, ok_bind, Bool.true_or]
      exact ih _ _ hx' hy'
    | false =>
      simp only [Bool.false_eq_true, if_false, ok_bind, Bool.false_or]
      exact ih _ _ hx' hy'

/-- The loop only changes the X and Y axes (and keeps them well-formed). -/
theorem isAnyLoop_frame (pairs : List (Option α × Option α)) :
    ∀ (s : FState α) (any : Bool),
      let r := T.isAnyLoop s pairs any
      r.1 = { s with position := { s.position with x := r.1.position.x, y := r.1.position.y } } ∧
      (AxisOk s.position.x → AxisOk r.1.position.x) ∧ (AxisOk s.position.y → AxisOk r.1.position.y) := by
  induction pairs with
  | nil => intro s any; exact ⟨rfl, id, id⟩
  | cons p rest ih =>
    intro s any
    obtain ⟨px, py⟩ := p
    simp only [T.isAnyLoop]
    have := ih { s with position := { s.position with x := setLog s.position.x px, y := setLog s.position.y py } }
      (any || T.isPointExcluded { s with position := { s.position with x := setLog s.position.x px, y := setLog s.position.y py } }
        (cur (setLog s.position.x px)) (cur (setLog s.position.y py)))
    obtain ⟨h1, h2, h3⟩ := this
    refine ⟨?_, fun h => h2 (setLog_AxisOk h px), fun h => h3 (setLog_AxisOk h py)⟩
    rw [h1]

end ERP

namespace ERP
open T
set_option linter.unusedSectionVars false
set_option linter.unusedSimpArgs false
variable {α : Type} [Field α] [LinearOrder α] [IsStrictOrderedRing α] [MathOps α]

def RetrOk (r : Retraction α) : Prop :=
  r.firmwareRetract = false → r.extrusionAmount.isSome = true ∧ r.feedRate.isSome = true

theorem addCommands_ok (r : Retraction α) (dir : α) (p : Position α) (hr : RetrOk r)
    (he : AxisOk p.e) : r.addCommands dir p = .ok (T.addCommands r dir p) := by
  unfold Retraction.addCommands T.addCommands
  by_cases hf : r.firmwareRetract = true
  · simp [hf]
  · have hf' : r.firmwareRetract = false := by simpa using hf
    obtain ⟨h1, h2⟩ := hr hf'
    obtain ⟨ext, hext⟩ := Option.isSome_iff_exists.mp h1
    obtain ⟨fr, hfr⟩ := Option.isSome_iff_exists.mp h2
    have hc := he.cur_eq
    simp only [hf', Bool.false_eq_true, if_false, hext, hfr, hc]
    have e1 : AxisOk ({ p.e with current := some (cur p.e + ext * dir) } : Axis α) :=
      ⟨rfl, he.2⟩
    have e2 : AxisOk ({ p.e with current := some (cur p.e + ext * dir - ext * dir) } : Axis α) :=
      ⟨rfl, he.2⟩
    rw [n2l_ok e1, ok_bind, n2l_ok e2, ok_bind, pyDiv_ok _ _ he.2]
    simp [Option.getD]

theorem addCommands_pos (r : Retraction α) (dir : α) (p : Position α) (he : AxisOk p.e) :
    let q := (T.addCommands r dir p).1
    q.x = p.x ∧ q.y = p.y ∧ q.z = p.z ∧ AxisOk q.e := by
  unfold T.addCommands
  by_cases hf : r.firmwareRetract = true
  · simp [hf, he]
  · simp [hf]; exact ⟨rfl, he.2⟩

theorem combine_ok (r o : Retraction α) (hr : RetrOk r) (ho : RetrOk o) :
    r.combine o = .ok (T.combine r o) := by
  unfold Retraction.combine T.combine
  by_cases h1 : r.allowCombine = true <;> by_cases h2 : r.firmwareRetract = true <;>
    by_cases h3 : o.firmwareRetract = true <;> simp [h1, h2, h3]
  have h2' : r.firmwareRetract = false := by simpa using h2
  have h3' : o.firmwareRetract = false := by simpa using h3
  obtain ⟨a, ha⟩ := Option.isSome_iff_exists.mp (hr h2').1
  obtain ⟨b, hb⟩ := Option.isSome_iff_exists.mp (ho h3').1
  simp [ha, hb]

theorem combine_RetrOk (r o : Retraction α) (hr : RetrOk r) : RetrOk (T.combine r o) := by
  unfold T.combine
  split
  · intro hf; exact ⟨rfl, (hr hf).2⟩
  · exact hr

end ERP

namespace ERP
open T
set_option linter.unusedSectionVars false
set_option linter.unusedSimpArgs false
variable {α : Type} [Field α] [LinearOrder α] [IsStrictOrderedRing α] [MathOps α]

theorem WF.retrOk {s : FState α} (h : WF s) {lr : Retraction α} (hl : s.lastRetraction = some lr) :
    RetrOk lr := h.retr lr hl

theorem PosOk.withE {p : Position α} (h : PosOk p) {e : Axis α} (he : AxisOk e) :
    PosOk { p with e := e } := ⟨h.1, h.2.1, h.2.2.1, he⟩

theorem addCommands_PosOk (r : Retraction α) (dir : α) (p : Position α) (h : PosOk p) :
    PosOk (T.addCommands r dir p).1 := by
  obtain ⟨hx, hy, hz, he⟩ := addCommands_pos r dir p h.2.2.2
  exact ⟨hx ▸ h.1, hy ▸ h.2.1, hz ▸ h.2.2.1, he⟩

theorem recordRetraction_ok (s : FState α) (r : Retraction α) (h : WF s) (hr : RetrOk r) :
    s.recordRetraction r = .ok (T.recordRetraction s r) := by
  unfold FState.recordRetraction T.recordRetraction
  cases hl : s.lastRetraction with
  | none =>
    by_cases he : s.excluding = true
    · simp [he, addCommands_ok r 1 s.position hr h.pos.2.2.2, Retraction.generateRetractCommands]
    · simp [he]
  | some lr =>
    have hlr := h.retrOk hl
    by_cases h1 : lr.recoverExcluded = true
    · simp [h1]
    · by_cases h2 : lr.allowCombine = true
      · by_cases he : s.excluding = true
        · simp [h1, h2, he, combine_ok lr r hlr hr,
            addCommands_ok r 1 s.position hr h.pos.2.2.2, Retraction.generateRetractCommands]
        · simp [h1, h2, he, combine_ok lr r hlr hr]
      · by_cases he : s.excluding = true <;> simp [h1, h2, he]

theorem addCommands_fst_frame (r : Retraction α) (dir : α) (p : Position α) :
    (T.addCommands r dir p).1.x = p.x ∧ (T.addCommands r dir p).1.y = p.y ∧
    (T.addCommands r dir p).1.z = p.z := by
  unfold T.addCommands; split <;> simp

theorem recordRetraction_excluding (s : FState α) (r : Retraction α) :
    (T.recordRetraction s r).1.excluding = s.excluding := by
  unfold T.recordRetraction
  cases s.lastRetraction with
  | none => by_cases he : s.excluding = true <;> simp [he]
  | some lr =>
    by_cases h1 : lr.recoverExcluded = true <;> by_cases h2 : lr.allowCombine = true <;>
      by_cases he : s.excluding = true <;> simp [h1, h2, he]

theorem recordRetraction_WF (s : FState α) (r : Retraction α) (h : WF s) (hr : RetrOk r) :
    WF (T.recordRetraction s r).1 := by
  have hex := recordRetraction_excluding s r
  refine ⟨?_, ?_, ?_, ?_⟩
  · -- positions
    unfold T.recordRetraction
    cases hl : s.lastRetraction with
    | none =>
      by_cases he : s.excluding = true
      · simp only [he, if_true]; exact addCommands_PosOk r 1 s.position h.pos
      · simp only [he]; exact h.pos
    | some lr =>
      by_cases h1 : lr.recoverExcluded = true
      · simp only [h1, if_true]; exact h.pos
      · by_cases h2 : lr.allowCombine = true <;> by_cases he : s.excluding = true <;>
          simp only [h1, h2, he, if_true, Bool.false_eq_true, if_false]
        · exact addCommands_PosOk r 1 s.position h.pos
        · exact h.pos
        · exact h.pos
        · exact h.pos
  · unfold T.recordRetraction
    cases s.lastRetraction with
    | none => by_cases he : s.excluding = true <;> simp [he, h.fru]
    | some lr =>
      by_cases h1 : lr.recoverExcluded = true <;> by_cases h2 : lr.allowCombine = true <;>
        by_cases he : s.excluding = true <;> simp [h1, h2, he, h.fru]
  · intro hx
    rw [hex] at hx
    have := h.lastPos hx
    unfold T.recordRetraction
    cases s.lastRetraction with
    | none => simpa [hx] using this
    | some lr =>
      by_cases h1 : lr.recoverExcluded = true <;> by_cases h2 : lr.allowCombine = true <;>
        simpa [h1, h2, hx] using this
  · intro lr' hlr'
    unfold T.recordRetraction at hlr'
    cases hl : s.lastRetraction with
    | none =>
      rw [hl] at hlr'
      by_cases he : s.excluding = true <;> simp [he] at hlr' <;> (subst hlr'; exact hr)
    | some lr =>
      rw [hl] at hlr'
      have hlr := h.retrOk hl
      by_cases h1 : lr.recoverExcluded = true
      · simp [h1] at hlr'; subst hlr'
        intro hf
        by_cases hff : lr.firmwareRetract = true
        · simp [hff] at hf
        · have := hlr (by simpa using hff)
          simp [hff, this.1]
      · by_cases h2 : lr.allowCombine = true
        · by_cases he : s.excluding = true <;> simp [h1, h2, he] at hlr' <;>
            (subst hlr'; exact combine_RetrOk lr r hlr)
        · by_cases he : s.excluding = true <;> simp [h1, h2, he] at hlr' <;>
            exact h.retr lr' hlr'

end ERP

namespace ERP
open T
set_option linter.unusedSectionVars false
set_option linter.unusedSimpArgs false
variable {α : Type} [Field α] [LinearOrder α] [IsStrictOrderedRing α] [MathOps α]

theorem recoverRetraction_ok (s : FState α) (cmd : Cmd α) (lr : Retraction α) (hp : PosOk s.position)
    (hlr : RetrOk lr) : s.recoverRetraction cmd lr = .ok (T.recoverRetraction s cmd lr) := by
  unfold FState.recoverRetraction T.recoverRetraction
  by_cases h1 : lr.recoverExcluded = true
  · simp [h1, Retraction.generateRecoverCommands, addCommands_ok lr (-1) s.position hlr hp.2.2.2]
  · simp [h1]

theorem recoverRetractionIfNeeded_ok (s : FState α) (cmd : Cmd α) (b : Bool) (h : WF s) :
    s.recoverRetractionIfNeeded cmd b = .ok (T.recoverRetractionIfNeeded s cmd b) := by
  unfold FState.recoverRetractionIfNeeded T.recoverRetractionIfNeeded
  cases hl : s.lastRetraction with
  | none => by_cases he : s.excluding = true <;> simp [he]
  | some lr =>
    have hlr := h.retrOk hl
    by_cases he : s.excluding = true
    · simp [he]
    · simp only [he, Bool.false_eq_true, if_false]
      exact recoverRetraction_ok _ cmd _ h.pos (fun hf => hlr hf)

theorem recoverRetractionIfNeeded_excluding (s : FState α) (cmd : Cmd α) (b : Bool) :
    (T.recoverRetractionIfNeeded s cmd b).1.excluding = s.excluding := by
  unfold T.recoverRetractionIfNeeded T.recoverRetraction
  cases s.lastRetraction with
  | none => by_cases he : s.excluding = true <;> simp [he]
  | some lr => by_cases he : s.excluding = true <;> simp [he]

theorem recoverRetractionIfNeeded_WF (s : FState α) (cmd : Cmd α) (b : Bool) (h : WF s) :
    WF (T.recoverRetractionIfNeeded s cmd b).1 := by
  have hex := recoverRetractionIfNeeded_excluding s cmd b
  unfold T.recoverRetractionIfNeeded T.recoverRetraction at *
  cases hl : s.lastRetraction with
  | none =>
    by_cases he : s.excluding = true <;> simp only [he, Bool.not_true, Bool.not_false, if_true,
      Bool.false_eq_true, if_false] <;> exact h
  | some lr =>
    have hlr := h.retrOk hl
    by_cases he : s.excluding = true
    · simp only [he, if_true]
      refine ⟨h.pos, h.fru, fun _ => h.lastPos he, ?_⟩
      intro lr' hlr'
      simp at hlr'; subst hlr'
      cases b <;> exact hlr
    · simp only [he, Bool.false_eq_true, if_false]
      refine ⟨?_, h.fru, fun hx => absurd hx (by simpa using he), ?_⟩
      · by_cases h1 : lr.recoverExcluded = true
        · simp only [h1, if_true]; exact addCommands_PosOk _ _ _ h.pos
        · simp only [h1, Bool.false_eq_true, if_false]; exact h.pos
      · intro lr' hlr'; simp at hlr'

theorem enterExcludedRegion_ok (cfg : Config) (s : FState α) (hen : s.exclusionEnabled = true) :
    s.enterExcludedRegion cfg = .ok (T.enterExcludedRegion cfg s) := by
  unfold FState.enterExcludedRegion T.enterExcludedRegion
  by_cases he : s.excluding = true <;> simp [hen, he]
  cases cfg.enteringExcludedRegionGcode <;> rfl

theorem exitCoordinate_ok {a l : Axis α} (ha : AxisOk a) (hl : AxisOk l) :
    exitCoordinate a l = .ok (exitCoord a l) := by
  unfold exitCoordinate exitCoord
  by_cases h : a.absoluteMode = true
  · simp [h, n2l_ok ha]
  · simp [h, ha.cur_eq, hl.cur_eq, pyDiv_ok _ _ ha.2]

theorem exitExcludedRegion_ok (cfg : Config) (s : FState α) (h : WF s) :
    s.exitExcludedRegion cfg = .ok (T.exitExcludedRegion cfg s) := by
  unfold FState.exitExcludedRegion T.exitExcludedRegion
  by_cases he : s.excluding = true
  · obtain ⟨lp, hlp, hlpok⟩ := h.lastPos he
    obtain ⟨px, py, pz, pe⟩ := h.pos
    obtain ⟨lx, ly, lz, le⟩ := hlpok
    simp only [he, Bool.not_true, Bool.false_eq_true, if_false, FState.processPendingCommands,
      n2l_ok pe, ok_bind, hlp, pz.cur_eq, lz.cur_eq, pyDiv_ok _ _ h.fru, exitCoordinate_ok pz lz,
      exitCoordinate_ok px lx, exitCoordinate_ok py ly, T.lastPos, Option.getD]
  · simp [he]

end ERP

namespace ERP
open T
set_option linter.unusedSectionVars false
set_option linter.unusedSimpArgs false
variable {α : Type} [Field α] [LinearOrder α] [IsStrictOrderedRing α] [MathOps α]

theorem WF.of_eq {s s' : FState α} (h : WF s) (hp : s'.position = s.position)
    (hf : s'.feedRateUnitMultiplier = s.feedRateUnitMultiplier)
    (hl : s'.excluding = true → s.excluding = true ∧ s'.lastPosition = s.lastPosition)
    (hr : s'.lastRetraction = s.lastRetraction) : WF s' :=
  ⟨hp ▸ h.pos, hf ▸ h.fru, fun hx => by rw [(hl hx).2]; exact h.lastPos (hl hx).1,
   fun lr hlr => h.retr lr (hr ▸ hlr)⟩

/-- frame of `exitExcludedRegion`: only `excluding` and `pendingCommands` change -/
theorem exitExcludedRegion_state (cfg : Config) (s : FState α) :
    (T.exitExcludedRegion cfg s).1 =
      if s.excluding then { s with excluding := false, pendingCommands := [] } else s := by
  unfold T.exitExcludedRegion
  by_cases he : s.excluding = true <;> simp [he, FState.processPendingCommands]

theorem exitExcludedRegion_WF (cfg : Config) (s : FState α) (h : WF s) :
    WF (T.exitExcludedRegion cfg s).1 := by
  rw [exitExcludedRegion_state]
  by_cases he : s.excluding = true
  · simp only [he, if_true]
    exact h.of_eq rfl rfl (fun hx => by simp at hx) rfl
  · simp only [he, Bool.false_eq_true, if_false]; exact h

theorem disableExclusion_ok (cfg : Config) (s : FState α) (h : WF s) :
    s.disableExclusion cfg = .ok (T.disableExclusion cfg s) := by
  unfold FState.disableExclusion T.disableExclusion
  by_cases hen : s.exclusionEnabled = true
  · by_cases he : s.excluding = true
    · simp only [hen, he, if_true]
      exact exitExcludedRegion_ok cfg _ (h.of_eq rfl rfl (fun _ => ⟨he, rfl⟩) rfl)
    · simp [hen, he]
  · simp [hen]

theorem disableExclusion_WF (cfg : Config) (s : FState α) (h : WF s) :
    WF (T.disableExclusion cfg s).1 := by
  unfold T.disableExclusion
  by_cases hen : s.exclusionEnabled = true
  · by_cases he : s.excluding = true
    · simp only [hen, he, if_true]
      exact exitExcludedRegion_WF cfg _ (h.of_eq rfl rfl (fun _ => ⟨he, rfl⟩) rfl)
    · simp only [hen, he, if_true, Bool.false_eq_true, if_false]
      exact h.of_eq rfl rfl (fun hx => by simp at hx) rfl
  · simp only [hen, Bool.false_eq_true, if_false]; exact h

theorem newRetr_ok (cmd : Cmd α) (d f : α) :
    RetrOk ({ firmwareRetract := false, extrusionAmount := some d, feedRate := some f,
              originalCommand := cmd } : Retraction α) := fun _ => ⟨rfl, rfl⟩

theorem processNonMove_ok (s : FState α) (cmd : Cmd α) (deltaE : α) (h : WF s) :
    s.processNonMove cmd deltaE = .ok (T.processNonMove s cmd deltaE) := by
  unfold FState.processNonMove T.processNonMove
  by_cases h1 : deltaE < 0
  · simp only [h1, if_true, recordRetraction_ok s _ h (newRetr_ok cmd _ _), ok_bind]
    have hw := recordRetraction_WF s _ h (newRetr_ok cmd (-deltaE) s.feedRate)
    split
    · simp [n2l_ok hw.pos.2.2.2]
    · rfl
  · by_cases h2 : 0 < deltaE
    · simp only [h1, h2, if_true, if_false]; exact recoverRetractionIfNeeded_ok s cmd true h
    · by_cases he : s.excluding = true <;> simp [h1, h2, he]

theorem processNonMove_excluding (s : FState α) (cmd : Cmd α) (deltaE : α) :
    (T.processNonMove s cmd deltaE).1.excluding = s.excluding := by
  unfold T.processNonMove
  by_cases h1 : deltaE < 0
  · simp only [h1, if_true]
    split <;> exact recordRetraction_excluding s _
  · by_cases h2 : 0 < deltaE
    · simp only [h1, h2, if_true, if_false]; exact recoverRetractionIfNeeded_excluding s cmd true
    · by_cases he : s.excluding = true <;> simp [h1, h2, he]

theorem processNonMove_WF (s : FState α) (cmd : Cmd α) (deltaE : α) (h : WF s) :
    WF (T.processNonMove s cmd deltaE).1 := by
  unfold T.processNonMove
  by_cases h1 : deltaE < 0
  · simp only [h1, if_true]
    split <;> exact recordRetraction_WF s _ h (newRetr_ok cmd _ _)
  · by_cases h2 : 0 < deltaE
    · simp only [h1, h2, if_true, if_false]; exact recoverRetractionIfNeeded_WF s cmd true h
    · by_cases he : s.excluding = true <;> simp only [h1, h2, he, if_false, Bool.not_true,
        Bool.not_false, if_true, Bool.false_eq_true] <;> exact h

theorem enterExcludedRegion_WF (cfg : Config) (s : FState α) (h : WF s) :
    WF (T.enterExcludedRegion cfg s).1 ∧ (T.enterExcludedRegion cfg s).1.excluding = true := by
  unfold T.enterExcludedRegion
  by_cases he : s.excluding = true
  · rw [if_pos he]; exact ⟨h, he⟩
  · rw [if_neg he]
    exact ⟨⟨h.pos, h.fru, fun _ => ⟨s.position, rfl, h.pos⟩, h.retr⟩, rfl⟩

theorem processExcludedMove_ok (cfg : Config) (s : FState α) (cmd : Cmd α) (deltaE : α) (h : WF s)
    (hen : s.exclusionEnabled = true) :
    s.processExcludedMove cfg cmd deltaE = .ok (T.processExcludedMove cfg s cmd deltaE) := by
  unfold FState.processExcludedMove T.processExcludedMove
  by_cases he : s.excluding = true
  · simp only [he, Bool.not_true, Bool.false_eq_true, if_false, pure_eq_ok, ok_bind]
    by_cases h1 : deltaE < 0
    · simp [h1, processNonMove_ok s cmd deltaE h]
    · simp [h1]
  · simp only [he, Bool.not_false, if_true, enterExcludedRegion_ok cfg s hen, ok_bind]
    have hw : WF (T.enterExcludedRegion cfg s).1 := (enterExcludedRegion_WF cfg s h).1
    by_cases h1 : deltaE < 0
    · simp [h1, processNonMove_ok _ cmd deltaE hw]
    · simp [h1]

theorem processExcludedMove_WF (cfg : Config) (s : FState α) (cmd : Cmd α) (deltaE : α) (h : WF s) :
    WF (T.processExcludedMove cfg s cmd deltaE).1 ∧
    (T.processExcludedMove cfg s cmd deltaE).1.excluding = true := by
  unfold T.processExcludedMove
  have key : WF (if (!s.excluding) = true then T.enterExcludedRegion cfg s else (s, [])).1 ∧
      (if (!s.excluding) = true then T.enterExcludedRegion cfg s else (s, [])).1.excluding = true := by
    by_cases he : s.excluding = true
    · rw [if_neg (by simp [he])]; exact ⟨h, he⟩
    · rw [if_pos (by simp [he])]; exact enterExcludedRegion_WF cfg s h
  generalize (if (!s.excluding) = true then T.enterExcludedRegion cfg s else (s, [])) = r at key
  obtain ⟨s1, c1⟩ := r
  by_cases h1 : deltaE < 0
  · simp only [h1, if_true]
    exact ⟨processNonMove_WF s1 cmd deltaE key.1, (processNonMove_excluding s1 cmd deltaE).trans key.2⟩
  · simp only [h1, if_false]; exact key

end ERP

namespace ERP
open T
set_option linter.unusedSectionVars false
set_option linter.unusedSimpArgs false
variable {α : Type} [Field α] [LinearOrder α] [IsStrictOrderedRing α] [MathOps α]

theorem applyEZF_WF (s : FState α) (ep fr fz : Option α) (h : WF s) : WF (T.applyEZF s ep fr fz) := by
  have hp : PosOk ({ s.position with e := setLog s.position.e ep, z := setLog s.position.z fz } : Position α) :=
    ⟨h.pos.1, h.pos.2.1, setLog_AxisOk h.pos.2.2.1 fz, setLog_AxisOk h.pos.2.2.2 ep⟩
  unfold T.applyEZF
  cases fr with
  | none => exact ⟨hp, h.fru, h.lastPos, h.retr⟩
  | some f => exact ⟨hp, h.fru, h.lastPos, h.retr⟩

theorem applyEZF_frame (s : FState α) (ep fr fz : Option α) :
    (T.applyEZF s ep fr fz).excluding = s.excluding ∧
    (T.applyEZF s ep fr fz).exclusionEnabled = s.exclusionEnabled ∧
    (T.applyEZF s ep fr fz).position.x = s.position.x ∧
    (T.applyEZF s ep fr fz).position.y = s.position.y := by
  unfold T.applyEZF; cases fr <;> simp

theorem isAnyLoop_WF (pairs : List (Option α × Option α)) (s : FState α) (any : Bool) (h : WF s) :
    WF (T.isAnyLoop s pairs any).1 ∧ (T.isAnyLoop s pairs any).1.excluding = s.excluding ∧
    (T.isAnyLoop s pairs any).1.exclusionEnabled = s.exclusionEnabled := by
  obtain ⟨h1, h2, h3⟩ := isAnyLoop_frame pairs s any
  generalize T.isAnyLoop s pairs any = r at *
  simp only at h1
  refine ⟨?_, ?_, ?_⟩
  · rw [h1]
    exact ⟨⟨h2 h.pos.1, h3 h.pos.2.1, h.pos.2.2.1, h.pos.2.2.2⟩, h.fru, h.lastPos, h.retr⟩
  · rw [h1]
  · rw [h1]

theorem isAnyLoop_enabled (pairs : List (Option α × Option α)) :
    ∀ (s : FState α) (any : Bool), (T.isAnyLoop s pairs any).2 = true → any = true ∨ s.exclusionEnabled = true := by
  induction pairs with
  | nil => intro s any h; left; exact h
  | cons p rest ih =>
    intro s any h
    obtain ⟨px, py⟩ := p
    simp only [T.isAnyLoop] at h
    rcases ih _ _ h with h1 | h1
    · simp only [Bool.or_eq_true] at h1
      rcases h1 with h1 | h1
      · left; exact h1
      · right; simp only [T.isPointExcluded, Bool.and_eq_true] at h1; exact h1.1
    · right; exact h1

theorem applyEZF_ok (s : FState α) (ep fr fz : Option α) (xy : List (Option α × Option α)) (h : WF s) :
    s.applyEZF ep fr fz xy = .ok (T.applyEZF s ep fr fz, T.deltaEOf s ep, T.isMoveOf fz xy) := by
  have hE := h.pos.2.2.2
  have hZ := h.pos.2.2.1
  have hc := hE.cur_eq
  unfold FState.applyEZF
  cases ep with
  | none =>
    cases fz with
    | none => cases fr <;> simp [T.applyEZF, T.deltaEOf, T.isMoveOf, setLog]
    | some z => cases fr <;> simp [T.applyEZF, T.deltaEOf, T.isMoveOf, setLog, setLog_ok hZ]
  | some e =>
    cases fz with
    | none =>
      cases fr <;> simp [T.applyEZF, T.deltaEOf, T.isMoveOf, setLog_ok hE, hc] <;> simp [setLog, cur]
    | some z =>
      cases fr <;> simp [T.applyEZF, T.deltaEOf, T.isMoveOf, setLog_ok hE, hc, setLog_ok hZ] <;>
        simp [setLog, cur]

theorem moveBody_ok (cfg : Config) (s1 : FState α) (cmd : Cmd α) (dE pE : α) (start : Position α)
    (xy : List (Option α × Option α)) (hs1 : WF s1) :
    s1.moveBody cfg cmd dE (some pE) start xy = .ok (T.moveBody cfg s1 cmd dE pE start xy) := by
  unfold T.moveBody FState.moveBody FState.isAnyPointExcluded
  rw [isAnyLoop_ok xy s1 false hs1.pos.1 hs1.pos.2.1]
  simp only [ok_bind]
  obtain ⟨hw2, hex2, hen2⟩ := isAnyLoop_WF xy s1 false hs1
  have hen := isAnyLoop_enabled xy s1 false
  generalize T.isAnyLoop s1 xy false = r at *
  obtain ⟨s2, anyEx⟩ := r
  simp only at hw2 hex2 hen2 hen ⊢
  by_cases ha : anyEx = true
  · have : s2.exclusionEnabled = true := by
      rcases hen ha with hh | hh
      · simp at hh
      · rw [hen2]; exact hh
    simp only [ha, if_true, processExcludedMove_ok cfg s2 cmd dE hw2 this, ok_bind, pure_eq_ok]
  · simp only [ha, Bool.false_eq_true, if_false]
    by_cases he : s2.excluding = true
    · simp only [he, if_true, exitExcludedRegion_ok cfg s2 hw2]
    · simp only [he, Bool.false_eq_true, if_false]
      by_cases hd : dE = 0
      · simp [hd]
      · have hd' : (dE == 0) = false := by simpa using hd
        simp only [hd', Bool.not_false, if_true, recoverRetractionIfNeeded_ok s2 cmd false hw2, ok_bind]
        have hw3 := recoverRetractionIfNeeded_WF s2 cmd false hw2
        generalize T.recoverRetractionIfNeeded s2 cmd false = r3 at *
        obtain ⟨s3, c3⟩ := r3
        cases hl : s2.lastRetraction with
        | none => simp only [pure_eq_ok]
        | some lr =>
          simp only
          by_cases hq : (lr.recoverExcluded && !lr.firmwareRetract) = true
          · simp only [hq, if_true, n2lAbs_ok hw3.pos.2.2.2, ok_bind, pure_eq_ok]
          · simp only [hq, Bool.false_eq_true, if_false, pure_eq_ok]

/-- the inserted `G92 E` does not touch the filter state -/
theorem nonMoveBody_fst (s1 : FState α) (cmd : Cmd α) (dE pE : α) :
    (T.nonMoveBody s1 cmd dE pE).1 = (T.processNonMove s1 cmd dE).1 := by
  unfold T.nonMoveBody
  cases s1.lastRetraction with
  | none => rfl
  | some lr => simp only; split <;> rfl

theorem nonMoveBody_ok (s1 : FState α) (cmd : Cmd α) (dE pE : α) (hs1 : WF s1) :
    s1.nonMoveBody cmd dE (some pE) = .ok (T.nonMoveBody s1 cmd dE pE) := by
  unfold T.nonMoveBody FState.nonMoveBody
  simp only [processNonMove_ok s1 cmd dE hs1, ok_bind]
  have hw := processNonMove_WF s1 cmd dE hs1
  generalize T.processNonMove s1 cmd dE = r at *
  obtain ⟨s2, c2⟩ := r
  cases s1.lastRetraction with
  | none => simp only [pure_eq_ok]
  | some lr =>
    simp only
    split
    · simp only [n2lAbs_ok hw.pos.2.2.2, ok_bind, pure_eq_ok]
    · simp only [pure_eq_ok]

theorem processLinearMoves_ok (cfg : Config) (s : FState α) (cmd : Cmd α) (ep fr fz : Option α)
    (xy : List (Option α × Option α)) (h : WF s) :
    s.processLinearMoves cfg cmd ep fr fz xy = .ok (T.processLinearMoves cfg s cmd ep fr fz xy) := by
  have hs1 := applyEZF_WF s ep fr fz h
  unfold FState.processLinearMoves T.processLinearMoves
  simp only [applyEZF_ok s ep fr fz xy h, ok_bind, h.pos.2.2.2.cur_eq]
  by_cases hm : T.isMoveOf fz xy = true
  · simp only [hm, Bool.not_true, Bool.false_eq_true, if_false, moveBody_ok cfg _ cmd _ _ _ xy hs1,
      ok_bind, T.toResult]
    split <;> simp_all
  · simp only [hm, Bool.not_false, if_true, nonMoveBody_ok _ cmd _ _ hs1, ok_bind, T.toResult]
    split <;> simp_all

end ERP

namespace ERP
open T
set_option linter.unusedSectionVars false
set_option linter.unusedSimpArgs false
variable {α : Type} [Field α] [LinearOrder α] [IsStrictOrderedRing α] [MathOps α]

theorem moveBody_WF (cfg : Config) (s1 : FState α) (cmd : Cmd α) (dE pE : α) (start : Position α)
    (xy : List (Option α × Option α)) (hs1 : WF s1) (hst : PosOk start) :
    WF (T.moveBody cfg s1 cmd dE pE start xy).1 := by
  unfold T.moveBody
  obtain ⟨hw2, _, _⟩ := isAnyLoop_WF xy s1 false hs1
  generalize T.isAnyLoop s1 xy false = r at *
  obtain ⟨s2, anyEx⟩ := r
  simp only at hw2 ⊢
  by_cases ha : anyEx = true
  · simp only [ha, if_true]
    obtain ⟨hw, hex⟩ := processExcludedMove_WF cfg s2 cmd dE hw2
    generalize T.processExcludedMove cfg s2 cmd dE = r2 at *
    split
    · exact ⟨hw.pos, hw.fru, fun _ => ⟨start, rfl, hst⟩, hw.retr⟩
    · exact hw
  · simp only [ha, Bool.false_eq_true, if_false]
    by_cases he : s2.excluding = true
    · simp only [he, if_true]; exact exitExcludedRegion_WF cfg s2 hw2
    · simp only [he, Bool.false_eq_true, if_false]
      by_cases hd : (!(dE == 0)) = true
      · simp only [hd, if_true]
        have hw3 := recoverRetractionIfNeeded_WF s2 cmd false hw2
        generalize T.recoverRetractionIfNeeded s2 cmd false = r3 at *
        cases s2.lastRetraction with
        | none => exact hw3
        | some lr => simp only; split <;> exact hw3
      · simp only [hd, Bool.false_eq_true, if_false]; exact hw2

theorem toResult_fst (p : FState α × List (Out α)) : (T.toResult p).1 = p.1 := by
  unfold T.toResult; split <;> rfl

theorem processLinearMoves_WF (cfg : Config) (s : FState α) (cmd : Cmd α) (ep fr fz : Option α)
    (xy : List (Option α × Option α)) (h : WF s) :
    WF (T.processLinearMoves cfg s cmd ep fr fz xy).1 := by
  unfold T.processLinearMoves
  simp only [toResult_fst]
  have hs1 := applyEZF_WF s ep fr fz h
  split
  · rw [nonMoveBody_fst]; exact processNonMove_WF _ cmd _ hs1
  · exact moveBody_WF cfg _ cmd _ _ _ xy hs1 h.pos

/-- shape of results: `ignore` or a non-empty list -/
def Result.Shape : Result α → Prop
  | .none => True
  | .ignore => True
  | .list l => l ≠ []

theorem toResult_shape (p : FState α × List (Out α)) : Result.Shape (T.toResult p).2 := by
  unfold T.toResult
  split
  · trivial
  · rename_i h; simpa [Result.Shape] using h

end ERP

namespace ERP
open T
set_option linter.unusedSectionVars false
set_option linter.unusedSimpArgs false
variable {α : Type} [Field α] [LinearOrder α] [IsStrictOrderedRing α] [MathOps α] [MathSpec α]

theorem ofNat_ne_zero {n : Nat} (h : 1 ≤ n) : (MathOps.ofNat n : α) ≠ 0 := by
  rw [MathSpec.ofNat_eq]
  exact Nat.cast_ne_zero.mpr (by omega)

theorem planArc_ok (p : Position α) (endX endY i j : α) (cw : Bool) (hx : AxisOk p.x) (hy : AxisOk p.y) :
    ERP.planArc p endX endY i j (-i) (-j) cw = .ok (T.planArc p endX endY i j cw) := by
  unfold ERP.planArc T.planArc
  simp only [n2l_ok hx, n2l_ok hy, ok_bind]
  rw [pyDiv_ok _ _ (ofNat_ne_zero (le_max_left 1 _))]
  rfl

theorem planArc_ok' (p : Position α) (endX endY i j ni nj : α) (cw : Bool) (hx : AxisOk p.x) (hy : AxisOk p.y)
    (hi : ni = -i) (hj : nj = -j) :
    ERP.planArc p endX endY i j ni nj cw = .ok (T.planArc p endX endY i j cw) := by
  subst hi hj; exact planArc_ok p endX endY i j cw hx hy

theorem pyAbs_eq (x : α) : pyAbs x = |x| := by
  unfold pyAbs
  split
  · rename_i h; rw [abs_of_neg h]
  · rename_i h; rw [abs_of_nonneg (not_lt.mp h)]

theorem hypot_ne_zero {x y : α} (h : x ≠ 0 ∨ y ≠ 0) : (MathOps.hypot x y : α) ≠ 0 := by
  intro h0
  have hs := MathSpec.hypot_sq x y
  rw [h0] at hs
  have : x * x + y * y = 0 := by linarith
  have hx : x * x = 0 := by nlinarith [mul_self_nonneg x, mul_self_nonneg y]
  have hy : y * y = 0 := by nlinarith [mul_self_nonneg x, mul_self_nonneg y]
  rcases h with h | h
  · exact h (mul_self_eq_zero.mp hx)
  · exact h (mul_self_eq_zero.mp hy)

theorem computeArcCenterOffsets_ok (p : Position α) (endX endY radius : α) (cw : Bool)
    (hx : AxisOk p.x) (hy : AxisOk p.y) :
    ERP.computeArcCenterOffsets p endX endY radius cw =
      .ok (T.computeArcCenterOffsets p endX endY radius cw) := by
  unfold ERP.computeArcCenterOffsets T.computeArcCenterOffsets
  simp only [n2l_ok hx, n2l_ok hy, ok_bind]
  split
  · rename_i hc
    simp only [Bool.and_eq_true, Bool.not_eq_true', beq_eq_false_iff_ne, ne_eq, Bool.or_eq_true] at hc
    have hd : (MathOps.hypot (endX - n2l p.x) (endY - n2l p.y) : α) ≠ 0 := by
      apply hypot_ne_zero
      rcases hc.2 with h | h
      · left; intro h0; exact h (by linarith)
      · right; intro h0; exact h (by linarith)
    split
    · rename_i hh
      have harg : ¬ (radius * radius - MathOps.hypot (endX - n2l p.x) (endY - n2l p.y) / 2 *
          (MathOps.hypot (endX - n2l p.x) (endY - n2l p.y) / 2) < 0) := by
        rw [pyAbs_eq] at hh
        have h0 : (0:α) ≤ MathOps.hypot (endX - n2l p.x) (endY - n2l p.y) / 2 :=
          div_nonneg (MathSpec.hypot_nonneg _ _) (by norm_num)
        have := mul_le_mul hh hh h0 (abs_nonneg radius)
        rw [abs_mul_abs_self] at this
        linarith
      simp only [harg, if_false, pyDiv_ok _ _ hd, ok_bind]
    · rfl
  · rfl

theorem handleG0_ok (cfg : Config) (s : FState α) (cmd : Cmd α) (h : WF s) :
    ERP.handleG0 cfg s cmd = .ok (T.handleG0 cfg s cmd) :=
  processLinearMoves_ok cfg s cmd _ _ _ _ h

theorem handleG2_ok (cfg : Config) (s : FState α) (cmd : Cmd α) (cw : Bool) (h : WF s) :
    ERP.handleG2 cfg s cmd cw = .ok (T.handleG2 cfg s cmd cw) := by
  obtain ⟨hx, hy, hz, _⟩ := h.pos
  unfold ERP.handleG2 T.handleG2
  simp only [n2l_ok hx, n2l_ok hy, n2l_ok hz, ok_bind]
  cases hr : lastValue cmd.words 'R' with
  | none =>
    simp only [pure_eq_ok, ok_bind]
    split
    · rw [planArc_ok' _ _ _ _ _ _ _ _ hx hy
        (by cases lastValue cmd.words 'I' <;> simp) (by cases lastValue cmd.words 'J' <;> simp)]
      simp only [ok_bind]
      exact processLinearMoves_ok cfg s cmd _ _ _ _ h
    · rfl
  | some r =>
    simp only [computeArcCenterOffsets_ok _ _ _ _ _ hx hy, ok_bind, pure_eq_ok]
    generalize T.computeArcCenterOffsets s.position _ _ r cw = ij
    obtain ⟨i, j⟩ := ij
    simp only
    split
    · rw [planArc_ok _ _ _ _ _ _ hx hy]; simp only [ok_bind]
      exact processLinearMoves_ok cfg s cmd _ _ _ _ h
    · rfl

theorem handleG10_ok (s : FState α) (cmd : Cmd α) (h : WF s) :
    ERP.handleG10 s cmd = .ok (T.handleG10 s cmd) := by
  unfold ERP.handleG10 T.handleG10
  split
  · rfl
  · rw [recordRetraction_ok s _ h (fun hf => by simp at hf)]
    simp only [ok_bind, T.toResult]
    split <;> simp_all

theorem handleG11_ok (s : FState α) (cmd : Cmd α) (h : WF s) :
    ERP.handleG11 s cmd = .ok (T.handleG11 s cmd) := by
  unfold ERP.handleG11 T.handleG11
  rw [recoverRetractionIfNeeded_ok s cmd true h]
  simp only [ok_bind, T.toResult]
  split <;> simp_all

end ERP

namespace ERP
open T
set_option linter.unusedSectionVars false
set_option linter.unusedSimpArgs false
variable {α : Type} [Field α] [LinearOrder α] [IsStrictOrderedRing α] [MathOps α] [MathSpec α]

theorem setOffsetPos_AxisOk {a : Axis α} (h : AxisOk a) (v : α) : AxisOk (setOffsetPos a v) := h
theorem setHomeOffset_AxisOk {a : Axis α} (h : AxisOk a) (v : α) : AxisOk (T.setHomeOffset a v) :=
  ⟨rfl, h.2⟩

theorem g92Step_ok (p : Position α) (kv : Char × Option α) (h : PosOk p) :
    ERP.g92Step p kv = .ok (T.g92Step p kv) ∧ PosOk (T.g92Step p kv) := by
  obtain ⟨k, v⟩ := kv
  obtain ⟨hx, hy, hz, he⟩ := h
  cases v with
  | none => exact ⟨rfl, hx, hy, hz, he⟩
  | some v =>
    unfold ERP.g92Step T.g92Step
    simp only
    split
    · exact ⟨by simp [setLog_ok he], hx, hy, hz, setLog_AxisOk he _⟩
    · split
      · exact ⟨by simp [setOffsetPos_ok hx], setOffsetPos_AxisOk hx v, hy, hz, he⟩
      · split
        · exact ⟨by simp [setOffsetPos_ok hy], hx, setOffsetPos_AxisOk hy v, hz, he⟩
        · split
          · exact ⟨by simp [setOffsetPos_ok hz], hx, hy, setOffsetPos_AxisOk hz v, he⟩
          · exact ⟨rfl, hx, hy, hz, he⟩

theorem m206Step_ok (p : Position α) (kv : Char × Option α) (h : PosOk p) :
    ERP.m206Step p kv = .ok (T.m206Step p kv) ∧ PosOk (T.m206Step p kv) := by
  obtain ⟨k, v⟩ := kv
  obtain ⟨hx, hy, hz, he⟩ := h
  cases v with
  | none => exact ⟨rfl, hx, hy, hz, he⟩
  | some v =>
    unfold ERP.m206Step T.m206Step
    simp only
    split
    · exact ⟨by simp [setHomeOffset_ok hx], setHomeOffset_AxisOk hx v, hy, hz, he⟩
    · split
      · exact ⟨by simp [setHomeOffset_ok hy], hx, setHomeOffset_AxisOk hy v, hz, he⟩
      · split
        · exact ⟨by simp [setHomeOffset_ok hz], hx, hy, setHomeOffset_AxisOk hz v, he⟩
        · exact ⟨rfl, hx, hy, hz, he⟩

theorem foldE_ok {σ β : Type} (P : σ → Prop) (f : σ → β → Except PyErr σ) (g : σ → β → σ)
    (hf : ∀ s b, P s → f s b = .ok (g s b) ∧ P (g s b)) :
    ∀ (l : List β) (s : σ), P s → foldE f s l = .ok (l.foldl g s) ∧ P (l.foldl g s) := by
  intro l
  induction l with
  | nil => intro s hs; exact ⟨rfl, hs⟩
  | cons b bs ih =>
    intro s hs
    obtain ⟨h1, h2⟩ := hf s b hs
    simp only [foldE, h1, ok_bind, List.foldl_cons]
    exact ih _ h2

theorem WF.withPos {s : FState α} (h : WF s) {p : Position α} (hp : PosOk p) :
    WF { s with position := p } := ⟨hp, h.fru, h.lastPos, h.retr⟩

theorem handleG28_WF (s : FState α) (cmd : Cmd α) (h : WF s) : WF (handleG28 s cmd) := by
  unfold handleG28
  obtain ⟨hx, hy, hz, he⟩ := h.pos
  have home : ∀ a : Axis α, AxisOk a → AxisOk a.setHome := fun a ha => ⟨rfl, ha.2⟩
  apply h.withPos
  split <;> split <;> split <;> exact ⟨by first | exact home _ hx | exact hx,
    by first | exact home _ hy | exact hy, by first | exact home _ hz | exact hz, he⟩

theorem setUnitMultiplier_WF (s : FState α) (u : α) (hu : u ≠ 0) (h : WF s) :
    WF (s.setUnitMultiplier u) := by
  obtain ⟨hx, hy, hz, he⟩ := h.pos
  exact ⟨⟨⟨hx.1, hu⟩, ⟨hy.1, hu⟩, ⟨hz.1, hu⟩, ⟨he.1, hu⟩⟩, hu, h.lastPos, h.retr⟩

theorem setAbsoluteMode_WF (cfg : Config) (s : FState α) (b : Bool) (h : WF s) :
    WF (s.setAbsoluteMode cfg b) := by
  obtain ⟨hx, hy, hz, he⟩ := h.pos
  unfold FState.setAbsoluteMode
  split
  · exact ⟨⟨hx, hy, hz, he⟩, h.fru, h.lastPos, h.retr⟩
  · exact ⟨⟨hx, hy, hz, he⟩, h.fru, h.lastPos, h.retr⟩

theorem processExtendedGcode_WF (cfg : Config) (s : FState α) (cmd : Cmd α) (g : String) (h : WF s) :
    WF (s.processExtendedGcode cfg cmd g).1 := by
  unfold FState.processExtendedGcode
  split
  · split
    · rename_i m _
      simp only
      unfold FState.processExtendedGcodeEntry
      cases m <;> simp only
      · exact h
      · split <;> first | exact h | exact h.of_eq rfl rfl (fun hx => ⟨hx, rfl⟩) rfl
      · exact h.of_eq rfl rfl (fun hx => ⟨hx, rfl⟩) rfl
      · exact h.of_eq rfl rfl (fun hx => ⟨hx, rfl⟩) rfl
    · exact h
  · exact h

theorem processExtendedGcode_shape (cfg : Config) (s : FState α) (cmd : Cmd α) (g : String) :
    Result.Shape (s.processExtendedGcode cfg cmd g).2 := by
  unfold FState.processExtendedGcode
  split
  · split <;> trivial
  · trivial

theorem handleG2_WF (cfg : Config) (s : FState α) (cmd : Cmd α) (cw : Bool) (h : WF s) :
    WF (T.handleG2 cfg s cmd cw).1 ∧ Result.Shape (T.handleG2 cfg s cmd cw).2 := by
  unfold T.handleG2
  dsimp only
  cases lastValue cmd.words 'R' with
  | none =>
    dsimp only
    split
    · exact ⟨processLinearMoves_WF cfg s cmd _ _ _ _ h, toResult_shape _⟩
    · exact ⟨h, trivial⟩
  | some r =>
    dsimp only
    split
    · exact ⟨processLinearMoves_WF cfg s cmd _ _ _ _ h, toResult_shape _⟩
    · exact ⟨h, trivial⟩

theorem handleG10_WF (s : FState α) (cmd : Cmd α) (h : WF s) :
    WF (T.handleG10 s cmd).1 ∧ Result.Shape (T.handleG10 s cmd).2 := by
  unfold T.handleG10
  split
  · exact ⟨h, trivial⟩
  · rw [toResult_fst]
    exact ⟨recordRetraction_WF s _ h (fun hf => by simp at hf), toResult_shape _⟩

theorem handleG11_WF (s : FState α) (cmd : Cmd α) (h : WF s) :
    WF (T.handleG11 s cmd).1 ∧ Result.Shape (T.handleG11 s cmd).2 := by
  unfold T.handleG11
  rw [toResult_fst]
  exact ⟨recoverRetractionIfNeeded_WF s cmd true h, toResult_shape _⟩

/-- **Refinement / totality.** On a well-formed state `handleGcode` does not raise: it returns
`.ok` of the total model's step, the new state is well-formed again, and the result has the shape
the hook protocol requires. -/
theorem handleGcode_ok (cfg : Config) (inch : α) (hinch : inch ≠ 0) (s : FState α) (g : String)
    (cmd : Cmd α) (h : WF s) :
    ERP.handleGcode cfg inch s g cmd = .ok (T.handleGcode cfg inch s g cmd) ∧
    WF (T.handleGcode cfg inch s g cmd).1 ∧ Result.Shape (T.handleGcode cfg inch s g cmd).2 := by
  unfold ERP.handleGcode T.handleGcode
  generalize Code.ofString g = c
  cases c with
  | G0 =>
    exact ⟨handleG0_ok cfg s cmd h, processLinearMoves_WF cfg s cmd _ _ _ _ h, toResult_shape _⟩
  | G1 =>
    exact ⟨handleG0_ok cfg s cmd h, processLinearMoves_WF cfg s cmd _ _ _ _ h, toResult_shape _⟩
  | G2 => exact ⟨handleG2_ok cfg s cmd true h, handleG2_WF cfg s cmd true h⟩
  | G3 => exact ⟨handleG2_ok cfg s cmd false h, handleG2_WF cfg s cmd false h⟩
  | G10 => exact ⟨handleG10_ok s cmd h, handleG10_WF s cmd h⟩
  | G11 => exact ⟨handleG11_ok s cmd h, handleG11_WF s cmd h⟩
  | G20 => exact ⟨rfl, setUnitMultiplier_WF s inch hinch h, trivial⟩
  | G21 => exact ⟨rfl, setUnitMultiplier_WF s 1 one_ne_zero h, trivial⟩
  | G28 => exact ⟨rfl, handleG28_WF s cmd h, trivial⟩
  | G90 => exact ⟨rfl, setAbsoluteMode_WF cfg s true h, trivial⟩
  | G91 => exact ⟨rfl, setAbsoluteMode_WF cfg s false h, trivial⟩
  | G92 =>
    obtain ⟨h1, h2⟩ := foldE_ok PosOk ERP.g92Step T.g92Step g92Step_ok cmd.words s.position h.pos
    exact ⟨by simp only [h1, ok_bind], h.withPos h2, trivial⟩
  | M206 =>
    obtain ⟨h1, h2⟩ := foldE_ok PosOk ERP.m206Step T.m206Step m206Step_ok cmd.words s.position h.pos
    exact ⟨by simp only [h1, ok_bind], h.withPos h2, trivial⟩
  | other n =>
    exact ⟨rfl, processExtendedGcode_WF cfg s cmd g h, processExtendedGcode_shape cfg s cmd g⟩

theorem atLoop_ok (cfg : Config) (params : Text) (entries : List AtEntry) :
    ∀ (s : FState α) (handled : Bool) (sent : List (Out α)), WF s →
      ERP.atLoop cfg params entries s handled sent = .ok (T.atLoop cfg params entries s handled sent) ∧
      WF (T.atLoop cfg params entries s handled sent).1 := by
  induction entries with
  | nil => intro s hd sent h; exact ⟨rfl, h⟩
  | cons e rest ih =>
    intro s hd sent h
    unfold ERP.atLoop T.atLoop
    split
    · cases e.action with
      | enable =>
        exact ih _ _ _ (h.of_eq rfl rfl (fun hx => ⟨hx, rfl⟩) rfl)
      | disable =>
        simp only [disableExclusion_ok cfg s h, ok_bind]
        exact ih _ _ _ (disableExclusion_WF cfg s h)
      | unsupported => exact ih _ _ _ h
    · exact ih _ _ _ h

theorem handleAtCommand_ok (cfg : Config) (s : FState α) (streaming : Bool) (cmd : String)
    (params : Text) (h : WF s) :
    ERP.handleAtCommand cfg s streaming cmd params = .ok (T.handleAtCommand cfg s streaming cmd params) ∧
    WF (T.handleAtCommand cfg s streaming cmd params).1 := by
  unfold ERP.handleAtCommand T.handleAtCommand
  split
  · exact ⟨rfl, h⟩
  · exact atLoop_ok cfg params _ s false [] h

end ERP
