import ERP.Lemmas.RegexSound
import ERP.Gen.Regexes
/-! # The capture spans of `REGEX_GCODE_LINE` partition the matched text

Proved for the *shape* of the generated regex (five top-level groups 1, 2, 11, 12?, 13; the
checksum group 10 last inside the first alternative of group 2); `gcodeLine_shape` checks by `rfl`
that the regex regenerated from the source still has that shape. -/
namespace ERP.Rx

theorem frame_cap {ctx : Ctx} {gs : List Nat} {p p' : Nat} {c c' : Caps}
    (h : Frame ctx gs p c p' c') (j : Nat) (hj : j ∉ gs) : capOf c' j = capOf c j := h.2.2 j hj

/-- trailing whitespace, optional comment, end of line -/
theorem tail_stage (ctx : Ctx) (W C E : Re) (hW : W.groups = []) (hC : C.groups = []) (hE : E.groups = [])
    (p2 : Nat) (c2 : Caps) (hp2 : p2 ≤ ctx.s.size) :
    WP ctx (.seq (.group 11 W) (.seq (.rep true 0 (some 1) (.group 12 C)) (.group 13 E))) p2 c2
      (fun e caps => ∃ p3 p4, p2 ≤ p3 ∧ p3 ≤ p4 ∧ p4 ≤ e ∧ e ≤ ctx.s.size ∧
        capOf caps 11 = some (p2, p3) ∧
        ((capOf caps 12 = capOf c2 12 ∧ p4 = p3) ∨ capOf caps 12 = some (p3, p4)) ∧
        capOf caps 13 = some (p4, e) ∧
        ∀ j, j ≠ 11 → j ≠ 12 → j ≠ 13 → capOf caps j = capOf c2 j) := by
  apply wp_seq
  apply wp_group
  apply wp_any W hp2
  intro p3 c3 f3
  rw [hW] at f3
  -- the last group, from position p4 with captures c4
  have last : ∀ (p4 : Nat) (c4 : Caps), p4 ≤ ctx.s.size →
      WP ctx (.group 13 E) p4 c4 (fun e caps => p4 ≤ e ∧ e ≤ ctx.s.size ∧ capOf caps 13 = some (p4, e) ∧
        ∀ j, j ≠ 13 → capOf caps j = capOf c4 j) := by
    intro p4 c4 hp4
    apply wp_group
    apply wp_any E hp4
    intro e c5 f5
    rw [hE] at f5
    refine ⟨f5.1, f5.2.1, capOf_cons_eq _ _ _ _, fun j hj => ?_⟩
    rw [capOf_cons_ne _ _ _ _ _ hj]; exact frame_cap f5 j (by simp)
  apply wp_seq
  apply wp_opt
  · -- no comment
    apply wp_mono (last p3 _ f3.2.1)
    intro e caps ⟨h1, h2, h3, h4⟩
    refine ⟨p3, p3, f3.1, Nat.le_refl _, h1, h2, ?_, Or.inl ⟨?_, rfl⟩, h3, fun j j11 j12 j13 => ?_⟩
    · rw [h4 11 (by decide)]; exact capOf_cons_eq _ _ _ _
    · rw [h4 12 (by decide), capOf_cons_ne _ _ _ _ _ (by decide)]; exact frame_cap f3 12 (by simp)
    · rw [h4 j j13, capOf_cons_ne _ _ _ _ _ j11]; exact frame_cap f3 j (by simp)
  · -- a comment
    apply wp_group
    apply wp_any C f3.2.1
    intro p4 c4 f4
    rw [hC] at f4
    apply wp_mono (last p4 _ f4.2.1)
    intro e caps ⟨h1, h2, h3, h4⟩
    refine ⟨p3, p4, f3.1, f4.1, h1, h2, ?_, Or.inr ?_, h3, fun j j11 j12 j13 => ?_⟩
    · rw [h4 11 (by decide), capOf_cons_ne _ _ _ _ _ (by decide), frame_cap f4 11 (by simp)]
      exact capOf_cons_eq _ _ _ _
    · rw [h4 12 (by decide)]; exact capOf_cons_eq _ _ _ _
    · rw [h4 j j13, capOf_cons_ne _ _ _ _ _ j12, frame_cap f4 j (by simp), capOf_cons_ne _ _ _ _ _ j11]
      exact frame_cap f3 j (by simp)


theorem wp_pre {ctx : Ctx} {a rest : Re} {p : Nat} {c : Caps} {Q : Nat → Caps → Prop} (hp : p ≤ ctx.s.size)
    (h : ∀ p' c', Frame ctx a.groups p c p' c' → WP ctx rest p' c' Q) : WP ctx (.seq a rest) p c Q := by
  apply wp_seq; exact wp_any a hp h

/-- the body (group 2): either line number, code, parameters and an optional `*checksum` whose
digits (group 10) end the body, or arbitrary text -/
theorem body_stage (ctx : Ctx) (a1 a2 a3 a4 a5 a6 D B : Re) (G : List Nat)
    (hG : G = a1.groups ++ a2.groups ++ a3.groups ++ a4.groups ++ a5.groups ++ a6.groups ++ D.groups ++ B.groups)
    (p1 : Nat) (c : Caps) (hp1 : p1 ≤ ctx.s.size) :
    WP ctx (.alt (.seq a1 (.seq a2 (.seq a3 (.seq a4 (.seq a5 (.seq a6
        (.rep true 0 (some 1) (.seq (.chars false [.lit '*']) (.group 10 D)))))))))
        B) p1 c
      (fun p2 c' => p1 ≤ p2 ∧ p2 ≤ ctx.s.size ∧
        (∀ j, j ∉ G → j ≠ 10 → capOf c' j = capOf c j) ∧
        ((10 ∉ G → capOf c' 10 = capOf c 10) ∨
          ∃ a, capOf c' 10 = some (a, p2) ∧ p1 < a ∧ a ≤ p2 ∧ ∃ h : a - 1 < ctx.s.size, ctx.s[a - 1] = '*')) := by
  apply wp_alt
  · apply wp_pre hp1; intro q1 c1 f1
    apply wp_pre f1.2.1; intro q2 c2 f2
    apply wp_pre f2.2.1; intro q3 c3 f3
    apply wp_pre f3.2.1; intro q4 c4 f4
    apply wp_pre f4.2.1; intro q5 c5 f5
    apply wp_pre f5.2.1; intro q6 c6 f6
    have F : Frame ctx G p1 c q6 c6 := by
      subst hG
      refine Frame.trans (f1.mono ?_) (Frame.trans (f2.mono ?_) (Frame.trans (f3.mono ?_)
        (Frame.trans (f4.mono ?_) (Frame.trans (f5.mono ?_) (f6.mono ?_))))) <;>
      · intro j hj; simp only [List.mem_append]; simp [hj]
    apply wp_opt
    · exact ⟨F.1, F.2.1, fun j hj _ => F.2.2 j hj, Or.inl (fun h => F.2.2 10 h)⟩
    · apply wp_seq
      apply wp_chars
      intro hq ht
      apply wp_group
      apply wp_any D (by omega)
      intro p2 c7 f7
      refine ⟨by have := f7.1; have := F.1; omega, f7.2.1, fun j hj j10 => ?_, Or.inr ⟨q6 + 1, capOf_cons_eq _ _ _ _, ?_, f7.1, ?_⟩⟩
      · rw [capOf_cons_ne _ _ _ _ _ j10, frame_cap f7 j (fun h => hj (by subst hG; simp [h]))]
        exact F.2.2 j hj
      · have := F.1; omega
      · refine ⟨by simpa using hq, ?_⟩
        simp only [List.any_cons, List.any_nil, Bool.or_false, CC.test, bne_iff_ne, ne_eq, Bool.not_eq_false,
          beq_iff_eq] at ht
        simpa using ht
  · apply wp_any B hp1
    intro p2 c' f
    refine ⟨f.1, f.2.1, fun j hj _ => frame_cap f j (fun h => hj (by subst hG; simp [h])), Or.inl (fun h => ?_)⟩
    exact frame_cap f 10 (fun h' => h (by subst hG; simp [h']))

/-- What a successful match of `REGEX_GCODE_LINE` guarantees about its capture groups. -/
structure LineSpans (s : Array Char) (off e : Nat) (caps : Caps) : Prop where
  ex : ∃ p1 p2 p3 p4, off ≤ p1 ∧ p1 ≤ p2 ∧ p2 ≤ p3 ∧ p3 ≤ p4 ∧ p4 ≤ e ∧ e ≤ s.size ∧
    capOf caps 1 = some (off, p1) ∧ capOf caps 2 = some (p1, p2) ∧ capOf caps 11 = some (p2, p3) ∧
    ((capOf caps 12 = none ∧ p4 = p3) ∨ capOf caps 12 = some (p3, p4)) ∧
    capOf caps 13 = some (p4, e) ∧
    (capOf caps 10 = none ∨
      ∃ a, capOf caps 10 = some (a, p2) ∧ p1 < a ∧ a ≤ p2 ∧ ∃ h : a - 1 < s.size, s[a - 1] = '*')

theorem gcodeLine_wp (s : Array Char) (off : Nat) (hoff : off ≤ s.size) :
    WP ⟨s⟩ Gen.gcodeLine off [] (fun e caps => LineSpans s off e caps) := by
  unfold Gen.gcodeLine
  apply wp_seq
  apply wp_group
  apply wp_any _ hoff
  intro p1 c1 f1
  apply wp_seq
  apply wp_group
  apply wp_mono (body_stage ⟨s⟩ _ _ _ _ _ _ _ _ _ rfl p1 _ f1.2.1)
  intro p2 c2 ⟨h12, hp2, hkeep, h10⟩
  apply wp_mono (tail_stage ⟨s⟩ _ _ _ rfl rfl rfl p2 _ hp2)
  intro e caps ⟨p3, p4, h23, h34, h4e, he, c11, c12, c13, hrest⟩
  refine ⟨p1, p2, p3, p4, f1.1, h12, h23, h34, h4e, he, ?_, ?_, c11, ?_, c13, ?_⟩
  · rw [hrest 1 (by decide) (by decide) (by decide), capOf_cons_ne _ _ _ _ _ (by decide),
      hkeep 1 (by decide) (by decide)]
    exact capOf_cons_eq _ _ _ _
  · rw [hrest 2 (by decide) (by decide) (by decide)]; exact capOf_cons_eq _ _ _ _
  · rcases c12 with ⟨h, rfl⟩ | h
    · left; refine ⟨?_, rfl⟩
      rw [h, capOf_cons_ne _ _ _ _ _ (by decide), hkeep 12 (by decide) (by decide),
        capOf_cons_ne _ _ _ _ _ (by decide), frame_cap f1 12 (by decide)]
      rfl
    · right; exact h
  · rw [hrest 10 (by decide) (by decide) (by decide), capOf_cons_ne _ _ _ _ _ (by decide)]
    rcases h10 with h | ⟨a, h1, h2, h3, h4⟩
    · left
      rw [h (by decide), capOf_cons_ne _ _ _ _ _ (by decide), frame_cap f1 10 (by decide)]
      rfl
    · right; exact ⟨a, h1, h2, h3, h4⟩

/-- **Span theorem.**  Whenever `REGEX_GCODE_LINE` (as regenerated from the source) matches at
`off`, its groups 1, 2, 11, 12 (optional) and 13 tile the matched text `[off, e)` in this order,
and the checksum digits, when present, are the tail of group 2 preceded by `*`. -/
theorem gcodeLine_spans (s : Array Char) (off e : Nat) (caps : Caps) (hoff : off ≤ s.size)
    (h : matchAt Gen.gcodeLine s off = some (e, caps)) : LineSpans s off e caps := by
  unfold matchAt at h
  obtain ⟨p', c', hq, hk⟩ := gcodeLine_wp s off hoff _ _ _ h
  cases hk
  exact hq

/-- **Progress.** A match of `REGEX_GCODE_LINE` either consumes at least one character or sits at
the very end of the text. -/
theorem gcodeLine_progress (s : Array Char) (off e : Nat) (caps : Caps) (hoff : off ≤ s.size)
    (h : matchAt Gen.gcodeLine s off = some (e, caps)) : off < e ∨ e = s.size := by
  have key : WP ⟨s⟩ Gen.gcodeLine off [] (fun e _ => off < e ∨ e = s.size) := by
    unfold Gen.gcodeLine
    apply wp_pre hoff; intro p1 c1 f1
    apply wp_pre f1.2.1; intro p2 c2 f2
    apply wp_pre f2.2.1; intro p3 c3 f3
    apply wp_pre f3.2.1; intro p4 c4 f4
    have h04 : off ≤ p4 := by have := f1.1; have := f2.1; have := f3.1; have := f4.1; omega
    apply wp_group
    apply wp_alt
    · apply wp_seq; apply wp_chars; intro _ _; apply wp_chars; intro _ _; left; omega
    apply wp_alt
    · apply wp_chars; intro _ _; left; omega
    apply wp_alt
    · apply wp_chars; intro _ _; left; omega
    · apply wp_at'
      intro hk
      right
      simpa [atOk] using hk
  unfold matchAt at h
  obtain ⟨p', c', hq, hk⟩ := key _ _ _ h
  cases hk
  exact hq

end ERP.Rx
