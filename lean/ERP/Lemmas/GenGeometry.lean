import ERP.Gen.Geometry
import ERP.Model.Region
/-! # The region geometry of the model *is* the source's

`ERP/Gen/Geometry.lean` is regenerated on every run from the Python expressions of
`RectangularRegion.py` / `CircularRegion.py` (`containsPoint`, the `isinstance` branches of
`containsRegion`, the corner ordering of the constructor).  These theorems state that the
hand-written model `Model/Region.lean` — about which C17, C12 and C01 are proved — computes exactly
those expressions, for every argument and every arithmetic (`rfl`: `a ≥ b` unfolds to `b ≤ a`).
A changed operator or operand in the source makes one of them fail. -/
namespace ERP
set_option linter.unusedSectionVars false
variable {α : Type} [Add α] [Sub α] [LT α] [LE α] [DecidableLT α] [DecidableLE α] [MathOps α]

theorem gen_rect_containsPoint (i : String) (x1 y1 x2 y2 x y : α) :
    (Region.rect i x1 y1 x2 y2).containsPoint x y = Gen.rectContainsPoint x1 y1 x2 y2 x y := rfl

theorem gen_circle_containsPoint (i : String) (cx cy r x y : α) :
    (Region.circle i cx cy r).containsPoint x y = Gen.circleContainsPoint cx cy r x y := rfl

theorem gen_rect_containsRect (i j : String) (x1 y1 x2 y2 a1 b1 a2 b2 : α) :
    (Region.rect i x1 y1 x2 y2).containsRegion (.rect j a1 b1 a2 b2) =
      Gen.rectContainsRect x1 y1 x2 y2 a1 b1 a2 b2 := rfl

theorem gen_rect_containsCircle (i j : String) (x1 y1 x2 y2 cx cy r : α) :
    (Region.rect i x1 y1 x2 y2).containsRegion (.circle j cx cy r) =
      Gen.rectContainsCircle x1 y1 x2 y2 cx cy r := rfl

theorem gen_circle_containsRect (i j : String) (cx cy r a1 b1 a2 b2 : α) :
    (Region.circle i cx cy r).containsRegion (.rect j a1 b1 a2 b2) =
      Gen.circleContainsRect cx cy r a1 b1 a2 b2 := rfl

theorem gen_circle_containsCircle (i j : String) (cx cy r ox oy orr : α) :
    (Region.circle i cx cy r).containsRegion (.circle j ox oy orr) =
      Gen.circleContainsCircle cx cy r ox oy orr := rfl

theorem gen_mkRect (i : String) (x1 y1 x2 y2 : α) :
    Region.mkRect i x1 y1 x2 y2 =
      .rect i (Gen.rectOrder x1 y1 x2 y2).1 (Gen.rectOrder x1 y1 x2 y2).2.1
        (Gen.rectOrder x1 y1 x2 y2).2.2.1 (Gen.rectOrder x1 y1 x2 y2).2.2.2 := by
  unfold Region.mkRect Gen.rectOrder
  by_cases hx : x2 < x1 <;> by_cases hy : y2 < y1 <;> simp only [hx, hy, if_true, if_false]

end ERP
