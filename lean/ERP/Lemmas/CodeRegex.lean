import ERP.Lemmas.RegexExact
import ERP.Gen.Regexes
/-! # `REGEX_GCODE_CODE`: a successful match captured a type letter and a non-empty code number -/
namespace ERP.Rx

/-- every result of a greedy star over a class comes from the continuation at a later position
(inside the text, unless it is the starting position itself), with the captures untouched -/
theorem starG_wp {R : Type} (ctx : Ctx) (neg : Bool) (items : List CC) (k : Nat → Caps → Option R)
    (c : Caps) : ∀ f p res, starG ctx neg items k c f p = some res →
      ∃ p', p ≤ p' ∧ (p' = p ∨ p' ≤ ctx.s.size) ∧ k p' c = some res := by
  intro f
  induction f with
  | zero => intro p res h; exact ⟨p, Nat.le_refl _, Or.inl rfl, h⟩
  | succ f ih =>
    intro p res h
    simp only [starG] at h
    split at h
    · rename_i hp
      have hlt : p < ctx.s.size := by
        unfold passes at hp
        split at hp
        · assumption
        · cases hp
      rcases orElse'_some h with h1 | h1
      · obtain ⟨p', hp', hb, hk⟩ := ih (p+1) res h1
        refine ⟨p', by omega, Or.inr ?_, hk⟩
        rcases hb with hb | hb <;> omega
      · exact ⟨p, Nat.le_refl _, Or.inl rfl, h1⟩
    · exact ⟨p, Nat.le_refl _, Or.inl rfl, h⟩

/-- one-or-more of a class consumes at least one character, stays inside the text and touches no
capture -/
theorem wp_plus {ctx : Ctx} {neg : Bool} {items : List CC} {p : Nat} {c : Caps} {Q : Nat → Caps → Prop}
    (h : ∀ p', p < p' → p' ≤ ctx.s.size → Q p' c) : WP ctx (.rep true 1 none (.chars neg items)) p c Q := by
  intro R k res hm
  rw [m_plus_eq] at hm
  split at hm
  · rename_i hp
    have hlt : p < ctx.s.size := by
      unfold passes at hp
      split at hp
      · assumption
      · cases hp
    obtain ⟨p', hp', hb, hk⟩ := starG_wp ctx neg items k c _ _ res hm
    exact ⟨p', c, h p' (by omega) (by rcases hb with hb | hb <;> omega), hk⟩
  · cases hm

/-- what a successful match of `REGEX_GCODE_CODE` captured: a one-character type (group 1 or,
with groups 1 and 2 unset, group 4) and a non-empty number (group 2 resp. 5), inside the text -/
def CodeCaps (n : Nat) (caps : Caps) : Prop :=
  (∃ p q q', capOf caps 1 = some (p, p + 1) ∧ p < n ∧ capOf caps 2 = some (q, q') ∧ q < q' ∧ q' ≤ n) ∨
  (∃ p q q', capOf caps 1 = none ∧ capOf caps 2 = none ∧ capOf caps 4 = some (p, p + 1) ∧ p < n ∧
    capOf caps 5 = some (q, q') ∧ q < q' ∧ q' ≤ n)

theorem gcodeCode_wp (s : Array Char) : WP ⟨s⟩ Gen.gcodeCode 0 [] (fun _ caps => CodeCaps s.size caps) := by
  unfold Gen.gcodeCode
  apply wp_seq; apply wp_at
  apply wp_seq; apply wp_any _ (Nat.zero_le _)
  intro p1 c1 f1
  have hc1 : ∀ j, capOf c1 j = none := fun j => by rw [f1.2.2 j (by simp [Re.groups])]; rfl
  apply wp_seq
  apply wp_alt
  · -- G / M branch
    apply wp_seq; apply wp_group; apply wp_chars
    intro hp1 _
    apply wp_seq; apply wp_any _ (by omega)
    intro p2 c2 f2
    apply wp_seq; apply wp_group; apply wp_plus
    intro p3 h23 hp3
    have hk1 : capOf ((2, p2, p3) :: c2) 1 = some (p1, p1 + 1) := by
      rw [capOf_cons_ne _ _ _ _ _ (by decide), f2.2.2 1 (by simp [Re.groups])]
      exact capOf_cons_eq _ _ _ _
    have hk2 : capOf ((2, p2, p3) :: c2) 2 = some (p2, p3) := capOf_cons_eq _ _ _ _
    apply wp_any _ hp3
    intro p4 c4 f4
    apply wp_any _ f4.2.1
    intro p5 c5 f5
    left
    refine ⟨p1, p2, p3, ?_, hp1, ?_, h23, hp3⟩
    · rw [f5.2.2 1 (by simp [Re.groups]), f4.2.2 1 (by simp [Re.groups])]; exact hk1
    · rw [f5.2.2 2 (by simp [Re.groups]), f4.2.2 2 (by simp [Re.groups])]; exact hk2
  · -- T branch
    apply wp_seq; apply wp_group; apply wp_chars
    intro hp1 _
    apply wp_seq; apply wp_any _ (by omega)
    intro p2 c2 f2
    apply wp_group; apply wp_plus
    intro p3 h23 hp3
    apply wp_any _ hp3
    intro p5 c5 f5
    right
    refine ⟨p1, p2, p3, ?_, ?_, ?_, hp1, ?_, h23, hp3⟩
    · rw [f5.2.2 1 (by simp [Re.groups]), capOf_cons_ne _ _ _ _ _ (by decide), f2.2.2 1 (by simp [Re.groups]),
        capOf_cons_ne _ _ _ _ _ (by decide)]; exact hc1 1
    · rw [f5.2.2 2 (by simp [Re.groups]), capOf_cons_ne _ _ _ _ _ (by decide), f2.2.2 2 (by simp [Re.groups]),
        capOf_cons_ne _ _ _ _ _ (by decide)]; exact hc1 2
    · rw [f5.2.2 4 (by simp [Re.groups]), capOf_cons_ne _ _ _ _ _ (by decide), f2.2.2 4 (by simp [Re.groups])]
      exact capOf_cons_eq _ _ _ _
    · rw [f5.2.2 5 (by simp [Re.groups])]; exact capOf_cons_eq _ _ _ _

theorem gcodeCode_caps (s : Array Char) (e : Nat) (caps : Caps)
    (h : matchAt Gen.gcodeCode s 0 = some (e, caps)) : CodeCaps s.size caps := by
  unfold matchAt at h
  obtain ⟨p', c', hq, hk⟩ := gcodeCode_wp s _ _ _ h
  cases hk
  exact hq

end ERP.Rx
