import ERP.Basic
/-! Small facts about `Except` used to evaluate `do` blocks (no Mathlib). -/
namespace ERP.M
variable {ε β γ : Type}
@[simp] theorem ok_bind (a : β) (f : β → Except ε γ) : (Except.ok a >>= f) = f a := rfl
@[simp] theorem error_bind (e : ε) (f : β → Except ε γ) : (Except.error e >>= f) = Except.error e := rfl
@[simp] theorem pure_eq_ok (a : β) : (pure a : Except ε β) = .ok a := rfl

/-- inversion of a bind that succeeded -/
theorem bind_eq_ok {x : Except ε β} {f : β → Except ε γ} {c : γ} (h : (x >>= f) = .ok c) :
    ∃ a, x = .ok a ∧ f a = .ok c := by
  cases x with
  | error e => cases h
  | ok a => exact ⟨a, rfl, h⟩
end ERP.M
