import ERP.Lemmas.Spec
import Mathlib.Analysis.SpecialFunctions.Complex.Arg
import Mathlib.Analysis.SpecialFunctions.Trigonometric.Bounds
/-! # The real-number instance of `MathOps`, and the proof that it satisfies `MathSpec` -/
namespace ERP
open Real

noncomputable instance : MathOps ℝ where
  hypot x y := Real.sqrt (x * x + y * y)
  sqrt := Real.sqrt
  atan2 y x := Complex.arg ⟨x, y⟩
  sin := Real.sin
  cos := Real.cos
  ceilNat x := Nat.ceil x
  ofNat n := (n : ℝ)
  twoPi := 2 * π

instance : MathSpec ℝ where
  hypot_nonneg x y := Real.sqrt_nonneg _
  hypot_sq x y := Real.mul_self_sqrt (add_nonneg (mul_self_nonneg x) (mul_self_nonneg y))
  sqrt_nonneg := Real.sqrt_nonneg
  sqrt_sq x hx := Real.mul_self_sqrt hx
  ofNat_eq n := rfl
  twoPi_pos := by
    show (0:ℝ) < 2 * π
    positivity

end ERP
