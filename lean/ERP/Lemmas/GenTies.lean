import ERP.Lemmas.GenGeometry
import ERP.Lemmas.GenArith
import ERP.Lemmas.GenConsts
import ERP.Lemmas.GenTemplates
/-! # All ties between translated source and hand-written model

Every property about the filter, the plugin shell or the regions depends on the region tests, the
axis arithmetic, the arc planning and the synthesised commands; their property modules import this
file, so a change to any translated piece of the source breaks the build of each of them. -/
