import ERP.Lemmas.RegexComplete
/-! # Exact evaluation of the backtracking matcher on the shapes that occur in the parameter
tokenizer: greedy star / plus over a character class, optional group — which match is returned
first. -/
namespace ERP.Rx

/-- greedy star over a character class, as a plain recursive function: try to go on first, fall
back to the continuation at the current position -/
def starG {R : Type} (ctx : Ctx) (neg : Bool) (items : List CC) (k : Nat → Caps → Option R) (c : Caps) :
    Nat → Nat → Option R
  | 0, p => k p c
  | f+1, p =>
    if passes ctx neg items p then orElse' (starG ctx neg items k c f (p+1)) (fun _ => k p c) else k p c

theorem m_chars_eq {R : Type} (ctx : Ctx) (neg : Bool) (items : List CC) (p : Nat) (c : Caps)
    (k : Nat → Caps → Option R) :
    m ctx (.chars neg items) p c k = if passes ctx neg items p then k (p+1) c else none := by
  simp only [m, passes]
  split
  · rfl
  · simp

theorem orElse'_none {R : Type} (b : Unit → Option R) : orElse' none b = b () := rfl

/-- the repetition loop over a class, once the lower bound is met, is `starG` -/
theorem repLoop_eq_starG {R : Type} (ctx : Ctx) (neg : Bool) (items : List CC) (lo : Nat)
    (k : Nat → Caps → Option R) (c : Caps) :
    ∀ f n p, lo ≤ n →
      repLoop (m ctx (.chars neg items)) true lo none f n p c k = starG ctx neg items k c f p := by
  intro f
  induction f with
  | zero => intro n p _; rfl
  | succ f ih =>
    intro n p hn
    have hlt : ¬ (n < lo) := by omega
    simp only [repLoop, canMore, if_true, hlt, if_false, starG, m_chars_eq]
    by_cases hp : passes ctx neg items p = true
    · simp only [hp, if_true]
      have hne : (p + 1 == p) = false := by simp
      rw [hne, ih (n+1) (p+1) (by omega)]
      simp
    · have hp' : passes ctx neg items p = false := by simpa using hp
      simp only [hp', Bool.false_eq_true, if_false, orElse'_none]

theorem m_star_eq {R : Type} (ctx : Ctx) (neg : Bool) (items : List CC) (p : Nat) (c : Caps)
    (k : Nat → Caps → Option R) :
    m ctx (.rep true 0 none (.chars neg items)) p c k = starG ctx neg items k c (ctx.s.size + 2 - p + 0) p := by
  rw [m.eq_5]
  exact repLoop_eq_starG ctx neg items 0 k c _ 0 p (Nat.le_refl _)

theorem m_plus_eq {R : Type} (ctx : Ctx) (neg : Bool) (items : List CC) (p : Nat) (c : Caps)
    (k : Nat → Caps → Option R) :
    m ctx (.rep true 1 none (.chars neg items)) p c k =
      if passes ctx neg items p then starG ctx neg items k c (ctx.s.size + 2 - p) (p+1) else none := by
  rw [m.eq_5]
  have : ctx.s.size + 2 - p + 1 = (ctx.s.size + 2 - p) + 1 := rfl
  rw [this]
  simp only [repLoop, canMore, if_true, Nat.lt_one_iff, m_chars_eq]
  by_cases hp : passes ctx neg items p = true
  · simp only [hp, if_true]
    have hne : (p + 1 == p) = false := by simp
    simp only [hne, Bool.false_and, Bool.false_eq_true, if_false]
    exact repLoop_eq_starG ctx neg items 1 k c _ 1 (p+1) (Nat.le_refl _)
  · have hp' : passes ctx neg items p = false := by simpa using hp
    simp only [hp', Bool.false_eq_true, if_false]

theorem starG_stop {R : Type} (ctx : Ctx) (neg : Bool) (items : List CC) (k : Nat → Caps → Option R)
    (c : Caps) (f p : Nat) (h : passes ctx neg items p = false) : starG ctx neg items k c f p = k p c := by
  cases f with
  | zero => rfl
  | succ f => simp only [starG, h, Bool.false_eq_true, if_false]

/-- greedy star with enough fuel: the continuation at the end of the run wins if it succeeds -/
theorem starG_at_stop {R : Type} (ctx : Ctx) (neg : Bool) (items : List CC) (k : Nat → Caps → Option R)
    (c : Caps) (p' : Nat) (r : R) (hstop : passes ctx neg items p' = false) (hk : k p' c = some r) :
    ∀ f p, p ≤ p' → p' - p < f → (∀ i, p ≤ i → i < p' → passes ctx neg items i = true) →
      starG ctx neg items k c f p = some r := by
  intro f
  induction f with
  | zero => intro p _ h; omega
  | succ f ih =>
    intro p hpp hf hall
    by_cases hpe : p = p'
    · subst hpe; rw [starG_stop ctx neg items k c _ p hstop]; exact hk
    · have hp := hall p (Nat.le_refl _) (by omega)
      simp only [starG, hp, if_true]
      rw [ih (p+1) (by omega) (by omega) (fun i h1 h2 => hall i (by omega) h2)]
      rfl

/-- … and if it fails there but succeeds one character earlier, that one wins -/
theorem starG_second {R : Type} (ctx : Ctx) (neg : Bool) (items : List CC) (k : Nat → Caps → Option R)
    (c : Caps) (p' : Nat) (r : R) (hstop : passes ctx neg items p' = false) (hk0 : k p' c = none)
    (hk : k (p' - 1) c = some r) :
    ∀ f p, p < p' → p' - p < f → (∀ i, p ≤ i → i < p' → passes ctx neg items i = true) →
      starG ctx neg items k c f p = some r := by
  intro f
  induction f with
  | zero => intro p _ h; omega
  | succ f ih =>
    intro p hpp hf hall
    have hp := hall p (Nat.le_refl _) hpp
    simp only [starG, hp, if_true]
    by_cases hpe : p + 1 = p'
    · rw [hpe, starG_stop ctx neg items k c _ p' hstop, hk0, orElse'_none]
      have : p = p' - 1 := by omega
      rw [this]; exact hk
    · rw [ih (p+1) (by omega) (by omega) (fun i h1 h2 => hall i (by omega) h2)]
      rfl

/-- the optional construct `(r)?` (greedy): take it if that leads to a match, else skip it -/
theorem m_opt_eq {R : Type} (ctx : Ctx) (r : Re) (p : Nat) (c : Caps) (k : Nat → Caps → Option R)
    (hp : p ≤ ctx.s.size) :
    m ctx (.rep true 0 (some 1) r) p c k =
      orElse' (m ctx r p c (fun p' c' => if p' == p then none else k p' c')) (fun _ => k p c) := by
  rw [m.eq_5]
  have hfuel : ctx.s.size + 2 - p + 0 = (ctx.s.size + 1 - p) + 1 := by omega
  rw [hfuel]
  generalize ctx.s.size + 1 - p = f
  have inner : ∀ (p' : Nat) (c' : Caps), repLoop (m ctx r) true 0 (some 1) f 1 p' c' k = k p' c' := by
    intro p' c'
    cases f with
    | zero => simp [repLoop]
    | succ f' =>
      simp only [repLoop, canMore]
      have : ¬ (1 < 0) := by omega
      simp [this, orElse']
  simp only [repLoop, canMore, Nat.lt_irrefl, if_false, Nat.lt_one_iff, decide_true, if_true, Nat.le_refl,
    Bool.and_true, Nat.zero_add]
  have : (fun p' c' => if (p' == p) = true then none else repLoop (m ctx r) true 0 (some 1) f 1 p' c' k)
      = (fun p' c' => if (p' == p) = true then none else k p' c') := by
    funext p' c'; rw [inner]
  rw [this]

end ERP.Rx
