import ERP.Lemmas.Track
/-! # The joint invariant between the filter state and the physical printer (X/Y/Z part)

`phys` executes what the filter forwards. While no episode is open its X/Y/Z axes (position and
frame) are the filter's; while an episode is open they are the filter's *frame* with the position
the tool had before the entering move. -/
namespace ERP
open T Spec
set_option linter.unusedSectionVars false
set_option linter.unusedSimpArgs false

variable {α : Type} [Field α] [LinearOrder α] [IsStrictOrderedRing α] [MathOps α] [MathSpec α]

/-- the axis the printer is expected to have -/
def expectAxis (s : FState α) (sel : Position α → Axis α) : Axis α :=
  if s.excluding then { sel s.position with current := (sel (T.lastPos s)).current } else sel s.position

/-- deferred `first`/`last` commands are commands without a built-in handler -/
def PendingNeutral (s : FState α) : Prop :=
  ∀ e ∈ s.pendingCommands, ∀ c, e.2 = Pending.cmd c → ∃ n, Code.ofString c.code = .other n

structure InvXYZ (s : FState α) (phys : Printer α) : Prop where
  x : phys.pos.x = expectAxis s (·.x)
  y : phys.pos.y = expectAxis s (·.y)
  z : phys.pos.z = expectAxis s (·.z)
  pend : PendingNeutral s

theorem InvXYZ.of_not_excluding {s : FState α} {phys : Printer α} (h : InvXYZ s phys)
    (he : s.excluding = false) : XYZeq phys.pos s.position := by
  obtain ⟨hx, hy, hz, _⟩ := h
  simp only [expectAxis, he, Bool.false_eq_true, if_false] at hx hy hz
  exact ⟨hx, hy, hz⟩

/-- build the invariant for a state that is not excluding -/
theorem InvXYZ.mk_free {s : FState α} {phys : Printer α} (he : s.excluding = false)
    (h : XYZeq phys.pos s.position) (hp : PendingNeutral s) : InvXYZ s phys := by
  obtain ⟨hx, hy, hz⟩ := h
  refine ⟨?_, ?_, ?_, hp⟩ <;> simp only [expectAxis, he, Bool.false_eq_true, if_false] <;> assumption

/-- the invariant only looks at these components of the filter state -/
theorem InvXYZ.congr {s s' : FState α} {phys phys' : Printer α} (h : InvXYZ s phys)
    (hp : XYZeq phys'.pos phys.pos) (hpos : XYZeq s'.position s.position)
    (hex : s'.excluding = s.excluding) (hlp : s'.lastPosition = s.lastPosition)
    (hpc : s'.pendingCommands = s.pendingCommands) : InvXYZ s' phys' := by
  obtain ⟨hx, hy, hz, hn⟩ := h
  obtain ⟨px, py, pz⟩ := hp
  obtain ⟨sx, sy, sz⟩ := hpos
  refine ⟨?_, ?_, ?_, ?_⟩
  · rw [px, hx]; simp only [expectAxis, hex, T.lastPos, hlp, sx]
    split
    · cases s.lastPosition <;> simp [sx]
    · rfl
  · rw [py, hy]; simp only [expectAxis, hex, T.lastPos, hlp, sy]
    split
    · cases s.lastPosition <;> simp [sy]
    · rfl
  · rw [pz, hz]; simp only [expectAxis, hex, T.lastPos, hlp, sz]
    split
    · cases s.lastPosition <;> simp [sz]
    · rfl
  · intro e he; rw [hpc] at he; exact hn e he

end ERP

namespace ERP
open T Spec
set_option linter.unusedSectionVars false
set_option linter.unusedSimpArgs false
variable {α : Type} [Field α] [LinearOrder α] [IsStrictOrderedRing α] [MathOps α] [MathSpec α]

theorem AxisOk.eta {a : Axis α} (h : AxisOk a) : ({ a with current := some (cur a) } : Axis α) = a := by
  obtain ⟨c, ho, o, ab, u⟩ := a
  have := h.cur_eq
  simp only at this
  simp only [Axis.mk.injEq, and_true]
  exact this.symm

/-- moving an axis that has the filter's frame and the pre-episode position by the exit
coordinate lands on the filter's tracked position — in absolute and in relative mode -/
theorem exit_axis (a l : Axis α) (ha : AxisOk a) :
    moveAxis ({ a with current := l.current } : Axis α) (some (exitCoord a l)) = a := by
  have hu := ha.2
  conv_rhs => rw [← ha.eta]
  simp only [moveAxis, target, exitCoord, coord, n2l]
  by_cases hm : a.absoluteMode = true
  · simp only [hm, if_true]
    congr 2
    simp only [cur]
    field_simp
    ring
  · simp only [hm, Bool.false_eq_true, if_false]
    congr 2
    simp only [cur]
    field_simp
    ring

theorem execOuts_cons (g90e : Bool) (inch : α) (p : Printer α) (o : Out α) (l : List (Out α)) :
    p.execOuts g90e inch (o :: l) = (p.execOut g90e inch o).execOuts g90e inch l := rfl

theorem execOuts_nil (g90e : Bool) (inch : α) (p : Printer α) : p.execOuts g90e inch [] = p := rfl

/-- **Leaving a region**: executing the exit sequence puts the printer's X, Y and Z exactly on the
filter's tracked position (frames unchanged). -/
theorem exit_resync (g90e : Bool) (inch : α) (cfg : Config) (s : FState α) (phys : Printer α)
    (h : WF s) (hinv : InvXYZ s phys) (he : s.excluding = true) :
    XYZeq (phys.execOuts g90e inch (T.exitExcludedRegion cfg s).2).pos s.position := by
  obtain ⟨lp, hlp, hlpok⟩ := h.lastPos he
  obtain ⟨ix, iy, iz, ipend⟩ := hinv
  simp only [expectAxis, he, if_true, T.lastPos, hlp, Option.getD] at ix iy iz
  obtain ⟨px, py, pz, pe⟩ := h.pos
  unfold T.exitExcludedRegion
  simp only [he, Bool.not_true, Bool.false_eq_true, if_false, FState.processPendingCommands,
    T.lastPos, hlp, Option.getD]
  -- the prefix (deferred commands, exit script, G92 E) is neutral
  have hpre : ∀ o ∈ (s.pendingCommands.map (fun (x : String × Pending α) =>
        match x.2 with
        | .args a => Out.merged x.1 a
        | .cmd c => Out.orig c)) ++
      (match cfg.exitingExcludedRegionGcode with
        | some l => l.map (Out.script true)
        | none => []) ++ [Out.g92e (n2l s.position.e)], EOnly o := by
    intro o ho
    simp only [List.mem_append, List.mem_map, List.mem_singleton] at ho
    rcases ho with (⟨e, he', rfl⟩ | ho) | rfl
    · cases hp : e.2 with
      | args a => trivial
      | cmd c => exact ipend e he' c hp
    · split at ho
      · obtain ⟨t, _, rfl⟩ := List.mem_map.mp ho
        trivial
      · cases ho
    · trivial
  generalize hP : (s.pendingCommands.map (fun (x : String × Pending α) =>
        match x.2 with
        | .args a => Out.merged x.1 a
        | .cmd c => Out.orig c)) ++
      (match cfg.exitingExcludedRegionGcode with
        | some l => l.map (Out.script true)
        | none => []) ++ [Out.g92e (n2l s.position.e)] = pre at hpre
  have hq := execOuts_EOnly g90e inch pre phys hpre
  set q := phys.execOuts g90e inch pre with hqdef
  obtain ⟨qx, qy, qz⟩ := hq
  have ex := exit_axis s.position.x lp.x px
  have ey := exit_axis s.position.y lp.y py
  have ez := exit_axis s.position.z lp.z pz
  by_cases hup : cur lp.z < cur s.position.z
  · have hdn : ¬ (cur s.position.z < cur lp.z) := not_lt.mpr hup.le
    simp only [hup, hdn, if_true, if_false]
    rw [execOuts_append, execOuts_append, ← hqdef]
    simp only [execOuts_cons, execOuts_nil, Printer.execOut, Printer.linear, moveAxis, XYZeq]
    refine ⟨?_, ?_, ?_⟩
    · rw [qx, ix]; exact ex
    · rw [qy, iy]; exact ey
    · rw [qz, iz]; exact ez
  · by_cases hdn : cur s.position.z < cur lp.z
    · simp only [hup, hdn, if_true, if_false]
      rw [execOuts_append, execOuts_append, ← hqdef]
      simp only [execOuts_cons, execOuts_nil, Printer.execOut, Printer.linear, moveAxis, XYZeq]
      refine ⟨?_, ?_, ?_⟩
      · rw [qx, ix]; exact ex
      · rw [qy, iy]; exact ey
      · rw [qz, iz]; exact ez
    · simp only [hup, hdn, if_false]
      rw [execOuts_append, ← hqdef]
      simp only [execOuts_cons, execOuts_nil, Printer.execOut, Printer.linear, moveAxis, XYZeq]
      refine ⟨?_, ?_, ?_⟩
      · rw [qx, ix]; exact ex
      · rw [qy, iy]; exact ey
      · -- no Z move: the pre-episode Z equals the tracked Z
        rw [qz, iz]
        have hz : cur lp.z = cur s.position.z := le_antisymm (not_lt.mp hdn) (not_lt.mp hup)
        have h1 := hlpok.2.2.1.cur_eq
        rw [h1, hz]
        exact pz.eta

end ERP

namespace ERP
open T Spec
set_option linter.unusedSectionVars false
set_option linter.unusedSimpArgs false
variable {α : Type} [Field α] [LinearOrder α] [IsStrictOrderedRing α] [MathOps α] [MathSpec α]

/-- the X (resp. Y) axis after the point loop of `isAnyPointExcluded` -/
def loopAxis (a : Axis α) (vs : List (Option α)) : Axis α := vs.foldl setLog a

theorem isAnyLoop_pos (pairs : List (Option α × Option α)) :
    ∀ (s : FState α) (any : Bool),
      (T.isAnyLoop s pairs any).1 =
        { s with position := { s.position with
            x := loopAxis s.position.x (pairs.map (·.1)),
            y := loopAxis s.position.y (pairs.map (·.2)) } } := by
  induction pairs with
  | nil => intro s any; rfl
  | cons p rest ih =>
    intro s any
    obtain ⟨px, py⟩ := p
    simp only [T.isAnyLoop, ih, List.map_cons, loopAxis, List.foldl_cons]

theorem processExcludedMove_spec (cfg : Config) (s : FState α) (cmd : Cmd α) (dE : α) (h : WF s) :
    (T.processExcludedMove cfg s cmd dE).1 =
      { s with excluding := true,
               lastPosition := if s.excluding then s.lastPosition else some s.position,
               lastRetraction := (T.processExcludedMove cfg s cmd dE).1.lastRetraction } ∧
    ∀ o ∈ (T.processExcludedMove cfg s cmd dE).2, EOnly o := by
  unfold T.processExcludedMove
  by_cases he : s.excluding = true
  · simp only [he, Bool.not_true, Bool.false_eq_true, if_false, if_true]
    by_cases h1 : dE < 0
    · simp only [h1, if_true, List.nil_append]
      have hf := processNonMove_frame s cmd dE h
      have ho := (processNonMove_outs s cmd dE).1 he
      refine ⟨?_, ho⟩
      rw [hf]
      obtain ⟨rg, pos, fr, fru, en, ex, lr0, lp, pc⟩ := s
      simp only at he
      subst he
      rfl
    · simp only [h1, if_false]
      refine ⟨?_, by simp⟩
      obtain ⟨rg, pos, fr, fru, en, ex, lr0, lp, pc⟩ := s
      simp only at he
      subst he
      rfl
  · have he' : s.excluding = false := by simpa using he
    simp only [he', Bool.not_false, if_true, Bool.false_eq_true, if_false, T.enterExcludedRegion]
    have hw := (enterExcludedRegion_WF cfg s h).1
    simp only [T.enterExcludedRegion, he', Bool.false_eq_true, if_false] at hw
    have hscript : ∀ o ∈ (match cfg.enteringExcludedRegionGcode with
        | some l => l.map (Out.script false)
        | none => ([] : List (Out α))), EOnly o := by
      intro o ho
      split at ho
      · obtain ⟨t, _, rfl⟩ := List.mem_map.mp ho; trivial
      · cases ho
    by_cases h1 : dE < 0
    · simp only [h1, if_true]
      have hf := processNonMove_frame _ cmd dE hw
      have ho := (processNonMove_outs ({ s with excluding := true, lastPosition := some s.position } : FState α) cmd dE).1 rfl
      refine ⟨?_, ?_⟩
      · rw [hf]
      · intro o hm
        rcases List.mem_append.mp hm with hm | hm
        · exact hscript o hm
        · exact ho o hm
    · simp only [h1, if_false]
      exact ⟨trivial, hscript⟩

/-- the commands the printer receives for a hook result -/
def fwdOf (cmd : Cmd α) : Result α → List (Out α)
  | .none => [.orig cmd]
  | .ignore => []
  | .list l => l

theorem fwdOf_toResult (cmd : Cmd α) (p : FState α × List (Out α)) :
    fwdOf cmd (T.toResult p).2 = p.2 := by
  unfold T.toResult
  split
  · rename_i h; simp only [fwdOf]; exact (List.isEmpty_iff.mp h).symm
  · rfl

end ERP

namespace ERP
open T Spec
set_option linter.unusedSectionVars false
set_option linter.unusedSimpArgs false
variable {α : Type} [Field α] [LinearOrder α] [IsStrictOrderedRing α] [MathOps α] [MathSpec α]

theorem applyEZF_pos (s : FState α) (ep fr fz : Option α) :
    (T.applyEZF s ep fr fz).position.x = s.position.x ∧ (T.applyEZF s ep fr fz).position.y = s.position.y ∧
    (T.applyEZF s ep fr fz).position.z = setLog s.position.z fz ∧
    (T.applyEZF s ep fr fz).excluding = s.excluding ∧
    (T.applyEZF s ep fr fz).lastPosition = s.lastPosition ∧
    (T.applyEZF s ep fr fz).pendingCommands = s.pendingCommands := by
  unfold T.applyEZF; cases fr <;> simp

/-- how the printer executes the command itself, as far as X/Y/Z are concerned -/
def ExecAs (g90e : Bool) (inch : α) (cmd : Cmd α) (X Y Z : Option α) : Prop :=
  ∀ p : Printer α, (p.execOut g90e inch (.orig cmd)).pos.x = moveAxis p.pos.x X ∧
    (p.execOut g90e inch (.orig cmd)).pos.y = moveAxis p.pos.y Y ∧
    (p.execOut g90e inch (.orig cmd)).pos.z = moveAxis p.pos.z Z

theorem execOuts_pre_orig (g90e : Bool) (inch : α) (p : Printer α) (pre : List (Out α)) (cmd : Cmd α)
    (X Y Z : Option α) (hpre : ∀ o ∈ pre, EOnly o) (hx : ExecAs g90e inch cmd X Y Z) :
    (p.execOuts g90e inch (pre ++ [.orig cmd])).pos.x = moveAxis p.pos.x X ∧
    (p.execOuts g90e inch (pre ++ [.orig cmd])).pos.y = moveAxis p.pos.y Y ∧
    (p.execOuts g90e inch (pre ++ [.orig cmd])).pos.z = moveAxis p.pos.z Z := by
  rw [execOuts_append]
  obtain ⟨qx, qy, qz⟩ := execOuts_EOnly g90e inch pre p hpre
  obtain ⟨e1, e2, e3⟩ := hx (p.execOuts g90e inch pre)
  simp only [execOuts_cons, execOuts_nil]
  rw [e1, e2, e3, qx, qy, qz]
  exact ⟨rfl, rfl, rfl⟩

theorem InvXYZ.mk_excl {s' : FState α} {phys' : Printer α} (lp : Position α)
    (he : s'.excluding = true) (hl : s'.lastPosition = some lp)
    (hx : phys'.pos.x = { s'.position.x with current := lp.x.current })
    (hy : phys'.pos.y = { s'.position.y with current := lp.y.current })
    (hz : phys'.pos.z = { s'.position.z with current := lp.z.current })
    (hp : PendingNeutral s') : InvXYZ s' phys' := by
  refine ⟨?_, ?_, ?_, hp⟩ <;>
    simp only [expectAxis, he, if_true, T.lastPos, hl, Option.getD] <;> assumption

theorem InvXYZ.of_excluding {s : FState α} {phys : Printer α} (h : InvXYZ s phys) (lp : Position α)
    (he : s.excluding = true) (hl : s.lastPosition = some lp) :
    phys.pos.x = { s.position.x with current := lp.x.current } ∧
    phys.pos.y = { s.position.y with current := lp.y.current } ∧
    phys.pos.z = { s.position.z with current := lp.z.current } := by
  obtain ⟨hx, hy, hz, _⟩ := h
  simp only [expectAxis, he, if_true, T.lastPos, hl, Option.getD] at hx hy hz
  exact ⟨hx, hy, hz⟩

/-- **One move command** (linear or arc, given as the E/F/Z values and the list of points the
handler passes to `processLinearMoves`): the invariant is preserved. -/
theorem plm_inv (g90e : Bool) (inch : α) (cfg : Config) (s : FState α) (phys : Printer α) (cmd : Cmd α)
    (ep fr fz : Option α) (xy : List (Option α × Option α)) (X Y Z : Option α)
    (h : WF s) (hinv : InvXYZ s phys) (hexec : ExecAs g90e inch cmd X Y Z)
    (hx : loopAxis s.position.x (xy.map (·.1)) = setLog s.position.x X)
    (hy : loopAxis s.position.y (xy.map (·.2)) = setLog s.position.y Y)
    (hz : setLog s.position.z fz = setLog s.position.z Z)
    (hnm : T.isMoveOf fz xy = false → X = none ∧ Y = none ∧ Z = none) :
    let r := T.processLinearMoves cfg s cmd ep fr fz xy
    InvXYZ r.1 (phys.execOuts g90e inch (fwdOf cmd r.2)) := by
  intro r
  have hs1 := applyEZF_WF s ep fr fz h
  obtain ⟨a1, a2, a3, a4, a5, a6⟩ := applyEZF_pos s ep fr fz
  simp only [r, T.processLinearMoves, fwdOf_toResult, toResult_fst]
  generalize hs1def : T.applyEZF s ep fr fz = s1 at *
  generalize T.deltaEOf s ep = dE
  by_cases hm : T.isMoveOf fz xy = true
  · -- a move
    simp only [hm, Bool.not_true, Bool.false_eq_true, if_false, T.moveBody]
    have hloop := isAnyLoop_pos xy s1 false
    obtain ⟨hw2, hex2, _⟩ := isAnyLoop_WF xy s1 false hs1
    generalize T.isAnyLoop s1 xy false = rr at *
    obtain ⟨s2, anyEx⟩ := rr
    simp only at hloop hw2 hex2 ⊢
    have p2x : s2.position.x = setLog s.position.x X := by rw [hloop]; simp only; rw [a1, hx]
    have p2y : s2.position.y = setLog s.position.y Y := by rw [hloop]; simp only; rw [a2, hy]
    have p2z : s2.position.z = setLog s.position.z Z := by rw [hloop]; simp only; rw [a3, hz]
    have e2 : s2.excluding = s.excluding := by rw [hex2, a4]
    have l2 : s2.lastPosition = s.lastPosition := by rw [hloop]; exact a5
    have c2 : s2.pendingCommands = s.pendingCommands := by rw [hloop]; exact a6
    by_cases ha : anyEx = true
    · -- some point is excluded
      simp only [ha, if_true]
      obtain ⟨hspec, houts⟩ := processExcludedMove_spec cfg s2 cmd dE hw2
      generalize T.processExcludedMove cfg s2 cmd dE = r2 at *
      obtain ⟨s3, c3⟩ := r2
      simp only at hspec houts ⊢
      obtain ⟨qx, qy, qz⟩ := execOuts_EOnly g90e inch c3 phys houts
      have ex3 : s3.excluding = true := by rw [hspec]
      have p3 : s3.position = s2.position := by rw [hspec]
      have l3 : s3.lastPosition = if s2.excluding then s2.lastPosition else some s2.position := by rw [hspec]
      have c3' : s3.pendingCommands = s2.pendingCommands := by rw [hspec]
      by_cases hexc : s.excluding = true
      · -- already excluding: nothing reaches the printer but E-only commands
        have hc : ¬ ((s3.excluding && !s2.excluding) = true) := by simp [e2, hexc]
        simp only [hc, if_false]
        obtain ⟨lp, hlp, _⟩ := h.lastPos hexc
        obtain ⟨ix, iy, iz⟩ := hinv.of_excluding lp hexc hlp
        apply InvXYZ.mk_excl lp ex3 (by rw [l3, e2, hexc, if_pos rfl, l2, hlp])
        · rw [qx, ix, p3, p2x, withCur_setLog]
        · rw [qy, iy, p3, p2y, withCur_setLog]
        · rw [qz, iz, p3, p2z, withCur_setLog]
        · intro e he; rw [c3', c2] at he; exact hinv.pend e he
      · -- entering: the printer stays where it was; that position is remembered
        have hexc' : s.excluding = false := by simpa using hexc
        have hc : (s3.excluding && !s2.excluding) = true := by simp [ex3, e2, hexc']
        simp only [hc, if_true]
        obtain ⟨fx, fy, fz'⟩ := hinv.of_not_excluding hexc'
        apply InvXYZ.mk_excl s.position (by simpa using ex3) rfl
        · simp only; rw [qx, fx, p3, p2x, withCur_setLog]
        · simp only; rw [qy, fy, p3, p2y, withCur_setLog]
        · simp only; rw [qz, fz', p3, p2z, withCur_setLog]
        · intro e he; simp only at he; rw [c3', c2] at he; exact hinv.pend e he
    · simp only [ha, Bool.false_eq_true, if_false]
      by_cases hexc : s2.excluding = true
      · -- leaving the region
        simp only [hexc, if_true]
        have hinv2 : InvXYZ s2 phys := by
          have hes : s.excluding = true := by rw [← e2]; exact hexc
          obtain ⟨lp, hlp, _⟩ := h.lastPos hes
          obtain ⟨ix, iy, iz⟩ := hinv.of_excluding lp hes hlp
          apply InvXYZ.mk_excl lp hexc (by rw [l2, hlp])
          · rw [ix, p2x, withCur_setLog]
          · rw [iy, p2y, withCur_setLog]
          · rw [iz, p2z, withCur_setLog]
          · intro e he; rw [c2] at he; exact hinv.pend e he
        have hres := exit_resync g90e inch cfg s2 phys hw2 hinv2 hexc
        have hst := exitExcludedRegion_state cfg s2
        simp only [hexc, if_true] at hst
        apply InvXYZ.mk_free (by rw [hst]) (by rw [hst]; exact hres)
        intro e he; rw [hst] at he; cases he
      · -- an ordinary move outside every region
        have hexc' : s2.excluding = false := by simpa using hexc
        have hes : s.excluding = false := by rw [← e2]; exact hexc'
        simp only [hexc', Bool.false_eq_true, if_false]
        obtain ⟨fx, fy, fz'⟩ := hinv.of_not_excluding hes
        -- in both sub-cases the output is E-only commands followed by the command itself
        have key : ∀ (s' : FState α) (pre : List (Out α)),
            XYZeq s'.position s2.position → s'.excluding = false → s'.pendingCommands = s2.pendingCommands →
            (∀ o ∈ pre, EOnly o) → InvXYZ s' (phys.execOuts g90e inch (pre ++ [.orig cmd])) := by
          intro s' pre hp he' hc' hpre
          obtain ⟨o1, o2, o3⟩ := execOuts_pre_orig g90e inch phys pre cmd X Y Z hpre hexec
          obtain ⟨q1, q2, q3⟩ := hp
          apply InvXYZ.mk_free he'
          · refine ⟨?_, ?_, ?_⟩
            · rw [o1, fx, moveAxis_eq_setLog, q1, p2x]
            · rw [o2, fy, moveAxis_eq_setLog, q2, p2y]
            · rw [o3, fz', moveAxis_eq_setLog, q3, p2z]
          · intro e he; rw [hc', c2] at he; exact hinv.pend e he
        by_cases hd : (!(dE == 0)) = true
        · simp only [hd, if_true]
          have hfr := recoverIfNeeded_frame s2 cmd false hw2
          obtain ⟨pre, hpre, hE⟩ := (recoverIfNeeded_outs s2 cmd false).2 hexc'
          generalize T.recoverRetractionIfNeeded s2 cmd false = r3 at *
          obtain ⟨s3, c3⟩ := r3
          simp only at hfr hpre ⊢
          have hpos3 : XYZeq s3.position s2.position := by rw [hfr]; exact XYZeq.refl _
          have he3 : s3.excluding = false := by rw [hfr]; exact hexc'
          have hc3 : s3.pendingCommands = s2.pendingCommands := by rw [hfr]
          cases s2.lastRetraction with
          | none => simp only; rw [hpre]; exact key s3 pre hpos3 he3 hc3 hE
          | some lr =>
            simp only
            split
            · subst hpre
              rw [insertBeforeLast_snoc]
              apply key s3 _ hpos3 he3 hc3
              intro o ho
              rcases List.mem_append.mp ho with ho | ho
              · exact hE o ho
              · simp at ho; subst ho; trivial
            · rw [hpre]; exact key s3 pre hpos3 he3 hc3 hE
        · simp only [hd, Bool.false_eq_true, if_false]
          exact key s2 [] (XYZeq.refl _) hexc' rfl (by simp)
  · -- not a move: retraction / recovery / feed rate only
    have hm' : T.isMoveOf fz xy = false := by simpa using hm
    obtain ⟨rfl, rfl, rfl⟩ := hnm hm'
    simp only [hm', Bool.not_false, if_true]
    have hfz : fz = none := by
      unfold T.isMoveOf at hm'
      cases fz with
      | none => rfl
      | some v => simp at hm'
    subst hfz
    have hfr := processNonMove_frame s1 cmd dE hs1
    rw [← nonMoveBody_fst s1 cmd dE (cur s.position.e)] at hfr
    obtain ⟨o1, o2⟩ := nonMoveBody_outs s1 cmd dE (cur s.position.e)
    generalize T.nonMoveBody s1 cmd dE (cur s.position.e) = rr at *
    obtain ⟨s3, c3⟩ := rr
    simp only at hfr o1 o2 ⊢
    have hphys : XYZeq (phys.execOuts g90e inch c3).pos phys.pos := by
      by_cases hexc : s1.excluding = true
      · exact execOuts_EOnly g90e inch c3 phys (o1 hexc)
      · rcases o2 (by simpa using hexc) with ⟨pre, hpre, hE⟩ | hE
        · rw [hpre]
          obtain ⟨e1, e2, e3⟩ := execOuts_pre_orig g90e inch phys pre cmd none none none hE hexec
          exact ⟨e1, e2, e3⟩
        · exact execOuts_EOnly g90e inch c3 phys hE
    apply hinv.congr hphys
    · rw [hfr]; exact ⟨a1, a2, a3⟩
    · rw [hfr]; exact a4
    · rw [hfr]; exact a5
    · rw [hfr]; exact a6

end ERP

namespace ERP
open T Spec
set_option linter.unusedSectionVars false
set_option linter.unusedSimpArgs false
variable {α : Type} [Field α] [LinearOrder α] [IsStrictOrderedRing α] [MathOps α] [MathSpec α]

/-- **Z order of the re-positioning.**  The exit sequence is `pre ++ [G0 X Y] ++ post`; nothing in
`pre` moves X or Y; when the printer reaches the X/Y travel its Z is the higher of the Z it had
during the episode and the Z the file is at (a raise precedes the travel); `post` is at most the
lowering Z move. -/
theorem exit_zorder (g90e : Bool) (inch : α) (cfg : Config) (s : FState α) (phys : Printer α)
    (h : WF s) (hinv : InvXYZ s phys) (he : s.excluding = true) :
    ∃ pre f x y post, (T.exitExcludedRegion cfg s).2 = pre ++ [.g0xy f x y] ++ post ∧
      (phys.execOuts g90e inch pre).pos.x = phys.pos.x ∧ (phys.execOuts g90e inch pre).pos.y = phys.pos.y ∧
      cur (phys.execOuts g90e inch pre).pos.z = max (cur phys.pos.z) (cur s.position.z) ∧
      (post = [] ∨ ∃ fz z, post = [.g0z fz z] ∧ cur s.position.z < cur phys.pos.z) := by
  obtain ⟨lp, hlp, hlpok⟩ := h.lastPos he
  obtain ⟨ix, iy, iz, ipend⟩ := hinv
  simp only [expectAxis, he, if_true, T.lastPos, hlp, Option.getD] at ix iy iz
  obtain ⟨px, py, pz, pe⟩ := h.pos
  have hcz : cur phys.pos.z = cur lp.z := by rw [iz]; rfl
  unfold T.exitExcludedRegion
  simp only [he, Bool.not_true, Bool.false_eq_true, if_false, FState.processPendingCommands,
    T.lastPos, hlp, Option.getD]
  have hpre : ∀ o ∈ (s.pendingCommands.map (fun (x : String × Pending α) =>
        match x.2 with
        | .args a => Out.merged x.1 a
        | .cmd c => Out.orig c)) ++
      (match cfg.exitingExcludedRegionGcode with
        | some l => l.map (Out.script true)
        | none => []) ++ [Out.g92e (n2l s.position.e)], EOnly o := by
    intro o ho
    simp only [List.mem_append, List.mem_map, List.mem_singleton] at ho
    rcases ho with (⟨e, he', rfl⟩ | ho) | rfl
    · cases hp : e.2 with
      | args a => trivial
      | cmd c => exact ipend e he' c hp
    · split at ho
      · obtain ⟨t, _, rfl⟩ := List.mem_map.mp ho
        trivial
      · cases ho
    · trivial
  generalize (s.pendingCommands.map (fun (x : String × Pending α) =>
        match x.2 with
        | .args a => Out.merged x.1 a
        | .cmd c => Out.orig c)) ++
      (match cfg.exitingExcludedRegionGcode with
        | some l => l.map (Out.script true)
        | none => []) ++ [Out.g92e (n2l s.position.e)] = pre0 at hpre
  obtain ⟨qx, qy, qz⟩ := execOuts_EOnly g90e inch pre0 phys hpre
  have ez := exit_axis s.position.z lp.z pz
  by_cases hup : cur lp.z < cur s.position.z
  · -- raise first
    have hdn : ¬ (cur s.position.z < cur lp.z) := not_lt.mpr hup.le
    simp only [hup, hdn, if_true, if_false]
    refine ⟨pre0 ++ [Out.g0z (s.feedRate / s.feedRateUnitMultiplier) (exitCoord s.position.z lp.z)],
      s.feedRate / s.feedRateUnitMultiplier, exitCoord s.position.x lp.x, exitCoord s.position.y lp.y, [],
      by simp, ?_, ?_, ?_, Or.inl rfl⟩
    · rw [execOuts_append]; simp only [execOuts_cons, execOuts_nil, Printer.execOut, Printer.linear, moveAxis]
      exact qx
    · rw [execOuts_append]; simp only [execOuts_cons, execOuts_nil, Printer.execOut, Printer.linear, moveAxis]
      exact qy
    · rw [execOuts_append]
      simp only [execOuts_cons, execOuts_nil, Printer.execOut, Printer.linear]
      rw [qz, iz, ez]
      have : cur ({ s.position.z with current := lp.z.current } : Axis α) = cur lp.z := rfl
      rw [this, max_eq_right hup.le]
  · by_cases hdn : cur s.position.z < cur lp.z
    · -- travel high, lower afterwards
      simp only [hup, hdn, if_true, if_false]
      refine ⟨pre0, s.feedRate / s.feedRateUnitMultiplier, exitCoord s.position.x lp.x,
        exitCoord s.position.y lp.y,
        [Out.g0z (s.feedRate / s.feedRateUnitMultiplier) (exitCoord s.position.z lp.z)], by simp, qx, qy, ?_,
        Or.inr ⟨_, _, rfl, by rw [hcz]; exact hdn⟩⟩
      rw [qz, hcz, max_eq_left hdn.le]
    · simp only [hup, hdn, if_false]
      refine ⟨pre0, s.feedRate / s.feedRateUnitMultiplier, exitCoord s.position.x lp.x,
        exitCoord s.position.y lp.y, [], by simp, qx, qy, ?_, Or.inl rfl⟩
      have : cur lp.z = cur s.position.z := le_antisymm (not_lt.mp hdn) (not_lt.mp hup)
      rw [qz, hcz, this, max_self]

end ERP
