import ERP.Lemmas.GenArith
import ERP.Model.Format
namespace ERP
set_option linter.unusedSectionVars false

/-- `template.format(...)` with the arguments in template order: every `{name}` is replaced by the
next argument (`inside` = between `{` and `}`) -/
def fillTemplate : List Char → Bool → List Text → Text
  | [], _, _ => []
  | c :: rest, false, args =>
    if c == '{' then
      match args with
      | a :: as => a ++ fillTemplate rest true as
      | [] => fillTemplate rest true []
    else c :: fillTemplate rest false args
  | c :: rest, true, args => if c == '}' then fillTemplate rest false args else fillTemplate rest true args

variable {α : Type} [Add α] [Sub α] [Mul α] [Div α] [Neg α] [LT α] [LE α] [BEq α]
  [OfNat α 0] [OfNat α 1] [OfNat α 2] [DecidableLT α] [DecidableLE α] [MathOps α]

/-- **the text of a synthesised command is its template filled with its formatted numbers**: the
strings `render` produces for `G92 E…`, `G0 F… Z…`, `G0 F… X… Y…`, `G1 F… E…` are the source's
format templates (`Gen.addCommandsTemplates`, `Gen.exitCommands`) with `formatNumber` of the numbers
in template order -/
theorem render_is_template (nt : α → Text) (o : Out α) (tpl : String) (args : List α)
    (h : Out.shape o = some (tpl, args)) :
    render nt o = (args.mapM (fmtNum nt)).map (fillTemplate tpl.toList false) := by
  cases o with
  | g92e e =>
    simp only [Out.shape, Option.some.injEq, Prod.mk.injEq] at h
    obtain ⟨rfl, rfl⟩ := h
    simp only [render, List.mapM_cons, List.mapM_nil, bind, Except.bind, pure, Except.pure]
    cases fmtNum nt e with
    | error _ => rfl
    | ok t => simp [Except.map, fillTemplate]
  | g0z f z =>
    simp only [Out.shape, Option.some.injEq, Prod.mk.injEq] at h
    obtain ⟨rfl, rfl⟩ := h
    simp only [render, List.mapM_cons, List.mapM_nil, bind, Except.bind, pure, Except.pure]
    cases fmtNum nt f with
    | error _ => rfl
    | ok t =>
      cases fmtNum nt z with
      | error _ => rfl
      | ok u => simp [Except.map, fillTemplate]
  | g0xy f x y =>
    simp only [Out.shape, Option.some.injEq, Prod.mk.injEq] at h
    obtain ⟨rfl, rfl⟩ := h
    simp only [render, List.mapM_cons, List.mapM_nil, bind, Except.bind, pure, Except.pure]
    cases fmtNum nt f with
    | error _ => rfl
    | ok t =>
      cases fmtNum nt x with
      | error _ => rfl
      | ok u =>
        cases fmtNum nt y with
        | error _ => rfl
        | ok v => simp [Except.map, fillTemplate]
  | g1fe f e =>
    simp only [Out.shape, Option.some.injEq, Prod.mk.injEq] at h
    obtain ⟨rfl, rfl⟩ := h
    simp only [render, List.mapM_cons, List.mapM_nil, bind, Except.bind, pure, Except.pure]
    cases fmtNum nt f with
    | error _ => rfl
    | ok t =>
      cases fmtNum nt e with
      | error _ => rfl
      | ok u => simp [Except.map, fillTemplate]
  | orig c => simp [Out.shape] at h
  | script b t => simp [Out.shape] at h
  | fw r t => simp [Out.shape] at h
  | merged g a => simp [Out.shape] at h

end ERP
