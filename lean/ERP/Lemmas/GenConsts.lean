import ERP.Gen.Consts
import ERP.Model.Handlers
/-! # Constants and tables of the source the model relies on

`ERP/Gen/Consts.lean` is regenerated from the working tree on every run; each theorem here pins one
of its values to what the hand-written model assumes, so an edit of the source that changes a
table or constant breaks the build of the properties that depend on it. -/
namespace ERP

/-- the G-codes `GcodeHandlers` has a `_handle_*` method for are exactly the constructors of `Code` -/
theorem handlerNames_eq : Gen.handlerNames =
    ["G0", "G1", "G10", "G11", "G2", "G20", "G21", "G28", "G3", "G90", "G91", "G92", "M206"] := rfl

theorem handlers_are_builtin : ∀ s ∈ Gen.handlerNames, Code.ofString s ≠ .other s := by decide

theorem builtin_are_handlers (s : String) : Code.ofString s = .other s ∨ s ∈ Gen.handlerNames := by
  unfold Code.ofString
  split <;> first | (right; decide) | (left; rfl)

/-- `MM_PER_ARC_SEGMENT = 1.0` (the model divides the arc length by `1`) -/
theorem mmPerArcSegment_is_one : Gen.mmPerArcSegmentBits = 0x3FF0000000000000 := rfl

/-- `TWO_PI == 2 * math.pi` -/
theorem twoPi_is_two_pi : Gen.twoPiIsTwoPi = true := rfl

/-- `INCH_TO_MM_FACTOR = 25.4` (exactly 127/5 as a decimal literal) -/
theorem inchToMm_is_25_4 : Gen.inchToMmNum = 127 ∧ Gen.inchToMmDen = 5 := ⟨rfl, rfl⟩

/-- `IGNORE_GCODE_CMD = (None,)` -/
theorem ignore_is_none_tuple : Gen.ignoreIsNoneTuple = true := rfl

/-- the four ways an extended G-code can be treated (`Mode`) -/
theorem modeNames_eq : Gen.modeNames = ["exclude", "first", "last", "merge"] := rfl

/-- the two @-command actions (`AtAction.enable`, `.disable`) -/
theorem actionNames_eq : Gen.actionNames = ["enable_exclusion", "disable_exclusion"] := rfl

theorem regionsChangedEvent_eq : Gen.regionsChangedEvent = "ExcludedRegionsChanged" := rfl

/-- API commands and their required parameters -/
theorem apiCommands_eq : Gen.apiCommands =
    [("addExcludeRegion", ["type"]), ("deleteExcludeRegion", ["id"]), ("updateExcludeRegion", ["type", "id"])] := rfl

/-- settings defaults the plugin model starts from -/
theorem settings_defaults :
    Gen.defaultClearRegionsAfterPrintFinishes = false ∧ Gen.defaultMayShrinkRegionsWhilePrinting = false ∧
    Gen.defaultEnterScriptIsNone = true ∧ Gen.defaultExitScriptIsNone = true ∧
    Gen.defaultExtended = [("G4", "exclude"), ("M204", "merge"), ("M205", "merge"), ("M117", "last"), ("M73", "merge")] :=
  ⟨rfl, rfl, rfl, rfl, rfl⟩

/-- the attributes `resetState` assigns: the fields of `FState` (plus the unmodelled counters and
the start time), and those only `__init__` assigns: the fields of `Config` (plus logger, parser) -/
theorem resetState_attrs : Gen.resetStateAttrs =
    ["_exclusionEnabled", "excludeStartTime", "excludedRegions", "excluding", "feedRate",
     "feedRateUnitMultiplier", "lastPosition", "lastRetraction", "numCommands", "numExcludedCommands",
     "pendingCommands", "position"] := rfl

theorem init_attrs : Gen.initAttrs =
    ["_logger", "atCommandActions", "enteringExcludedRegionGcode", "exitingExcludedRegionGcode",
     "extendedExcludeGcodes", "g90InfluencesExtruder", "gcodeParser"] := rfl

/-! ## What a new print and new objects start from

The source text of the values assigned by `resetState`, `Position()`, the defaults of
`AxisPosition(...)` and `RetractionState(...)`, next to the values the model's constructors use. -/

theorem resetState_values : Gen.resetStateValues =
    [("position", "Position()"), ("feedRate", "0"), ("feedRateUnitMultiplier", "1"),
     ("_exclusionEnabled", "True"), ("excluding", "False"), ("excludeStartTime", "None"),
     ("numExcludedCommands", "0"), ("numCommands", "0"), ("lastRetraction", "None"),
     ("lastPosition", "None"), ("pendingCommands", "OrderedDict()")] := rfl

theorem position_init_values : Gen.positionInitValues =
    [("X_AXIS", "AxisPosition()"), ("Y_AXIS", "AxisPosition()"), ("Z_AXIS", "AxisPosition()"),
     ("E_AXIS", "AxisPosition(0)")] := rfl

theorem axis_default_values : Gen.axisDefaultValues =
    [("current", "None"), ("homeOffset", "0.0"), ("offset", "0.0"), ("absoluteMode", "True"),
     ("unitMultiplier", "1.0")] := rfl

theorem retraction_init_values : Gen.retractionInitValues =
    [("recoverExcluded", "False"), ("allowCombine", "True")] := rfl

section
variable {α : Type} [Add α] [Sub α] [Mul α] [Div α] [Neg α] [LT α] [LE α] [BEq α]
  [OfNat α 0] [OfNat α 1] [DecidableLT α] [DecidableLE α] [MathOps α]

/-- the model's `resetState`: the same values -/
theorem model_reset_values (rs : List (Region α)) :
    (FState.reset rs).position = Position.init ∧ (FState.reset rs).feedRate = 0 ∧
    (FState.reset rs).feedRateUnitMultiplier = 1 ∧ (FState.reset rs).exclusionEnabled = true ∧
    (FState.reset rs).excluding = false ∧ (FState.reset rs).lastRetraction = none ∧
    (FState.reset rs).lastPosition = none ∧ (FState.reset rs).pendingCommands = [] :=
  ⟨rfl, rfl, rfl, rfl, rfl, rfl, rfl, rfl⟩

/-- the model's `Position()` / `AxisPosition(current)`: the same values -/
theorem model_position_init :
    (Position.init : Position α) = { x := Axis.init none, y := Axis.init none, z := Axis.init none, e := Axis.init (some 0) } ∧
    ∀ c : Option α, Axis.init c = { current := c, homeOffset := 0, offset := 0, absoluteMode := true, unitMultiplier := 1 } :=
  ⟨rfl, fun _ => rfl⟩
end

end ERP
