import ERP.Lemmas.ParamScan
import ERP.Lemmas.LineTotal
/-! # Exact evaluation of `REGEX_GCODE_LINE` on normalised command strings

Towards C18(3): re-parsing a normalised command string gives back its fields.  The helper lemmas
are generic (lazy repetition of a one-character body; "what a greedy star consumed"); the main
theorem evaluates the regex regenerated from the source on texts of the shape
`blanks [N<digits> ' '] <letter><digits>[.<digits>] [' ' parameters]`. -/
namespace ERP.Rx

/-- what a greedy star over a class consumed: only characters of the class; captures untouched -/
theorem wp_star_class {ctx : Ctx} {neg : Bool} {items : List CC} {p : Nat} {c : Caps} {Q : Nat → Caps → Prop}
    (h : ∀ p', p ≤ p' → (∀ i, p ≤ i → i < p' → passes ctx neg items i = true) → Q p' c) :
    WP ctx (.rep true 0 none (.chars neg items)) p c Q := by
  intro R k res hm
  rw [m_star_eq] at hm
  have key : ∀ f q, (∀ i, p ≤ i → i < q → passes ctx neg items i = true) → p ≤ q →
      starG ctx neg items k c f q = some res → ∃ p' c', Q p' c' ∧ k p' c' = some res := by
    intro f
    induction f with
    | zero => intro q hq hpq hs; exact ⟨q, c, h q hpq hq, hs⟩
    | succ f ih =>
      intro q hq hpq hs
      simp only [starG] at hs
      split at hs
      · rename_i hp
        rcases orElse'_some hs with h1 | h1
        · exact ih (q + 1) (fun i h1' h2' => by
            by_cases hiq : i = q
            · subst hiq; exact hp
            · exact hq i h1' (by omega)) (by omega) h1
        · exact ⟨q, c, h q hpq hq, h1⟩
      · exact ⟨q, c, h q hpq hq, hs⟩
  exact key _ p (fun i h1 h2 => by omega) (Nat.le_refl _) hm

/-- a regex that consumes exactly one character where `ok` holds and fails elsewhere -/
def OneStep (ctx : Ctx) (r : Re) (ok : Nat → Bool) : Prop :=
  ∀ {R : Type} (p : Nat) (c : Caps) (k : Nat → Caps → Option R),
    m ctx r p c k = if ok p then k (p + 1) c else none

/-- lazy one-or-more of a one-character body: the continuation is tried after 1, 2, 3 …
characters; the first success wins -/
def lazyG {R : Type} (ok : Nat → Bool) (k : Nat → Caps → Option R) (c : Caps) : Nat → Nat → Option R
  | 0, p => k p c
  | f+1, p => orElse' (k p c) (fun _ => if ok p then lazyG ok k c f (p + 1) else none)

theorem repLoop_lazy_eq {R : Type} (ctx : Ctx) (r : Re) (ok : Nat → Bool) (hr : OneStep ctx r ok) (lo : Nat)
    (k : Nat → Caps → Option R) (c : Caps) :
    ∀ f n p, lo ≤ n → repLoop (m ctx r) false lo none f n p c k = lazyG ok k c f p := by
  intro f
  induction f with
  | zero => intro n p _; rfl
  | succ f ih =>
    intro n p hn
    have hlt : ¬ (n < lo) := by omega
    simp only [repLoop, canMore, if_true, hlt, if_false, Bool.false_eq_true, lazyG]
    congr 1
    funext _
    rw [hr p c]
    by_cases hp : ok p = true
    · simp only [hp, if_true]
      have hne : (p + 1 == p) = false := by simp
      simp only [hne, Bool.false_and, Bool.false_eq_true, if_false]
      exact ih (n + 1) (p + 1) (by omega)
    · have hp' : ok p = false := by simpa using hp
      simp only [hp', Bool.false_eq_true, if_false]

theorem m_lazyplus_eq {R : Type} (ctx : Ctx) (r : Re) (ok : Nat → Bool) (hr : OneStep ctx r ok) (p : Nat) (c : Caps)
    (k : Nat → Caps → Option R) :
    m ctx (.rep false 1 none r) p c k = if ok p then lazyG ok k c (ctx.s.size + 2 - p) (p + 1) else none := by
  rw [m.eq_5]
  have : ctx.s.size + 2 - p + 1 = (ctx.s.size + 2 - p) + 1 := rfl
  rw [this]
  simp only [repLoop, canMore, if_true, Nat.lt_one_iff]
  rw [hr p c]
  by_cases hp : ok p = true
  · simp only [hp, if_true]
    have hne : (p + 1 == p) = false := by simp
    simp only [hne, Bool.false_and, Bool.false_eq_true, if_false]
    exact repLoop_lazy_eq ctx r ok hr 1 k c _ 1 (p + 1) (Nat.le_refl _)
  · have hp' : ok p = false := by simpa using hp
    simp only [hp', Bool.false_eq_true, if_false]

/-- the lazy loop returns the continuation's result at the first position where it succeeds -/
theorem lazyG_first {R : Type} (ok : Nat → Bool) (k : Nat → Caps → Option R) (c : Caps) (p' : Nat) (res : R)
    (hk : k p' c = some res) :
    ∀ f p, p ≤ p' → p' - p < f → (∀ i, p ≤ i → i < p' → ok i = true ∧ k i c = none) →
      lazyG ok k c f p = some res := by
  intro f
  induction f with
  | zero => intro p _ h; omega
  | succ f ih =>
    intro p hpp hf hall
    simp only [lazyG]
    by_cases hpe : p = p'
    · subst hpe; rw [hk]; rfl
    · obtain ⟨h1, h2⟩ := hall p (Nat.le_refl _) (by omega)
      rw [h2, orElse'_none]
      simp only [h1, if_true]
      exact ih (p + 1) (by omega) (by omega) (fun i hi1 hi2 => hall i (by omega) hi2)

end ERP.Rx

namespace ERP.Rx

abbrev DIGc : List CC := [.cat "digit"]
abbrev NLc : List CC := [.lit (Char.ofNat 78), .lit (Char.ofNat 110)]
abbrev GMc : List CC := [.lit (Char.ofNat 71), .lit (Char.ofNat 103), .lit (Char.ofNat 77), .lit (Char.ofNat 109)]
abbrev TTc : List CC := [.lit (Char.ofNat 84), .lit (Char.ofNat 116)]
abbrev STARc : List CC := [.lit (Char.ofNat 42)]
abbrev BSc : List CC := [.lit (Char.ofNat 92)]
abbrev SEMIc : List CC := [.lit (Char.ofNat 59)]
abbrev PSTOP : List CC := [.lit (Char.ofNat 59), .lit (Char.ofNat 42), .lit (Char.ofNat 13), .lit (Char.ofNat 10)]
abbrev CRLF : List CC := [.lit (Char.ofNat 13), .lit (Char.ofNat 10)]

def WSr : Re := .rep true 0 none (.chars false SP)
def PLUSDc : Re := .rep true 1 none (.chars false DIGc)
def OPTN : Re := .rep true 0 (some 1) (.seq (.chars false NLc) (.group 3 PLUSDc))
def CODEr : Re :=
  .alt (.seq (.group 4 (.chars false GMc)) (.seq WSr (.seq (.group 5 PLUSDc)
      (.rep true 0 (some 1) (.seq (.chars false DOT) (.group 6 PLUSDc))))))
    (.seq (.group 7 (.chars false TTc)) (.seq WSr (.group 8 PLUSDc)))
def PCHAR : Re :=
  .alt (.seq (.chars false BSc) (.chars false BSc)) (.alt (.seq (.chars false BSc) (.chars false SEMIc)) (.chars true PSTOP))
def OPTP : Re := .rep true 0 (some 1) (.group 9 (.rep false 1 none PCHAR))
def OPTCK : Re := .rep true 0 (some 1) (.seq (.chars false STARc) (.group 10 PLUSDc))
def BODYA : Re := .seq OPTN (.seq WSr (.seq CODEr (.seq WSr (.seq OPTP (.seq WSr OPTCK)))))
def TAIL2 : Re := .seq (.group 11 WSr) (.seq COMMENT EOL)

/-- the line regex regenerated from the source, in named parts -/
theorem gcodeLine_parts : Gen.gcodeLine = .seq (.group 1 WSr) (.seq (.group 2 (.alt BODYA CATCH)) TAIL2) := rfl

/-- without backslashes a parameter character is any single character but `; * CR LF` -/
theorem pchar_onestep (ctx : Ctx) (hnb : ∀ i, passes ctx false BSc i = false) :
    OneStep ctx PCHAR (fun p => passes ctx true PSTOP p) := by
  intro R p c k
  unfold PCHAR
  simp only [m.eq_4, m.eq_3, m_chars_eq, hnb, Bool.false_eq_true, if_false, orElse'_none]

/-- at the end of the text: blanks and the optional checksum match emptily -/
theorem ws_optck_at_end {R : Type} (ctx : Ctx) (c : Caps) (k : Nat → Caps → Option R) :
    m ctx (.seq WSr OPTCK) ctx.s.size c k = k ctx.s.size c := by
  have hend : ∀ (items : List CC), passes ctx false items ctx.s.size = false := by
    intro items; unfold passes; simp
  rw [m.eq_3]
  unfold WSr
  rw [m_star_empty ctx false SP _ c _ (hend SP)]
  unfold OPTCK
  rw [m_opt_eq ctx _ _ c _ (Nat.le_refl _), m.eq_3, m_chars_eq, hend STARc]
  simp only [Bool.false_eq_true, if_false, orElse'_none]

/-- at the end of the text: trailing blanks, comment and line ending match emptily -/
theorem tail2_at_end (ctx : Ctx) (c : Caps) :
    m ctx TAIL2 ctx.s.size c (fun p c => some (p, c)) =
      some (ctx.s.size, (13, ctx.s.size, ctx.s.size) :: (11, ctx.s.size, ctx.s.size) :: c) := by
  have hend : ∀ (neg : Bool) (items : List CC), passes ctx neg items ctx.s.size = false := by
    intro neg items; unfold passes; simp
  unfold TAIL2
  rw [m.eq_3, m.eq_6]
  unfold WSr
  rw [m_star_empty ctx false SP _ c _ (hend false SP)]
  rw [m.eq_3]
  unfold COMMENT
  rw [m_opt_eq ctx _ _ _ _ (Nat.le_refl _), m.eq_6, m.eq_3, m_chars_eq, hend false _]
  simp only [Bool.false_eq_true, if_false, orElse'_none]
  unfold EOL
  rw [m.eq_6, m.eq_4, m.eq_3, m_chars_eq, hend false _]
  simp only [Bool.false_eq_true, if_false, orElse'_none]
  rw [m.eq_4, m_chars_eq, hend false _]
  simp only [Bool.false_eq_true, if_false, orElse'_none]
  rw [m.eq_4, m_chars_eq, hend false _]
  simp only [Bool.false_eq_true, if_false, orElse'_none]
  rw [m.eq_7]
  simp [atOk]

end ERP.Rx

namespace ERP.Rx

/-- what follows the parameters inside group 2 (which started at `p1`): blanks, optional checksum,
end of group 2, then trailing blanks, optional comment and the line ending -/
def tailK (ctx : Ctx) (p1 : Nat) : Nat → Caps → Option (Nat × Caps) :=
  fun p c => m ctx (.seq WSr OPTCK) p c (fun p' c' => m ctx TAIL2 p' ((2, p1, p') :: c') (fun p c => some (p, c)))

theorem tailK_end (ctx : Ctx) (p1 : Nat) (c : Caps) :
    tailK ctx p1 ctx.s.size c =
      some (ctx.s.size, (13, ctx.s.size, ctx.s.size) :: (11, ctx.s.size, ctx.s.size) :: (2, p1, ctx.s.size) :: c) := by
  unfold tailK
  rw [ws_optck_at_end, tail2_at_end]

/-- a stop character (`; * CR LF`) is needed for a checksum, a comment or a line ending -/
theorem star_is_stop (ctx : Ctx) (p : Nat) (h : passes ctx false STARc p = true) : passes ctx true PSTOP p = false := by
  have hp := passes_lt h
  unfold passes at h ⊢
  simp only [hp, dite_true, List.any_cons, List.any_nil, Bool.or_false, CC.test, bne_iff_ne, ne_eq,
    Bool.not_eq_false, beq_iff_eq] at h ⊢
  simp [h, CC.test]

theorem semi_is_stop (ctx : Ctx) (p : Nat) (h : passes ctx false SEMIc p = true) : passes ctx true PSTOP p = false := by
  have hp := passes_lt h
  unfold passes at h ⊢
  simp only [hp, dite_true, List.any_cons, List.any_nil, Bool.or_false, CC.test, bne_iff_ne, ne_eq,
    Bool.not_eq_false, beq_iff_eq] at h ⊢
  simp [h, CC.test]

theorem cr_is_stop (ctx : Ctx) (p : Nat) (h : passes ctx false [CC.lit (Char.ofNat 13)] p = true) :
    passes ctx true PSTOP p = false := by
  have hp := passes_lt h
  unfold passes at h ⊢
  simp only [hp, dite_true, List.any_cons, List.any_nil, Bool.or_false, CC.test, bne_iff_ne, ne_eq,
    Bool.not_eq_false, beq_iff_eq] at h ⊢
  simp [h, CC.test]

theorem lf_is_stop (ctx : Ctx) (p : Nat) (h : passes ctx false [CC.lit (Char.ofNat 10)] p = true) :
    passes ctx true PSTOP p = false := by
  have hp := passes_lt h
  unfold passes at h ⊢
  simp only [hp, dite_true, List.any_cons, List.any_nil, Bool.or_false, CC.test, bne_iff_ne, ne_eq,
    Bool.not_eq_false, beq_iff_eq] at h ⊢
  simp [h, CC.test]

/-- **The tail cannot match while a visible character is still ahead**: if the rest of the text
contains no stop character but some non-blank, `tailK` fails (proved through the soundness rules:
any success would have consumed only blanks up to the end of the text). -/
theorem tailK_none (ctx : Ctx) (p1 p : Nat) (c : Caps)
    (hplain : ∀ i, p ≤ i → i < ctx.s.size → passes ctx true PSTOP i = true)
    (hvis : ∃ j, p ≤ j ∧ j < ctx.s.size ∧ passes ctx false SP j = false) :
    tailK ctx p1 p c = none := by
  cases hres : tailK ctx p1 p c with
  | none => rfl
  | some res =>
    exfalso
    unfold tailK at hres
    -- blanks, then (no) checksum
    have w1 : WP ctx (.seq WSr OPTCK) p c (fun p' _ => p ≤ p' ∧ ∀ i, p ≤ i → i < p' → passes ctx false SP i = true) := by
      apply wp_seq
      unfold WSr
      apply wp_star_class
      intro p' hle hall
      unfold OPTCK
      apply wp_opt
      · exact ⟨hle, hall⟩
      · apply wp_seq
        apply wp_chars
        intro hp' ht
        exfalso
        have hst : passes ctx false STARc p' = true := by unfold passes; simp only [hp', dite_true]; exact ht
        have := hplain p' hle hp'
        rw [star_is_stop ctx p' hst] at this; cases this
    obtain ⟨p', c', ⟨hle, hall⟩, hk⟩ := w1 _ _ res hres
    -- trailing blanks, (no) comment, line ending = end of text
    have w2 : WP ctx TAIL2 p' ((2, p1, p') :: c')
        (fun e _ => p' ≤ e ∧ (∀ i, p' ≤ i → i < e → passes ctx false SP i = true) ∧ e = ctx.s.size) := by
      unfold TAIL2
      apply wp_seq
      apply wp_group
      unfold WSr
      apply wp_star_class
      intro p'' hle2 hall2
      have nostop : ∀ (items : List CC), (∀ q, passes ctx false items q = true → passes ctx true PSTOP q = false) →
          p'' < ctx.s.size → passes ctx false items p'' = true → False := by
        intro items hi hlt ht
        have := hplain p'' (by omega) hlt
        rw [hi p'' ht] at this; cases this
      apply wp_seq
      unfold COMMENT
      apply wp_opt
      · unfold EOL
        apply wp_group
        apply wp_alt
        · apply wp_seq; apply wp_chars; intro hp ht
          exact absurd (by unfold passes; simp only [hp, dite_true]; exact ht) (fun h => nostop _ (cr_is_stop ctx) hp h)
        apply wp_alt
        · apply wp_chars; intro hp ht
          exact absurd (by unfold passes; simp only [hp, dite_true]; exact ht) (fun h => nostop _ (cr_is_stop ctx) hp h)
        apply wp_alt
        · apply wp_chars; intro hp ht
          exact absurd (by unfold passes; simp only [hp, dite_true]; exact ht) (fun h => nostop _ (lf_is_stop ctx) hp h)
        · apply wp_at'
          intro hk
          refine ⟨hle2, hall2, ?_⟩
          simpa [atOk] using hk
      · apply wp_group
        apply wp_seq
        apply wp_chars
        intro hp ht
        exact absurd (by unfold passes; simp only [hp, dite_true]; exact ht) (fun h => nostop _ (semi_is_stop ctx) hp h)
    obtain ⟨e, ce, ⟨hle3, hall3, he⟩, _⟩ := w2 _ _ res hk
    obtain ⟨j, hj1, hj2, hj3⟩ := hvis
    have : passes ctx false SP j = true := by
      by_cases hjp : j < p'
      · exact hall j hj1 hjp
      · exact hall3 j (by omega) (by omega)
    rw [hj3] at this; cases this

end ERP.Rx

namespace ERP.Rx

/-- what follows the code inside group 2: blanks, optional parameters, then `tailK` -/
def restA (ctx : Ctx) (p1 : Nat) : Nat → Caps → Option (Nat × Caps) :=
  fun p c => m ctx (.seq WSr (.seq OPTP (.seq WSr OPTCK))) p c
    (fun p' c' => m ctx TAIL2 p' ((2, p1, p') :: c') (fun p c => some (p, c)))

theorem passes_end (ctx : Ctx) (neg : Bool) (items : List CC) : passes ctx neg items ctx.s.size = false := by
  unfold passes; simp

/-- a command without parameters: the code ends the text -/
theorem restA_no_params (ctx : Ctx) (p1 : Nat) (c : Caps) :
    restA ctx p1 ctx.s.size c =
      some (ctx.s.size, (13, ctx.s.size, ctx.s.size) :: (11, ctx.s.size, ctx.s.size) :: (2, p1, ctx.s.size) :: c) := by
  unfold restA
  rw [m.eq_3]
  unfold WSr
  rw [m_star_empty ctx false SP _ c _ (passes_end ctx false SP), m.eq_3]
  unfold OPTP
  rw [m_opt_eq ctx _ _ c _ (Nat.le_refl _), m.eq_6]
  have hnone : ∀ kk : Nat → Caps → Option (Nat × Caps),
      m ctx (.rep false 1 none PCHAR) ctx.s.size c kk = none := by
    intro kk
    -- no character left: the first (mandatory) iteration fails
    rw [m.eq_5]
    have : ctx.s.size + 2 - ctx.s.size + 1 = (ctx.s.size + 2 - ctx.s.size) + 1 := rfl
    rw [this]
    simp only [repLoop, canMore, if_true, Nat.lt_one_iff]
    unfold PCHAR
    simp only [m.eq_4, m.eq_3, m_chars_eq, passes_end, Bool.false_eq_true, if_false, orElse'_none]
  rw [hnone, orElse'_none]
  exact tailK_end ctx p1 c

/-- the optional parameters group, when present: lazily up to the first position where the rest
of the regex (`tk`) succeeds -/
theorem optp_take {R : Type} (ctx : Ctx) (q5 e : Nat) (c : Caps) (tk : Nat → Caps → Option R) (res : R)
    (hnb : ∀ i, passes ctx false BSc i = false) (hq5 : q5 < e) (he : e ≤ ctx.s.size)
    (hplain : ∀ i, q5 ≤ i → i < e → passes ctx true PSTOP i = true)
    (hend : tk e ((9, q5, e) :: c) = some res)
    (hnone : ∀ i, q5 < i → i < e → tk i ((9, q5, i) :: c) = none) :
    m ctx OPTP q5 c tk = some res := by
  unfold OPTP
  rw [m_opt_eq ctx _ _ c _ (by omega), m.eq_6,
    m_lazyplus_eq ctx PCHAR _ (pchar_onestep ctx hnb) q5 c]
  have hok : passes ctx true PSTOP q5 = true := hplain q5 (Nat.le_refl _) hq5
  simp only [hok, if_true]
  rw [lazyG_first (fun p => passes ctx true PSTOP p)
    (fun p' c' => if (p' == q5) = true then none else tk p' ((9, q5, p') :: c')) c e res
    (by
      have hne : (e == q5) = false := by simp only [beq_eq_false_iff_ne, ne_eq]; omega
      simp only [hne, Bool.false_eq_true, if_false]; exact hend)
    (ctx.s.size + 2 - q5) (q5 + 1) (by omega) (by omega)
    (fun i hi1 hi2 => by
      refine ⟨hplain i (by omega) hi2, ?_⟩
      have hne : (i == q5) = false := by simp only [beq_eq_false_iff_ne, ne_eq]; omega
      simp only [hne, Bool.false_eq_true, if_false]
      exact hnone i (by omega) hi2)]
  rfl

/-- a command with plain parameters: one blank, then the parameters up to the end of the text -/
theorem restA_params (ctx : Ctx) (p1 d2 : Nat) (c : Caps)
    (hnb : ∀ i, passes ctx false BSc i = false)
    (hsp : passes ctx false SP d2 = true) (hq : passes ctx false SP (d2 + 1) = false)
    (hlt : d2 + 1 < ctx.s.size)
    (hplain : ∀ i, d2 + 1 ≤ i → i < ctx.s.size → passes ctx true PSTOP i = true)
    (hlast : passes ctx false SP (ctx.s.size - 1) = false) :
    restA ctx p1 d2 c =
      some (ctx.s.size, (13, ctx.s.size, ctx.s.size) :: (11, ctx.s.size, ctx.s.size) :: (2, p1, ctx.s.size) ::
        (9, d2 + 1, ctx.s.size) :: c) := by
  unfold restA
  rw [m.eq_3]
  have hspan : span ctx false SP d2 = d2 + 1 :=
    span_eq_of_stop ctx false SP d2 (d2 + 1) (by omega)
      (fun i h1 h2 => by have : i = d2 := by omega
                         subst this; exact hsp) hq
  refine m_star_max ctx false SP d2 c _ _ (by omega) ?_
  rw [hspan, m.eq_3]
  exact optp_take ctx (d2 + 1) ctx.s.size c (tailK ctx p1) _ hnb hlt (Nat.le_refl _)
    (fun i h1 h2 => hplain i h1 h2) (tailK_end ctx p1 _)
    (fun i hi1 hi2 => tailK_none ctx p1 i _ (fun j hj1 hj2 => hplain j (by omega) hj2)
      ⟨ctx.s.size - 1, by omega, by omega, hlast⟩)

end ERP.Rx

namespace ERP.Rx

theorem orElse'_some_left {R : Type} {a : Option R} {b : Unit → Option R} {r : R} (h : a = some r) :
    orElse' a b = some r := by subst h; rfl

/-- a digit run `[p, e)`, non-empty, followed by a non-digit -/
structure DigitRun (ctx : Ctx) (p e : Nat) : Prop where
  nonempty : p < e
  le : e ≤ ctx.s.size
  digits : ∀ i, p ≤ i → i < e → passes ctx false DIGc i = true
  stop : passes ctx false DIGc e = false

theorem DigitRun.span_eq {ctx : Ctx} {p e : Nat} (h : DigitRun ctx p e) : span ctx false DIGc p = e :=
  span_eq_of_stop ctx false DIGc p e (Nat.le_of_lt h.nonempty) h.digits h.stop

/-- one-or-more digits inside a group, the continuation succeeding at the end of the run -/
theorem group_digits {R : Type} (ctx : Ctx) (g p e : Nat) (c : Caps) (k : Nat → Caps → Option R) (res : R)
    (hr : DigitRun ctx p e) (hk : k e ((g, p, e) :: c) = some res) :
    m ctx (.group g PLUSDc) p c k = some res := by
  rw [m.eq_6]
  unfold PLUSDc
  have hp : passes ctx false DIGc p = true := hr.digits p (Nat.le_refl _) hr.nonempty
  rw [m_plus_max ctx false DIGc p c _ (by have := hr.le; have := hr.nonempty; omega) (fun _ => by rw [hr.span_eq, hk]; rfl)]
  simp only [hp, if_true, hr.span_eq]
  exact hk

/-- `G`/`M` code with optional sub-code -/
theorem code_gm {R : Type} (ctx : Ctx) (a d1 : Nat) (c : Caps) (K : Nat → Caps → Option R) (res : R)
    (hty : passes ctx false GMc a = true) (hnsp : passes ctx false SP (a + 1) = false)
    (hcode : DigitRun ctx (a + 1) d1)
    (sub : Option Nat)
    (hsub : match sub with
      | some d2 => passes ctx false DOT d1 = true ∧ DigitRun ctx (d1 + 1) d2 ∧
          K d2 ((6, d1 + 1, d2) :: (5, a + 1, d1) :: (4, a, a + 1) :: c) = some res
      | none => passes ctx false DOT d1 = false ∧ K d1 ((5, a + 1, d1) :: (4, a, a + 1) :: c) = some res) :
    m ctx CODEr a c K = some res := by
  unfold CODEr
  rw [m.eq_4]
  apply orElse'_some_left
  rw [m.eq_3, m.eq_6, m_chars_eq]
  simp only [hty, if_true]
  rw [m.eq_3]
  unfold WSr
  rw [m_star_empty ctx false SP _ _ _ hnsp, m.eq_3]
  apply group_digits ctx 5 (a + 1) d1 _ _ res hcode
  rw [m_opt_eq ctx _ d1 _ _ hcode.le, m.eq_3, m_chars_eq]
  cases sub with
  | none =>
    obtain ⟨hd, hk⟩ := hsub
    simp only [hd, Bool.false_eq_true, if_false, orElse'_none]
    exact hk
  | some d2 =>
    obtain ⟨hd, hr2, hk⟩ := hsub
    simp only [hd, if_true]
    apply orElse'_some_left
    apply group_digits ctx 6 (d1 + 1) d2 _ _ res hr2
    have hne : (d2 == d1) = false := by
      simp only [beq_eq_false_iff_ne, ne_eq]; have := hr2.nonempty; omega
    simp only [hne, Bool.false_eq_true, if_false]
    exact hk

/-- `T` code -/
theorem code_t {R : Type} (ctx : Ctx) (a d1 : Nat) (c : Caps) (K : Nat → Caps → Option R) (res : R)
    (hgm : passes ctx false GMc a = false) (hty : passes ctx false TTc a = true)
    (hnsp : passes ctx false SP (a + 1) = false) (hcode : DigitRun ctx (a + 1) d1)
    (hk : K d1 ((8, a + 1, d1) :: (7, a, a + 1) :: c) = some res) :
    m ctx CODEr a c K = some res := by
  unfold CODEr
  rw [m.eq_4, m.eq_3, m.eq_6, m_chars_eq]
  simp only [hgm, Bool.false_eq_true, if_false, orElse'_none]
  rw [m.eq_3, m.eq_6, m_chars_eq]
  simp only [hty, if_true]
  rw [m.eq_3]
  unfold WSr
  rw [m_star_empty ctx false SP _ _ _ hnsp]
  exact group_digits ctx 8 (a + 1) d1 _ _ res hcode hk

/-- the optional line number, present -/
theorem optn_take {R : Type} (ctx : Ctx) (p1 n1 : Nat) (c : Caps) (K : Nat → Caps → Option R) (res : R)
    (hn : passes ctx false NLc p1 = true) (hr : DigitRun ctx (p1 + 1) n1)
    (hk : K n1 ((3, p1 + 1, n1) :: c) = some res) :
    m ctx OPTN p1 c K = some res := by
  unfold OPTN
  have hp1 := passes_lt hn
  rw [m_opt_eq ctx _ p1 c _ (by omega), m.eq_3, m_chars_eq]
  simp only [hn, if_true]
  apply orElse'_some_left
  apply group_digits ctx 3 (p1 + 1) n1 _ _ res hr
  have hne : (n1 == p1) = false := by
    simp only [beq_eq_false_iff_ne, ne_eq]; have := hr.nonempty; omega
  simp only [hne, Bool.false_eq_true, if_false]
  exact hk

/-- the optional line number, absent -/
theorem optn_skip {R : Type} (ctx : Ctx) (p1 : Nat) (c : Caps) (K : Nat → Caps → Option R)
    (hp : p1 ≤ ctx.s.size) (hn : passes ctx false NLc p1 = false) :
    m ctx OPTN p1 c K = K p1 c := by
  unfold OPTN
  rw [m_opt_eq ctx _ p1 c _ hp, m.eq_3, m_chars_eq]
  simp only [hn, Bool.false_eq_true, if_false, orElse'_none]

end ERP.Rx

namespace ERP.Rx

/-- **The tail cannot match while a visible plain character is still ahead** (general form): if
every character from `p` up to and including a non-blank at `j` is no stop character, `tailK`
fails at `p`. -/
theorem tailK_none' (ctx : Ctx) (p1 p j : Nat) (c : Caps)
    (hplain : ∀ i, p ≤ i → i ≤ j → passes ctx true PSTOP i = true)
    (hpj : p ≤ j) (hj : j < ctx.s.size) (hvis : passes ctx false SP j = false) :
    tailK ctx p1 p c = none := by
  cases hres : tailK ctx p1 p c with
  | none => rfl
  | some res =>
    exfalso
    unfold tailK at hres
    -- blanks can only lead up to `j`
    have upto : ∀ q q', q ≤ j → q ≤ q' → (∀ i, q ≤ i → i < q' → passes ctx false SP i = true) → q' ≤ j := by
      intro q q' hq _ hall
      rcases Nat.lt_or_ge j q' with hlt | hge
      · have := hall j hq hlt; rw [hvis] at this; cases this
      · exact hge
    have w1 : WP ctx (.seq WSr OPTCK) p c (fun p' _ => p ≤ p' ∧ p' ≤ j) := by
      apply wp_seq
      unfold WSr
      apply wp_star_class
      intro p' hle hall
      have hp'j := upto p p' hpj hle hall
      unfold OPTCK
      apply wp_opt
      · exact ⟨hle, hp'j⟩
      · apply wp_seq
        apply wp_chars
        intro hp' ht
        exfalso
        have hst : passes ctx false STARc p' = true := by unfold passes; simp only [hp', dite_true]; exact ht
        have := hplain p' hle hp'j
        rw [star_is_stop ctx p' hst] at this; cases this
    obtain ⟨p', c', ⟨hle, hp'j⟩, hk⟩ := w1 _ _ res hres
    have w2 : WP ctx TAIL2 p' ((2, p1, p') :: c') (fun _ _ => False) := by
      unfold TAIL2
      apply wp_seq
      apply wp_group
      unfold WSr
      apply wp_star_class
      intro p'' hle2 hall2
      have hp''j := upto p' p'' hp'j hle2 hall2
      have nostop : ∀ (items : List CC), (∀ q, passes ctx false items q = true → passes ctx true PSTOP q = false) →
          passes ctx false items p'' = true → False := by
        intro items hi ht
        have := hplain p'' (by omega) hp''j
        rw [hi p'' ht] at this; cases this
      apply wp_seq
      unfold COMMENT
      apply wp_opt
      · unfold EOL
        apply wp_group
        apply wp_alt
        · apply wp_seq; apply wp_chars; intro hp ht
          exact absurd (by unfold passes; simp only [hp, dite_true]; exact ht) (fun h => nostop _ (cr_is_stop ctx) h)
        apply wp_alt
        · apply wp_chars; intro hp ht
          exact absurd (by unfold passes; simp only [hp, dite_true]; exact ht) (fun h => nostop _ (cr_is_stop ctx) h)
        apply wp_alt
        · apply wp_chars; intro hp ht
          exact absurd (by unfold passes; simp only [hp, dite_true]; exact ht) (fun h => nostop _ (lf_is_stop ctx) h)
        · apply wp_at'
          intro hk
          have : p'' = ctx.s.size := by simpa [atOk] using hk
          omega
      · apply wp_group
        apply wp_seq
        apply wp_chars
        intro hp ht
        exact absurd (by unfold passes; simp only [hp, dite_true]; exact ht) (fun h => nostop _ (semi_is_stop ctx) h)
    obtain ⟨_, _, hf, _⟩ := w2 _ _ res hk
    exact hf

theorem star_not_space (ctx : Ctx) (p : Nat) (h : passes ctx false STARc p = true) : passes ctx false SP p = false := by
  have hp := passes_lt h
  unfold passes at h ⊢
  simp only [hp, dite_true, List.any_cons, List.any_nil, Bool.or_false, CC.test, bne_iff_ne, ne_eq,
    Bool.not_eq_false, beq_iff_eq] at h ⊢
  simp [h]

/-- the tail with a checksum: blanks up to `s'`, `*`, digits to the end of the text -/
theorem tailK_ck (ctx : Ctx) (p1 p s' : Nat) (c : Caps)
    (hp : p ≤ ctx.s.size) (hspan : span ctx false SP p = s')
    (hstar : passes ctx false STARc s' = true) (hrun : DigitRun ctx (s' + 1) ctx.s.size) :
    tailK ctx p1 p c =
      some (ctx.s.size, (13, ctx.s.size, ctx.s.size) :: (11, ctx.s.size, ctx.s.size) :: (2, p1, ctx.s.size) ::
        (10, s' + 1, ctx.s.size) :: c) := by
  unfold tailK
  rw [m.eq_3]
  unfold WSr
  refine m_star_max ctx false SP p c _ _ hp ?_
  rw [hspan]
  unfold OPTCK
  have hs' := passes_lt hstar
  rw [m_opt_eq ctx _ s' c _ (by omega), m.eq_3, m_chars_eq]
  simp only [hstar, if_true]
  apply orElse'_some_left
  apply group_digits ctx 10 (s' + 1) ctx.s.size _ _ _ hrun
  have hne : (ctx.s.size == s') = false := by
    simp only [beq_eq_false_iff_ne, ne_eq]; omega
  simp only [hne, Bool.false_eq_true, if_false]
  exact tail2_at_end ctx _

/-- a command without parameters followed by ` *<digits>` -/
theorem restA_ck_no_params (ctx : Ctx) (p1 d2 : Nat) (c : Caps)
    (hnb : ∀ i, passes ctx false BSc i = false)
    (hsp : passes ctx false SP d2 = true) (hstar : passes ctx false STARc (d2 + 1) = true)
    (hrun : DigitRun ctx (d2 + 2) ctx.s.size) :
    restA ctx p1 d2 c =
      some (ctx.s.size, (13, ctx.s.size, ctx.s.size) :: (11, ctx.s.size, ctx.s.size) :: (2, p1, ctx.s.size) ::
        (10, d2 + 2, ctx.s.size) :: c) := by
  have hns := star_not_space ctx _ hstar
  have hlt := passes_lt hstar
  have hspan : span ctx false SP d2 = d2 + 1 :=
    span_eq_of_stop ctx false SP d2 (d2 + 1) (by omega)
      (fun i h1 h2 => by have : i = d2 := by omega
                         subst this; exact hsp) hns
  have hspan2 : span ctx false SP (d2 + 1) = d2 + 1 :=
    span_eq_of_stop ctx false SP (d2 + 1) (d2 + 1) (Nat.le_refl _) (fun i h1 h2 => by omega) hns
  unfold restA
  rw [m.eq_3]
  unfold WSr
  refine m_star_max ctx false SP d2 c _ _ (by omega) ?_
  rw [hspan, m.eq_3]
  unfold OPTP
  rw [m_opt_eq ctx _ _ c _ (by omega), m.eq_6, m_lazyplus_eq ctx PCHAR _ (pchar_onestep ctx hnb) (d2 + 1) c]
  simp only [star_is_stop ctx _ hstar, Bool.false_eq_true, if_false, orElse'_none]
  exact tailK_ck ctx p1 (d2 + 1) (d2 + 1) c (by omega) hspan2 hstar hrun

/-- a command with plain parameters `[d2+1, d3)` followed by ` *<digits>` -/
theorem restA_ck_params (ctx : Ctx) (p1 d2 d3 : Nat) (c : Caps)
    (hnb : ∀ i, passes ctx false BSc i = false)
    (hsp : passes ctx false SP d2 = true) (hq : passes ctx false SP (d2 + 1) = false)
    (hlt : d2 + 1 < d3)
    (hplain : ∀ i, d2 + 1 ≤ i → i < d3 → passes ctx true PSTOP i = true)
    (hlast : passes ctx false SP (d3 - 1) = false)
    (hsp3 : passes ctx false SP d3 = true) (hstar : passes ctx false STARc (d3 + 1) = true)
    (hrun : DigitRun ctx (d3 + 2) ctx.s.size) :
    restA ctx p1 d2 c =
      some (ctx.s.size, (13, ctx.s.size, ctx.s.size) :: (11, ctx.s.size, ctx.s.size) :: (2, p1, ctx.s.size) ::
        (10, d3 + 2, ctx.s.size) :: (9, d2 + 1, d3) :: c) := by
  have hlt3 := passes_lt hstar
  unfold restA
  rw [m.eq_3]
  have hspan : span ctx false SP d2 = d2 + 1 :=
    span_eq_of_stop ctx false SP d2 (d2 + 1) (by omega)
      (fun i h1 h2 => by have : i = d2 := by omega
                         subst this; exact hsp) hq
  have hspan3 : span ctx false SP d3 = d3 + 1 :=
    span_eq_of_stop ctx false SP d3 (d3 + 1) (by omega)
      (fun i h1 h2 => by have : i = d3 := by omega
                         subst this; exact hsp3) (star_not_space ctx _ hstar)
  refine m_star_max ctx false SP d2 c _ _ (by omega) ?_
  rw [hspan, m.eq_3]
  exact optp_take ctx (d2 + 1) d3 c (tailK ctx p1) _ hnb hlt (by omega)
    (fun i h1 h2 => hplain i h1 h2)
    (tailK_ck ctx p1 d3 (d3 + 1) _ (by omega) hspan3 hstar hrun)
    (fun i hi1 hi2 => tailK_none' ctx p1 i (d3 - 1) _ (fun j hj1 hj2 => hplain j (by omega) (by omega))
      (by omega) (by omega) hlast)

end ERP.Rx
