import ERP.Lemmas.Invariant
/-! # The invariant is preserved by every command of the dialect, by @-commands and region additions -/
namespace ERP
open T Spec
set_option linter.unusedSectionVars false
set_option linter.unusedSimpArgs false

variable {α : Type} [Field α] [LinearOrder α] [IsStrictOrderedRing α] [MathOps α] [MathSpec α]

/-- The commands the motion theorems are about (C01/C03 "supported dialect"): G92 only without
X/Y/Z values and no M206 (known finding K-D15), arcs only in absolute positioning and in I/J form
(K-D5, K-D10), no homing while an episode is open (K-D18); the command's code is the `gcode` it is
dispatched on. -/
def Dialect (s : FState α) (g : String) (c : Cmd α) : Prop :=
  c.code = g ∧
  match Code.ofString g with
  | .G92 => ∀ kv ∈ c.words, kv.2 ≠ none → kv.1 ≠ 'X' ∧ kv.1 ≠ 'Y' ∧ kv.1 ≠ 'Z'
  | .M206 => False
  | .G2 | .G3 => s.position.x.absoluteMode = true ∧ s.position.y.absoluteMode = true ∧
      s.position.z.absoluteMode = true ∧ lastValue c.words 'R' = none
  | .G28 => s.excluding = false
  | _ => True

theorem lastValue_none_of (w : List (Char × Option α)) (c : Char)
    (h : ∀ kv ∈ w, kv.2 ≠ none → kv.1 ≠ c) : lastValue w c = none := by
  unfold lastValue
  suffices ∀ acc : Option α, acc = none → w.foldl (fun acc (kv : Char × Option α) =>
      if kv.1 == c then (match kv.2 with | some x => some x | none => acc) else acc) acc = none from
    this none rfl
  induction w with
  | nil => intro acc ha; exact ha
  | cons kv rest ih =>
    intro acc ha
    simp only [List.foldl_cons]
    apply ih (fun kv' hkv' => h kv' (by simp [hkv']))
    split
    · rename_i hk
      cases hv : kv.2 with
      | none => exact ha
      | some x =>
        exfalso
        exact h kv (by simp) (by simp [hv]) (by simpa using hk)
    · exact ha

/-- a command that the printer executes without touching X, Y, Z or their frames -/
def NeutralCmd (g90e : Bool) (inch : α) (cmd : Cmd α) : Prop :=
  ∀ p : Printer α, XYZeq (p.execOut g90e inch (.orig cmd)).pos p.pos

theorem execOuts_neutral_list (g90e : Bool) (inch : α) (cmd : Cmd α) (hn : NeutralCmd g90e inch cmd)
    (l : List (Out α)) : ∀ p : Printer α, (∀ o ∈ l, EOnly o ∨ o = .orig cmd) →
      XYZeq (p.execOuts g90e inch l).pos p.pos := by
  induction l with
  | nil => intro p _; exact XYZeq.refl _
  | cons o rest ih =>
    intro p h
    simp only [execOuts_cons]
    refine (ih _ (fun o' ho' => h o' (by simp [ho']))).trans ?_
    rcases h o (by simp) with h1 | h1
    · exact execOut_EOnly g90e inch p o h1
    · subst h1; exact hn p

end ERP

namespace ERP
open T Spec
set_option linter.unusedSectionVars false
set_option linter.unusedSimpArgs false
variable {α : Type} [Field α] [LinearOrder α] [IsStrictOrderedRing α] [MathOps α] [MathSpec α]

theorem g0_inv (g90e : Bool) (inch : α) (cfg : Config) (s : FState α) (phys : Printer α) (cmd : Cmd α)
    (h : WF s) (hinv : InvXYZ s phys)
    (hc : Code.ofString cmd.code = .G0 ∨ Code.ofString cmd.code = .G1) :
    InvXYZ (T.handleG0 cfg s cmd).1 (phys.execOuts g90e inch (fwdOf cmd (T.handleG0 cfg s cmd).2)) := by
  unfold T.handleG0
  apply plm_inv g90e inch cfg s phys cmd _ _ _ _ (lastValue cmd.words 'X') (lastValue cmd.words 'Y')
    (lastValue cmd.words 'Z') h hinv
  · intro p
    rcases hc with hc | hc <;> simp [Printer.execOut, hc, Printer.exec, Printer.linear]
  · simp [loopAxis]
  · simp [loopAxis]
  · rfl
  · intro hm
    simp only [T.isMoveOf, List.any_cons, List.any_nil, Bool.or_false, Bool.or_eq_false_iff] at hm
    obtain ⟨h1, h2, h3⟩ := hm
    refine ⟨?_, ?_, ?_⟩
    · cases hx : lastValue cmd.words 'X' <;> simp_all
    · cases hx : lastValue cmd.words 'Y' <;> simp_all
    · cases hx : lastValue cmd.words 'Z' <;> simp_all

/-- in absolute mode only the last point of the loop matters -/
theorem loopAxis_abs (a : Axis α) (habs : a.absoluteMode = true) (vs : List α) (v : α) :
    loopAxis a ((vs ++ [v]).map some) = setLog a (some v) := by
  have : ∀ (vs : List α) (b : Axis α), sameFrame b a →
      loopAxis b ((vs ++ [v]).map some) = setLog a (some v) := by
    intro vs
    induction vs with
    | nil =>
      intro b hb
      obtain ⟨f1, f2, f3, f4⟩ := hb
      simp only [loopAxis, List.nil_append, List.map_cons, List.map_nil, List.foldl_cons,
        List.foldl_nil, setLog, l2n, f3, habs, if_true]
      cases b; cases a; simp_all
    | cons x rest ih =>
      intro b hb
      simp only [loopAxis, List.cons_append, List.map_cons, List.foldl_cons]
      apply ih
      obtain ⟨f1, f2, f3, f4⟩ := hb
      exact ⟨f1, f2, f3, f4⟩
  exact this vs a ⟨rfl, rfl, rfl, rfl⟩

theorem setLog_n2l_abs (a : Axis α) (ha : AxisOk a) (habs : a.absoluteMode = true) :
    setLog a (some (n2l a)) = a := by
  simp only [setLog, l2n_n2l_abs a habs ha.2]
  exact ha.eta

theorem planArc_last (p : Position α) (ex ey i j : α) (cw : Bool) :
    ∃ pts, T.planArc p ex ey i j cw = pts ++ [(ex, ey)] := ⟨_, rfl⟩

end ERP

namespace ERP
open T Spec
set_option linter.unusedSectionVars false
set_option linter.unusedSimpArgs false
variable {α : Type} [Field α] [LinearOrder α] [IsStrictOrderedRing α] [MathOps α] [MathSpec α]

theorem setLog_getD_abs (a : Axis α) (ha : AxisOk a) (habs : a.absoluteMode = true) (v : Option α) :
    setLog a (some (v.getD (n2l a))) = setLog a v := by
  cases v with
  | some v => rfl
  | none => simp only [Option.getD]; exact setLog_n2l_abs a ha habs

theorem g2_inv (g90e : Bool) (inch : α) (cfg : Config) (s : FState α) (phys : Printer α) (cmd : Cmd α)
    (cw : Bool) (h : WF s) (hinv : InvXYZ s phys)
    (hc : Code.ofString cmd.code = .G2 ∨ Code.ofString cmd.code = .G3)
    (hax : s.position.x.absoluteMode = true) (hay : s.position.y.absoluteMode = true)
    (haz : s.position.z.absoluteMode = true) (hr : lastValue cmd.words 'R' = none) :
    InvXYZ (T.handleG2 cfg s cmd cw).1
      (phys.execOuts g90e inch (fwdOf cmd (T.handleG2 cfg s cmd cw).2)) := by
  obtain ⟨px, py, pz, _⟩ := h.pos
  unfold T.handleG2
  simp only [hr]
  by_cases hij : (!((lastValue cmd.words 'I').getD 0 == 0) || !((lastValue cmd.words 'J').getD 0 == 0)) = true
  · simp only [hij, if_true]
    obtain ⟨pts, hpts⟩ := planArc_last s.position ((lastValue cmd.words 'X').getD (n2l s.position.x))
      ((lastValue cmd.words 'Y').getD (n2l s.position.y)) ((lastValue cmd.words 'I').getD 0)
      ((lastValue cmd.words 'J').getD 0) cw
    rw [hpts]
    apply plm_inv g90e inch cfg s phys cmd _ _ _ _ (lastValue cmd.words 'X') (lastValue cmd.words 'Y')
      (lastValue cmd.words 'Z') h hinv
    · intro p
      rcases hc with hc | hc <;> simp [Printer.execOut, hc, Printer.exec, hij, Printer.linear]
    · have : (List.map (fun x => x.1) (List.map (fun (x : α × α) => (some x.1, some x.2))
          (pts ++ [((lastValue cmd.words 'X').getD (n2l s.position.x),
            (lastValue cmd.words 'Y').getD (n2l s.position.y))]))) =
          ((pts.map (·.1)) ++ [(lastValue cmd.words 'X').getD (n2l s.position.x)]).map some := by
        simp [List.map_append, Function.comp_def]
      rw [this, loopAxis_abs _ hax, setLog_getD_abs _ px hax]
    · have : (List.map (fun x => x.2) (List.map (fun (x : α × α) => (some x.1, some x.2))
          (pts ++ [((lastValue cmd.words 'X').getD (n2l s.position.x),
            (lastValue cmd.words 'Y').getD (n2l s.position.y))]))) =
          ((pts.map (·.2)) ++ [(lastValue cmd.words 'Y').getD (n2l s.position.y)]).map some := by
        simp [List.map_append, Function.comp_def]
      rw [this, loopAxis_abs _ hay, setLog_getD_abs _ py hay]
    · exact setLog_getD_abs _ pz haz _
    · intro hm; simp [T.isMoveOf] at hm
  · simp only [hij, Bool.false_eq_true, if_false, fwdOf, execOuts_cons, execOuts_nil]
    apply hinv.congr _ (XYZeq.refl _) rfl rfl rfl
    rcases hc with hc | hc <;> simp [Printer.execOut, hc, Printer.exec, hij] <;> exact XYZeq.refl _

end ERP

namespace ERP
open T Spec
set_option linter.unusedSectionVars false
set_option linter.unusedSimpArgs false
variable {α : Type} [Field α] [LinearOrder α] [IsStrictOrderedRing α] [MathOps α] [MathSpec α]

theorem g10_inv (g90e : Bool) (inch : α) (cfg : Config) (s : FState α) (phys : Printer α) (cmd : Cmd α)
    (h : WF s) (hinv : InvXYZ s phys) (hc : Code.ofString cmd.code = .G10) :
    InvXYZ (T.handleG10 s cmd).1 (phys.execOuts g90e inch (fwdOf cmd (T.handleG10 s cmd).2)) := by
  have hn : NeutralCmd g90e inch cmd := by
    intro p; simp only [Printer.execOut, hc, Printer.exec]; split <;> exact XYZeq.refl _
  unfold T.handleG10
  split
  · simp only [fwdOf, execOuts_cons, execOuts_nil]
    exact hinv.congr (hn phys) (XYZeq.refl _) rfl rfl rfl
  · rw [fwdOf_toResult, toResult_fst]
    have hf := recordRetraction_frame s ({ firmwareRetract := true, extrusionAmount := none, feedRate := none, originalCommand := cmd } : Retraction α) h
    obtain ⟨o1, o2⟩ := recordRetraction_outs s ({ firmwareRetract := true, extrusionAmount := none, feedRate := none, originalCommand := cmd } : Retraction α)
    generalize T.recordRetraction s _ = rr at *
    obtain ⟨s1, c1⟩ := rr
    simp only at hf o1 o2 ⊢
    have hl : ∀ o ∈ c1, EOnly o ∨ o = .orig cmd := by
      by_cases he : s.excluding = true
      · intro o ho; exact Or.inl (o1 he o ho)
      · rcases o2 (by simpa using he) with r | r <;> rw [r] <;> simp
    apply hinv.congr (execOuts_neutral_list g90e inch cmd hn c1 phys hl) <;> rw [hf]
    exact XYZeq.refl _

theorem g11_inv (g90e : Bool) (inch : α) (cfg : Config) (s : FState α) (phys : Printer α) (cmd : Cmd α)
    (h : WF s) (hinv : InvXYZ s phys) (hc : Code.ofString cmd.code = .G11) :
    InvXYZ (T.handleG11 s cmd).1 (phys.execOuts g90e inch (fwdOf cmd (T.handleG11 s cmd).2)) := by
  have hn : NeutralCmd g90e inch cmd := by
    intro p; simp only [Printer.execOut, hc, Printer.exec]; exact XYZeq.refl _
  unfold T.handleG11
  rw [fwdOf_toResult, toResult_fst]
  have hf := recoverIfNeeded_frame s cmd true h
  obtain ⟨o1, o2⟩ := recoverIfNeeded_outs s cmd true
  generalize T.recoverRetractionIfNeeded s cmd true = rr at *
  obtain ⟨s1, c1⟩ := rr
  simp only at hf o1 o2 ⊢
  have hl : ∀ o ∈ c1, EOnly o ∨ o = .orig cmd := by
    by_cases he : s.excluding = true
    · rw [o1 he]; simp
    · obtain ⟨pre, hp, hE⟩ := o2 (by simpa using he)
      rw [hp]; intro o ho
      rcases List.mem_append.mp ho with ho | ho
      · exact Or.inl (hE o ho)
      · simp at ho; exact Or.inr ho
  apply hinv.congr (execOuts_neutral_list g90e inch cmd hn c1 phys hl) <;> rw [hf]
  exact XYZeq.refl _

/-- frame-changing commands (G20/G21/G90/G91): forwarded unchanged, so printer and filter change
their frames in step — also inside an episode -/
theorem frame_cmd_inv (g90e : Bool) (inch : α) (s : FState α) (phys : Printer α) (cmd : Cmd α)
    (f : Axis α → Axis α) (hf : ∀ a c, f { a with current := c } = { f a with current := c })
    (s' : FState α) (hx : s'.position.x = f s.position.x) (hy : s'.position.y = f s.position.y)
    (hz : s'.position.z = f s.position.z) (hex : s'.excluding = s.excluding)
    (hlp : s'.lastPosition = s.lastPosition) (hpc : s'.pendingCommands = s.pendingCommands)
    (hexec : ∀ p : Printer α, (p.execOut g90e inch (.orig cmd)).pos.x = f p.pos.x ∧
      (p.execOut g90e inch (.orig cmd)).pos.y = f p.pos.y ∧ (p.execOut g90e inch (.orig cmd)).pos.z = f p.pos.z)
    (hinv : InvXYZ s phys) (hcur : ∀ a, (f a).current = a.current) :
    InvXYZ s' (phys.execOuts g90e inch [.orig cmd]) := by
  obtain ⟨e1, e2, e3⟩ := hexec phys
  obtain ⟨ix, iy, iz, ip⟩ := hinv
  simp only [execOuts_cons, execOuts_nil]
  refine ⟨?_, ?_, ?_, ?_⟩
  · rw [e1, ix]; simp only [expectAxis, hex, T.lastPos, hlp, hx]
    split
    · rw [hf]; cases s.lastPosition <;> simp [hcur, hx]
    · rfl
  · rw [e2, iy]; simp only [expectAxis, hex, T.lastPos, hlp, hy]
    split
    · rw [hf]; cases s.lastPosition <;> simp [hcur, hy]
    · rfl
  · rw [e3, iz]; simp only [expectAxis, hex, T.lastPos, hlp, hz]
    split
    · rw [hf]; cases s.lastPosition <;> simp [hcur, hz]
    · rfl
  · intro e he; rw [hpc] at he; exact ip e he

end ERP

namespace ERP
open T Spec
set_option linter.unusedSectionVars false
set_option linter.unusedSimpArgs false
variable {α : Type} [Field α] [LinearOrder α] [IsStrictOrderedRing α] [MathOps α] [MathSpec α]

theorem g92_xyz_unchanged (w : List (Char × Option α))
    (hd : ∀ kv ∈ w, kv.2 ≠ none → kv.1 ≠ 'X' ∧ kv.1 ≠ 'Y' ∧ kv.1 ≠ 'Z') :
    ∀ p : Position α, XYZeq (w.foldl T.g92Step p) p := by
  induction w with
  | nil => intro p; exact XYZeq.refl _
  | cons kv rest ih =>
    intro p
    simp only [List.foldl_cons]
    refine (ih (fun kv' hkv' => hd kv' (by simp [hkv'])) _).trans ?_
    obtain ⟨k, v⟩ := kv
    cases v with
    | none => exact XYZeq.refl _
    | some v =>
      obtain ⟨n1, n2, n3⟩ := hd (k, some v) (by simp) (by simp)
      simp only [T.g92Step]
      split
      · exact ⟨rfl, rfl, rfl⟩
      · split
        · rename_i hk; simp at hk; exact absurd hk n1
        · split
          · rename_i hk; simp at hk; exact absurd hk n2
          · split
            · rename_i hk; simp at hk; exact absurd hk n3
            · exact XYZeq.refl _

theorem processExtended_inv (cfg : Config) (s : FState α) (cmd : Cmd α) (g : String)
    (hpn : PendingNeutral s) (hg : ∃ n, Code.ofString cmd.code = .other n) :
    let r := s.processExtendedGcode cfg cmd g
    r.1.position = s.position ∧ r.1.excluding = s.excluding ∧ r.1.lastPosition = s.lastPosition ∧
    PendingNeutral r.1 ∧ (r.2 = .none ∨ r.2 = .ignore) := by
  unfold FState.processExtendedGcode
  split
  · split
    · rename_i m _
      refine ⟨?_, ?_, ?_, ?_, Or.inr rfl⟩
      all_goals (unfold FState.processExtendedGcodeEntry; cases m <;> simp only)
      all_goals (try rfl)
      all_goals (try (split <;> rfl))
      · exact hpn
      · split
        · exact hpn
        · intro e he c hc
          rcases List.mem_append.mp he with he | he
          · exact hpn e he c hc
          · simp at he; subst he; simp at hc; subst hc; exact hg
      · intro e he c hc
        rcases List.mem_append.mp he with he | he
        · exact hpn e (List.mem_of_mem_filter he) c hc
        · simp at he; subst he; simp at hc; subst hc; exact hg
      · intro e he c hc
        rcases List.mem_append.mp he with he | he
        · exact hpn e (List.mem_of_mem_filter he) c hc
        · simp at he; subst he; simp at hc
    · exact ⟨rfl, rfl, rfl, hpn, Or.inl rfl⟩
  · exact ⟨rfl, rfl, rfl, hpn, Or.inl rfl⟩

end ERP

namespace ERP
open T Spec
set_option linter.unusedSectionVars false
set_option linter.unusedSimpArgs false
variable {α : Type} [Field α] [LinearOrder α] [IsStrictOrderedRing α] [MathOps α] [MathSpec α]

theorem handleG28_axes (s : FState α) (cmd : Cmd α) :
    let hx := hasLetter cmd.words 'X'
    let hy := hasLetter cmd.words 'Y'
    let hz := hasLetter cmd.words 'Z'
    let all := !(hx || hy || hz)
    (handleG28 s cmd).position.x = (if hx || all then homeAxis s.position.x else s.position.x) ∧
    (handleG28 s cmd).position.y = (if hy || all then homeAxis s.position.y else s.position.y) ∧
    (handleG28 s cmd).position.z = (if hz || all then homeAxis s.position.z else s.position.z) ∧
    (handleG28 s cmd).excluding = s.excluding ∧ (handleG28 s cmd).pendingCommands = s.pendingCommands := by
  unfold handleG28
  generalize hasLetter cmd.words 'X' = a
  generalize hasLetter cmd.words 'Y' = b
  generalize hasLetter cmd.words 'Z' = c
  cases a <;> cases b <;> cases c <;> simp [homeAxis, Axis.setHome]

theorem setAbsoluteMode_axes (cfg : Config) (s : FState α) (b : Bool) :
    (s.setAbsoluteMode cfg b).position.x = s.position.x.setAbsoluteMode b ∧
    (s.setAbsoluteMode cfg b).position.y = s.position.y.setAbsoluteMode b ∧
    (s.setAbsoluteMode cfg b).position.z = s.position.z.setAbsoluteMode b ∧
    (s.setAbsoluteMode cfg b).excluding = s.excluding ∧
    (s.setAbsoluteMode cfg b).lastPosition = s.lastPosition ∧
    (s.setAbsoluteMode cfg b).pendingCommands = s.pendingCommands := by
  unfold FState.setAbsoluteMode
  split <;> exact ⟨rfl, rfl, rfl, rfl, rfl, rfl⟩

/-- **One G-code command of the dialect preserves the invariant.** -/
theorem gcode_inv (cfg : Config) (inch : α) (s : FState α) (phys : Printer α) (g : String) (cmd : Cmd α)
    (h : WF s) (hinv : InvXYZ s phys) (hd : Dialect s g cmd) :
    InvXYZ (T.handleGcode cfg inch s g cmd).1
      (phys.execOuts cfg.g90InfluencesExtruder inch (fwdOf cmd (T.handleGcode cfg inch s g cmd).2)) := by
  obtain ⟨hcode, hd⟩ := hd
  unfold T.handleGcode
  generalize hcg : Code.ofString g = c at hd
  have hcc : Code.ofString cmd.code = c := by rw [hcode, hcg]
  cases c with
  | G0 => exact g0_inv _ inch cfg s phys cmd h hinv (Or.inl hcc)
  | G1 => exact g0_inv _ inch cfg s phys cmd h hinv (Or.inr hcc)
  | G2 => exact g2_inv _ inch cfg s phys cmd true h hinv (Or.inl hcc) hd.1 hd.2.1 hd.2.2.1 hd.2.2.2
  | G3 => exact g2_inv _ inch cfg s phys cmd false h hinv (Or.inr hcc) hd.1 hd.2.1 hd.2.2.1 hd.2.2.2
  | G10 => exact g10_inv _ inch cfg s phys cmd h hinv hcc
  | G11 => exact g11_inv _ inch cfg s phys cmd h hinv hcc
  | G20 =>
    apply frame_cmd_inv _ inch s phys cmd (fun a => a.setUnitMultiplier inch) (fun a c => rfl)
      (s.setUnitMultiplier inch) rfl rfl rfl rfl rfl rfl _ hinv (fun a => rfl)
    intro p; simp [Printer.execOut, hcc, Printer.exec, Position.setUnitMultiplier]
  | G21 =>
    apply frame_cmd_inv _ inch s phys cmd (fun a => a.setUnitMultiplier 1) (fun a c => rfl)
      (s.setUnitMultiplier 1) rfl rfl rfl rfl rfl rfl _ hinv (fun a => rfl)
    intro p; simp [Printer.execOut, hcc, Printer.exec, Position.setUnitMultiplier]
  | G28 =>
    -- only outside an episode (dialect)
    have hne : s.excluding = false := hd
    simp only [fwdOf, execOuts_cons, execOuts_nil]
    obtain ⟨fx, fy, fz⟩ := hinv.of_not_excluding hne
    obtain ⟨g1, g2, g3, g4, g5⟩ := handleG28_axes s cmd
    apply InvXYZ.mk_free (by rw [g4]; exact hne)
    · simp only [Printer.execOut, hcc, Printer.exec, XYZeq, fx, fy, fz]
      exact ⟨g1.symm, g2.symm, g3.symm⟩
    · intro e he; rw [g5] at he; exact hinv.pend e he
  | G90 =>
    obtain ⟨m1, m2, m3, m4, m5, m6⟩ := setAbsoluteMode_axes cfg s true
    apply frame_cmd_inv _ inch s phys cmd (fun a => a.setAbsoluteMode true) (fun a c => rfl)
      (s.setAbsoluteMode cfg true) m1 m2 m3 m4 m5 m6 _ hinv (fun a => rfl)
    intro p; simp only [Printer.execOut, hcc, Printer.exec]; split <;> exact ⟨rfl, rfl, rfl⟩
  | G91 =>
    obtain ⟨m1, m2, m3, m4, m5, m6⟩ := setAbsoluteMode_axes cfg s false
    apply frame_cmd_inv _ inch s phys cmd (fun a => a.setAbsoluteMode false) (fun a c => rfl)
      (s.setAbsoluteMode cfg false) m1 m2 m3 m4 m5 m6 _ hinv (fun a => rfl)
    intro p; simp only [Printer.execOut, hcc, Printer.exec]; split <;> exact ⟨rfl, rfl, rfl⟩
  | G92 =>
    simp only [fwdOf, execOuts_cons, execOuts_nil]
    have hpos := g92_xyz_unchanged cmd.words hd s.position
    have hX := lastValue_none_of cmd.words 'X' (fun kv hkv hv => (hd kv hkv hv).1)
    have hY := lastValue_none_of cmd.words 'Y' (fun kv hkv hv => (hd kv hkv hv).2.1)
    have hZ := lastValue_none_of cmd.words 'Z' (fun kv hkv hv => (hd kv hkv hv).2.2)
    refine InvXYZ.congr (s' := { s with position := List.foldl T.g92Step s.position cmd.words })
      hinv ?_ hpos rfl rfl rfl
    simp only [Printer.execOut, hcc, Printer.exec, hX, hY, hZ, rebase]
    exact ⟨rfl, rfl, rfl⟩
  | M206 => exact absurd hd (by simp)
  | other n =>
    obtain ⟨e1, e2, e3, e4, e5⟩ := processExtended_inv cfg s cmd g hinv.pend ⟨n, hcc⟩
    generalize s.processExtendedGcode cfg cmd g = r at *
    obtain ⟨s1, r1⟩ := r
    simp only at e1 e2 e3 e4 e5 ⊢
    have hph : XYZeq (phys.execOuts cfg.g90InfluencesExtruder inch (fwdOf cmd r1)).pos phys.pos := by
      rcases e5 with rfl | rfl
      · simp only [fwdOf, execOuts_cons, execOuts_nil, Printer.execOut, hcc, Printer.exec]
        exact XYZeq.refl _
      · exact XYZeq.refl _
    obtain ⟨ix, iy, iz, _⟩ := hinv
    obtain ⟨q1, q2, q3⟩ := hph
    refine ⟨?_, ?_, ?_, e4⟩
    · rw [q1, ix]; simp only [expectAxis, e2, T.lastPos, e3, e1]
    · rw [q2, iy]; simp only [expectAxis, e2, T.lastPos, e3, e1]
    · rw [q3, iz]; simp only [expectAxis, e2, T.lastPos, e3, e1]

end ERP

namespace ERP
open T Spec
set_option linter.unusedSectionVars false
set_option linter.unusedSimpArgs false
variable {α : Type} [Field α] [LinearOrder α] [IsStrictOrderedRing α] [MathOps α] [MathSpec α]

theorem disable_inv (g90e : Bool) (inch : α) (cfg : Config) (s : FState α) (phys : Printer α)
    (h : WF s) (hinv : InvXYZ s phys) :
    InvXYZ (T.disableExclusion cfg s).1 (phys.execOuts g90e inch (T.disableExclusion cfg s).2) := by
  unfold T.disableExclusion
  have hw : WF ({ s with exclusionEnabled := false } : FState α) :=
    h.of_eq rfl rfl (fun hx => ⟨hx, rfl⟩) rfl
  have hi : InvXYZ ({ s with exclusionEnabled := false } : FState α) phys :=
    hinv.congr (XYZeq.refl _) (XYZeq.refl _) rfl rfl rfl
  split
  · dsimp only
    split
    · rename_i hex
      have hres := exit_resync g90e inch cfg _ phys hw hi hex
      have hst := exitExcludedRegion_state cfg ({ s with exclusionEnabled := false } : FState α)
      rw [if_pos hex] at hst
      apply InvXYZ.mk_free (by rw [hst]) (by rw [hst]; exact hres)
      intro e he; rw [hst] at he; cases he
    · exact hi
  · exact hinv

theorem atLoop_inv (g90e : Bool) (inch : α) (cfg : Config) (params : Text) (entries : List AtEntry) :
    ∀ (s : FState α) (handled : Bool) (sent : List (Out α)) (phys : Printer α),
      WF s → InvXYZ s (phys.execOuts g90e inch sent) →
      InvXYZ (T.atLoop cfg params entries s handled sent).1
        (phys.execOuts g90e inch (T.atLoop cfg params entries s handled sent).2.2) := by
  induction entries with
  | nil => intro s hd sent phys _ hi; exact hi
  | cons e rest ih =>
    intro s hd sent phys hw hi
    unfold T.atLoop
    split
    · cases e.action with
      | enable =>
        exact ih _ _ _ _ (hw.of_eq rfl rfl (fun hx => ⟨hx, rfl⟩) rfl)
          (hi.congr (XYZeq.refl _) (XYZeq.refl _) rfl rfl rfl)
      | disable =>
        simp only
        have := disable_inv g90e inch cfg s _ hw hi
        rw [← execOuts_append] at this
        exact ih _ _ _ _ (disableExclusion_WF cfg s hw) this
      | unsupported => exact ih _ _ _ _ hw hi
    · exact ih _ _ _ _ hw hi

theorem at_inv (g90e : Bool) (inch : α) (cfg : Config) (s : FState α) (phys : Printer α) (streaming : Bool)
    (cmd : String) (ps : Text) (h : WF s) (hinv : InvXYZ s phys) :
    InvXYZ (T.handleAtCommand cfg s streaming cmd ps).1
      (phys.execOuts g90e inch (T.handleAtCommand cfg s streaming cmd ps).2.2) := by
  unfold T.handleAtCommand
  split
  · exact hinv
  · exact atLoop_inv g90e inch cfg ps _ s false [] phys h hinv

/-- dialect of a whole event -/
def DialectEv (s : FState α) : Ev α → Prop
  | .gcode g c => Dialect s g c
  | _ => True

/-- **Every event preserves well-formedness and the printer invariant.** -/
theorem step_inv (cfg : Config) (inch : α) (hinch : inch ≠ 0) (s : FState α) (phys : Printer α) (e : Ev α)
    (h : WF s) (hinv : InvXYZ s phys) (hd : DialectEv s e) :
    WF (stepT cfg inch s e).1 ∧
    InvXYZ (stepT cfg inch s e).1
      (phys.execOuts cfg.g90InfluencesExtruder inch (Emit.forwarded e (stepT cfg inch s e).2)) := by
  cases e with
  | gcode g c =>
    obtain ⟨_, hw, _⟩ := handleGcode_ok cfg inch hinch s g c h
    refine ⟨hw, ?_⟩
    have := gcode_inv cfg inch s phys g c h hinv hd
    simp only [stepT]
    cases hr : (T.handleGcode cfg inch s g c).2 <;> simp only [hr, fwdOf, Emit.forwarded] at this ⊢ <;>
      exact this
  | atCmd st cmd ps =>
    exact ⟨(handleAtCommand_ok cfg s st cmd ps h).2, at_inv _ inch cfg s phys st cmd ps h hinv⟩
  | addRegion r =>
    simp only [stepT]
    cases hr : s.addRegion r with
    | error _ => exact ⟨h, hinv⟩
    | ok s' =>
      unfold FState.addRegion at hr
      split at hr
      · cases hr
        exact ⟨h.of_eq rfl rfl (fun hx => ⟨hx, rfl⟩) rfl,
          hinv.congr (XYZeq.refl _) (XYZeq.refl _) rfl rfl rfl⟩
      · cases hr

end ERP

namespace ERP
open T Spec
set_option linter.unusedSectionVars false
set_option linter.unusedSimpArgs false
variable {α : Type} [Field α] [LinearOrder α] [IsStrictOrderedRing α] [MathOps α] [MathSpec α]

theorem loopAxis_none (a : Axis α) (vs : List (Option α)) (h : ∀ v ∈ vs, v = none) : loopAxis a vs = a := by
  induction vs with
  | nil => rfl
  | cons v rest ih =>
    simp only [loopAxis, List.foldl_cons]
    rw [h v (by simp)]
    exact ih (fun v' hv' => h v' (by simp [hv']))

/-- the tracked axes after a move command -/
def movedPos (p : Position α) (ep fz : Option α) (xy : List (Option α × Option α)) : Position α :=
  { x := loopAxis p.x (xy.map (fun q => q.1)), y := loopAxis p.y (xy.map (fun q => q.2)),
    z := setLog p.z fz, e := setLog p.e ep }

/-- where `processLinearMoves` leaves the tracked axes -/
theorem plm_pos (cfg : Config) (s : FState α) (cmd : Cmd α) (ep fr fz : Option α)
    (xy : List (Option α × Option α)) (h : WF s) :
    (T.processLinearMoves cfg s cmd ep fr fz xy).1.position = movedPos s.position ep fz xy := by
  have hs1 := applyEZF_WF s ep fr fz h
  have hp1 : (T.applyEZF s ep fr fz).position =
      { s.position with z := setLog s.position.z fz, e := setLog s.position.e ep } := by
    unfold T.applyEZF; cases fr <;> rfl
  simp only [T.processLinearMoves, toResult_fst]
  generalize T.applyEZF s ep fr fz = s1 at *
  generalize T.deltaEOf s ep = dE
  by_cases hm : T.isMoveOf fz xy = true
  · simp only [hm, Bool.not_true, Bool.false_eq_true, if_false, T.moveBody]
    have hloop := isAnyLoop_pos xy s1 false
    obtain ⟨hw2, _, _⟩ := isAnyLoop_WF xy s1 false hs1
    generalize T.isAnyLoop s1 xy false = rr at *
    obtain ⟨s2, anyEx⟩ := rr
    simp only at hloop hw2 ⊢
    have hp2 : s2.position = movedPos s.position ep fz xy := by
      rw [hloop]; simp only [hp1, movedPos]
    by_cases ha : anyEx = true
    · simp only [ha, if_true]
      obtain ⟨hspec, _⟩ := processExcludedMove_spec cfg s2 cmd dE hw2
      generalize T.processExcludedMove cfg s2 cmd dE = r2 at *
      have p3 : r2.1.position = s2.position := by rw [hspec]
      split
      · simp only; rw [p3, hp2]
      · rw [p3, hp2]
    · simp only [ha, Bool.false_eq_true, if_false]
      by_cases hexc : s2.excluding = true
      · simp only [hexc, if_true]
        rw [exitExcludedRegion_state, if_pos hexc]; exact hp2
      · simp only [hexc, Bool.false_eq_true, if_false]
        by_cases hd : (!(dE == 0)) = true
        · simp only [hd, if_true]
          have hfr := recoverIfNeeded_frame s2 cmd false hw2
          generalize T.recoverRetractionIfNeeded s2 cmd false = r3 at *
          have p3 : r3.1.position = s2.position := by rw [hfr]
          cases s2.lastRetraction with
          | none => simp only; rw [p3, hp2]
          | some lr =>
            simp only
            split
            · exact p3.trans hp2
            · exact p3.trans hp2
        · simp only [hd, Bool.false_eq_true, if_false]; exact hp2
  · have hm' : T.isMoveOf fz xy = false := by simpa using hm
    simp only [hm', Bool.not_false, if_true]
    rw [nonMoveBody_fst, processNonMove_frame s1 cmd dE hs1]
    simp only [hp1, movedPos]
    unfold T.isMoveOf at hm'
    simp only [Bool.or_eq_false_iff, List.any_eq_false] at hm'
    have hx : loopAxis s.position.x (xy.map (·.1)) = s.position.x := by
      apply loopAxis_none
      intro v hv
      obtain ⟨p, hp, rfl⟩ := List.mem_map.mp hv
      have := hm'.2 p hp
      cases hv1 : p.1 <;> simp_all
    have hy : loopAxis s.position.y (xy.map (·.2)) = s.position.y := by
      apply loopAxis_none
      intro v hv
      obtain ⟨p, hp, rfl⟩ := List.mem_map.mp hv
      have := hm'.2 p hp
      cases hv1 : p.2 <;> simp_all
    rw [hx, hy]

end ERP

namespace ERP
open T Spec
set_option linter.unusedSectionVars false
set_option linter.unusedSimpArgs false
variable {α : Type} [Field α] [LinearOrder α] [IsStrictOrderedRing α] [MathOps α] [MathSpec α]

theorem processExtended_pos (cfg : Config) (s : FState α) (cmd : Cmd α) (g : String) :
    (s.processExtendedGcode cfg cmd g).1.position = s.position := by
  unfold FState.processExtendedGcode
  split
  · split
    · rename_i m _
      unfold FState.processExtendedGcodeEntry
      cases m <;> simp only
      · split <;> rfl
    · rfl
  · rfl

/-- **Tracking.** The filter's X/Y/Z axes follow the reference printer executing the unfiltered
command — inside and outside episodes, whether or not exclusion is enabled. -/
theorem track_gcode (cfg : Config) (inch : α) (s : FState α) (virt : Printer α) (g : String) (cmd : Cmd α)
    (h : WF s) (hd : Dialect s g cmd) (ht : XYZeq s.position virt.pos) :
    XYZeq (T.handleGcode cfg inch s g cmd).1.position
      (virt.exec cfg.g90InfluencesExtruder inch (Code.ofString g) cmd.words).pos := by
  obtain ⟨hcode, hd⟩ := hd
  obtain ⟨tx, ty, tz⟩ := ht
  obtain ⟨px, py, pz, _⟩ := h.pos
  unfold T.handleGcode
  generalize hcg : Code.ofString g = c at hd
  have lin : XYZeq (movedPos s.position (lastValue cmd.words 'E') (lastValue cmd.words 'Z')
      [(lastValue cmd.words 'X', lastValue cmd.words 'Y')])
      (virt.linear (lastValue cmd.words 'X') (lastValue cmd.words 'Y') (lastValue cmd.words 'Z')
        (lastValue cmd.words 'E')).pos := by
    simp only [movedPos, Printer.linear, XYZeq, loopAxis, List.map_cons, List.map_nil,
      List.foldl_cons, List.foldl_nil, moveAxis_eq_setLog, tx, ty, tz]
    exact ⟨trivial, trivial, trivial⟩
  cases c with
  | G0 => simp only [T.handleG0, Printer.exec]; rw [plm_pos _ _ _ _ _ _ _ h]; exact lin
  | G1 => simp only [T.handleG0, Printer.exec]; rw [plm_pos _ _ _ _ _ _ _ h]; exact lin
  | G2 =>
    obtain ⟨hax, hay, haz, hr⟩ := hd
    simp only [T.handleG2, hr, Printer.exec]
    split
    · rw [plm_pos _ _ _ _ _ _ _ h]
      obtain ⟨pts, hpts⟩ := planArc_last s.position ((lastValue cmd.words 'X').getD (n2l s.position.x))
        ((lastValue cmd.words 'Y').getD (n2l s.position.y)) ((lastValue cmd.words 'I').getD 0)
        ((lastValue cmd.words 'J').getD 0) true
      rw [hpts]
      simp only [movedPos, Printer.linear, XYZeq, moveAxis_eq_setLog, ← tx, ← ty, ← tz, List.map_map]
      refine ⟨?_, ?_, setLog_getD_abs _ pz haz _⟩
      · have : (List.map ((fun q => q.1) ∘ fun (x : α × α) => (some x.1, some x.2))
            (pts ++ [((lastValue cmd.words 'X').getD (n2l s.position.x),
              (lastValue cmd.words 'Y').getD (n2l s.position.y))])) =
            ((pts.map (·.1)) ++ [(lastValue cmd.words 'X').getD (n2l s.position.x)]).map some := by
          simp [List.map_append, Function.comp_def]
        rw [this, loopAxis_abs _ hax, setLog_getD_abs _ px hax]
      · have : (List.map ((fun q => q.2) ∘ fun (x : α × α) => (some x.1, some x.2))
            (pts ++ [((lastValue cmd.words 'X').getD (n2l s.position.x),
              (lastValue cmd.words 'Y').getD (n2l s.position.y))])) =
            ((pts.map (·.2)) ++ [(lastValue cmd.words 'Y').getD (n2l s.position.y)]).map some := by
          simp [List.map_append, Function.comp_def]
        rw [this, loopAxis_abs _ hay, setLog_getD_abs _ py hay]
    · exact ⟨tx, ty, tz⟩
  | G3 =>
    obtain ⟨hax, hay, haz, hr⟩ := hd
    simp only [T.handleG2, hr, Printer.exec]
    split
    · rw [plm_pos _ _ _ _ _ _ _ h]
      obtain ⟨pts, hpts⟩ := planArc_last s.position ((lastValue cmd.words 'X').getD (n2l s.position.x))
        ((lastValue cmd.words 'Y').getD (n2l s.position.y)) ((lastValue cmd.words 'I').getD 0)
        ((lastValue cmd.words 'J').getD 0) false
      rw [hpts]
      simp only [movedPos, Printer.linear, XYZeq, moveAxis_eq_setLog, ← tx, ← ty, ← tz, List.map_map]
      refine ⟨?_, ?_, setLog_getD_abs _ pz haz _⟩
      · have : (List.map ((fun q => q.1) ∘ fun (x : α × α) => (some x.1, some x.2))
            (pts ++ [((lastValue cmd.words 'X').getD (n2l s.position.x),
              (lastValue cmd.words 'Y').getD (n2l s.position.y))])) =
            ((pts.map (·.1)) ++ [(lastValue cmd.words 'X').getD (n2l s.position.x)]).map some := by
          simp [List.map_append, Function.comp_def]
        rw [this, loopAxis_abs _ hax, setLog_getD_abs _ px hax]
      · have : (List.map ((fun q => q.2) ∘ fun (x : α × α) => (some x.1, some x.2))
            (pts ++ [((lastValue cmd.words 'X').getD (n2l s.position.x),
              (lastValue cmd.words 'Y').getD (n2l s.position.y))])) =
            ((pts.map (·.2)) ++ [(lastValue cmd.words 'Y').getD (n2l s.position.y)]).map some := by
          simp [List.map_append, Function.comp_def]
        rw [this, loopAxis_abs _ hay, setLog_getD_abs _ py hay]
    · exact ⟨tx, ty, tz⟩
  | G10 =>
    simp only [T.handleG10, Printer.exec]
    split
    · exact ⟨tx, ty, tz⟩
    · rw [toResult_fst, recordRetraction_frame _ _ h]; exact ⟨tx, ty, tz⟩
  | G11 =>
    simp only [T.handleG11, Printer.exec]
    rw [toResult_fst, recoverIfNeeded_frame _ _ _ h]; exact ⟨tx, ty, tz⟩
  | G20 => simp [Printer.exec, FState.setUnitMultiplier, Position.setUnitMultiplier, XYZeq, tx, ty, tz]
  | G21 => simp [Printer.exec, FState.setUnitMultiplier, Position.setUnitMultiplier, XYZeq, tx, ty, tz]
  | G28 =>
    obtain ⟨g1, g2, g3, _, _⟩ := handleG28_axes s cmd
    simp only [Printer.exec, XYZeq, ← tx, ← ty, ← tz]
    exact ⟨g1, g2, g3⟩
  | G90 =>
    obtain ⟨m1, m2, m3, _⟩ := setAbsoluteMode_axes cfg s true
    simp only [Printer.exec, XYZeq, m1, m2, m3, tx, ty, tz]
    split <;> exact ⟨rfl, rfl, rfl⟩
  | G91 =>
    obtain ⟨m1, m2, m3, _⟩ := setAbsoluteMode_axes cfg s false
    simp only [Printer.exec, XYZeq, m1, m2, m3, tx, ty, tz]
    split <;> exact ⟨rfl, rfl, rfl⟩
  | G92 =>
    have hpos := g92_xyz_unchanged cmd.words hd s.position
    have hX := lastValue_none_of cmd.words 'X' (fun kv hkv hv => (hd kv hkv hv).1)
    have hY := lastValue_none_of cmd.words 'Y' (fun kv hkv hv => (hd kv hkv hv).2.1)
    have hZ := lastValue_none_of cmd.words 'Z' (fun kv hkv hv => (hd kv hkv hv).2.2)
    simp only [Printer.exec, hX, hY, hZ, rebase]
    exact hpos.trans ⟨tx, ty, tz⟩
  | M206 => exact absurd hd (by simp)
  | other n =>
    simp only [Printer.exec]
    rw [processExtended_pos]
    exact ⟨tx, ty, tz⟩

end ERP
