import ERP.Lemmas.RegexComplete
import ERP.Gen.Regexes
/-! # `REGEX_GCODE_LINE` matches at every offset of every text

The catch-all alternative `[^;\r\n]*?` followed by blanks, an optional comment and the line ending
always finds a match; the first alternative only adds candidates. -/
namespace ERP.Rx

def WS : Re := .rep true 0 none (.chars false [.lit (Char.ofNat 32)])
def CATCH : Re := .rep false 0 none (.chars true [.lit (Char.ofNat 59), .lit (Char.ofNat 13), .lit (Char.ofNat 10)])
def COMMENT : Re := .rep true 0 (some 1) (.group 12 (.seq (.chars false [.lit (Char.ofNat 59)])
  (.rep true 0 none (.chars true [.lit (Char.ofNat 13), .lit (Char.ofNat 10)]))))
def EOL : Re := .group 13 (.alt (.seq (.chars false [.lit (Char.ofNat 13)]) (.chars false [.lit (Char.ofNat 10)]))
  (.alt (.chars false [.lit (Char.ofNat 13)]) (.alt (.chars false [.lit (Char.ofNat 10)]) (.at "end_string"))))

/-- the shape of the regex regenerated from the source (checked by `rfl` on every run) -/
theorem gcodeLine_shape : ∃ A, Gen.gcodeLine =
    .seq (.group 1 WS) (.seq (.group 2 (.alt A CATCH)) (.seq (.group 11 WS) (.seq COMMENT EOL))) :=
  ⟨_, rfl⟩

section
variable (ctx : Ctx) (k : Nat → Caps → Option (Nat × Caps)) (hk : ∀ p c, (k p c).isSome)
include hk

/-- the line ending matches at the end of the text and before CR or LF -/
theorem eol_some (p : Nat) (c : Caps) (hp : p ≤ ctx.s.size)
    (hstop : passes ctx true [.lit (Char.ofNat 13), .lit (Char.ofNat 10)] p = false) :
    (m ctx EOL p c k).isSome := by
  unfold EOL
  simp only [m]
  unfold passes at hstop
  split at hstop
  · rename_i hps
    simp only [List.any_cons, List.any_nil, Bool.or_false, CC.test, bne_eq_false_iff_eq, Bool.or_eq_true,
      beq_iff_eq] at hstop
    rcases hstop with h13 | h10
    · -- CR: `\r\n` is tried first, then `\r`
      apply orElse'_isSome_right
      apply orElse'_isSome_left
      simp [hps, h13, CC.test, hk]
    · apply orElse'_isSome_right
      apply orElse'_isSome_right
      apply orElse'_isSome_left
      simp [hps, h10, CC.test, hk]
  · have : p = ctx.s.size := by omega
    apply orElse'_isSome_right
    apply orElse'_isSome_right
    apply orElse'_isSome_right
    simp [atOk, this, hk]

/-- optional comment then line ending: succeeds at `;`, CR, LF and at the end of the text -/
theorem comment_eol_some (p : Nat) (c : Caps) (hp : p ≤ ctx.s.size)
    (hstop : passes ctx true [.lit (Char.ofNat 59), .lit (Char.ofNat 13), .lit (Char.ofNat 10)] p = false) :
    (m ctx (.seq COMMENT EOL) p c k).isSome := by
  simp only [m.eq_3]
  unfold COMMENT
  by_cases hsemi : ∃ h : p < ctx.s.size, ctx.s[p] = Char.ofNat 59
  · obtain ⟨hps, hc⟩ := hsemi
    apply some_opt_take hp
    simp only [m.eq_6, m.eq_3]
    apply some_chars hps (by simp [hc, CC.test])
    obtain ⟨p', h1, h2, h3, h4⟩ := exists_stop ctx true [.lit (Char.ofNat 13), .lit (Char.ofNat 10)] _ (p + 1) rfl (by omega)
    apply some_star ctx true true _ _ c (p + 1) p' h1 h2 h3
    have : ¬ (p' = p) := by omega
    simp only [beq_iff_eq, this, if_false]
    exact eol_some ctx k hk p' _ h2 h4
  · apply some_opt_skip hp
    apply eol_some ctx k hk p c hp
    unfold passes at hstop ⊢
    split
    · rename_i hps
      simp only [hps, dite_true] at hstop
      have hne : ctx.s[p] ≠ Char.ofNat 59 := fun h => hsemi ⟨hps, h⟩
      simp only [List.any_cons, List.any_nil, Bool.or_false, CC.test, bne_eq_false_iff_eq, Bool.or_eq_true,
        beq_iff_eq] at hstop ⊢
      rcases hstop with h | h | h
      · exact absurd h hne
      · exact Or.inl h
      · exact Or.inr h
    · rfl

/-- **Totality.** The line regex matches at every offset. -/
theorem gcodeLine_total_k (off : Nat) (c : Caps) (hoff : off ≤ ctx.s.size) :
    (m ctx Gen.gcodeLine off c k).isSome := by
  obtain ⟨A, hA⟩ := gcodeLine_shape
  rw [hA]
  simp only [m.eq_3, m.eq_6]
  -- leading blanks: take none
  unfold WS
  apply some_star ctx true false _ _ c off off (Nat.le_refl _) hoff (fun i h1 h2 => by omega)
  apply some_alt_right
  unfold CATCH
  obtain ⟨p', h1, h2, h3, h4⟩ :=
    exists_stop ctx true [.lit (Char.ofNat 59), .lit (Char.ofNat 13), .lit (Char.ofNat 10)] _ off rfl hoff
  apply some_star ctx false true _ _ _ off p' h1 h2 h3
  apply some_star ctx true false _ _ _ p' p' (Nat.le_refl _) h2 (fun i h1 h2 => by omega)
  have := comment_eol_some ctx k hk p' ((11, p', p') :: (2, off, p') :: (1, off, off) :: c) h2 h4
  simpa only [m.eq_3] using this

end

theorem gcodeLine_total (s : Array Char) (off : Nat) (hoff : off ≤ s.size) :
    (matchAt Gen.gcodeLine s off).isSome :=
  gcodeLine_total_k ⟨s⟩ _ (fun _ _ => rfl) off [] hoff

end ERP.Rx
