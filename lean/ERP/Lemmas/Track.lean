import ERP.Lemmas.Refine
import ERP.Spec.Printer
import ERP.Spec.Run
import Mathlib.Tactic.FieldSimp
/-! # Tracking: the filter's axes follow the reference printer; basic facts about the printer -/
namespace ERP
open T Spec
set_option linter.unusedSectionVars false
set_option linter.unusedSimpArgs false

variable {α : Type} [Field α] [LinearOrder α] [IsStrictOrderedRing α] [MathOps α] [MathSpec α]

theorem coord_eq_cur (a : Axis α) : coord a = cur a := rfl

/-- the printer's axis move and the filter's `setLogicalPosition` agree -/
theorem moveAxis_eq_setLog (a : Axis α) (v : Option α) : moveAxis a v = setLog a v := by
  cases v with
  | none => rfl
  | some v =>
    simp only [moveAxis, setLog, target, l2n, coord_eq_cur]
    split
    · rfl
    · congr 2; ring

/-- frame of an axis: everything but the current position -/
def sameFrame (a b : Axis α) : Prop :=
  a.homeOffset = b.homeOffset ∧ a.offset = b.offset ∧ a.absoluteMode = b.absoluteMode ∧
  a.unitMultiplier = b.unitMultiplier

theorem setLog_frame (a : Axis α) (v : Option α) : sameFrame (setLog a v) a := by
  cases v <;> exact ⟨rfl, rfl, rfl, rfl⟩

theorem withCur_setLog (a : Axis α) (v : Option α) (c : Option α) :
    ({ setLog a v with current := c } : Axis α) = { a with current := c } := by
  cases v <;> rfl

/-- in a field, `_addCommands` leaves the position exactly as it found it -/
theorem addCommands_pos_id (r : Retraction α) (dir : α) (p : Position α) (he : AxisOk p.e) :
    (T.addCommands r dir p).1 = p := by
  unfold T.addCommands
  split
  · rfl
  · have hc := he.cur_eq
    obtain ⟨px, py, pz, pe⟩ := p
    simp only [Position.mk.injEq, true_and]
    obtain ⟨c, ho, o, ab, u⟩ := pe
    cases c with
    | none => simp [cur] at hc
    | some c => simp [cur]

/-- round trip logical → native of the current position, absolute mode -/
theorem l2n_n2l_abs (a : Axis α) (habs : a.absoluteMode = true) (hu : a.unitMultiplier ≠ 0) :
    l2n a (n2l a) = cur a := by
  simp only [l2n, n2l, habs, if_true]
  field_simp
  ring

end ERP

namespace ERP
open T Spec
set_option linter.unusedSectionVars false
set_option linter.unusedSimpArgs false
variable {α : Type} [Field α] [LinearOrder α] [IsStrictOrderedRing α] [MathOps α] [MathSpec α]

/-- two positions agree on the X, Y and Z axes (position, offsets, mode, unit) -/
def XYZeq (p q : Position α) : Prop := p.x = q.x ∧ p.y = q.y ∧ p.z = q.z

theorem XYZeq.refl (p : Position α) : XYZeq p p := ⟨rfl, rfl, rfl⟩
theorem XYZeq.symm {p q : Position α} (h : XYZeq p q) : XYZeq q p := ⟨h.1.symm, h.2.1.symm, h.2.2.symm⟩
theorem XYZeq.trans {p q r : Position α} (h : XYZeq p q) (h' : XYZeq q r) : XYZeq p r :=
  ⟨h.1.trans h'.1, h.2.1.trans h'.2.1, h.2.2.trans h'.2.2⟩

/-- what the printer does to X/Y/Z depends only on X/Y/Z -/
theorem exec_congr (g90e : Bool) (inch : α) (p q : Printer α) (code : Code) (w : List (Char × Option α))
    (h : XYZeq p.pos q.pos) : XYZeq (p.exec g90e inch code w).pos (q.exec g90e inch code w).pos := by
  obtain ⟨hx, hy, hz⟩ := h
  cases code <;> simp only [Printer.exec, Printer.linear, XYZeq, Position.setPositionAbsoluteMode,
    Position.setExtruderAbsoluteMode, Position.setUnitMultiplier, hx, hy, hz] <;>
    (try split) <;> (try split) <;> simp [hx, hy, hz]

/-- outputs that cannot move X, Y or Z nor change their frames -/
def EOnly : Out α → Prop
  | .g92e _ | .g1fe _ _ | .fw _ _ | .script _ _ | .merged _ _ => True
  | .orig c => ∃ n, Code.ofString c.code = .other n
  | _ => False

theorem execOut_EOnly (g90e : Bool) (inch : α) (p : Printer α) (o : Out α) (h : EOnly o) :
    XYZeq (p.execOut g90e inch o).pos p.pos := by
  cases o with
  | orig c =>
    obtain ⟨n, hn⟩ := h
    simp only [Printer.execOut, hn, Printer.exec]
    exact XYZeq.refl _
  | script b t => exact XYZeq.refl _
  | g92e e => exact ⟨rfl, rfl, rfl⟩
  | g0z f z => cases h
  | g0xy f x y => cases h
  | g1fe f e => exact ⟨rfl, rfl, rfl⟩
  | fw r t => exact ⟨rfl, rfl, rfl⟩
  | merged g a => exact XYZeq.refl _

theorem execOuts_EOnly (g90e : Bool) (inch : α) (l : List (Out α)) :
    ∀ p : Printer α, (∀ o ∈ l, EOnly o) → XYZeq (p.execOuts g90e inch l).pos p.pos := by
  induction l with
  | nil => intro p _; exact XYZeq.refl _
  | cons o rest ih =>
    intro p h
    simp only [Printer.execOuts, List.foldl_cons]
    exact (ih _ (fun o' ho' => h o' (by simp [ho']))).trans (execOut_EOnly g90e inch p o (h o (by simp)))

theorem execOuts_append (g90e : Bool) (inch : α) (p : Printer α) (a b : List (Out α)) :
    p.execOuts g90e inch (a ++ b) = (p.execOuts g90e inch a).execOuts g90e inch b := by
  simp [Printer.execOuts, List.foldl_append]

end ERP

namespace ERP
open T Spec
set_option linter.unusedSectionVars false
set_option linter.unusedSimpArgs false
variable {α : Type} [Field α] [LinearOrder α] [IsStrictOrderedRing α] [MathOps α] [MathSpec α]

theorem addCommands_EOnly (r : Retraction α) (dir : α) (p : Position α) :
    ∀ o ∈ (T.addCommands r dir p).2, EOnly o := by
  unfold T.addCommands
  split <;> intro o ho <;> simp at ho
  · subst ho; trivial
  · rcases ho with rfl | rfl <;> trivial

/-- `recordRetraction` only touches `lastRetraction` (in exact arithmetic) -/
theorem recordRetraction_frame (s : FState α) (r : Retraction α) (h : WF s) :
    (T.recordRetraction s r).1 = { s with lastRetraction := (T.recordRetraction s r).1.lastRetraction } := by
  have hid := addCommands_pos_id r 1 s.position h.pos.2.2.2
  obtain ⟨rg, pos, fr, fru, en, ex, lr0, lp, pc⟩ := s
  simp only at hid
  unfold T.recordRetraction
  cases lr0 with
  | none => cases ex <;> simp [hid]
  | some lr =>
    by_cases h1 : lr.recoverExcluded = true <;> by_cases h2 : lr.allowCombine = true <;>
      cases ex <;> simp [h1, h2, hid]

theorem recordRetraction_outs (s : FState α) (r : Retraction α) :
    (s.excluding = true → ∀ o ∈ (T.recordRetraction s r).2, EOnly o) ∧
    (s.excluding = false → (T.recordRetraction s r).2 = [] ∨
      (T.recordRetraction s r).2 = [.orig r.originalCommand]) := by
  have hE := addCommands_EOnly r 1 s.position
  unfold T.recordRetraction
  cases s.lastRetraction with
  | none =>
    by_cases he : s.excluding = true
    · simp only [he, if_true]; exact ⟨fun _ => hE, fun hf => by simp at hf⟩
    · simp [he]
  | some lr =>
    by_cases h1 : lr.recoverExcluded = true
    · simp [h1]
    · by_cases h2 : lr.allowCombine = true
      · by_cases he : s.excluding = true
        · simp only [h1, h2, he, if_true, Bool.false_eq_true, if_false]
          exact ⟨fun _ => hE, fun hf => by simp at hf⟩
        · simp [h1, h2, he]
      · by_cases he : s.excluding = true <;> simp [h1, h2, he]

theorem recoverIfNeeded_frame (s : FState α) (cmd : Cmd α) (b : Bool) (h : WF s) :
    (T.recoverRetractionIfNeeded s cmd b).1 =
      { s with lastRetraction := (T.recoverRetractionIfNeeded s cmd b).1.lastRetraction } := by
  have hE := h.pos.2.2.2
  obtain ⟨rg, pos, fr, fru, en, ex, lr0, lp, pc⟩ := s
  simp only at hE
  unfold T.recoverRetractionIfNeeded T.recoverRetraction
  cases lr0 with
  | none => cases ex <;> simp
  | some lr =>
    have hid := fun r' => addCommands_pos_id r' (-1) pos hE
    cases ex
    · by_cases h1 : lr.recoverExcluded = true <;> simp [h1, hid]
    · simp

theorem recoverIfNeeded_outs (s : FState α) (cmd : Cmd α) (b : Bool) :
    (s.excluding = true → (T.recoverRetractionIfNeeded s cmd b).2 = []) ∧
    (s.excluding = false → ∃ pre, (T.recoverRetractionIfNeeded s cmd b).2 = pre ++ [.orig cmd] ∧
      ∀ o ∈ pre, EOnly o) := by
  unfold T.recoverRetractionIfNeeded T.recoverRetraction
  cases s.lastRetraction with
  | none =>
    by_cases he : s.excluding = true
    · simp [he]
    · simp only [he]; exact ⟨fun hf => by simp at hf, fun _ => ⟨[], by simp, by simp⟩⟩
  | some lr =>
    by_cases he : s.excluding = true
    · simp [he]
    · simp only [he, Bool.false_eq_true, if_false]
      refine ⟨fun hf => by simp at hf, fun _ => ?_⟩
      by_cases h1 : lr.recoverExcluded = true
      · simp only [h1, if_true]
        exact ⟨_, rfl, addCommands_EOnly _ _ _⟩
      · simp only [h1, Bool.false_eq_true, if_false]
        exact ⟨[], by simp, by simp⟩

end ERP

namespace ERP
open T Spec
set_option linter.unusedSectionVars false
set_option linter.unusedSimpArgs false
variable {α : Type} [Field α] [LinearOrder α] [IsStrictOrderedRing α] [MathOps α] [MathSpec α]

theorem processNonMove_frame (s : FState α) (cmd : Cmd α) (dE : α) (h : WF s) :
    (T.processNonMove s cmd dE).1 = { s with lastRetraction := (T.processNonMove s cmd dE).1.lastRetraction } := by
  unfold T.processNonMove
  by_cases h1 : dE < 0
  · simp only [h1, if_true]
    have := recordRetraction_frame s
      ({ firmwareRetract := false, extrusionAmount := some (-dE), feedRate := some s.feedRate, originalCommand := cmd } : Retraction α) h
    split <;> exact this
  · by_cases h2 : 0 < dE
    · simp only [h1, h2, if_true, if_false]; exact recoverIfNeeded_frame s cmd true h
    · simp only [h1, h2, if_false]; split <;> rfl

theorem processNonMove_outs (s : FState α) (cmd : Cmd α) (dE : α) :
    (s.excluding = true → ∀ o ∈ (T.processNonMove s cmd dE).2, EOnly o) ∧
    (s.excluding = false →
      (∃ pre, (T.processNonMove s cmd dE).2 = pre ++ [.orig cmd] ∧ ∀ o ∈ pre, EOnly o) ∨
      (∀ o ∈ (T.processNonMove s cmd dE).2, EOnly o)) := by
  unfold T.processNonMove
  by_cases h1 : dE < 0
  · simp only [h1, if_true]
    obtain ⟨r1, r2⟩ := recordRetraction_outs s
      ({ firmwareRetract := false, extrusionAmount := some (-dE), feedRate := some s.feedRate, originalCommand := cmd } : Retraction α)
    have hex := recordRetraction_excluding s
      ({ firmwareRetract := false, extrusionAmount := some (-dE), feedRate := some s.feedRate, originalCommand := cmd } : Retraction α)
    generalize T.recordRetraction s _ = rr at *
    obtain ⟨s1, c1⟩ := rr
    simp only at r1 r2 hex ⊢
    constructor
    · intro he
      have : ¬ ((c1.isEmpty && !s1.excluding) = true) := by simp [hex, he]
      simp only [this, if_false]
      exact r1 he
    · intro he
      split
      · right; intro o ho; simp at ho; subst ho; trivial
      · rcases r2 he with r | r
        · right; rw [r]; simp
        · left; exact ⟨[], by simpa using r, by simp⟩
  · by_cases h2 : 0 < dE
    · simp only [h1, h2, if_true, if_false]
      obtain ⟨r1, r2⟩ := recoverIfNeeded_outs s cmd true
      exact ⟨fun he => by rw [r1 he]; simp, fun he => Or.inl (r2 he)⟩
    · by_cases he : s.excluding = true
      · simp [h1, h2, he]
      · simp only [h1, h2, he, if_false, Bool.not_false, if_true]
        exact ⟨fun hf => by simp at hf, fun _ => Or.inl ⟨[], by simp, by simp⟩⟩

theorem insertBeforeLast_snoc {β : Type} (pre : List β) (x c : β) :
    insertBeforeLast (pre ++ [x]) c = (pre ++ [c]) ++ [x] := by
  simp [insertBeforeLast]

theorem mem_insertBeforeLast {β : Type} (l : List β) (c o : β) (h : o ∈ insertBeforeLast l c) :
    o = c ∨ o ∈ l := by
  unfold insertBeforeLast at h
  rcases List.mem_append.mp h with h | h
  · rcases List.mem_append.mp h with h | h
    · exact Or.inr (List.dropLast_subset l h)
    · left; simpa using h
  · cases hl : l.getLast? with
    | none => rw [hl] at h; cases h
    | some x =>
      rw [hl] at h
      have : o = x := by simpa using h
      subst this
      exact Or.inr (List.mem_of_getLast? hl)

theorem nonMoveBody_outs (s : FState α) (cmd : Cmd α) (dE pE : α) :
    (s.excluding = true → ∀ o ∈ (T.nonMoveBody s cmd dE pE).2, EOnly o) ∧
    (s.excluding = false →
      (∃ pre, (T.nonMoveBody s cmd dE pE).2 = pre ++ [.orig cmd] ∧ ∀ o ∈ pre, EOnly o) ∨
      (∀ o ∈ (T.nonMoveBody s cmd dE pE).2, EOnly o)) := by
  obtain ⟨o1, o2⟩ := processNonMove_outs s cmd dE
  unfold T.nonMoveBody
  generalize T.processNonMove s cmd dE = r at *
  cases s.lastRetraction with
  | none => exact ⟨o1, o2⟩
  | some lr =>
    simp only
    split
    · have hall : (∀ o ∈ r.2, EOnly o) → ∀ o ∈ insertBeforeLast r.2 (Out.g92e (n2lAbs r.1.position.e pE)), EOnly o := by
        intro h o ho
        rcases mem_insertBeforeLast _ _ _ ho with rfl | ho
        · trivial
        · exact h o ho
      refine ⟨fun he => hall (o1 he), fun he => ?_⟩
      rcases o2 he with ⟨pre, hpre, hE⟩ | hE
      · left
        refine ⟨pre ++ [Out.g92e (n2lAbs r.1.position.e pE)], ?_, ?_⟩
        · simp only; rw [hpre, insertBeforeLast_snoc]
        · intro o ho
          rcases List.mem_append.mp ho with ho | ho
          · exact hE o ho
          · simp at ho; subst ho; trivial
      · right; exact hall hE
    · exact ⟨o1, o2⟩

end ERP
