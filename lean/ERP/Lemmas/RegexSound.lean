import ERP.Model.Regex
/-! # Soundness facts about the backtracking matcher (`ERP.Rx.m`)

`WP r p c Q`: whenever matching `r` at position `p` with captures `c` succeeds (for any
continuation), the continuation was entered at some `(p', c')` satisfying `Q`. -/
namespace ERP.Rx

theorem orElse'_some {R : Type} {a : Option R} {b : Unit → Option R} {r : R}
    (h : orElse' a b = some r) : a = some r ∨ b () = some r := by
  unfold orElse' at h
  split at h
  · left; exact h
  · right; exact h

def Re.groups : Re → List Nat
  | .eps => [] | .chars _ _ => [] | .at _ => []
  | .seq a b => a.groups ++ b.groups
  | .alt a b => a.groups ++ b.groups
  | .rep _ _ _ r => r.groups
  | .group i r => i :: r.groups

def WP (ctx : Ctx) (r : Re) (p : Nat) (c : Caps) (Q : Nat → Caps → Prop) : Prop :=
  ∀ (R : Type) (k : Nat → Caps → Option R) (res : R), m ctx r p c k = some res →
    ∃ p' c', Q p' c' ∧ k p' c' = some res

theorem wp_mono {ctx : Ctx} {r : Re} {p : Nat} {c : Caps} {Q Q' : Nat → Caps → Prop}
    (h : WP ctx r p c Q) (hq : ∀ p' c', Q p' c' → Q' p' c') : WP ctx r p c Q' := by
  intro R k res hm
  obtain ⟨p', c', h1, h2⟩ := h R k res hm
  exact ⟨p', c', hq p' c' h1, h2⟩

theorem wp_seq {ctx : Ctx} {a b : Re} {p : Nat} {c : Caps} {Q : Nat → Caps → Prop}
    (h : WP ctx a p c (fun pm cm => WP ctx b pm cm Q)) : WP ctx (.seq a b) p c Q := by
  intro R k res hm
  simp only [m] at hm
  obtain ⟨pm, cm, h1, h2⟩ := h R _ res hm
  exact h1 R k res h2

theorem wp_group {ctx : Ctx} {i : Nat} {r : Re} {p : Nat} {c : Caps} {Q : Nat → Caps → Prop}
    (h : WP ctx r p c (fun p' c0 => Q p' ((i, p, p') :: c0))) : WP ctx (.group i r) p c Q := by
  intro R k res hm
  simp only [m] at hm
  obtain ⟨p', c0, h1, h2⟩ := h R _ res hm
  exact ⟨p', _, h1, h2⟩

theorem wp_alt {ctx : Ctx} {a b : Re} {p : Nat} {c : Caps} {Q : Nat → Caps → Prop}
    (ha : WP ctx a p c Q) (hb : WP ctx b p c Q) : WP ctx (.alt a b) p c Q := by
  intro R k res hm
  simp only [m] at hm
  rcases orElse'_some hm with h | h
  · exact ha R k res h
  · exact hb R k res h

theorem wp_chars {ctx : Ctx} {neg : Bool} {items : List CC} {p : Nat} {c : Caps} {Q : Nat → Caps → Prop}
    (h : ∀ hp : p < ctx.s.size, ((items.any (CC.test ctx.s[p])) != neg) = true → Q (p + 1) c) :
    WP ctx (.chars neg items) p c Q := by
  intro R k res hm
  simp only [m] at hm
  split at hm
  · rename_i hp
    split at hm
    · rename_i ht; exact ⟨p + 1, c, h hp ht, hm⟩
    · cases hm
  · cases hm

theorem wp_eps {ctx : Ctx} {p : Nat} {c : Caps} {Q : Nat → Caps → Prop} (h : Q p c) : WP ctx .eps p c Q := by
  intro R k res hm; simp only [m] at hm; exact ⟨p, c, h, hm⟩

theorem wp_at {ctx : Ctx} {kind : String} {p : Nat} {c : Caps} {Q : Nat → Caps → Prop} (h : Q p c) :
    WP ctx (.at kind) p c Q := by
  intro R k res hm
  simp only [m] at hm
  split at hm
  · exact ⟨p, c, h, hm⟩
  · cases hm

theorem wp_at' {ctx : Ctx} {kind : String} {p : Nat} {c : Caps} {Q : Nat → Caps → Prop}
    (h : atOk ctx kind p = true → Q p c) : WP ctx (.at kind) p c Q := by
  intro R k res hm
  simp only [m] at hm
  split at hm
  · rename_i hk; exact ⟨p, c, h hk, hm⟩
  · cases hm

/-- one-or-zero repetition (`(...)?`, greedy or lazy) -/
theorem wp_opt {ctx : Ctx} {g : Bool} {r : Re} {p : Nat} {c : Caps} {Q : Nat → Caps → Prop}
    (h0 : Q p c) (h1 : WP ctx r p c Q) : WP ctx (.rep g 0 (some 1) r) p c Q := by
  intro R k res hm
  simp only [m] at hm
  generalize ctx.s.size + 2 - p + 0 = fuel at hm
  cases fuel with
  | zero => simp only [repLoop] at hm; exact ⟨p, c, h0, hm⟩
  | succ f =>
    -- after one iteration no further iteration is possible
    have inner : ∀ (p' : Nat) (c' : Caps), repLoop (m ctx r) g 0 (some 1) f 1 p' c' k = k p' c' := by
      intro p' c'
      cases f with
      | zero => simp [repLoop]
      | succ f' =>
        simp only [repLoop, canMore]
        have : ¬ (1 < 0) := by omega
        simp only [this, if_false, decide_eq_true_eq, Nat.lt_irrefl]
        cases g
        · simp only [Bool.false_eq_true, if_false, orElse']
          cases k p' c' <;> simp
        · simp [orElse']
    simp only [repLoop, canMore, Nat.lt_irrefl, if_false] at hm
    have hmore : ∀ res', (if decide (0 < 1) = true then
        m ctx r p c (fun p' c' => if (p' == p && decide (0 ≤ 0)) = true then none
          else repLoop (m ctx r) g 0 (some 1) f (0 + 1) p' c' k) else none) = some res' →
        ∃ p' c', Q p' c' ∧ k p' c' = some res' := by
      intro res' hh
      simp only [Nat.lt_one_iff, decide_true, if_true] at hh
      obtain ⟨p', c', q1, q2⟩ := h1 R _ res' hh
      split at q2
      · cases q2
      · rw [inner] at q2; exact ⟨p', c', q1, q2⟩
    cases g
    · simp only [Bool.false_eq_true, if_false] at hm
      rcases orElse'_some hm with hh | hh
      · exact ⟨p, c, h0, hh⟩
      · exact hmore res hh
    · simp only [if_true] at hm
      rcases orElse'_some hm with hh | hh
      · exact hmore res hh
      · exact ⟨p, c, h0, hh⟩

end ERP.Rx

namespace ERP.Rx

/-- what every regex guarantees: the position does not decrease, stays within the string, and only
the groups of the regex are touched -/
def Frame (ctx : Ctx) (gs : List Nat) (p : Nat) (c : Caps) (p' : Nat) (c' : Caps) : Prop :=
  p ≤ p' ∧ p' ≤ ctx.s.size ∧ ∀ j, j ∉ gs → capOf c' j = capOf c j

def Good {R : Type} (ctx : Ctx) (gs : List Nat)
    (mr : Nat → Caps → (Nat → Caps → Option R) → Option R) : Prop :=
  ∀ p c k res, p ≤ ctx.s.size → mr p c k = some res → ∃ p' c', k p' c' = some res ∧ Frame ctx gs p c p' c'

theorem Frame.refl (ctx : Ctx) (gs : List Nat) (p : Nat) (c : Caps) (h : p ≤ ctx.s.size) :
    Frame ctx gs p c p c := ⟨Nat.le_refl _, h, fun _ _ => rfl⟩

theorem Frame.trans {ctx : Ctx} {gs : List Nat} {p p1 p2 : Nat} {c c1 c2 : Caps}
    (h1 : Frame ctx gs p c p1 c1) (h2 : Frame ctx gs p1 c1 p2 c2) : Frame ctx gs p c p2 c2 :=
  ⟨Nat.le_trans h1.1 h2.1, h2.2.1, fun j hj => (h2.2.2 j hj).trans (h1.2.2 j hj)⟩

theorem Frame.mono {ctx : Ctx} {gs gs' : List Nat} {p p' : Nat} {c c' : Caps}
    (h : Frame ctx gs p c p' c') (hs : ∀ j, j ∈ gs → j ∈ gs') : Frame ctx gs' p c p' c' :=
  ⟨h.1, h.2.1, fun j hj => h.2.2 j (fun hm => hj (hs j hm))⟩

theorem repLoop_good {R : Type} (ctx : Ctx) (gs : List Nat)
    (mr : Nat → Caps → (Nat → Caps → Option R) → Option R) (hmr : Good ctx gs mr)
    (g : Bool) (lo : Nat) (hi : Option Nat) :
    ∀ fuel n, Good ctx gs (fun p c k => repLoop mr g lo hi fuel n p c k) := by
  intro fuel
  induction fuel with
  | zero =>
    intro n p c k res hp h
    simp only [repLoop] at h
    exact ⟨p, c, h, Frame.refl ctx gs p c hp⟩
  | succ f ih =>
    intro n p c k res hp h
    have more : ∀ res, (if canMore hi n then
        mr p c (fun p' c' => if (p' == p && decide (lo ≤ n)) then none
                             else repLoop mr g lo hi f (n+1) p' c' k)
        else none) = some res →
        ∃ p' c', k p' c' = some res ∧ Frame ctx gs p c p' c' := by
      intro res hm
      split at hm
      · obtain ⟨p1, c1, hk1, hf1⟩ := hmr _ _ _ _ hp hm
        split at hk1
        · cases hk1
        · obtain ⟨p2, c2, hk2, hf2⟩ := ih (n+1) _ _ _ _ hf1.2.1 hk1
          exact ⟨p2, c2, hk2, hf1.trans hf2⟩
      · cases hm
    have here : ∀ res, k p c = some res → ∃ p' c', k p' c' = some res ∧ Frame ctx gs p c p' c' :=
      fun res hk => ⟨p, c, hk, Frame.refl ctx gs p c hp⟩
    simp only [repLoop] at h
    split at h
    · exact more _ h
    · split at h
      · rcases orElse'_some h with h | h
        · exact more _ h
        · exact here _ h
      · rcases orElse'_some h with h | h
        · exact here _ h
        · exact more _ h

theorem capOf_cons_ne (c : Caps) (i j a b : Nat) (h : j ≠ i) :
    capOf ((i, a, b) :: c) j = capOf c j := by
  have : (i == j) = false := by simp; exact fun e => h e.symm
  simp [capOf, List.find?, this]

theorem capOf_cons_eq (c : Caps) (i a b : Nat) : capOf ((i, a, b) :: c) i = some (a, b) := by
  simp [capOf, List.find?]

theorem m_good {R : Type} (ctx : Ctx) : ∀ r : Re, Good (R := R) ctx r.groups (fun p c k => m ctx r p c k) := by
  intro r
  induction r with
  | eps => intro p c k res hp h; exact ⟨p, c, by simpa [m] using h, Frame.refl ctx _ p c hp⟩
  | chars neg items =>
    intro p c k res hp h
    simp only [m] at h
    split at h
    · rename_i hlt
      split at h
      · exact ⟨p+1, c, h, Nat.le_succ _, hlt, fun _ _ => rfl⟩
      · cases h
    · cases h
  | seq a b iha ihb =>
    intro p c k res hp h
    simp only [m] at h
    obtain ⟨p1, c1, h1, f1⟩ := iha _ _ _ _ hp h
    obtain ⟨p2, c2, h2, f2⟩ := ihb _ _ _ _ f1.2.1 h1
    exact ⟨p2, c2, h2, (f1.mono (fun j hj => by simp [Re.groups]; exact Or.inl hj)).trans
      (f2.mono (fun j hj => by simp [Re.groups]; exact Or.inr hj))⟩
  | alt a b iha ihb =>
    intro p c k res hp h
    simp only [m] at h
    rcases orElse'_some h with h | h
    · obtain ⟨p1, c1, h1, f1⟩ := iha _ _ _ _ hp h
      exact ⟨p1, c1, h1, f1.mono (fun j hj => by simp [Re.groups]; exact Or.inl hj)⟩
    · obtain ⟨p1, c1, h1, f1⟩ := ihb _ _ _ _ hp h
      exact ⟨p1, c1, h1, f1.mono (fun j hj => by simp [Re.groups]; exact Or.inr hj)⟩
  | rep g lo hi r ih =>
    intro p c k res hp h
    simp only [m] at h
    exact repLoop_good ctx r.groups _ ih g lo hi _ _ _ _ _ _ hp h
  | group i r ih =>
    intro p c k res hp h
    simp only [m] at h
    obtain ⟨p1, c1, h1, f1⟩ := ih _ _ _ _ hp h
    refine ⟨p1, (i, p, p1) :: c1, h1, f1.1, f1.2.1, fun j hj => ?_⟩
    simp [Re.groups] at hj
    rw [capOf_cons_ne _ _ _ _ _ hj.1]
    exact f1.2.2 j hj.2
  | «at» kind =>
    intro p c k res hp h
    simp only [m] at h
    split at h
    · exact ⟨p, c, h, Frame.refl ctx _ p c hp⟩
    · cases h

/-- the generic over-approximation, as a `WP` rule -/
theorem wp_any {ctx : Ctx} (r : Re) {p : Nat} {c : Caps} {Q : Nat → Caps → Prop} (hp : p ≤ ctx.s.size)
    (h : ∀ p' c', Frame ctx r.groups p c p' c' → Q p' c') : WP ctx r p c Q := by
  intro R k res hm
  obtain ⟨p', c', h1, h2⟩ := m_good ctx r p c k res hp hm
  exact ⟨p', c', h p' c' h2, h1⟩

end ERP.Rx
