import ERP.Lemmas.EStep
/-! # A recorded retraction is created only by a retraction command, and starts un-owed -/
namespace ERP
open T Spec
set_option linter.unusedSectionVars false
set_option linter.unusedSimpArgs false
variable {α : Type} [Field α] [LinearOrder α] [IsStrictOrderedRing α] [MathOps α] [MathSpec α]

/-- "no retraction was recorded before, and if one is recorded now its recovery is not owed" -/
def FreshLR (before after : Option (Retraction α)) : Prop :=
  before = none → ∀ r, after = some r → r.recoverExcluded = false

theorem FreshLR.same (a : Option (Retraction α)) : FreshLR a a := by
  intro h r hr; rw [h] at hr; cases hr

theorem recordRetraction_fresh (s : FState α) (r : Retraction α) (hr : r.recoverExcluded = false) :
    FreshLR s.lastRetraction (T.recordRetraction s r).1.lastRetraction := by
  intro hn r' hr'
  unfold T.recordRetraction at hr'
  simp only [hn] at hr'
  split at hr'
  · simp only at hr'
    cases hr'; exact hr
  · cases hr'; exact hr

theorem recoverIfNeeded_fresh (s : FState α) (cmd : Cmd α) (b : Bool) :
    FreshLR s.lastRetraction (T.recoverRetractionIfNeeded s cmd b).1.lastRetraction := by
  intro hn r' hr'
  unfold T.recoverRetractionIfNeeded at hr'
  simp only [hn] at hr'
  split at hr' <;> (rw [hn] at hr'; cases hr')

theorem FreshLR.of_some (r : Retraction α) (a : Option (Retraction α)) : FreshLR (some r) a := by
  intro h; cases h

theorem retractBranch_fresh (s : FState α) (r : Retraction α) (hr : r.recoverExcluded = false) :
    FreshLR s.lastRetraction (retractBranch s r).1.lastRetraction := by
  have := recordRetraction_fresh s r hr
  unfold retractBranch
  generalize T.recordRetraction s r = rr at *
  dsimp only
  split <;> exact this

theorem processNonMove_fresh (s : FState α) (cmd : Cmd α) (dE : α) :
    FreshLR s.lastRetraction (T.processNonMove s cmd dE).1.lastRetraction := by
  by_cases h : dE < 0
  · rw [processNonMove_neg s cmd dE h]; exact retractBranch_fresh s _ rfl
  · unfold T.processNonMove
    simp only [h, if_false]
    split
    · exact recoverIfNeeded_fresh s cmd true
    · split <;> exact FreshLR.same _

theorem plm_fresh (cfg : Config) (s : FState α) (cmd : Cmd α) (ep fr fz : Option α)
    (xy : List (Option α × Option α)) :
    FreshLR s.lastRetraction (T.processLinearMoves cfg s cmd ep fr fz xy).1.lastRetraction := by
  obtain ⟨e1, e2, e3, e4⟩ := applyEZF_e s ep fr fz
  simp only [T.processLinearMoves, toResult_fst]
  rw [← e3]
  generalize T.applyEZF s ep fr fz = s1
  split
  · rw [nonMoveBody_fst]; exact processNonMove_fresh s1 cmd _
  · have hloop := isAnyLoop_pos xy s1 false
    unfold T.moveBody
    generalize T.isAnyLoop s1 xy false = rr at *
    obtain ⟨s2, anyEx⟩ := rr
    simp only at hloop ⊢
    have hr2 : s2.lastRetraction = s1.lastRetraction := by rw [hloop]
    rw [← hr2]
    clear hloop hr2
    split
    · -- excluded move
      have key : FreshLR s2.lastRetraction (T.processExcludedMove cfg s2 cmd (T.deltaEOf s ep)).1.lastRetraction := by
        unfold T.processExcludedMove T.enterExcludedRegion
        by_cases hex : s2.excluding = true
        · simp only [hex, Bool.not_true, Bool.false_eq_true, if_false]
          split
          · exact processNonMove_fresh s2 cmd _
          · exact FreshLR.same _
        · have hex' : s2.excluding = false := by simpa using hex
          simp only [hex', Bool.not_false, if_true, Bool.false_eq_true, if_false]
          split
          · exact processNonMove_fresh ({ s2 with excluding := true, lastPosition := some s2.position }) cmd _
          · exact FreshLR.same _
      generalize T.processExcludedMove cfg s2 cmd (T.deltaEOf s ep) = r2 at *
      split <;> exact key
    · split
      · rw [exitExcludedRegion_state]; split <;> exact FreshLR.same _
      · split
        · have := recoverIfNeeded_fresh s2 cmd false
          generalize T.recoverRetractionIfNeeded s2 cmd false = r3 at *
          cases hl : s2.lastRetraction with
          | none => rw [hl] at this; exact this
          | some lr => exact FreshLR.of_some _ _
        · exact FreshLR.same _

/-- every G-code command -/
theorem gcode_fresh (cfg : Config) (inch : α) (s : FState α) (g : String) (c : Cmd α) :
    FreshLR s.lastRetraction (T.handleGcode cfg inch s g c).1.lastRetraction := by
  unfold T.handleGcode
  split
  · exact plm_fresh cfg s c _ _ _ _
  · exact plm_fresh cfg s c _ _ _ _
  · simp only [T.handleG2]
    repeat' split
    all_goals first | exact plm_fresh cfg s c _ _ _ _ | exact FreshLR.same _
  · simp only [T.handleG2]
    repeat' split
    all_goals first | exact plm_fresh cfg s c _ _ _ _ | exact FreshLR.same _
  · simp only [T.handleG10]
    split
    · exact FreshLR.same _
    · rw [toResult_fst]; exact recordRetraction_fresh s _ rfl
  · simp only [T.handleG11, toResult_fst]; exact recoverIfNeeded_fresh s c true
  · exact FreshLR.same _
  · exact FreshLR.same _
  · exact FreshLR.same _
  · exact FreshLR.same _
  · exact FreshLR.same _
  · exact FreshLR.same _
  · exact FreshLR.same _
  · unfold FState.processExtendedGcode
    split
    · split
      · rename_i m _
        unfold FState.processExtendedGcodeEntry
        cases m <;> simp only <;> first | exact FreshLR.same _ | (split <;> exact FreshLR.same _)
      · exact FreshLR.same _
    · exact FreshLR.same _

end ERP
