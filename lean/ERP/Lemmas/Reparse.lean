import ERP.Lemmas.LineExact
import ERP.Model.Parser
/-! # Exact evaluation of the line regex on a normalised command string

`NormCmd.render` is the string `GcodeParser.commandString` produces for a command with plain
parameters; this file computes `matchAt Gen.gcodeLine` on it. -/
namespace ERP.Rx

/-- assembling the line: leading blanks, then the command alternative of group 2 -/
theorem line_assemble (ctx : Ctx) (p1 : Nat) (res : Nat × Caps)
    (hlead : span ctx false SP 0 = p1)
    (hbody : m ctx OPTN p1 [(1, 0, p1)] (fun p c => m ctx WSr p c (fun p c => m ctx CODEr p c (restA ctx p1)))
      = some res) :
    matchAt Gen.gcodeLine ctx.s 0 = some res := by
  obtain ⟨s⟩ := ctx
  unfold matchAt
  rw [gcodeLine_parts, m.eq_3, m.eq_6]
  unfold WSr
  refine m_star_max ⟨s⟩ false SP 0 [] _ _ (Nat.zero_le _) ?_
  rw [hlead, m.eq_3, m.eq_6, m.eq_4]
  apply orElse'_some_left
  unfold BODYA
  rw [m.eq_3]
  rw [← hbody]
  unfold restA
  simp only [m.eq_3]

end ERP.Rx

namespace ERP
open ERP.Rx

/-- the character test of a class at a known position -/
theorem passes_char (l : Text) (neg : Bool) (items : List CC) (i : Nat) (ch : Char)
    (h : l[i]? = some ch) : passes ⟨l.toArray⟩ neg items i = (items.any (CC.test ch) != neg) := by
  have hi : i < l.length := by
    rcases Nat.lt_or_ge i l.length with h' | h'
    · exact h'
    · rw [List.getElem?_eq_none h'] at h; cases h
  unfold passes
  simp only [List.size_toArray, hi, dite_true, List.getElem_toArray]
  rw [List.getElem?_eq_getElem hi] at h
  cases h; rfl

/-- the character right after a prefix -/
theorem get_after (A B : Text) (i : Nat) (h : i = A.length) : (A ++ B)[i]? = B.head? := by
  subst h
  cases B <;> simp

/-- a character inside the middle part -/
theorem get_mid (A B C : Text) (i : Nat) (h1 : A.length ≤ i) (h2 : i < A.length + B.length) :
    (A ++ B ++ C)[i]? = B[i - A.length]? := by
  rw [List.append_assoc, List.getElem?_append_right h1, List.getElem?_append_left (by omega)]

theorem passes_none (l : Text) (neg : Bool) (items : List CC) (i : Nat) (h : l[i]? = none) :
    passes ⟨l.toArray⟩ neg items i = false := by
  unfold passes
  have : ¬ i < l.length := by
    intro hi; rw [List.getElem?_eq_getElem hi] at h; cases h
  simp [this]

/-- a digit string in the middle of a text, followed by a non-digit or the end, is a digit run -/
theorem digitRun_of (pre ds post : Text) (hne : ds ≠ []) (hall : ∀ c ∈ ds, c.isDigit = true)
    (hpost : ∀ c, post.head? = some c → c.isDigit = false) :
    DigitRun ⟨(pre ++ ds ++ post).toArray⟩ pre.length (pre.length + ds.length) where
  nonempty := by have := List.length_pos_iff.mpr hne; omega
  le := by simp only [List.size_toArray, List.length_append]; omega
  digits := by
    intro i h1 h2
    have hj : i - pre.length < ds.length := by omega
    have hget : (pre ++ ds ++ post)[i]? = some ds[i - pre.length] := by
      rw [get_mid pre ds post i h1 h2, List.getElem?_eq_getElem hj]
    rw [passes_char _ false DIGc i _ hget]
    simp [CC.test, hall _ (List.getElem_mem hj)]
  stop := by
    have hget : (pre ++ ds ++ post)[pre.length + ds.length]? = post.head? :=
      get_after (pre ++ ds) post _ (by simp)
    cases hp : post.head? with
    | none => exact passes_none _ _ _ _ (by rw [hget, hp])
    | some ch =>
      rw [passes_char _ false DIGc _ ch (by rw [hget, hp])]
      simp [CC.test, hpost ch hp]

theorem natToText_digits (n : Nat) : ∀ c ∈ natToText n, c.isDigit = true := by
  intro c hc
  unfold natToText at hc
  rw [Nat.toList_repr] at hc
  exact Nat.isDigit_of_mem_toDigits (by decide) (by decide) hc

theorem natToText_ne_nil (n : Nat) : natToText n ≠ [] := by
  unfold natToText
  rw [Nat.toList_repr]
  exact Nat.toDigits_ne_nil

theorem digitsToNat_natToText (n : Nat) : digitsToNat (natToText n) = n := by
  have h : ∀ (t : Text) (i : Nat), t.foldl (fun n c => n * 10 + (c.toNat - 48)) i = Nat.ofDigitChars 10 t i := by
    intro t
    induction t with
    | nil => intro i; rfl
    | cons c t ih =>
      intro i
      rw [List.foldl_cons, ih, Nat.ofDigitChars_cons, Nat.mul_comm]
      rfl
  unfold digitsToNat natToText
  rw [h, Nat.toList_repr]
  exact Nat.ofDigitChars_ten_toDigits

end ERP

namespace ERP
open ERP.Rx

/-- a command as `commandString` renders it -/
structure NormCmd where
  lw : Text
  ln : Option Nat
  ty : Char
  code : Nat
  sub : Option Nat
  params : Option Text
  ck : Option Nat := none

namespace NormCmd

def nPart (x : NormCmd) : Text := match x.ln with | some n => 'N' :: natToText n ++ [' '] | none => []
def subPart (x : NormCmd) : Text := match x.sub with | some sc => '.' :: natToText sc | none => []
def gPart (x : NormCmd) : Text := x.ty :: natToText x.code ++ x.subPart
def pPart (x : NormCmd) : Text := match x.params with | some ps => ' ' :: ps | none => []
def ckPart (x : NormCmd) : Text := match x.ck with | some cs => ' ' :: '*' :: natToText cs | none => []
def render (x : NormCmd) : Text := x.lw ++ x.nPart ++ x.gPart ++ x.pPart ++ x.ckPart

def p1 (x : NormCmd) : Nat := x.lw.length
def a (x : NormCmd) : Nat := x.p1 + x.nPart.length
def d1 (x : NormCmd) : Nat := x.a + 1 + (natToText x.code).length
def d2 (x : NormCmd) : Nat := x.d1 + x.subPart.length
def size (x : NormCmd) : Nat := x.d2 + x.pPart.length
def total (x : NormCmd) : Nat := x.size + x.ckPart.length

abbrev ctx (x : NormCmd) : Ctx := ⟨x.render.toArray⟩

/-- parameters without escapes or stop characters, not starting or ending with a blank -/
def PlainParams (ps : Text) : Prop :=
  ps ≠ [] ∧ ps.head? ≠ some ' ' ∧ ps.getLast? ≠ some ' ' ∧
    ∀ c ∈ ps, c ≠ '\\' ∧ c ≠ ';' ∧ c ≠ '*' ∧ c ≠ '\r' ∧ c ≠ '\n'

structure WF (x : NormCmd) : Prop where
  lw : ∀ c ∈ x.lw, c = ' '
  ty : x.ty = 'G' ∨ x.ty = 'M' ∨ x.ty = 'T'
  tsub : x.ty = 'T' → x.sub = none
  params : ∀ ps, x.params = some ps → PlainParams ps

theorem size_eq (x : NormCmd) : x.render.length = x.total := by
  simp only [render, total, size, d2, d1, a, p1, gPart, List.length_append, List.length_cons]
  omega

theorem ctx_size (x : NormCmd) : x.ctx.s.size = x.total := by
  simp only [List.size_toArray, size_eq]

theorem digit_not (c d : Char) (hd : d.isDigit = false) (h : c.isDigit = true) : c ≠ d := by
  rintro rfl; rw [hd] at h; cases h

/-- no backslash anywhere in the rendered command -/
theorem ckPart_head (x : NormCmd) : ∀ ch, x.ckPart.head? = some ch → ch = ' ' := by
  intro ch hh
  unfold ckPart at hh
  cases hp : x.ck with
  | none => rw [hp] at hh; cases hh
  | some cs => rw [hp] at hh; cases hh; rfl

theorem pPart_head (x : NormCmd) : ∀ ch, x.pPart.head? = some ch → ch = ' ' := by
  intro ch hh
  unfold pPart at hh
  cases hp : x.params with
  | none => rw [hp] at hh; cases hh
  | some ps => rw [hp] at hh; cases hh; rfl

/-- whatever follows the command word starts with a blank -/
theorem tail_head (x : NormCmd) : ∀ ch, (x.pPart ++ x.ckPart).head? = some ch → ch = ' ' := by
  intro ch hh
  cases hp : x.pPart with
  | nil => rw [hp] at hh; exact ckPart_head x ch hh
  | cons c t =>
    have := pPart_head x c (by rw [hp]; rfl)
    rw [hp] at hh; cases hh; exact this

/-- no backslash anywhere in the rendered command -/
theorem no_backslash (x : NormCmd) (h : x.WF) : ∀ i, passes x.ctx false BSc i = false := by
  intro i
  cases hg : x.render[i]? with
  | none => exact passes_none _ _ _ _ hg
  | some ch =>
    rw [passes_char _ _ _ _ ch hg]
    have hmem : ch ∈ x.render := List.mem_of_getElem? hg
    have hne : ch ≠ '\\' := by
      simp only [render, nPart, gPart, subPart, pPart, ckPart, List.mem_append] at hmem
      rcases hmem with (((h1 | h2) | h3) | h4) | h5
      · rw [h.lw ch h1]; decide
      · cases hl : x.ln with
        | none => rw [hl] at h2; cases h2
        | some n =>
          rw [hl] at h2
          simp only [List.mem_cons, List.mem_append, List.mem_nil_iff, or_false] at h2
          rcases h2 with (rfl | h2) | rfl
          · decide
          · exact digit_not _ _ (by decide) (natToText_digits n ch h2)
          · decide
      · simp only [List.mem_cons] at h3
        rcases h3 with (rfl | h3) | h3
        · rcases h.ty with e | e | e <;> rw [e] <;> decide
        · exact digit_not _ _ (by decide) (natToText_digits _ ch h3)
        · cases hs : x.sub with
          | none => rw [hs] at h3; cases h3
          | some sc =>
            rw [hs] at h3
            simp only [List.mem_cons] at h3
            rcases h3 with rfl | h3
            · decide
            · exact digit_not _ _ (by decide) (natToText_digits _ ch h3)
      · cases hp : x.params with
        | none => rw [hp] at h4; cases h4
        | some ps =>
          rw [hp] at h4
          simp only [List.mem_cons] at h4
          rcases h4 with rfl | h4
          · decide
          · exact ((h.params ps hp).2.2.2 ch h4).1
      · cases hc : x.ck with
        | none => rw [hc] at h5; cases h5
        | some cs =>
          rw [hc] at h5
          simp only [List.mem_cons] at h5
          rcases h5 with rfl | rfl | h5
          · decide
          · decide
          · exact digit_not _ _ (by decide) (natToText_digits _ ch h5)
    simp [CC.test, hne]

end NormCmd
end ERP

namespace ERP.NormCmd
open ERP.Rx

def tailCaps (x : NormCmd) : Caps :=
  [(13, x.total, x.total), (11, x.total, x.total), (2, x.p1, x.total)] ++
    (match x.ck with | some _ => [(10, x.size + 2, x.total)] | none => []) ++
    (match x.params with | some _ => [(9, x.d2 + 1, x.size)] | none => [])

theorem pre_len (x : NormCmd) : (x.lw ++ x.nPart ++ x.gPart).length = x.d2 := by
  simp only [d2, d1, a, p1, gPart, List.length_append, List.length_cons]
  omega

/-- the digits of a checksum run to the end of the text -/
theorem ck_run (x : NormCmd) (cs : Nat) (hc : x.ck = some cs) : DigitRun x.ctx (x.size + 2) x.ctx.s.size := by
  have hren : x.render = (x.lw ++ x.nPart ++ x.gPart ++ x.pPart ++ [' ', '*']) ++ natToText cs ++ [] := by
    simp [render, ckPart, hc]
  have hl : (x.lw ++ x.nPart ++ x.gPart ++ x.pPart ++ [' ', '*']).length = x.size + 2 := by
    rw [List.length_append, List.length_append, pre_len]; rfl
  have := digitRun_of (x.lw ++ x.nPart ++ x.gPart ++ x.pPart ++ [' ', '*']) (natToText cs) []
    (natToText_ne_nil _) (natToText_digits _) (by intro ch hh; cases hh)
  rw [← hren, hl] at this
  have ht : x.size + 2 + (natToText cs).length = x.ctx.s.size := by
    rw [x.ctx_size]; simp [total, ckPart, hc]; omega
  rw [ht] at this
  exact this

/-- after the code: blanks, parameters, checksum and the (empty) rest of the line -/
theorem rest_eval (x : NormCmd) (h : x.WF) (c : Caps) :
    restA x.ctx x.p1 x.d2 c = some (x.total, x.tailCaps ++ c) := by
  have hpre := pre_len x
  cases hp : x.params with
  | none =>
    have hsz : x.size = x.d2 := by simp [size, pPart, hp]
    cases hc : x.ck with
    | none =>
      have htot : x.total = x.d2 := by simp [total, ckPart, hc, hsz]
      have := restA_no_params x.ctx x.p1 c
      rw [x.ctx_size, htot] at this
      rw [this]
      simp [tailCaps, hp, hc, htot]
    | some cs =>
      have hren : x.render = (x.lw ++ x.nPart ++ x.gPart) ++ ' ' :: '*' :: natToText cs := by
        simp [render, pPart, hp, ckPart, hc]
      have hren2 : x.render = (x.lw ++ x.nPart ++ x.gPart ++ [' ']) ++ '*' :: natToText cs := by
        simp [render, pPart, hp, ckPart, hc]
      have hrun := ck_run x cs hc
      rw [hsz] at hrun
      have key := restA_ck_no_params x.ctx x.p1 x.d2 c (no_backslash x h)
        (by
          show passes ⟨x.render.toArray⟩ false SP x.d2 = true
          rw [passes_char _ _ _ _ ' ' (by rw [hren, get_after _ _ _ hpre.symm]; rfl)]
          decide)
        (by
          show passes ⟨x.render.toArray⟩ false STARc (x.d2 + 1) = true
          rw [passes_char _ _ _ _ '*' (by
            rw [hren2, get_after _ _ _ (by rw [List.length_append, hpre]; rfl)]; rfl)]
          decide)
        hrun
      rw [x.ctx_size] at key
      rw [key]
      simp [tailCaps, hp, hc, hsz]
  | some ps =>
    obtain ⟨hne, hhead, hlast, hall⟩ := h.params ps hp
    have hren : x.render = (x.lw ++ x.nPart ++ x.gPart) ++ ' ' :: (ps ++ x.ckPart) := by
      simp [render, pPart, hp]
    have hren2 : x.render = ((x.lw ++ x.nPart ++ x.gPart) ++ [' ']) ++ ps ++ x.ckPart := by
      simp [render, pPart, hp]
    have hlen2 : ((x.lw ++ x.nPart ++ x.gPart) ++ [' ']).length = x.d2 + 1 := by
      rw [List.length_append, pre_len]; rfl
    have hsz : x.size = x.d2 + 1 + ps.length := by simp [size, pPart, hp]; omega
    have hpos := List.length_pos_iff.mpr hne
    -- facts about the parameter characters, common to both cases
    have hsp : passes x.ctx false SP x.d2 = true := by
      show passes ⟨x.render.toArray⟩ false SP x.d2 = true
      rw [passes_char _ _ _ _ ' ' (by rw [hren, get_after _ _ _ hpre.symm]; rfl)]
      decide
    have hq : passes x.ctx false SP (x.d2 + 1) = false := by
      show passes ⟨x.render.toArray⟩ false SP (x.d2 + 1) = false
      cases ps with
      | nil => exact absurd rfl hne
      | cons ch t =>
        rw [passes_char _ _ _ _ ch (by
          rw [hren2, List.append_assoc, get_after _ _ _ hlen2.symm]; rfl)]
        have : ch ≠ ' ' := fun e => hhead (by rw [e]; rfl)
        simp [CC.test, this]
    have hplain : ∀ i, x.d2 + 1 ≤ i → i < x.size → passes x.ctx true PSTOP i = true := by
      intro i h1 h2
      rw [hsz] at h2
      have hj : i - (x.d2 + 1) < ps.length := by omega
      show passes ⟨x.render.toArray⟩ true PSTOP i = true
      rw [passes_char _ _ _ _ ps[i - (x.d2 + 1)] (by
        rw [hren2, get_mid _ ps _ i (by rw [hlen2]; exact h1) (by rw [hlen2]; omega), hlen2,
          List.getElem?_eq_getElem hj])]
      obtain ⟨_, g2, g3, g4, g5⟩ := hall _ (List.getElem_mem hj)
      simp [CC.test, g2, g3, g4, g5]
    have hlastc : passes x.ctx false SP (x.size - 1) = false := by
      rw [hsz]
      have hj : x.d2 + 1 + ps.length - 1 - (x.d2 + 1) < ps.length := by omega
      show passes ⟨x.render.toArray⟩ false SP (x.d2 + 1 + ps.length - 1) = false
      rw [passes_char _ _ _ _ ps[x.d2 + 1 + ps.length - 1 - (x.d2 + 1)] (by
        rw [hren2, get_mid _ ps _ _ (by rw [hlen2]; omega) (by rw [hlen2]; omega), hlen2,
          List.getElem?_eq_getElem hj])]
      have hidx : x.d2 + 1 + ps.length - 1 - (x.d2 + 1) = ps.length - 1 := by omega
      have : ps[x.d2 + 1 + ps.length - 1 - (x.d2 + 1)] ≠ ' ' := by
        intro e
        apply hlast
        rw [List.getLast?_eq_getElem?, List.getElem?_eq_getElem (by omega), ← e]
        simp only [hidx]
      generalize ps[x.d2 + 1 + ps.length - 1 - (x.d2 + 1)] = ch at this
      simp [CC.test, this]
    cases hc : x.ck with
    | none =>
      have htot : x.total = x.size := by simp [total, ckPart, hc]
      have key := restA_params x.ctx x.p1 x.d2 c (no_backslash x h) hsp hq
        (by rw [x.ctx_size, htot, hsz]; omega)
        (by intro i h1 h2; rw [x.ctx_size, htot] at h2; exact hplain i h1 h2)
        (by rw [x.ctx_size, htot]; exact hlastc)
      rw [x.ctx_size] at key
      rw [key]
      simp [tailCaps, hp, hc, htot]
    | some cs =>
      have hren3 : x.render = (x.lw ++ x.nPart ++ x.gPart ++ x.pPart) ++ ' ' :: '*' :: natToText cs := by
        simp [render, ckPart, hc]
      have hren4 : x.render = (x.lw ++ x.nPart ++ x.gPart ++ x.pPart ++ [' ']) ++ '*' :: natToText cs := by
        simp [render, ckPart, hc]
      have hl3 : (x.lw ++ x.nPart ++ x.gPart ++ x.pPart).length = x.size := by
        rw [List.length_append, pre_len]; rfl
      have key := restA_ck_params x.ctx x.p1 x.d2 x.size c (no_backslash x h) hsp hq
        (by rw [hsz]; omega) hplain hlastc
        (by
          show passes ⟨x.render.toArray⟩ false SP x.size = true
          rw [passes_char _ _ _ _ ' ' (by rw [hren3, get_after _ _ _ hl3.symm]; rfl)]
          decide)
        (by
          show passes ⟨x.render.toArray⟩ false STARc (x.size + 1) = true
          rw [passes_char _ _ _ _ '*' (by
            rw [hren4, get_after _ _ _ (by rw [List.length_append, hl3]; rfl)]; rfl)]
          decide)
        (ck_run x cs hc)
      rw [x.ctx_size] at key
      rw [key]
      simp [tailCaps, hp, hc]

end ERP.NormCmd

namespace ERP.NormCmd
open ERP.Rx

def codeCaps (x : NormCmd) : Caps :=
  if x.ty = 'T' then [(8, x.a + 1, x.d1), (7, x.a, x.a + 1)]
  else (match x.sub with | some _ => [(6, x.d1 + 1, x.d2)] | none => []) ++ [(5, x.a + 1, x.d1), (4, x.a, x.a + 1)]

theorem digit_not_space (ctx : Ctx) (i : Nat) (h : passes ctx false DIGc i = true) : passes ctx false SP i = false := by
  have hi := passes_lt h
  unfold passes at h ⊢
  simp only [hi, dite_true, List.any_cons, List.any_nil, Bool.or_false, CC.test, bne_iff_ne, ne_eq,
    Bool.not_eq_false] at h ⊢
  generalize ctx.s[i] = ch at h
  have : ch ≠ Char.ofNat 32 := by rintro rfl; revert h; decide
  simp [this]

theorem code_run (x : NormCmd) : DigitRun x.ctx (x.a + 1) x.d1 := by
  have hren : x.render = (x.lw ++ x.nPart ++ [x.ty]) ++ natToText x.code ++ (x.subPart ++ (x.pPart ++ x.ckPart)) := by
    simp [render, gPart]
  have hl : (x.lw ++ x.nPart ++ [x.ty]).length = x.a + 1 := by simp [a, p1]; omega
  have := digitRun_of (x.lw ++ x.nPart ++ [x.ty]) (natToText x.code) (x.subPart ++ (x.pPart ++ x.ckPart))
    (natToText_ne_nil _) (natToText_digits _) (by
      intro ch hh
      cases hs : x.sub with
      | none =>
        simp only [subPart, hs, List.nil_append] at hh
        rw [tail_head x ch hh]; decide
      | some sc =>
        simp only [subPart, hs, List.cons_append, List.head?_cons, Option.some.injEq] at hh
        rw [← hh]; decide)
  rw [← hren, hl] at this
  exact this

theorem code_eval (x : NormCmd) (h : x.WF) (c : Caps) :
    m x.ctx CODEr x.a c (restA x.ctx x.p1) = some (x.total, x.tailCaps ++ x.codeCaps ++ c) := by
  have hrun := code_run x
  have hren : x.render = (x.lw ++ x.nPart) ++ x.ty :: (natToText x.code ++ x.subPart ++ x.pPart ++ x.ckPart) := by
    simp [render, gPart]
  have hla : (x.lw ++ x.nPart).length = x.a := by simp [a, p1]
  have hty : x.render[x.a]? = some x.ty := by rw [hren, get_after _ _ _ hla.symm]; rfl
  have hnsp := digit_not_space x.ctx (x.a + 1) (hrun.digits _ (Nat.le_refl _) hrun.nonempty)
  -- the character right after the code digits
  have hren1 : x.render = (x.lw ++ x.nPart ++ [x.ty] ++ natToText x.code) ++ (x.subPart ++ (x.pPart ++ x.ckPart)) := by
    simp [render, gPart]
  have hl1 : (x.lw ++ x.nPart ++ [x.ty] ++ natToText x.code).length = x.d1 := by
    simp [d1, a, p1]; omega
  have hafter : x.render[x.d1]? = (x.subPart ++ (x.pPart ++ x.ckPart)).head? := by
    rw [hren1, get_after _ _ _ hl1.symm]
  have nodot : x.sub = none → passes x.ctx false DOT x.d1 = false := by
    intro hs
    simp only [subPart, hs, List.nil_append] at hafter
    cases hh : (x.pPart ++ x.ckPart).head? with
    | none => exact passes_none _ _ _ _ (by rw [hafter, hh])
    | some ch =>
      show passes ⟨x.render.toArray⟩ false DOT x.d1 = false
      rw [passes_char _ _ _ _ ch (by rw [hafter, hh]), tail_head x ch hh]
      decide
  have hd2 : x.sub = none → x.d2 = x.d1 := by
    intro hs; simp [d2, subPart, hs]
  by_cases hT : x.ty = 'T'
  · have hs := h.tsub hT
    have := code_t x.ctx x.a x.d1 c (restA x.ctx x.p1) (x.total, x.tailCaps ++ x.codeCaps ++ c)
      (by show passes ⟨x.render.toArray⟩ false GMc x.a = false
          rw [passes_char _ _ _ _ _ hty, hT]; decide)
      (by show passes ⟨x.render.toArray⟩ false TTc x.a = true
          rw [passes_char _ _ _ _ _ hty, hT]; decide)
      hnsp hrun
      (by rw [← hd2 hs, rest_eval x h]; simp [codeCaps, hT, hd2 hs])
    exact this
  · have hgm : passes x.ctx false GMc x.a = true := by
      show passes ⟨x.render.toArray⟩ false GMc x.a = true
      rw [passes_char _ _ _ _ _ hty]
      rcases h.ty with e | e | e
      · rw [e]; decide
      · rw [e]; decide
      · exact absurd e hT
    cases hs : x.sub with
    | none =>
      exact code_gm x.ctx x.a x.d1 c (restA x.ctx x.p1) _ hgm hnsp hrun none
        ⟨nodot hs, by rw [← hd2 hs, rest_eval x h]; simp [codeCaps, hT, hs, hd2 hs]⟩
    | some sc =>
      have hdot : passes x.ctx false DOT x.d1 = true := by
        show passes ⟨x.render.toArray⟩ false DOT x.d1 = true
        rw [passes_char _ _ _ _ '.' (by rw [hafter]; simp [subPart, hs])]
        decide
      have hren2 : x.render = (x.lw ++ x.nPart ++ [x.ty] ++ natToText x.code ++ ['.']) ++ natToText sc ++ (x.pPart ++ x.ckPart) := by
        simp [render, gPart, subPart, hs]
      have hl2 : (x.lw ++ x.nPart ++ [x.ty] ++ natToText x.code ++ ['.']).length = x.d1 + 1 := by
        rw [List.length_append, hl1]; rfl
      have hrun2 : DigitRun x.ctx (x.d1 + 1) x.d2 := by
        have := digitRun_of (x.lw ++ x.nPart ++ [x.ty] ++ natToText x.code ++ ['.']) (natToText sc) (x.pPart ++ x.ckPart)
          (natToText_ne_nil _) (natToText_digits _) (by
            intro ch hh; rw [tail_head x ch hh]; decide)
        rw [← hren2, hl2] at this
        have hd : x.d1 + 1 + (natToText sc).length = x.d2 := by simp [d2, subPart, hs]; omega
        rw [hd] at this
        exact this
      exact code_gm x.ctx x.a x.d1 c (restA x.ctx x.p1) _ hgm hnsp hrun (some x.d2)
        ⟨hdot, hrun2, by rw [rest_eval x h]; simp [codeCaps, hT, hs]⟩

end ERP.NormCmd

namespace ERP.NormCmd
open ERP.Rx

def nCaps (x : NormCmd) : Caps :=
  match x.ln with | some n => [(3, x.p1 + 1, x.p1 + 1 + (natToText n).length)] | none => []

def caps (x : NormCmd) : Caps := x.tailCaps ++ x.codeCaps ++ x.nCaps ++ [(1, 0, x.p1)]

theorem ty_not_space (x : NormCmd) (h : x.WF) : x.ty ≠ ' ' := by
  rcases h.ty with e | e | e <;> rw [e] <;> decide

theorem ty_at_a (x : NormCmd) : x.render[x.a]? = some x.ty := by
  have hren : x.render = (x.lw ++ x.nPart) ++ x.ty :: (natToText x.code ++ x.subPart ++ x.pPart ++ x.ckPart) := by
    simp [render, gPart]
  have hla : (x.lw ++ x.nPart).length = x.a := by simp [a, p1]
  rw [hren, get_after _ _ _ hla.symm]; rfl

theorem a_not_space (x : NormCmd) (h : x.WF) : passes x.ctx false SP x.a = false := by
  show passes ⟨x.render.toArray⟩ false SP x.a = false
  rw [passes_char _ _ _ _ _ x.ty_at_a]
  simp [CC.test, ty_not_space x h]

/-- **the line regex on a normalised command**: it matches the whole string through the command
alternative, with exactly these groups -/
theorem match_eval (x : NormCmd) (h : x.WF) :
    matchAt Gen.gcodeLine x.render.toArray 0 = some (x.total, x.caps) := by
  apply line_assemble x.ctx x.p1
  · -- leading blanks
    apply span_eq_of_stop x.ctx false SP 0 x.p1 (Nat.zero_le _)
    · intro i _ h2
      have hren : x.render = [] ++ x.lw ++ (x.nPart ++ x.gPart ++ x.pPart ++ x.ckPart) := by simp [render]
      have hi : i < x.lw.length := h2
      show passes ⟨x.render.toArray⟩ false SP i = true
      rw [passes_char _ _ _ _ x.lw[i] (by
        rw [hren, get_mid [] x.lw _ i (Nat.zero_le _) (by simpa using hi)]
        simp [List.getElem?_eq_getElem hi])]
      rw [h.lw _ (List.getElem_mem hi)]
      decide
    · cases hl : x.ln with
      | none =>
        have : x.a = x.p1 := by simp [a, nPart, hl]
        rw [← this]; exact a_not_space x h
      | some n =>
        have hren : x.render = x.lw ++ 'N' :: (natToText n ++ [' '] ++ x.gPart ++ x.pPart ++ x.ckPart) := by
          simp [render, nPart, hl]
        show passes ⟨x.render.toArray⟩ false SP x.p1 = false
        rw [passes_char _ _ _ _ 'N' (by rw [hren, get_after x.lw _ x.p1 rfl]; rfl)]
        decide
  · cases hl : x.ln with
    | none =>
      have ha : x.a = x.p1 := by simp [a, nPart, hl]
      have hsz : x.p1 ≤ x.ctx.s.size := by
        rw [x.ctx_size]; simp only [total, size, d2, d1, a]; omega
      rw [optn_skip x.ctx x.p1 _ _ hsz (by
        show passes ⟨x.render.toArray⟩ false NLc x.p1 = false
        rw [← ha, passes_char _ _ _ _ _ x.ty_at_a]
        rcases h.ty with e | e | e <;> rw [e] <;> decide)]
      unfold WSr
      have hc := code_eval x h [(1, 0, x.p1)]
      rw [ha] at hc
      rw [m_star_empty x.ctx false SP _ _ _ (by have := a_not_space x h; rwa [ha] at this), hc]
      simp [caps, nCaps, hl]
    | some n =>
      have hren : x.render = x.lw ++ 'N' :: (natToText n ++ [' '] ++ x.gPart ++ x.pPart ++ x.ckPart) := by
        simp [render, nPart, hl]
      have hren2 : x.render = (x.lw ++ ['N']) ++ natToText n ++ (' ' :: (x.gPart ++ x.pPart ++ x.ckPart)) := by
        simp [render, nPart, hl]
      have hl2 : (x.lw ++ ['N']).length = x.p1 + 1 := by simp [p1]
      have hrun : DigitRun x.ctx (x.p1 + 1) (x.p1 + 1 + (natToText n).length) := by
        have := digitRun_of (x.lw ++ ['N']) (natToText n) (' ' :: (x.gPart ++ x.pPart ++ x.ckPart))
          (natToText_ne_nil _) (natToText_digits _) (by intro ch hh; cases hh; decide)
        rw [← hren2, hl2] at this
        exact this
      have ha : x.a = x.p1 + 1 + (natToText n).length + 1 := by
        simp [a, nPart, hl]; omega
      have hsp : passes x.ctx false SP (x.p1 + 1 + (natToText n).length) = true := by
        show passes ⟨x.render.toArray⟩ false SP _ = true
        have hren3 : x.render = (x.lw ++ ['N'] ++ natToText n) ++ (' ' :: (x.gPart ++ x.pPart ++ x.ckPart)) := by
          simp [render, nPart, hl]
        rw [passes_char _ _ _ _ ' ' (by rw [hren3, get_after _ _ _ (by simp [p1]; omega)]; rfl)]
        decide
      apply optn_take x.ctx x.p1 _ _ _ _ (by
        show passes ⟨x.render.toArray⟩ false NLc x.p1 = true
        rw [passes_char _ _ _ _ 'N' (by rw [hren, get_after x.lw _ x.p1 rfl]; rfl)]
        decide) hrun
      unfold WSr
      refine m_star_max x.ctx false SP _ _ _ _ hrun.le ?_
      have hspan : span x.ctx false SP (x.p1 + 1 + (natToText n).length) = x.a := by
        apply span_eq_of_stop _ _ _ _ _ (by omega)
        · intro i h1 h2
          have : i = x.p1 + 1 + (natToText n).length := by omega
          rw [this]; exact hsp
        · exact a_not_space x h
      rw [hspan, code_eval x h]
      simp [caps, nCaps, hl]

end ERP.NormCmd

namespace ERP.NormCmd
open ERP.Rx

theorem slice_at (A B C : Text) (a b : Nat) (ha : a = A.length) (hb : b = A.length + B.length) :
    slice (A ++ B ++ C) a b = B := by
  subst ha hb
  simp [slice]

macro "caps_cases" x:ident : tactic =>
  `(tactic| (cases hl : NormCmd.ln $x <;> cases hs : NormCmd.sub $x <;> cases hp : NormCmd.params $x <;>
      cases hc : NormCmd.ck $x <;> by_cases hT : NormCmd.ty $x = 'T' <;>
      simp [caps, tailCaps, codeCaps, nCaps, capOf, hl, hs, hp, hc, hT, List.find?]))

theorem cap1 (x : NormCmd) : capOf x.caps 1 = some (0, x.p1) := by caps_cases x
theorem cap2 (x : NormCmd) : capOf x.caps 2 = some (x.p1, x.total) := by caps_cases x
theorem cap3 (x : NormCmd) : capOf x.caps 3 = x.ln.map (fun n => (x.p1 + 1, x.p1 + 1 + (natToText n).length)) := by
  caps_cases x
theorem cap4 (x : NormCmd) : capOf x.caps 4 = if x.ty = 'T' then none else some (x.a, x.a + 1) := by caps_cases x
theorem cap5 (x : NormCmd) : capOf x.caps 5 = if x.ty = 'T' then none else some (x.a + 1, x.d1) := by caps_cases x
theorem cap6 (x : NormCmd) (h : x.WF) : capOf x.caps 6 = x.sub.map (fun _ => (x.d1 + 1, x.d2)) := by
  have := h.tsub
  cases hl : x.ln <;> cases hs : x.sub <;> cases hp : x.params <;> cases hc : x.ck <;> by_cases hT : x.ty = 'T' <;>
    simp_all [caps, tailCaps, codeCaps, nCaps, capOf, List.find?]
theorem cap7 (x : NormCmd) : capOf x.caps 7 = if x.ty = 'T' then some (x.a, x.a + 1) else none := by caps_cases x
theorem cap8 (x : NormCmd) : capOf x.caps 8 = if x.ty = 'T' then some (x.a + 1, x.d1) else none := by caps_cases x
theorem cap9 (x : NormCmd) : capOf x.caps 9 = x.params.map (fun _ => (x.d2 + 1, x.size)) := by caps_cases x
theorem cap10 (x : NormCmd) : capOf x.caps 10 = x.ck.map (fun _ => (x.size + 2, x.total)) := by caps_cases x
theorem cap11 (x : NormCmd) : capOf x.caps 11 = some (x.total, x.total) := by caps_cases x
theorem cap12 (x : NormCmd) : capOf x.caps 12 = none := by caps_cases x
theorem cap13 (x : NormCmd) : capOf x.caps 13 = some (x.total, x.total) := by caps_cases x

theorem sl1 (x : NormCmd) : slice x.render 0 x.p1 = x.lw := by
  have : x.render = [] ++ x.lw ++ (x.nPart ++ x.gPart ++ x.pPart ++ x.ckPart) := by simp [render]
  rw [this]; exact slice_at _ _ _ _ _ rfl (by simp [p1])

theorem sl2 (x : NormCmd) : slice x.render x.p1 x.total = x.nPart ++ x.gPart ++ x.pPart ++ x.ckPart := by
  have : x.render = x.lw ++ (x.nPart ++ x.gPart ++ x.pPart ++ x.ckPart) ++ [] := by simp [render]
  rw [this]; exact slice_at _ _ _ _ _ rfl (by
    simp only [total, size, d2, d1, a, p1, gPart, List.length_append, List.length_cons]; omega)

theorem sl3 (x : NormCmd) (n : Nat) (hl : x.ln = some n) :
    slice x.render (x.p1 + 1) (x.p1 + 1 + (natToText n).length) = natToText n := by
  have : x.render = (x.lw ++ ['N']) ++ natToText n ++ (' ' :: (x.gPart ++ x.pPart ++ x.ckPart)) := by
    simp [render, nPart, hl]
  rw [this]; exact slice_at _ _ _ _ _ (by simp [p1]) (by simp [p1])

theorem sl4 (x : NormCmd) : slice x.render x.a (x.a + 1) = [x.ty] := by
  have : x.render = (x.lw ++ x.nPart) ++ [x.ty] ++ (natToText x.code ++ x.subPart ++ x.pPart ++ x.ckPart) := by
    simp [render, gPart]
  rw [this]; exact slice_at _ _ _ _ _ (by simp [a, p1]) (by simp [a, p1])

theorem sl5 (x : NormCmd) : slice x.render (x.a + 1) x.d1 = natToText x.code := by
  have : x.render = (x.lw ++ x.nPart ++ [x.ty]) ++ natToText x.code ++ (x.subPart ++ x.pPart ++ x.ckPart) := by
    simp [render, gPart]
  rw [this]; exact slice_at _ _ _ _ _ (by simp [a, p1]; omega) (by simp [d1, a, p1]; omega)

theorem sl6 (x : NormCmd) (sc : Nat) (hs : x.sub = some sc) : slice x.render (x.d1 + 1) x.d2 = natToText sc := by
  have : x.render = (x.lw ++ x.nPart ++ [x.ty] ++ natToText x.code ++ ['.']) ++ natToText sc ++ (x.pPart ++ x.ckPart) := by
    simp [render, gPart, subPart, hs]
  rw [this]; exact slice_at _ _ _ _ _ (by simp [d1, a, p1]; omega) (by simp [d2, d1, a, p1, subPart, hs]; omega)

theorem sl9 (x : NormCmd) (ps : Text) (hp : x.params = some ps) : slice x.render (x.d2 + 1) x.size = ps := by
  have : x.render = ((x.lw ++ x.nPart ++ x.gPart) ++ [' ']) ++ ps ++ x.ckPart := by
    simp [render, pPart, hp]
  rw [this]; exact slice_at _ _ _ _ _ (by rw [List.length_append, pre_len]; rfl)
    (by rw [List.length_append, pre_len]; simp [size, pPart, hp]; omega)

theorem sl10 (x : NormCmd) (cs : Nat) (hc : x.ck = some cs) : slice x.render (x.size + 2) x.total = natToText cs := by
  have : x.render = (x.lw ++ x.nPart ++ x.gPart ++ x.pPart ++ [' ', '*']) ++ natToText cs ++ [] := by
    simp [render, ckPart, hc]
  have hl : (x.lw ++ x.nPart ++ x.gPart ++ x.pPart ++ [' ', '*']).length = x.size + 2 := by
    rw [List.length_append, List.length_append, pre_len]; rfl
  rw [this]; exact slice_at _ _ _ _ _ hl.symm (by rw [hl]; simp [total, ckPart, hc]; omega)

theorem sl_end (R : Text) (n : Nat) : slice R n n = [] := by simp [slice]

end ERP.NormCmd

namespace ERP.NormCmd
open ERP.Rx

theorem upperC_ty (x : NormCmd) (h : x.WF) : upperC x.ty = x.ty := by
  rcases h.ty with e | e | e <;> rw [e] <;> decide

/-- the text attribute after re-parsing: group 2 without the raw checksum -/
def textOf (x : NormCmd) : Text :=
  x.nPart ++ x.gPart ++ x.pPart ++ (match x.ck with | some _ => [' '] | none => [])

/-- **re-parsing a normalised command** recovers exactly its parts -/
theorem reparse (x : NormCmd) (h : x.WF) :
    ∃ q, ({} : Parser).parse (some x.render) = .ok q ∧
      q.leadingWhitespace = x.lw ∧ q.lineNumber = x.ln ∧ q.type = some x.ty ∧ q.code = some x.code ∧
      q.subCode = x.sub ∧ q.parameters = x.params ∧ q.checksum = x.ck ∧
      q.rawChecksum = x.ck.map (fun cs => '*' :: natToText cs) ∧
      q.comment = none ∧ q.eol = [] ∧ q.trailingWhitespace = [] ∧
      q.offset = 0 ∧ q.length = x.render.length ∧ q.text = x.textOf := by
  have hm := match_eval x h
  have c1 : capText x.render x.caps 1 = some x.lw := by simp [capText, cap1, sl1]
  have c2 : capText x.render x.caps 2 = some (x.nPart ++ x.gPart ++ x.pPart ++ x.ckPart) := by
    simp [capText, cap2, sl2]
  have c3 : (capText x.render x.caps 3).map digitsToNat = x.ln := by
    cases hl : x.ln with
    | none => simp [capText, cap3, hl]
    | some n => simp [capText, cap3, hl, sl3 x n hl, digitsToNat_natToText]
  have c6 : (capText x.render x.caps 6).map digitsToNat = x.sub := by
    cases hs : x.sub with
    | none => simp [capText, cap6 x h, hs]
    | some sc => simp [capText, cap6 x h, hs, sl6 x sc hs, digitsToNat_natToText]
  have c9 : capText x.render x.caps 9 = x.params := by
    cases hp : x.params with
    | none => simp [capText, cap9, hp]
    | some ps => simp [capText, cap9, hp, sl9 x ps hp]
  have c10 : capText x.render x.caps 10 = x.ck.map natToText := by
    cases hc : x.ck with
    | none => simp [capText, cap10, hc]
    | some cs => simp [capText, cap10, hc, sl10 x cs hc]
  have c11 : capText x.render x.caps 11 = some [] := by simp [capText, cap11, sl_end]
  have c12 : capText x.render x.caps 12 = none := by simp [capText, cap12]
  have c13 : capText x.render x.caps 13 = some [] := by simp [capText, cap13, sl_end]
  have gm : ∀ p : Parser, (p.gcodeMatch x.render x.caps 4) =
      { p with type := some x.ty, code := some x.code, subCode := x.sub } := by
    intro p
    unfold Parser.gcodeMatch
    by_cases hT : x.ty = 'T'
    · have e4 : capText x.render x.caps 4 = none := by simp [capText, cap4, hT]
      have e5 : capText x.render x.caps 5 = none := by simp [capText, cap5, hT]
      have e7 : capText x.render x.caps 7 = some [x.ty] := by simp [capText, cap7, hT, sl4]
      have e8 : capText x.render x.caps 8 = some (natToText x.code) := by simp [capText, cap8, hT, sl5]
      simp only [e4, e5, e7, e8, c6, Option.map_some, digitsToNat_natToText, upperC_ty x h]
    · have e4 : capText x.render x.caps 4 = some [x.ty] := by simp [capText, cap4, hT, sl4]
      have e5 : capText x.render x.caps 5 = some (natToText x.code) := by simp [capText, cap5, hT, sl5]
      have hne : (natToText x.code).isEmpty = false := by
        have := natToText_ne_nil x.code
        cases hh : natToText x.code with
        | nil => exact absurd hh this
        | cons _ _ => rfl
      simp only [e4, e5, c6, hne, List.isEmpty_cons, Bool.false_eq_true, if_false, Option.map_some,
        digitsToNat_natToText, upperC_ty x h]
  unfold Parser.parse
  simp only [Option.getD_none, hm, gm, c1, c2, c3, c9, c10, c11, c12, c13, Option.getD_some]
  cases hc : x.ck with
  | none =>
    refine ⟨_, rfl, rfl, rfl, rfl, rfl, rfl, rfl, rfl, rfl, rfl, rfl, rfl, rfl, ?_, ?_⟩
    · simp [size_eq]
    · simp [textOf, ckPart, hc]
  | some cs =>
    refine ⟨_, rfl, rfl, rfl, rfl, rfl, rfl, rfl, ?_, rfl, rfl, rfl, rfl, rfl, ?_, ?_⟩
    · simp [digitsToNat_natToText]
    · simp [size_eq]
    · simp [textOf, ckPart, hc]
      have e : x.nPart ++ (x.gPart ++ (x.pPart ++ ' ' :: '*' :: natToText cs)) =
          (x.nPart ++ (x.gPart ++ (x.pPart ++ [' ']))) ++ '*' :: natToText cs := by simp
      rw [e]
      apply List.take_left'
      simp only [List.length_append, List.length_cons, List.length_nil]
      omega

end ERP.NormCmd
