import ERP.Lemmas.EView
import Mathlib.Tactic.SplitIfs
/-! # The extruder invariant

`EInv` couples the filter state with the extruder views of the physical printer (which executes
the filter's output) and of the virtual printer (which executes the unfiltered program). -/
namespace ERP
open T Spec
set_option linter.unusedSectionVars false
set_option linter.unusedSimpArgs false
variable {α : Type} [Field α] [LinearOrder α] [IsStrictOrderedRing α] [MathOps α] [MathSpec α]

/-- go to native E coordinate `c`, pushing (or pulling) the filament in between -/
def EV.goto (v : EV α) (c : α) : EV α :=
  { v with e := { v.e with current := some c }, fil := v.fil + (c - cur v.e),
           hw := maxA v.hw (v.fil + (c - cur v.e)) }

/-- declare the native E coordinate to be `c` (`G92 E`) -/
def EV.jump (v : EV α) (c : α) : EV α := { v with e := { v.e with current := some c } }

@[simp] theorem EV.jump_fil (v : EV α) (c : α) : (v.jump c).fil = v.fil := rfl
@[simp] theorem EV.jump_hw (v : EV α) (c : α) : (v.jump c).hw = v.hw := rfl
@[simp] theorem EV.jump_fw (v : EV α) (c : α) : (v.jump c).fw = v.fw := rfl
@[simp] theorem EV.jump_depth (v : EV α) (c : α) : (v.jump c).depth = v.depth := rfl
@[simp] theorem EV.jump_cur (v : EV α) (c : α) : (v.jump c).e.current = some c := rfl
@[simp] theorem EV.goto_fw (v : EV α) (c : α) : (v.goto c).fw = v.fw := rfl
@[simp] theorem EV.goto_cur (v : EV α) (c : α) : (v.goto c).e.current = some c := rfl
@[simp] theorem EV.cur_jump (v : EV α) (c : α) : cur (v.jump c).e = c := rfl
@[simp] theorem EV.cur_goto (v : EV α) (c : α) : cur (v.goto c).e = c := rfl
theorem EV.goto_frame (v : EV α) (c : α) : sameFrame (v.goto c).e v.e := ⟨rfl, rfl, rfl, rfl⟩
theorem EV.jump_frame (v : EV α) (c : α) : sameFrame (v.jump c).e v.e := ⟨rfl, rfl, rfl, rfl⟩

theorem sameFrame.symm {a b : Axis α} (h : sameFrame a b) : sameFrame b a :=
  ⟨h.1.symm, h.2.1.symm, h.2.2.1.symm, h.2.2.2.symm⟩
theorem sameFrame.trans {a b c : Axis α} (h : sameFrame a b) (h' : sameFrame b c) : sameFrame a c :=
  ⟨h.1.trans h'.1, h.2.1.trans h'.2.1, h.2.2.1.trans h'.2.2.1, h.2.2.2.trans h'.2.2.2⟩
theorem sameFrame.refl (a : Axis α) : sameFrame a a := ⟨rfl, rfl, rfl, rfl⟩

/-- an axis is determined by its frame and its current position -/
theorem axis_eq_of {a b : Axis α} (hf : sameFrame a b) (hc : a.current = b.current) : a = b := by
  obtain ⟨c1, h1, o1, a1, u1⟩ := a
  obtain ⟨c2, h2, o2, a2, u2⟩ := b
  obtain ⟨f1, f2, f3, f4⟩ := hf
  simp only at f1 f2 f3 f4 hc
  subst f1 f2 f3 f4 hc
  rfl

/-- no new high-water mark: the depth changes by the amount moved -/
theorem EV.goto_depth_le (v : EV α) (c : α) (h : c - cur v.e ≤ v.depth) :
    (v.goto c).depth = v.depth - (c - cur v.e) := by
  unfold EV.depth at h ⊢
  simp only [EV.goto, maxA]
  have : ¬ (v.hw < v.fil + (c - cur v.e)) := by linarith
  simp only [this, if_false]
  ring

/-- extrusion up to or beyond the high-water mark: not retracted afterwards -/
theorem EV.goto_depth_ge (v : EV α) (c : α) (h : v.depth ≤ c - cur v.e) : (v.goto c).depth = 0 := by
  unfold EV.depth at h ⊢
  simp only [EV.goto, maxA]
  split
  · ring
  · have : v.hw = v.fil + (c - cur v.e) := by
      rename_i hh
      have := not_lt.mp hh
      linarith
    rw [this]; ring

/-- the filament pushed by a `goto` -/
theorem EV.goto_fil (v : EV α) (c : α) : (v.goto c).fil = v.fil + (c - cur v.e) := rfl

/-- staying put changes nothing -/
theorem EV.goto_self (v : EV α) (c : α) (hc : v.e.current = some c) (hd : 0 ≤ v.depth) : v.goto c = v := by
  obtain ⟨e, fil, hw, fw⟩ := v
  unfold EV.depth at hd
  simp only at hc hd
  have hcur : cur e = c := by simp [cur, hc]
  simp only [EV.goto, hcur, sub_self, add_zero, maxA]
  have : ¬ (hw < fil) := by linarith
  simp only [this, if_false]
  congr 1
  obtain ⟨c1, h1, o1, a1, u1⟩ := e
  simp only at hc
  subst hc; rfl

theorem EV.lin_none (v : EV α) (hd : 0 ≤ v.depth) : v.lin none = v := by
  obtain ⟨e, fil, hw, fw⟩ := v
  unfold EV.depth at hd
  simp only at hd
  simp only [EV.lin, moveAxis, sub_self, add_zero, maxA]
  have : ¬ (hw < fil) := by linarith
  simp only [this, if_false]

/-- a move whose E word is `x`, on a printer in absolute extrusion mode whose frame is that of `a` -/
theorem EV.lin_some (v : EV α) (a : Axis α) (x : α) (hf : sameFrame v.e a) (habs : a.absoluteMode = true) :
    v.lin (some x) = v.goto (l2n a x) := by
  obtain ⟨f1, f2, f3, f4⟩ := hf
  have hv : v.e.absoluteMode = true := by rw [f3]; exact habs
  simp only [EV.lin, EV.goto, moveAxis, target, hv, if_true, l2n, habs, coord_eq_cur, f1, f2, f4, cur,
    Option.getD_some]

/-- `G92 E` with the logical reading of `a`'s position declares the native coordinate `cur a` -/
theorem EV.setE_n2l (v : EV α) (a : Axis α) (hf : sameFrame v.e a) (hu : a.unitMultiplier ≠ 0) :
    v.setE (n2l a) = v.jump (cur a) := by
  obtain ⟨f1, f2, f3, f4⟩ := hf
  simp only [EV.setE, EV.jump, n2l, f1, f2, f4]
  congr 3
  field_simp
  ring

theorem EV.setE_n2lAbs (v : EV α) (a : Axis α) (c : α) (hf : sameFrame v.e a) (hu : a.unitMultiplier ≠ 0) :
    v.setE (n2lAbs a c) = v.jump c := by
  obtain ⟨f1, f2, f3, f4⟩ := hf
  simp only [EV.setE, EV.jump, n2lAbs, f1, f2, f4]
  congr 3
  field_simp
  ring

/-- `G1 E` to the logical reading of `a`'s position goes to the native coordinate `cur a` -/
theorem EV.lin_n2l (v : EV α) (a : Axis α) (hf : sameFrame v.e a) (habs : a.absoluteMode = true)
    (hu : a.unitMultiplier ≠ 0) : v.lin (some (n2l a)) = v.goto (cur a) := by
  rw [EV.lin_some v a _ hf habs, l2n_n2l_abs a habs hu]

end ERP

namespace ERP
open T Spec
set_option linter.unusedSectionVars false
set_option linter.unusedSimpArgs false
variable {α : Type} [Field α] [LinearOrder α] [IsStrictOrderedRing α] [MathOps α] [MathSpec α]

/-- retraction style of a program: firmware (`G10`/`G11`) or E-only retractions of length `A` (mm) -/
structure EProto (α : Type) [Field α] [LinearOrder α] where
  fw : Bool
  A : α
  hA : 0 < A

/-- how the recorded retraction, the physical and the virtual printer relate -/
def RetrInv (pr : EProto α) (lr : Option (Retraction α)) (P V : EV α) : Prop :=
  match pr.fw, lr with
  | true, none => P.depth = 0 ∧ V.depth = 0 ∧ P.fw = false ∧ V.fw = false
  | true, some r => P.depth = 0 ∧ V.depth = 0 ∧ r.firmwareRetract = true ∧ P.fw = true ∧
      V.fw = !r.recoverExcluded
  | false, none => P.fw = false ∧ V.fw = false ∧ P.depth = 0 ∧ V.depth = 0
  | false, some r => P.fw = false ∧ V.fw = false ∧ r.firmwareRetract = false ∧
      r.extrusionAmount = some pr.A ∧ P.depth = pr.A ∧ V.depth = (if r.recoverExcluded then 0 else pr.A)

theorem RetrInv.fw_none {pr : EProto α} {P V : EV α} (hfw : pr.fw = true) (pd : P.depth = 0) (vd : V.depth = 0)
    (pf : P.fw = false) (vf : V.fw = false) : RetrInv pr none P V := by
  unfold RetrInv; rw [hfw]; exact ⟨pd, vd, pf, vf⟩

theorem RetrInv.fw_some {pr : EProto α} {P V : EV α} {r : Retraction α} (hfw : pr.fw = true) (pd : P.depth = 0)
    (vd : V.depth = 0) (lfw : r.firmwareRetract = true) (pf : P.fw = true) (vf : V.fw = !r.recoverExcluded) :
    RetrInv pr (some r) P V := by
  unfold RetrInv; rw [hfw]; exact ⟨pd, vd, lfw, pf, vf⟩

theorem RetrInv.of_fw_none {pr : EProto α} {P V : EV α} (hfw : pr.fw = true) (h : RetrInv pr none P V) :
    P.depth = 0 ∧ V.depth = 0 ∧ P.fw = false ∧ V.fw = false := by
  unfold RetrInv at h; rw [hfw] at h; exact h

theorem RetrInv.of_fw_some {pr : EProto α} {P V : EV α} {r : Retraction α} (hfw : pr.fw = true)
    (h : RetrInv pr (some r) P V) :
    P.depth = 0 ∧ V.depth = 0 ∧ r.firmwareRetract = true ∧ P.fw = true ∧ V.fw = !r.recoverExcluded := by
  unfold RetrInv at h; rw [hfw] at h; exact h

theorem RetrInv.nonneg {pr : EProto α} {lr : Option (Retraction α)} {P V : EV α} (h : RetrInv pr lr P V) :
    0 ≤ P.depth ∧ 0 ≤ V.depth ∧ V.depth ≤ P.depth := by
  have hA := pr.hA
  unfold RetrInv at h
  split at h
  · obtain ⟨h1, h2, _⟩ := h; rw [h1, h2]; simp
  · obtain ⟨h1, h2, _⟩ := h; rw [h1, h2]; simp
  · obtain ⟨_, _, h1, h2⟩ := h; rw [h1, h2]; simp
  · obtain ⟨_, _, _, _, h1, h2⟩ := h
    rw [h1, h2]
    split <;> simp [le_of_lt hA]

/-- only the depths and flags matter -/
theorem RetrInv.congr {pr : EProto α} {lr : Option (Retraction α)} {P V P' V' : EV α}
    (h : RetrInv pr lr P V) (h1 : P'.depth = P.depth) (h2 : P'.fw = P.fw) (h3 : V'.depth = V.depth)
    (h4 : V'.fw = V.fw) : RetrInv pr lr P' V' := by
  unfold RetrInv at h ⊢
  rw [h1, h2, h3, h4]; exact h

/-- **The extruder invariant.** -/
structure EInv (pr : EProto α) (s : FState α) (P V : EV α) : Prop where
  /-- the filter tracks the file's extruder axis -/
  track : s.position.e = V.e
  abs : s.position.e.absoluteMode = true
  frame : sameFrame P.e s.position.e
  /-- outside regions the printer's extruder coordinate is the file's -/
  sync : s.excluding = false → P.e.current = s.position.e.current
  retr : RetrInv pr s.lastRetraction P V

/-- the situation inside `processLinearMoves` after the E word has been applied to the tracked
position (now at `cur s1.position.e`) while both printers are still at the old coordinate `c0` -/
structure Mid (pr : EProto α) (s1 : FState α) (P V : EV α) (c0 : α) : Prop where
  vcur : V.e.current = some c0
  vframe : sameFrame V.e s1.position.e
  abs : s1.position.e.absoluteMode = true
  ok : AxisOk s1.position.e
  frame : sameFrame P.e s1.position.e
  sync : s1.excluding = false → P.e.current = some c0
  retr : RetrInv pr s1.lastRetraction P V

/-- what `_addCommands` makes a printer do -/
theorem addCommands_ev (g90e : Bool) (inch : α) (r : Retraction α) (dir a : α) (p : Position α) (Q : EV α)
    (hfw : r.firmwareRetract = false) (ha : r.extrusionAmount = some a) (hok : AxisOk p.e)
    (habs : p.e.absoluteMode = true) (hf : sameFrame Q.e p.e) :
    Q.outs g90e inch (T.addCommands r dir p).2 = (Q.jump (cur p.e + a * dir)).goto (cur p.e) := by
  unfold T.addCommands
  simp only [hfw, Bool.false_eq_true, if_false, ha, Option.getD_some, EV.outs, List.foldl_cons, List.foldl_nil,
    EV.out]
  have hu := hok.2
  have h1 := EV.setE_n2l Q ({ p.e with current := some (cur p.e + a * dir) } : Axis α)
    ⟨hf.1, hf.2.1, hf.2.2.1, hf.2.2.2⟩ hu
  rw [h1]
  have h2 := EV.lin_n2l (Q.jump (cur ({ p.e with current := some (cur p.e + a * dir) } : Axis α)))
    ({ p.e with current := some (cur p.e + a * dir - a * dir) } : Axis α)
    ⟨hf.1, hf.2.1, hf.2.2.1, hf.2.2.2⟩ habs hu
  rw [h2]
  simp only [cur, Option.getD_some]
  congr 1
  ring

theorem addCommands_ev_fw (g90e : Bool) (inch : α) (r : Retraction α) (dir : α) (p : Position α) (Q : EV α)
    (hfw : r.firmwareRetract = true) :
    Q.outs g90e inch (T.addCommands r dir p).2 = { Q with fw := !(decide (dir < 0)) } := by
  unfold T.addCommands
  simp only [hfw, if_true, EV.outs, List.foldl_cons, List.foldl_nil, EV.out]

end ERP

namespace ERP
open T Spec
set_option linter.unusedSectionVars false
set_option linter.unusedSimpArgs false
variable {α : Type} [Field α] [LinearOrder α] [IsStrictOrderedRing α] [MathOps α] [MathSpec α]

theorem AxisOk.cur_some {a : Axis α} (h : AxisOk a) : a.current = some (cur a) := h.cur_eq

/-- assembling the invariant after a move command -/
theorem EInv.of_mid {pr : EProto α} {s1 s2 : FState α} {P V P' : EV α} {c0 : α} (m : Mid pr s1 P V c0)
    (hpos : s2.position.e = s1.position.e) (hPf : sameFrame P'.e P.e)
    (hsync : s2.excluding = false → P'.e.current = some (cur s1.position.e))
    (hretr : RetrInv pr s2.lastRetraction P' (V.goto (cur s1.position.e))) :
    EInv pr s2 P' (V.goto (cur s1.position.e)) := by
  refine ⟨?_, ?_, ?_, ?_, hretr⟩
  · rw [hpos]
    apply axis_eq_of
    · exact (m.vframe.symm).trans (EV.goto_frame V _).symm
    · rw [m.ok.cur_some]; rfl
  · rw [hpos]; exact m.abs
  · rw [hpos]; exact hPf.trans m.frame
  · intro he; rw [hpos, hsync he, m.ok.cur_some]

/-- how the command itself acts on a printer that sits at the old coordinate -/
def OrigActs (g90e : Bool) (inch : α) (s1 : FState α) (cmd : Cmd α) (c0 : α) : Prop :=
  ∀ Q : EV α, sameFrame Q.e s1.position.e → Q.e.current = some c0 → 0 ≤ Q.depth →
    Q.exec g90e inch (Code.ofString cmd.code) cmd.words = Q.goto (cur s1.position.e)

theorem cur_of_current {a : Axis α} {c : α} (h : a.current = some c) : cur a = c := by simp [cur, h]

/-- the retraction branch of `_processNonMove`, for an arbitrary retraction record -/
def retractBranch (s1 : FState α) (r : Retraction α) : FState α × List (Out α) :=
  let rr := T.recordRetraction s1 r
  if rr.2.isEmpty && !rr.1.excluding then (rr.1, [.g92e (n2l rr.1.position.e)]) else rr

theorem retractBranch_inv (g90e : Bool) (inch : α) (pr : EProto α) (s1 : FState α) (P V : EV α)
    (cmd : Cmd α) (c0 dE : α) (r : Retraction α) (m : Mid pr s1 P V c0)
    (horig : OrigActs g90e inch s1 cmd c0)
    (hfw : pr.fw = false) (hdE : dE = cur s1.position.e - c0) (hneg : dE < 0) (hV0 : V.depth = 0)
    (hlen : -dE = pr.A) (r1 : r.firmwareRetract = false) (r2 : r.extrusionAmount = some (-dE))
    (r3 : r.originalCommand = cmd) (r4 : r.recoverExcluded = false) :
    EInv pr (retractBranch s1 r).1 (P.outs g90e inch (retractBranch s1 r).2) (V.goto (cur s1.position.e)) := by
  have hA := pr.hA
  have hretr := m.retr
  have hVc : cur V.e = c0 := cur_of_current m.vcur
  have hVd : (V.goto (cur s1.position.e)).depth = pr.A := by
    rw [EV.goto_depth_le V _ (by rw [hVc, ← hdE, hV0]; exact le_of_lt hneg), hVc, ← hdE, hV0]
    linarith
  unfold retractBranch T.recordRetraction
  cases hl : s1.lastRetraction with
  | none =>
    simp only [hl]
    unfold RetrInv at hretr
    simp only [hfw, hl] at hretr
    obtain ⟨pf, vf, pd, vd⟩ := hretr
    by_cases hex : s1.excluding = true
    · simp only [hex, if_true]
      have hposid := addCommands_pos_id r 1 s1.position m.ok
      have hev := addCommands_ev g90e inch r 1 (-dE) s1.position P r1 r2 m.ok m.abs m.frame
      generalize T.addCommands r 1 s1.position = ac at *
      obtain ⟨p, cmds⟩ := ac
      simp only at hposid hev ⊢
      subst hposid
      have hne : ¬ ((cmds.isEmpty && !s1.excluding) = true) := by simp [hex]
      simp only [hex, Bool.not_true, Bool.and_false, Bool.false_eq_true, if_false, hev]
      refine EInv.of_mid m ?_ ?_ ?_ ?_
      · rfl
      · exact (EV.goto_frame _ _).trans (EV.jump_frame _ _)
      · intro he; simp only at he; first | cases he | (rw [hex] at he; cases he)
      · unfold RetrInv
        simp only [hfw]
        refine ⟨pf, by simpa using vf, r1, by rw [r2, hlen], ?_, ?_⟩
        · rw [EV.goto_depth_le]
          · simp only [EV.jump_depth, pd, cur, EV.jump_cur, Option.getD_some]
            rw [← hlen]; ring
          · simp only [EV.jump_depth, pd, cur, EV.jump_cur, Option.getD_some]
            have : 0 ≤ -dE := by linarith
            linarith
        · simpa [r4] using hVd
    · have hex' : s1.excluding = false := by simpa using hex
      simp only [hex', Bool.false_eq_true, if_false, List.isEmpty_cons, Bool.false_and]
      have hPc := m.sync hex'
      simp only [EV.outs, List.foldl_cons, List.foldl_nil, r3, EV.out]
      rw [horig P m.frame hPc (by rw [pd])]
      refine EInv.of_mid m ?_ (EV.goto_frame _ _) ?_ ?_
      · rfl
      · intro _; rfl
      · unfold RetrInv
        simp only [hfw]
        refine ⟨pf, by simpa using vf, r1, by rw [r2, hlen], ?_, by simpa [r4] using hVd⟩
        have hPcur : cur P.e = c0 := cur_of_current hPc
        rw [EV.goto_depth_le P _ (by rw [hPcur, ← hdE, pd]; exact le_of_lt hneg), hPcur, ← hdE, pd]
        linarith
  | some lr =>
    simp only [hl]
    unfold RetrInv at hretr
    simp only [hfw, hl] at hretr
    obtain ⟨pf, vf, lfw, lam, pd, vd⟩ := hretr
    have howed : lr.recoverExcluded = true := by
      cases ho : lr.recoverExcluded with
      | true => rfl
      | false => rw [ho] at vd; simp at vd; rw [hV0] at vd; exact absurd vd.symm (ne_of_gt hA)
    simp only [howed, if_true, lfw, Bool.not_false, List.isEmpty_nil, Bool.true_and]
    by_cases hex : s1.excluding = true
    · simp only [hex, Bool.not_true, Bool.false_eq_true, if_false, EV.outs_nil]
      refine EInv.of_mid m ?_ (sameFrame.refl _) ?_ ?_
      · rfl
      · intro he; simp only at he; first | cases he | (rw [hex] at he; cases he)
      · unfold RetrInv
        simp only [hfw]
        exact ⟨pf, by simpa using vf, trivial, lam, pd, by simpa using hVd⟩
    · have hex' : s1.excluding = false := by simpa using hex
      simp only [hex', Bool.not_false, if_true, EV.outs, List.foldl_cons, List.foldl_nil, EV.out]
      rw [EV.setE_n2l P _ m.frame m.ok.2]
      refine EInv.of_mid m ?_ (EV.jump_frame _ _) ?_ ?_
      · rfl
      · intro _; rfl
      · unfold RetrInv
        simp only [hfw]
        exact ⟨pf, by simpa using vf, trivial, lam, pd, by simpa using hVd⟩

end ERP

namespace ERP
open T Spec
set_option linter.unusedSectionVars false
set_option linter.unusedSimpArgs false
variable {α : Type} [Field α] [LinearOrder α] [IsStrictOrderedRing α] [MathOps α] [MathSpec α]

/-- `recoverRetractionIfNeeded` followed by the insertion of `G92 E<prior>` after an injected
non-firmware recovery (shared by extruding moves and E-only extrusions) -/
def recoverBranch (s1 : FState α) (cmd : Cmd α) (b : Bool) (priorE : α) : FState α × List (Out α) :=
  let r3 := T.recoverRetractionIfNeeded s1 cmd b
  match s1.lastRetraction with
  | some lr =>
    if lr.recoverExcluded && !lr.firmwareRetract then
      (r3.1, insertBeforeLast r3.2 (.g92e (n2lAbs r3.1.position.e priorE)))
    else r3
  | none => r3

/-- **Extrusion outside a region** (`deltaE > 0`): an owed recovery is issued first, exactly once,
and the command then pushes its own amount. -/
theorem recoverBranch_inv (g90e : Bool) (inch : α) (pr : EProto α) (s1 : FState α) (P V : EV α)
    (cmd : Cmd α) (b : Bool) (c0 dE : α) (m : Mid pr s1 P V c0) (horig : OrigActs g90e inch s1 cmd c0)
    (hex : s1.excluding = false) (hdE : dE = cur s1.position.e - c0) (hpos : 0 < dE) (hVfw : V.fw = false)
    (hV : V.depth = 0 ∨ (V.depth = pr.A ∧ dE = pr.A)) :
    EInv pr (recoverBranch s1 cmd b c0).1 (P.outs g90e inch (recoverBranch s1 cmd b c0).2)
      (V.goto (cur s1.position.e)) := by
  have hA := pr.hA
  have hretr := m.retr
  have hVc : cur V.e = c0 := cur_of_current m.vcur
  have hPc := m.sync hex
  have hPcur : cur P.e = c0 := cur_of_current hPc
  have hVd : (V.goto (cur s1.position.e)).depth = 0 := by
    apply EV.goto_depth_ge
    rw [hVc, ← hdE]
    rcases hV with h | ⟨h, h'⟩
    · rw [h]; exact le_of_lt hpos
    · rw [h, h']
  unfold recoverBranch T.recoverRetractionIfNeeded
  cases hl : s1.lastRetraction with
  | none =>
    simp only [hl, hex, Bool.not_false, if_true, EV.outs, List.foldl_cons, List.foldl_nil, EV.out]
    have hP0 : P.depth = 0 := by
      unfold RetrInv at hretr
      rw [hl] at hretr
      cases hf : pr.fw <;> simp only [hf] at hretr
      · exact hretr.2.2.1
      · exact hretr.1
    rw [horig P m.frame hPc (by rw [hP0])]
    refine EInv.of_mid m ?_ (EV.goto_frame _ _) ?_ ?_
    · rfl
    · intro _; rfl
    · simp only [hl]
      have hPd : (P.goto (cur s1.position.e)).depth = 0 := by
        apply EV.goto_depth_ge; rw [hPcur, ← hdE, hP0]; exact le_of_lt hpos
      unfold RetrInv at hretr ⊢
      rw [hl] at hretr
      cases hf : pr.fw <;> simp only [hf] at hretr ⊢
      · exact ⟨hretr.1, by simpa using hretr.2.1, hPd, hVd⟩
      · exact ⟨hPd, hVd, hretr.2.2.1, by simpa using hretr.2.2.2⟩
  | some lr =>
    simp only [hl, hex, Bool.false_eq_true, if_false, T.recoverRetraction]
    have hposid := addCommands_pos_id { lr with allowCombine := false } (-1) s1.position m.ok
    generalize hac : T.addCommands { lr with allowCombine := false } (-1) s1.position = ac at hposid ⊢
    obtain ⟨p, cmds⟩ := ac
    simp only at hposid
    subst hposid
    unfold RetrInv at hretr
    rw [hl] at hretr
    cases hf : pr.fw
    · -- E-only style
      simp only [hf] at hretr
      obtain ⟨pf, vf, lfw, lam, pd, vd⟩ := hretr
      cases ho : lr.recoverExcluded
      · -- the file is retracted: this is its recovery
        rw [ho] at vd
        simp only [Bool.false_eq_true, if_false] at vd
        have hdA : dE = pr.A := by
          rcases hV with h | ⟨_, h'⟩
          · rw [h] at vd; exact absurd vd (ne_of_lt hA)
          · exact h'
        simp only [ho, Bool.false_and, Bool.false_eq_true, if_false, List.nil_append, EV.outs, List.foldl_cons,
          List.foldl_nil, EV.out]
        rw [horig P m.frame hPc (by rw [pd]; exact le_of_lt hA)]
        refine EInv.of_mid m ?_ (EV.goto_frame _ _) ?_ ?_
        · rfl
        · intro _; rfl
        · unfold RetrInv
          simp only [hf]
          refine ⟨pf, by simpa using vf, ?_, hVd⟩
          apply EV.goto_depth_ge; rw [hPcur, ← hdE, pd, hdA]
      · -- the recovery is owed: issue it, restore the coordinate, then the command itself
        rw [ho] at vd
        simp only [if_true] at vd
        simp only [ho, lfw, Bool.not_false, Bool.and_self, if_true]
        have hev := addCommands_ev g90e inch { lr with allowCombine := false } (-1) pr.A s1.position P lfw lam
          m.ok m.abs m.frame
        rw [hac] at hev
        simp only at hev ⊢
        rw [insertBeforeLast_snoc, EV.outs_append, EV.outs_append, hev]
        simp only [EV.outs, List.foldl_cons, List.foldl_nil, EV.out]
        have hfr1 : sameFrame ((P.jump (cur s1.position.e + pr.A * -1)).goto (cur s1.position.e)).e s1.position.e :=
          ((EV.goto_frame _ _).trans (EV.jump_frame _ _)).trans m.frame
        rw [EV.setE_n2lAbs _ _ c0 hfr1 m.ok.2]
        have hd1 : ((P.jump (cur s1.position.e + pr.A * -1)).goto (cur s1.position.e)).depth = 0 := by
          apply EV.goto_depth_ge
          simp only [EV.jump_depth, pd, cur, EV.jump_cur, Option.getD_some]
          linarith
        rw [horig _ ((EV.jump_frame _ _).trans hfr1) rfl (by simp only [EV.jump_depth, hd1]; exact le_refl _)]
        refine EInv.of_mid m ?_ ?_ ?_ ?_
        · rfl
        · exact (EV.goto_frame _ _).trans ((EV.jump_frame _ _).trans ((EV.goto_frame _ _).trans (EV.jump_frame _ _)))
        · intro _; rfl
        · unfold RetrInv
          simp only [hf]
          refine ⟨by simpa using pf, by simpa using vf, ?_, hVd⟩
          apply EV.goto_depth_ge
          simp only [EV.jump_depth, hd1, EV.cur_jump]
          rw [← hdE]; exact le_of_lt hpos
    · -- firmware style
      simp only [hf] at hretr
      obtain ⟨pd, vd, lfw, pf, vf⟩ := hretr
      have ho : lr.recoverExcluded = true := by
        rw [hVfw] at vf
        cases h : lr.recoverExcluded <;> simp [h] at vf ⊢
      simp only [ho, lfw, Bool.not_true, Bool.and_false, Bool.false_eq_true, if_false, if_true]
      have hev := addCommands_ev_fw g90e inch { lr with allowCombine := false } (-1) s1.position P lfw
      rw [hac] at hev
      simp only at hev ⊢
      rw [EV.outs_append, hev]
      simp only [EV.outs, List.foldl_cons, List.foldl_nil, EV.out]
      rw [horig { P with fw := !decide ((-1 : α) < 0) } m.frame hPc (by show 0 ≤ P.depth; rw [pd])]
      refine EInv.of_mid m ?_ (EV.goto_frame _ _) ?_ ?_
      · rfl
      · intro _; rfl
      · unfold RetrInv
        simp only [hf]
        refine ⟨?_, hVd, ?_, by simpa using hVfw⟩
        · apply EV.goto_depth_ge
          show P.depth ≤ _
          rw [pd]; show 0 ≤ cur s1.position.e - cur P.e; rw [hPcur, ← hdE]; exact le_of_lt hpos
        · simp

end ERP

namespace ERP
open T Spec
set_option linter.unusedSectionVars false
set_option linter.unusedSimpArgs false
variable {α : Type} [Field α] [LinearOrder α] [IsStrictOrderedRing α] [MathOps α] [MathSpec α]

/-- `Mid` only looks at the E axis, `excluding` and the recorded retraction -/
theorem Mid.congr {pr : EProto α} {s1 s2 : FState α} {P V : EV α} {c0 : α} (m : Mid pr s1 P V c0)
    (he : s2.position.e = s1.position.e) (hx : s2.excluding = s1.excluding)
    (hr : s2.lastRetraction = s1.lastRetraction) : Mid pr s2 P V c0 :=
  ⟨m.vcur, by rw [he]; exact m.vframe, by rw [he]; exact m.abs, by rw [he]; exact m.ok,
   by rw [he]; exact m.frame, by rw [hx]; exact m.sync, by rw [hr]; exact m.retr⟩

/-- travel, or extrusion while not retracted: the depth stays what it was -/
theorem EV.goto_same_depth (v : EV α) (c c0 : α) (hc : v.e.current = some c0) (hd : 0 ≤ v.depth)
    (h0 : 0 ≤ c - c0) (h1 : 0 < c - c0 → v.depth = 0) : (v.goto c).depth = v.depth := by
  have hcur : cur v.e = c0 := cur_of_current hc
  rcases eq_or_lt_of_le h0 with h | h
  · rw [EV.goto_depth_le v c (by rw [hcur, ← h]; exact hd), hcur, ← h]; ring
  · rw [EV.goto_depth_ge v c (by rw [hcur, h1 h]; exact h0), h1 h]

/-- outputs that do not concern the extruder -/
def ENeutral (g90e : Bool) (inch : α) (o : Out α) : Prop := ∀ v : EV α, v.out g90e inch o = v

theorem outs_neutral (g90e : Bool) (inch : α) (l : List (Out α)) (h : ∀ o ∈ l, ENeutral g90e inch o)
    (v : EV α) : v.outs g90e inch l = v := by
  induction l generalizing v with
  | nil => rfl
  | cons o rest ih =>
    rw [EV.outs_cons, h o (by simp), ih (fun o' ho' => h o' (by simp [ho']))]

theorem neutral_of_other (g90e : Bool) (inch : α) (c : Cmd α) (h : ∃ n, Code.ofString c.code = .other n) :
    ENeutral g90e inch (.orig c) := by
  obtain ⟨n, hn⟩ := h
  intro v
  simp only [EV.out, hn, EV.exec]

/-- **Leaving a region** re-declares the file's extruder coordinate and moves no filament. -/
theorem exit_ev (g90e : Bool) (inch : α) (cfg : Config) (s : FState α) (P : EV α) (hpn : PendingNeutral s)
    (hex : s.excluding = true) (hf : sameFrame P.e s.position.e) (hok : AxisOk s.position.e)
    (hd : 0 ≤ P.depth) :
    P.outs g90e inch (T.exitExcludedRegion cfg s).2 = P.jump (cur s.position.e) := by
  unfold T.exitExcludedRegion
  simp only [hex, Bool.not_true, Bool.false_eq_true, if_false, FState.processPendingCommands]
  have hpre : ∀ o ∈ (s.pendingCommands.map (fun (x : String × Pending α) =>
        match x.2 with
        | .args a => Out.merged x.1 a
        | .cmd c => Out.orig c)) ++
      (match cfg.exitingExcludedRegionGcode with
        | some l => l.map (Out.script true)
        | none => []), ENeutral g90e inch o := by
    intro o ho
    simp only [List.mem_append, List.mem_map] at ho
    rcases ho with ⟨e, he', rfl⟩ | ho
    · cases hp : e.2 with
      | args a => intro v; rfl
      | cmd c => exact neutral_of_other g90e inch c (hpn e he' c hp)
    · split at ho
      · obtain ⟨t, _, rfl⟩ := List.mem_map.mp ho
        intro v; rfl
      · cases ho
  generalize (s.pendingCommands.map (fun (x : String × Pending α) =>
        match x.2 with
        | .args a => Out.merged x.1 a
        | .cmd c => Out.orig c)) ++
      (match cfg.exitingExcludedRegionGcode with
        | some l => l.map (Out.script true)
        | none => []) = pre at hpre ⊢
  have hj : (P.outs g90e inch (pre ++ [Out.g92e (n2l s.position.e)])) = P.jump (cur s.position.e) := by
    rw [EV.outs_append, outs_neutral g90e inch pre hpre]
    simp only [EV.outs, List.foldl_cons, List.foldl_nil, EV.out]
    exact EV.setE_n2l P _ hf hok.2
  have hlin : ∀ Q : EV α, 0 ≤ Q.depth → ∀ o, (o = Out.g0z (s.feedRate / s.feedRateUnitMultiplier)
        (exitCoord s.position.z (lastPos { s with excluding := false, pendingCommands := [] }).z) ∨
      o = Out.g0xy (s.feedRate / s.feedRateUnitMultiplier)
        (exitCoord s.position.x (lastPos { s with excluding := false, pendingCommands := [] }).x)
        (exitCoord s.position.y (lastPos { s with excluding := false, pendingCommands := [] }).y)) →
      Q.outs g90e inch [o] = Q := by
    intro Q hQ o ho
    rcases ho with rfl | rfl <;> simp only [EV.outs, List.foldl_cons, List.foldl_nil, EV.out] <;>
      exact EV.lin_none Q hQ
  have hdj : 0 ≤ (P.jump (cur s.position.e)).depth := hd
  by_cases h1 : cur s.position.z < cur (T.lastPos { s with excluding := false, pendingCommands := [] }).z <;>
  by_cases h2 : cur (T.lastPos { s with excluding := false, pendingCommands := [] }).z < cur s.position.z <;>
    simp only [h1, h2, if_true, if_false, EV.outs_append, hj, hlin _ hdj _ (Or.inl rfl),
      hlin _ hdj _ (Or.inr rfl)]

end ERP

namespace ERP
open T Spec
set_option linter.unusedSectionVars false
set_option linter.unusedSimpArgs false
variable {α : Type} [Field α] [LinearOrder α] [IsStrictOrderedRing α] [MathOps α] [MathSpec α]

/-- protocol for a command without X/Y/Z word whose E word changes the coordinate by `dE` -/
def NonMoveOK (pr : EProto α) (V : EV α) (dE : α) : Prop :=
  (dE < 0 → pr.fw = false ∧ V.depth = 0 ∧ -dE = pr.A) ∧
  (0 < dE → V.fw = false ∧ (V.depth = 0 ∨ (V.depth = pr.A ∧ dE = pr.A)))

/-- protocol for a move: it never retracts, and extrudes only while the file is not retracted -/
def MoveOK (V : EV α) (dE : α) : Prop := 0 ≤ dE ∧ (0 < dE → V.depth = 0 ∧ V.fw = false)

/-- an E-only extrusion inside a region is dropped; a skipped recovery becomes owed -/
theorem recover_excluding_inv (pr : EProto α) (s1 : FState α) (P V : EV α) (cmd : Cmd α) (c0 dE : α)
    (m : Mid pr s1 P V c0) (hex : s1.excluding = true) (hdE : dE = cur s1.position.e - c0) (hpos : 0 < dE)
    (hVfw : V.fw = false) (hV : V.depth = 0 ∨ (V.depth = pr.A ∧ dE = pr.A)) :
    (T.recoverRetractionIfNeeded s1 cmd true).2 = [] ∧
    EInv pr (T.recoverRetractionIfNeeded s1 cmd true).1 P (V.goto (cur s1.position.e)) := by
  have hA := pr.hA
  have hretr := m.retr
  have hVc : cur V.e = c0 := cur_of_current m.vcur
  have hVd : (V.goto (cur s1.position.e)).depth = 0 := by
    apply EV.goto_depth_ge
    rw [hVc, ← hdE]
    rcases hV with h | ⟨h, h'⟩
    · rw [h]; exact le_of_lt hpos
    · rw [h, h']
  unfold T.recoverRetractionIfNeeded
  cases hl : s1.lastRetraction with
  | none =>
    simp only [hl, hex, Bool.not_true, Bool.false_eq_true, if_false, true_and]
    refine EInv.of_mid m ?_ (sameFrame.refl _) ?_ ?_
    · rfl
    · intro he; rw [hex] at he; cases he
    · rw [hl]
      unfold RetrInv at hretr ⊢
      rw [hl] at hretr
      cases hf : pr.fw <;> simp only [hf] at hretr ⊢
      · exact ⟨hretr.1, by simpa using hretr.2.1, hretr.2.2.1, hVd⟩
      · exact ⟨hretr.1, hVd, hretr.2.2.1, by simpa using hretr.2.2.2⟩
  | some lr =>
    simp only [hl, hex, if_true, true_and]
    refine EInv.of_mid m ?_ (sameFrame.refl _) ?_ ?_
    · rfl
    · intro he; simp only at he; first | cases he | (rw [hex] at he; cases he)
    · unfold RetrInv at hretr ⊢
      rw [hl] at hretr
      cases hf : pr.fw <;> simp only [hf] at hretr ⊢
      · obtain ⟨pf, vf, lfw, lam, pd, vd⟩ := hretr
        exact ⟨pf, by simpa using vf, lfw, lam, pd, by simpa using hVd⟩
      · obtain ⟨pd, vd, lfw, pf, vf⟩ := hretr
        exact ⟨pd, hVd, lfw, pf, by simpa using hVfw⟩

/-- nothing about the extruder changes: the command is forwarded (outside) or dropped (inside) -/
theorem neutral_inv (g90e : Bool) (inch : α) (pr : EProto α) (s1 : FState α) (P V : EV α) (cmd : Cmd α)
    (c0 : α) (m : Mid pr s1 P V c0) (horig : OrigActs g90e inch s1 cmd c0) (h0 : cur s1.position.e = c0) :
    EInv pr s1 (P.outs g90e inch (if !s1.excluding then [.orig cmd] else [])) (V.goto (cur s1.position.e)) := by
  have hn := m.retr.nonneg
  have hV : V.goto (cur s1.position.e) = V := by rw [h0]; exact EV.goto_self V c0 m.vcur hn.2.1
  by_cases hex : s1.excluding = true
  · simp only [hex, Bool.not_true, Bool.false_eq_true, if_false, EV.outs_nil]
    refine EInv.of_mid m rfl (sameFrame.refl _) (fun he => by rw [hex] at he; cases he) ?_
    rw [hV]; exact m.retr
  · have hex' : s1.excluding = false := by simpa using hex
    simp only [hex', Bool.not_false, if_true, EV.outs, List.foldl_cons, List.foldl_nil, EV.out]
    rw [horig P m.frame (m.sync hex') hn.1]
    have hP : P.goto (cur s1.position.e) = P := by rw [h0]; exact EV.goto_self P c0 (m.sync hex') hn.1
    rw [hP]
    refine EInv.of_mid m rfl (sameFrame.refl _) (fun he => by rw [m.sync he, h0]) ?_
    rw [hV]; exact m.retr

theorem processNonMove_neg (s : FState α) (cmd : Cmd α) (dE : α) (h : dE < 0) :
    T.processNonMove s cmd dE = retractBranch s
      { firmwareRetract := false, extrusionAmount := some (-dE), feedRate := some s.feedRate,
        originalCommand := cmd } := by
  unfold T.processNonMove retractBranch
  simp only [h, if_true]

/-- **Commands without X/Y/Z word** (retraction, recovery, E-only extrusion, feed rate only). -/
theorem nonMoveBody_inv (g90e : Bool) (inch : α) (pr : EProto α) (s1 : FState α) (P V : EV α)
    (cmd : Cmd α) (c0 dE : α) (m : Mid pr s1 P V c0) (horig : OrigActs g90e inch s1 cmd c0)
    (hdE : dE = cur s1.position.e - c0) (hp : NonMoveOK pr V dE) :
    EInv pr (T.nonMoveBody s1 cmd dE c0).1 (P.outs g90e inch (T.nonMoveBody s1 cmd dE c0).2)
      (V.goto (cur s1.position.e)) := by
  rcases lt_trichotomy dE 0 with hneg | hz | hpos
  · -- retraction
    obtain ⟨hfw, hV0, hlen⟩ := hp.1 hneg
    have hnp : ¬ (0 < dE) := not_lt.mpr (le_of_lt hneg)
    have key := retractBranch_inv g90e inch pr s1 P V cmd c0 dE
      { firmwareRetract := false, extrusionAmount := some (-dE), feedRate := some s1.feedRate,
        originalCommand := cmd } m horig hfw hdE hneg hV0 hlen rfl rfl rfl rfl
    rw [← processNonMove_neg s1 cmd dE hneg] at key
    unfold T.nonMoveBody
    cases s1.lastRetraction with
    | none => exact key
    | some lr => simp only [hnp, decide_false, Bool.false_and, Bool.false_eq_true, if_false]; exact key
  · -- no extruder motion
    subst hz
    have h0 : cur s1.position.e = c0 := by linarith
    have hnm : T.processNonMove s1 cmd 0 = (s1, if !s1.excluding then [.orig cmd] else []) := by
      unfold T.processNonMove
      simp only [lt_irrefl, if_false]
      split <;> rfl
    have key := neutral_inv g90e inch pr s1 P V cmd c0 m horig h0
    unfold T.nonMoveBody
    rw [hnm]
    cases s1.lastRetraction with
    | none => exact key
    | some lr => simp only [lt_irrefl, decide_false, Bool.false_and, Bool.false_eq_true, if_false]; exact key
  · -- recovery or E-only extrusion
    obtain ⟨hVfw, hV⟩ := hp.2 hpos
    have hnn : ¬ (dE < 0) := not_lt.mpr (le_of_lt hpos)
    have hnm : T.processNonMove s1 cmd dE = T.recoverRetractionIfNeeded s1 cmd true := by
      unfold T.processNonMove; simp only [hnn, hpos, if_false, if_true]
    by_cases hex : s1.excluding = true
    · obtain ⟨k1, k2⟩ := recover_excluding_inv pr s1 P V cmd c0 dE m hex hdE hpos hVfw hV
      have hexr : (T.recoverRetractionIfNeeded s1 cmd true).1.excluding = true := by
        unfold T.recoverRetractionIfNeeded
        cases s1.lastRetraction <;> simp [hex]
      unfold T.nonMoveBody
      rw [hnm]
      cases s1.lastRetraction with
      | none => simp only [k1, EV.outs_nil]; exact k2
      | some lr =>
        simp only [hexr, Bool.not_true, Bool.and_false, Bool.false_and, Bool.false_eq_true, if_false, k1,
          EV.outs_nil]
        exact k2
    · have hex' : s1.excluding = false := by simpa using hex
      have key := recoverBranch_inv g90e inch pr s1 P V cmd true c0 dE m horig hex' hdE hpos hVfw hV
      have hexr : (T.recoverRetractionIfNeeded s1 cmd true).1.excluding = false := by
        unfold T.recoverRetractionIfNeeded
        cases s1.lastRetraction <;> simp [hex', T.recoverRetraction]
      have heq : T.nonMoveBody s1 cmd dE c0 = recoverBranch s1 cmd true c0 := by
        unfold T.nonMoveBody recoverBranch
        rw [hnm]
        cases s1.lastRetraction with
        | none => rfl
        | some lr => simp only [hpos, decide_true, Bool.true_and, hexr, Bool.not_false]
      rw [heq]; exact key

end ERP

namespace ERP
open T Spec
set_option linter.unusedSectionVars false
set_option linter.unusedSimpArgs false
variable {α : Type} [Field α] [LinearOrder α] [IsStrictOrderedRing α] [MathOps α] [MathSpec α]

theorem OrigActs.congr {g90e : Bool} {inch : α} {s1 s2 : FState α} {cmd : Cmd α} {c0 : α}
    (h : OrigActs g90e inch s1 cmd c0) (he : s2.position.e = s1.position.e) : OrigActs g90e inch s2 cmd c0 := by
  intro Q hf hc hd
  rw [he] at hf ⊢
  exact h Q hf hc hd

/-- **Moves** (a Z word or X/Y points): entering drops the extrusion, leaving re-synchronises the
coordinate, an extruding move outside first issues an owed recovery. -/
theorem moveBody_inv (g90e : Bool) (inch : α) (cfg : Config) (pr : EProto α) (s1 : FState α) (P V : EV α)
    (cmd : Cmd α) (c0 dE : α) (start : Position α) (xy : List (Option α × Option α))
    (m : Mid pr s1 P V c0) (horig : OrigActs g90e inch s1 cmd c0) (hpn : PendingNeutral s1)
    (hdE : dE = cur s1.position.e - c0) (hp : MoveOK V dE) :
    EInv pr (T.moveBody cfg s1 cmd dE c0 start xy).1
      (P.outs g90e inch (T.moveBody cfg s1 cmd dE c0 start xy).2) (V.goto (cur s1.position.e)) := by
  have hn := m.retr.nonneg
  have hloop := isAnyLoop_pos xy s1 false
  unfold T.moveBody
  generalize T.isAnyLoop s1 xy false = rr at *
  obtain ⟨s2, anyEx⟩ := rr
  simp only at hloop ⊢
  have he2 : s2.position.e = s1.position.e := by rw [hloop]
  have hx2 : s2.excluding = s1.excluding := by rw [hloop]
  have hr2 : s2.lastRetraction = s1.lastRetraction := by rw [hloop]
  have hpn2 : PendingNeutral s2 := by
    intro e he; rw [hloop] at he; exact hpn e he
  have m2 : Mid pr s2 P V c0 := m.congr he2 hx2 hr2
  have horig2 := horig.congr he2
  rw [← he2] at hdE ⊢
  clear hloop he2 hx2 hr2 hpn m horig
  -- the virtual printer keeps its depth: it travels, or extrudes while not retracted
  have hVsame : (V.goto (cur s2.position.e)).depth = V.depth :=
    EV.goto_same_depth V _ c0 m2.vcur hn.2.1 (by rw [← hdE]; exact hp.1) (fun h => (hp.2 (by rw [hdE]; exact h)).1)
  by_cases ha : anyEx = true
  · -- into (or inside) a region: nothing reaches the extruder
    simp only [ha, if_true]
    have hnn : ¬ (dE < 0) := not_lt.mpr hp.1
    have key : EInv pr (T.processExcludedMove cfg s2 cmd dE).1
        (P.outs g90e inch (T.processExcludedMove cfg s2 cmd dE).2) (V.goto (cur s2.position.e)) := by
      unfold T.processExcludedMove T.enterExcludedRegion
      by_cases hex : s2.excluding = true
      · simp only [hex, Bool.not_true, Bool.false_eq_true, if_false, hnn, EV.outs_nil]
        refine EInv.of_mid m2 rfl (sameFrame.refl _) (fun he => by rw [hex] at he; cases he) ?_
        exact m2.retr.congr rfl rfl hVsame rfl
      · have hex' : s2.excluding = false := by simpa using hex
        simp only [hex', Bool.not_false, if_true, Bool.false_eq_true, if_false, hnn]
        have hneu : ∀ L : List Text, P.outs g90e inch (L.map (Out.script false)) = P := by
          intro L
          apply outs_neutral
          intro o ho
          obtain ⟨t, _, rfl⟩ := List.mem_map.mp ho
          intro v; rfl
        cases hc : cfg.enteringExcludedRegionGcode with
        | none =>
          simp only [EV.outs_nil]
          refine EInv.of_mid m2 rfl (sameFrame.refl _) (fun he => by simp at he) ?_
          exact m2.retr.congr rfl rfl hVsame rfl
        | some L =>
          simp only [hneu]
          refine EInv.of_mid m2 rfl (sameFrame.refl _) (fun he => by simp at he) ?_
          exact m2.retr.congr rfl rfl hVsame rfl
    generalize T.processExcludedMove cfg s2 cmd dE = r2 at *
    split
    · exact ⟨key.track, key.abs, key.frame, key.sync, key.retr⟩
    · exact key
  · simp only [ha, Bool.false_eq_true, if_false]
    by_cases hex : s2.excluding = true
    · -- leaving the region
      simp only [hex, if_true]
      rw [exit_ev g90e inch cfg s2 P hpn2 hex m2.frame m2.ok hn.1, exitExcludedRegion_state]
      simp only [hex, if_true]
      refine EInv.of_mid m2 rfl (EV.jump_frame _ _) (fun _ => rfl) ?_
      exact m2.retr.congr rfl rfl hVsame rfl
    · have hex' : s2.excluding = false := by simpa using hex
      simp only [hex', Bool.false_eq_true, if_false]
      by_cases hd : dE = 0
      · have hd' : (dE == 0) = true := by simpa using hd
        simp only [hd', Bool.not_true, Bool.false_eq_true, if_false]
        have h0 : cur s2.position.e = c0 := by rw [hd] at hdE; linarith
        have := neutral_inv g90e inch pr s2 P V cmd c0 m2 horig2 h0
        simpa [hex'] using this
      · have hd' : (dE == 0) = false := by simpa using hd
        simp only [hd', Bool.not_false, if_true]
        have hpos : 0 < dE := lt_of_le_of_ne hp.1 (Ne.symm hd)
        obtain ⟨hV0, hVfw⟩ := hp.2 hpos
        have := recoverBranch_inv g90e inch pr s2 P V cmd false c0 dE m2 horig2 hex' hdE hpos hVfw (Or.inl hV0)
        unfold recoverBranch insertBeforeLast at this
        dsimp only at this
        exact this

end ERP

namespace ERP
open T Spec
set_option linter.unusedSectionVars false
set_option linter.unusedSimpArgs false
variable {α : Type} [Field α] [LinearOrder α] [IsStrictOrderedRing α] [MathOps α] [MathSpec α]

theorem applyEZF_e (s : FState α) (ep fr fz : Option α) :
    (T.applyEZF s ep fr fz).position.e = setLog s.position.e ep ∧
    (T.applyEZF s ep fr fz).excluding = s.excluding ∧
    (T.applyEZF s ep fr fz).lastRetraction = s.lastRetraction ∧
    (T.applyEZF s ep fr fz).pendingCommands = s.pendingCommands := by
  unfold T.applyEZF; cases fr <;> simp

theorem deltaEOf_eq (s : FState α) (ep : Option α) :
    T.deltaEOf s ep = cur (setLog s.position.e ep) - cur s.position.e := by
  unfold T.deltaEOf
  cases ep with
  | none => simp [setLog]
  | some v => rfl

/-- how a command whose E word is `ep` acts on a printer in the file's frame -/
def ActsAs (g90e : Bool) (inch : α) (s : FState α) (cmd : Cmd α) (ep : Option α) : Prop :=
  ∀ Q : EV α, Q.exec g90e inch (Code.ofString cmd.code) cmd.words = Q.lin ep

theorem origActs_of (g90e : Bool) (inch : α) (s s1 : FState α) (cmd : Cmd α) (ep : Option α)
    (ha : ActsAs g90e inch s cmd ep) (habs : s.position.e.absoluteMode = true)
    (h1 : s1.position.e = setLog s.position.e ep) :
    OrigActs g90e inch s1 cmd (cur s.position.e) := by
  intro Q hf hc hd
  rw [ha Q, h1]
  rw [h1] at hf
  have hf' : sameFrame Q.e s.position.e := hf.trans (setLog_frame _ _)
  cases ep with
  | none =>
    rw [EV.lin_none Q hd]
    exact (EV.goto_self Q _ hc hd).symm
  | some x =>
    rw [EV.lin_some Q s.position.e x hf' habs]
    rfl

/-- **`processLinearMoves`** preserves the extruder invariant; the virtual printer executes the
unfiltered command. -/
theorem plm_einv (g90e : Bool) (inch : α) (cfg : Config) (pr : EProto α) (s : FState α) (P V : EV α)
    (cmd : Cmd α) (ep fr fz : Option α) (xy : List (Option α × Option α)) (h : WF s)
    (hinv : EInv pr s P V) (hpn : PendingNeutral s) (ha : ActsAs g90e inch s cmd ep)
    (hproto : if T.isMoveOf fz xy then MoveOK V (T.deltaEOf s ep) else NonMoveOK pr V (T.deltaEOf s ep)) :
    EInv pr (T.processLinearMoves cfg s cmd ep fr fz xy).1
      (P.outs g90e inch (fwdOf cmd (T.processLinearMoves cfg s cmd ep fr fz xy).2)) (V.lin ep) := by
  obtain ⟨e1, e2, e3, e4⟩ := applyEZF_e s ep fr fz
  have hs1 := applyEZF_WF s ep fr fz h
  have hcur := h.pos.2.2.2.cur_eq
  have hn := hinv.retr.nonneg
  have m : Mid pr (T.applyEZF s ep fr fz) P V (cur s.position.e) := by
    refine ⟨?_, ?_, ?_, hs1.pos.2.2.2, ?_, ?_, ?_⟩
    · rw [← hinv.track]; exact hcur
    · rw [← hinv.track, e1]; exact (setLog_frame _ _).symm
    · rw [e1, (setLog_frame s.position.e ep).2.2.1]; exact hinv.abs
    · rw [e1]; exact hinv.frame.trans (setLog_frame _ _).symm
    · intro he; rw [e2] at he; rw [hinv.sync he]; exact hcur
    · rw [e3]; exact hinv.retr
  have horig := origActs_of g90e inch s (T.applyEZF s ep fr fz) cmd ep ha hinv.abs e1
  have hpn1 : PendingNeutral (T.applyEZF s ep fr fz) := by
    intro e he; rw [e4] at he; exact hpn e he
  have hdE : T.deltaEOf s ep = cur (T.applyEZF s ep fr fz).position.e - cur s.position.e := by
    rw [e1]; exact deltaEOf_eq s ep
  -- the virtual printer
  have hV : V.lin ep = V.goto (cur (T.applyEZF s ep fr fz).position.e) := by
    have := horig V m.vframe m.vcur hn.2.1
    rw [ha V] at this; exact this
  rw [hV]
  simp only [T.processLinearMoves, fwdOf_toResult, toResult_fst]
  by_cases hm : T.isMoveOf fz xy = true
  · simp only [hm, if_true] at hproto
    simp only [hm, Bool.not_true, Bool.false_eq_true, if_false]
    exact moveBody_inv g90e inch cfg pr _ P V cmd _ _ _ xy m horig hpn1 hdE hproto
  · have hm' : T.isMoveOf fz xy = false := by simpa using hm
    simp only [hm', Bool.false_eq_true, if_false] at hproto
    simp only [hm', Bool.not_false, if_true]
    exact nonMoveBody_inv g90e inch pr _ P V cmd _ _ m horig hdE hproto

end ERP

namespace ERP
open T Spec
set_option linter.unusedSectionVars false
set_option linter.unusedSimpArgs false
variable {α : Type} [Field α] [LinearOrder α] [IsStrictOrderedRing α] [MathOps α] [MathSpec α]

/-- **The moment before an extruding command is executed**: the filter's output is some prefix
followed by the command itself, and after the prefix the printer's extruder is where the file
assumes it, retracted exactly as deep as the file assumes. -/
theorem recoverBranch_pre (g90e : Bool) (inch : α) (pr : EProto α) (s1 : FState α) (P V : EV α)
    (cmd : Cmd α) (b : Bool) (c0 dE : α) (m : Mid pr s1 P V c0)
    (hex : s1.excluding = false) (hdE : dE = cur s1.position.e - c0) (hpos : 0 < dE) (hVfw : V.fw = false)
    (hV : V.depth = 0 ∨ (V.depth = pr.A ∧ dE = pr.A)) :
    ∃ pre, (recoverBranch s1 cmd b c0).2 = pre ++ [.orig cmd] ∧
      (P.outs g90e inch pre).e.current = some c0 ∧ sameFrame (P.outs g90e inch pre).e P.e ∧
      (P.outs g90e inch pre).depth = V.depth ∧ (P.outs g90e inch pre).fw = V.fw := by
  have hA := pr.hA
  have hretr := m.retr
  have hPc := m.sync hex
  unfold recoverBranch T.recoverRetractionIfNeeded
  cases hl : s1.lastRetraction with
  | none =>
    simp only [hl, hex, Bool.not_false, if_true]
    refine ⟨[], rfl, hPc, sameFrame.refl _, ?_, ?_⟩
    · unfold RetrInv at hretr
      rw [hl] at hretr
      cases hf : pr.fw <;> simp only [hf] at hretr
      · rw [EV.outs_nil, hretr.2.2.1, hretr.2.2.2]
      · rw [EV.outs_nil, hretr.1, hretr.2.1]
    · unfold RetrInv at hretr
      rw [hl] at hretr
      cases hf : pr.fw <;> simp only [hf] at hretr
      · rw [EV.outs_nil, hretr.1, hretr.2.1]
      · rw [EV.outs_nil, hretr.2.2.1, hretr.2.2.2]
  | some lr =>
    simp only [hl, hex, Bool.false_eq_true, if_false, T.recoverRetraction]
    have hposid := addCommands_pos_id { lr with allowCombine := false } (-1) s1.position m.ok
    generalize hac : T.addCommands { lr with allowCombine := false } (-1) s1.position = ac at hposid ⊢
    obtain ⟨p, cmds⟩ := ac
    simp only at hposid
    subst hposid
    unfold RetrInv at hretr
    rw [hl] at hretr
    cases hf : pr.fw
    · simp only [hf] at hretr
      obtain ⟨pf, vf, lfw, lam, pd, vd⟩ := hretr
      cases ho : lr.recoverExcluded
      · rw [ho] at vd
        simp only [Bool.false_eq_true, if_false] at vd
        simp only [ho, Bool.false_and, Bool.false_eq_true, if_false, List.nil_append]
        exact ⟨[], rfl, hPc, sameFrame.refl _, by rw [EV.outs_nil, pd, vd], by rw [EV.outs_nil, pf, vf]⟩
      · rw [ho] at vd
        simp only [if_true] at vd
        simp only [ho, lfw, Bool.not_false, Bool.and_self, if_true]
        have hev := addCommands_ev g90e inch { lr with allowCombine := false } (-1) pr.A s1.position P lfw lam
          m.ok m.abs m.frame
        rw [hac] at hev
        simp only at hev ⊢
        rw [insertBeforeLast_snoc]
        refine ⟨cmds ++ [Out.g92e (n2lAbs s1.position.e c0)], rfl, ?_⟩
        rw [EV.outs_append, hev]
        simp only [EV.outs, List.foldl_cons, List.foldl_nil, EV.out]
        have hfr1 : sameFrame ((P.jump (cur s1.position.e + pr.A * -1)).goto (cur s1.position.e)).e s1.position.e :=
          ((EV.goto_frame _ _).trans (EV.jump_frame _ _)).trans m.frame
        rw [EV.setE_n2lAbs _ _ c0 hfr1 m.ok.2]
        refine ⟨rfl, (EV.jump_frame _ _).trans ((EV.goto_frame _ _).trans (EV.jump_frame _ _)), ?_, ?_⟩
        · rw [EV.jump_depth, vd]
          apply EV.goto_depth_ge
          simp only [EV.jump_depth, pd, EV.cur_jump]
          linarith
        · simp only [EV.jump_fw, EV.goto_fw, pf, vf]
    · simp only [hf] at hretr
      obtain ⟨pd, vd, lfw, pf, vf⟩ := hretr
      have ho : lr.recoverExcluded = true := by
        rw [hVfw] at vf
        cases h : lr.recoverExcluded <;> simp [h] at vf ⊢
      simp only [ho, lfw, Bool.not_true, Bool.and_false, Bool.false_eq_true, if_false, if_true]
      have hev := addCommands_ev_fw g90e inch { lr with allowCombine := false } (-1) s1.position P lfw
      rw [hac] at hev
      simp only at hev ⊢
      refine ⟨cmds, rfl, ?_⟩
      rw [hev]
      refine ⟨hPc, sameFrame.refl _, ?_, ?_⟩
      · show P.depth = V.depth; rw [pd, vd]
      · simp [hVfw]

end ERP

namespace ERP
open T Spec
set_option linter.unusedSectionVars false
set_option linter.unusedSimpArgs false
variable {α : Type} [Field α] [LinearOrder α] [IsStrictOrderedRing α] [MathOps α] [MathSpec α]

/-- **An extruding command forwarded outside regions** is executed by the printer with its
extruder exactly where the file assumes it (so it pushes exactly the file's amount) and at the
file's retraction depth; whatever precedes it in the filter's output is the owed recovery. -/
theorem plm_extrude_pre (g90e : Bool) (inch : α) (cfg : Config) (pr : EProto α) (s : FState α) (P V : EV α)
    (cmd : Cmd α) (ep fr fz : Option α) (xy : List (Option α × Option α)) (h : WF s)
    (hinv : EInv pr s P V)
    (hproto : if T.isMoveOf fz xy then MoveOK V (T.deltaEOf s ep) else NonMoveOK pr V (T.deltaEOf s ep))
    (hpre : s.excluding = false)
    (hpost : (T.processLinearMoves cfg s cmd ep fr fz xy).1.excluding = false)
    (hpos : 0 < T.deltaEOf s ep) :
    ∃ pre, fwdOf cmd (T.processLinearMoves cfg s cmd ep fr fz xy).2 = pre ++ [.orig cmd] ∧
      (P.outs g90e inch pre).e = V.e ∧ (P.outs g90e inch pre).depth = V.depth ∧
      (P.outs g90e inch pre).fw = V.fw := by
  obtain ⟨e1, e2, e3, e4⟩ := applyEZF_e s ep fr fz
  have hs1 := applyEZF_WF s ep fr fz h
  have hcur := h.pos.2.2.2.cur_eq
  have m : Mid pr (T.applyEZF s ep fr fz) P V (cur s.position.e) := by
    refine ⟨?_, ?_, ?_, hs1.pos.2.2.2, ?_, ?_, ?_⟩
    · rw [← hinv.track]; exact hcur
    · rw [← hinv.track, e1]; exact (setLog_frame _ _).symm
    · rw [e1, (setLog_frame s.position.e ep).2.2.1]; exact hinv.abs
    · rw [e1]; exact hinv.frame.trans (setLog_frame _ _).symm
    · intro he; rw [e2] at he; rw [hinv.sync he]; exact hcur
    · rw [e3]; exact hinv.retr
  have hdE : T.deltaEOf s ep = cur (T.applyEZF s ep fr fz).position.e - cur s.position.e := by
    rw [e1]; exact deltaEOf_eq s ep
  have fin : ∀ (s1 : FState α) (b : Bool), Mid pr s1 P V (cur s.position.e) → s1.excluding = false →
      T.deltaEOf s ep = cur s1.position.e - cur s.position.e → V.fw = false →
      (V.depth = 0 ∨ (V.depth = pr.A ∧ T.deltaEOf s ep = pr.A)) →
      ∃ pre, (recoverBranch s1 cmd b (cur s.position.e)).2 = pre ++ [.orig cmd] ∧
        (P.outs g90e inch pre).e = V.e ∧ (P.outs g90e inch pre).depth = V.depth ∧
        (P.outs g90e inch pre).fw = V.fw := by
    intro s1 b m1 hx1 hd1 hvf hvd
    obtain ⟨pre, k1, k2, k3, k4, k5⟩ :=
      recoverBranch_pre g90e inch pr s1 P V cmd b _ _ m1 hx1 hd1 hpos hvf hvd
    refine ⟨pre, k1, ?_, k4, k5⟩
    apply axis_eq_of
    · exact (k3.trans hinv.frame).trans (by rw [hinv.track]; exact sameFrame.refl _)
    · rw [k2, ← hinv.track]; exact hcur.symm
  simp only [T.processLinearMoves, fwdOf_toResult, toResult_fst] at hpost ⊢
  by_cases hm : T.isMoveOf fz xy = true
  · simp only [hm, if_true] at hproto
    simp only [hm, Bool.not_true, Bool.false_eq_true, if_false] at hpost ⊢
    obtain ⟨hV0, hVfw⟩ := hproto.2 hpos
    have hloop := isAnyLoop_pos xy (T.applyEZF s ep fr fz) false
    have hw2 := (isAnyLoop_WF xy (T.applyEZF s ep fr fz) false hs1).1
    unfold T.moveBody at hpost ⊢
    generalize T.isAnyLoop (T.applyEZF s ep fr fz) xy false = rr at *
    obtain ⟨s2, anyEx⟩ := rr
    simp only at hloop hpost hw2 ⊢
    have he2 : s2.position.e = (T.applyEZF s ep fr fz).position.e := by rw [hloop]
    have hx2' : s2.excluding = (T.applyEZF s ep fr fz).excluding := by rw [hloop]
    have hx2 : s2.excluding = false := by rw [hx2', e2]; exact hpre
    have hr2 : s2.lastRetraction = (T.applyEZF s ep fr fz).lastRetraction := by rw [hloop]
    have m2 : Mid pr s2 P V (cur s.position.e) := m.congr he2 hx2' hr2
    clear hloop
    cases anyEx with
    | true =>
      exfalso
      simp only [if_true] at hpost
      have hex := (processExcludedMove_WF cfg s2 cmd (T.deltaEOf s ep) hw2).2
      generalize T.processExcludedMove cfg s2 cmd (T.deltaEOf s ep) = r2 at *
      split at hpost
      · simp only at hpost; rw [hex] at hpost; cases hpost
      · rw [hex] at hpost; cases hpost
    | false =>
      have hne : (T.deltaEOf s ep == 0) = false := by
        have : T.deltaEOf s ep ≠ 0 := ne_of_gt hpos
        simpa using this
      simp only [Bool.false_eq_true, if_false, hx2, hne, Bool.not_false, if_true]
      have := fin s2 false m2 hx2 (by rw [he2]; exact hdE) hVfw (Or.inl hV0)
      unfold recoverBranch at this
      dsimp only at this
      exact this
  · have hm' : T.isMoveOf fz xy = false := by simpa using hm
    simp only [hm', Bool.false_eq_true, if_false] at hproto
    simp only [hm', Bool.not_false, if_true] at hpost ⊢
    obtain ⟨hVfw, hV⟩ := hproto.2 hpos
    have hx1 : (T.applyEZF s ep fr fz).excluding = false := by rw [e2]; exact hpre
    have hnn : ¬ (T.deltaEOf s ep < 0) := not_lt.mpr (le_of_lt hpos)
    have hnm : T.processNonMove (T.applyEZF s ep fr fz) cmd (T.deltaEOf s ep) =
        T.recoverRetractionIfNeeded (T.applyEZF s ep fr fz) cmd true := by
      unfold T.processNonMove; simp only [hnn, hpos, if_false, if_true]
    have hexr : (T.recoverRetractionIfNeeded (T.applyEZF s ep fr fz) cmd true).1.excluding = false := by
      unfold T.recoverRetractionIfNeeded
      cases (T.applyEZF s ep fr fz).lastRetraction <;> simp [hx1, T.recoverRetraction]
    have heq : T.nonMoveBody (T.applyEZF s ep fr fz) cmd (T.deltaEOf s ep) (cur s.position.e) =
        recoverBranch (T.applyEZF s ep fr fz) cmd true (cur s.position.e) := by
      unfold T.nonMoveBody recoverBranch
      rw [hnm]
      cases (T.applyEZF s ep fr fz).lastRetraction with
      | none => rfl
      | some lr => simp only [hpos, decide_true, Bool.true_and, hexr, Bool.not_false]
    rw [heq]
    exact fin _ true m hx1 hdE hVfw hV

end ERP

namespace ERP
open T Spec
set_option linter.unusedSectionVars false
set_option linter.unusedSimpArgs false
variable {α : Type} [Field α] [LinearOrder α] [IsStrictOrderedRing α] [MathOps α] [MathSpec α]

/-- a retraction that is not forwarded as such pushes nothing (it pulls `A`, or is dropped) -/
theorem retractBranch_nopush (g90e : Bool) (inch : α) (pr : EProto α) (s1 : FState α) (P V : EV α)
    (cmd : Cmd α) (c0 dE : α) (r : Retraction α) (m : Mid pr s1 P V c0)
    (hfw : pr.fw = false) (hneg : dE < 0) (hV0 : V.depth = 0)
    (r1 : r.firmwareRetract = false) (r2 : r.extrusionAmount = some (-dE)) (r3 : r.originalCommand = cmd)
    (hno : Out.orig cmd ∉ (retractBranch s1 r).2) :
    (P.outs g90e inch (retractBranch s1 r).2).fil ≤ P.fil := by
  have hA := pr.hA
  have hretr := m.retr
  unfold retractBranch T.recordRetraction at hno ⊢
  cases hl : s1.lastRetraction with
  | none =>
    simp only [hl] at hno ⊢
    by_cases hex : s1.excluding = true
    · simp only [hex, if_true] at hno ⊢
      have hev := addCommands_ev g90e inch r 1 (-dE) s1.position P r1 r2 m.ok m.abs m.frame
      generalize T.addCommands r 1 s1.position = ac at *
      obtain ⟨p, cmds⟩ := ac
      simp only at hev hno ⊢
      simp only [hex, Bool.not_true, Bool.and_false, Bool.false_eq_true, if_false, hev]
      rw [EV.goto_fil]
      simp only [EV.jump_fil, EV.cur_jump]
      linarith
    · have hex' : s1.excluding = false := by simpa using hex
      simp only [hex', Bool.false_eq_true, if_false, List.isEmpty_cons, Bool.false_and, r3] at hno
      exact absurd (List.mem_singleton.mpr rfl) hno
  | some lr =>
    simp only [hl] at hno ⊢
    unfold RetrInv at hretr
    simp only [hfw, hl] at hretr
    obtain ⟨pf, vf, lfw, lam, pd, vd⟩ := hretr
    have howed : lr.recoverExcluded = true := by
      cases ho : lr.recoverExcluded with
      | true => rfl
      | false => rw [ho] at vd; simp at vd; rw [hV0] at vd; exact absurd vd.symm (ne_of_gt hA)
    simp only [howed, if_true, lfw, Bool.not_false, List.isEmpty_nil, Bool.true_and]
    by_cases hex : s1.excluding = true
    · simp only [hex, Bool.not_true, Bool.false_eq_true, if_false, EV.outs_nil]; exact le_refl _
    · have hex' : s1.excluding = false := by simpa using hex
      simp only [hex', Bool.not_false, if_true, EV.outs, List.foldl_cons, List.foldl_nil, EV.out]
      exact le_refl _

end ERP

namespace ERP
open T Spec
set_option linter.unusedSectionVars false
set_option linter.unusedSimpArgs false
variable {α : Type} [Field α] [LinearOrder α] [IsStrictOrderedRing α] [MathOps α] [MathSpec α]

/-- **Suppressed commands push no filament.**  If the filter does not forward a G0–G3 command
itself, what it sends instead never advances the filament. -/
theorem plm_nopush (g90e : Bool) (inch : α) (cfg : Config) (pr : EProto α) (s : FState α) (P V : EV α)
    (cmd : Cmd α) (ep fr fz : Option α) (xy : List (Option α × Option α)) (h : WF s)
    (hinv : EInv pr s P V) (hpn : PendingNeutral s)
    (hproto : if T.isMoveOf fz xy then MoveOK V (T.deltaEOf s ep) else NonMoveOK pr V (T.deltaEOf s ep))
    (hno : Out.orig cmd ∉ fwdOf cmd (T.processLinearMoves cfg s cmd ep fr fz xy).2) :
    (P.outs g90e inch (fwdOf cmd (T.processLinearMoves cfg s cmd ep fr fz xy).2)).fil ≤ P.fil := by
  obtain ⟨e1, e2, e3, e4⟩ := applyEZF_e s ep fr fz
  have hs1 := applyEZF_WF s ep fr fz h
  have hcur := h.pos.2.2.2.cur_eq
  have hn := hinv.retr.nonneg
  have m : Mid pr (T.applyEZF s ep fr fz) P V (cur s.position.e) := by
    refine ⟨?_, ?_, ?_, hs1.pos.2.2.2, ?_, ?_, ?_⟩
    · rw [← hinv.track]; exact hcur
    · rw [← hinv.track, e1]; exact (setLog_frame _ _).symm
    · rw [e1, (setLog_frame s.position.e ep).2.2.1]; exact hinv.abs
    · rw [e1]; exact hinv.frame.trans (setLog_frame _ _).symm
    · intro he; rw [e2] at he; rw [hinv.sync he]; exact hcur
    · rw [e3]; exact hinv.retr
  have hdE : T.deltaEOf s ep = cur (T.applyEZF s ep fr fz).position.e - cur s.position.e := by
    rw [e1]; exact deltaEOf_eq s ep
  have hpn1 : PendingNeutral (T.applyEZF s ep fr fz) := by
    intro e he; rw [e4] at he; exact hpn e he
  -- the recovery branch always forwards the command
  have rec_mem : ∀ (s1 : FState α) (b : Bool), Mid pr s1 P V (cur s.position.e) → s1.excluding = false →
      T.deltaEOf s ep = cur s1.position.e - cur s.position.e → 0 < T.deltaEOf s ep → V.fw = false →
      (V.depth = 0 ∨ (V.depth = pr.A ∧ T.deltaEOf s ep = pr.A)) →
      Out.orig cmd ∈ (recoverBranch s1 cmd b (cur s.position.e)).2 := by
    intro s1 b m1 hx1 hd1 hp1 hvf hvd
    obtain ⟨pre, k1, _⟩ := recoverBranch_pre g90e inch pr s1 P V cmd b _ _ m1 hx1 hd1 hp1 hvf hvd
    rw [k1]; simp
  simp only [T.processLinearMoves, fwdOf_toResult] at hno ⊢
  by_cases hm : T.isMoveOf fz xy = true
  · simp only [hm, if_true] at hproto
    simp only [hm, Bool.not_true, Bool.false_eq_true, if_false] at hno ⊢
    have hloop := isAnyLoop_pos xy (T.applyEZF s ep fr fz) false
    unfold T.moveBody at hno ⊢
    generalize T.isAnyLoop (T.applyEZF s ep fr fz) xy false = rr at *
    obtain ⟨s2, anyEx⟩ := rr
    simp only at hloop hno ⊢
    have he2 : s2.position.e = (T.applyEZF s ep fr fz).position.e := by rw [hloop]
    have hx2' : s2.excluding = (T.applyEZF s ep fr fz).excluding := by rw [hloop]
    have hr2 : s2.lastRetraction = (T.applyEZF s ep fr fz).lastRetraction := by rw [hloop]
    have hpn2 : PendingNeutral s2 := by intro e he; rw [hloop] at he; exact hpn1 e he
    have m2 : Mid pr s2 P V (cur s.position.e) := m.congr he2 hx2' hr2
    clear hloop
    have hnn : ¬ (T.deltaEOf s ep < 0) := not_lt.mpr hproto.1
    cases anyEx with
    | true =>
      simp only [if_true] at hno ⊢
      -- only the enter script can be sent
      have key : (P.outs g90e inch (T.processExcludedMove cfg s2 cmd (T.deltaEOf s ep)).2) = P := by
        unfold T.processExcludedMove T.enterExcludedRegion
        by_cases hex : s2.excluding = true
        · simp only [hex, Bool.not_true, Bool.false_eq_true, if_false, hnn, EV.outs_nil]
        · have hex' : s2.excluding = false := by simpa using hex
          simp only [hex', Bool.not_false, if_true, Bool.false_eq_true, if_false, hnn]
          cases cfg.enteringExcludedRegionGcode with
          | none => rfl
          | some L =>
            apply outs_neutral
            intro o ho
            obtain ⟨t, _, rfl⟩ := List.mem_map.mp ho
            intro v; rfl
      rw [key]
    | false =>
      simp only [Bool.false_eq_true, if_false] at hno ⊢
      by_cases hex : s2.excluding = true
      · simp only [hex, if_true]
        rw [exit_ev g90e inch cfg s2 P hpn2 hex m2.frame m2.ok hn.1]
        exact le_refl _
      · have hex' : s2.excluding = false := by simpa using hex
        simp only [hex', Bool.false_eq_true, if_false] at hno ⊢
        by_cases hd : T.deltaEOf s ep = 0
        · have hd' : (T.deltaEOf s ep == 0) = true := by simpa using hd
          simp only [hd', Bool.not_true, Bool.false_eq_true, if_false] at hno
          exact absurd (List.mem_singleton.mpr rfl) hno
        · have hd' : (T.deltaEOf s ep == 0) = false := by simpa using hd
          simp only [hd', Bool.not_false, if_true] at hno
          have hpos : 0 < T.deltaEOf s ep := lt_of_le_of_ne hproto.1 (Ne.symm hd)
          obtain ⟨hV0, hVfw⟩ := hproto.2 hpos
          have := rec_mem s2 false m2 hex' (by rw [he2]; exact hdE) hpos hVfw (Or.inl hV0)
          unfold recoverBranch at this
          dsimp only at this
          exact absurd this hno
  · have hm' : T.isMoveOf fz xy = false := by simpa using hm
    simp only [hm', Bool.false_eq_true, if_false] at hproto
    simp only [hm', Bool.not_false, if_true] at hno ⊢
    rcases lt_trichotomy (T.deltaEOf s ep) 0 with hneg | hz | hpos
    · obtain ⟨hfw, hV0, hlen⟩ := hproto.1 hneg
      have hnp : ¬ (0 < T.deltaEOf s ep) := not_lt.mpr (le_of_lt hneg)
      have hnmb : T.nonMoveBody (T.applyEZF s ep fr fz) cmd (T.deltaEOf s ep) (cur s.position.e) =
          T.processNonMove (T.applyEZF s ep fr fz) cmd (T.deltaEOf s ep) := by
        unfold T.nonMoveBody
        cases (T.applyEZF s ep fr fz).lastRetraction with
        | none => rfl
        | some lr => simp only [hnp, decide_false, Bool.false_and, Bool.false_eq_true, if_false]
      rw [hnmb, processNonMove_neg _ cmd _ hneg] at hno ⊢
      exact retractBranch_nopush g90e inch pr _ P V cmd _ _ _ m hfw hneg hV0 rfl rfl rfl hno
    · have hnm : T.processNonMove (T.applyEZF s ep fr fz) cmd (T.deltaEOf s ep) =
          (T.applyEZF s ep fr fz, if !(T.applyEZF s ep fr fz).excluding then [.orig cmd] else []) := by
        unfold T.processNonMove
        rw [hz]
        simp only [lt_irrefl, if_false]
        split <;> rfl
      have hnmb : T.nonMoveBody (T.applyEZF s ep fr fz) cmd (T.deltaEOf s ep) (cur s.position.e) =
          T.processNonMove (T.applyEZF s ep fr fz) cmd (T.deltaEOf s ep) := by
        unfold T.nonMoveBody
        cases (T.applyEZF s ep fr fz).lastRetraction with
        | none => rfl
        | some lr => rw [hz]; simp only [lt_irrefl, decide_false, Bool.false_and, Bool.false_eq_true, if_false]
      rw [hnmb, hnm] at hno ⊢
      by_cases hex : (T.applyEZF s ep fr fz).excluding = true
      · simp only [hex, Bool.not_true, Bool.false_eq_true, if_false, EV.outs_nil]; exact le_refl _
      · have hex' : (T.applyEZF s ep fr fz).excluding = false := by simpa using hex
        simp only [hex', Bool.not_false, if_true] at hno
        exact absurd (List.mem_singleton.mpr rfl) hno
    · obtain ⟨hVfw, hV⟩ := hproto.2 hpos
      have hnn : ¬ (T.deltaEOf s ep < 0) := not_lt.mpr (le_of_lt hpos)
      have hnm : T.processNonMove (T.applyEZF s ep fr fz) cmd (T.deltaEOf s ep) =
          T.recoverRetractionIfNeeded (T.applyEZF s ep fr fz) cmd true := by
        unfold T.processNonMove; simp only [hnn, hpos, if_false, if_true]
      by_cases hex : (T.applyEZF s ep fr fz).excluding = true
      · obtain ⟨k1, _⟩ := recover_excluding_inv pr _ P V cmd _ _ m hex hdE hpos hVfw hV
        have hexr : (T.recoverRetractionIfNeeded (T.applyEZF s ep fr fz) cmd true).1.excluding = true := by
          unfold T.recoverRetractionIfNeeded
          cases (T.applyEZF s ep fr fz).lastRetraction <;> simp [hex]
        have : (T.nonMoveBody (T.applyEZF s ep fr fz) cmd (T.deltaEOf s ep) (cur s.position.e)).2 = [] := by
          unfold T.nonMoveBody
          rw [hnm]
          cases (T.applyEZF s ep fr fz).lastRetraction with
          | none => exact k1
          | some lr =>
            simp only [hexr, Bool.not_true, Bool.and_false, Bool.false_and, Bool.false_eq_true, if_false]
            exact k1
        rw [this, EV.outs_nil]
      · have hex' : (T.applyEZF s ep fr fz).excluding = false := by simpa using hex
        have hexr : (T.recoverRetractionIfNeeded (T.applyEZF s ep fr fz) cmd true).1.excluding = false := by
          unfold T.recoverRetractionIfNeeded
          cases (T.applyEZF s ep fr fz).lastRetraction <;> simp [hex', T.recoverRetraction]
        have heq : T.nonMoveBody (T.applyEZF s ep fr fz) cmd (T.deltaEOf s ep) (cur s.position.e) =
            recoverBranch (T.applyEZF s ep fr fz) cmd true (cur s.position.e) := by
          unfold T.nonMoveBody recoverBranch
          rw [hnm]
          cases (T.applyEZF s ep fr fz).lastRetraction with
          | none => rfl
          | some lr => simp only [hpos, decide_true, Bool.true_and, hexr, Bool.not_false]
        rw [heq] at hno
        exact absurd (rec_mem _ true m hex' hdE hpos hVfw hV) hno

end ERP
