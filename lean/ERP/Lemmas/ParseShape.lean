import ERP.Lemmas.Reparse
/-! # What the parser produces for a backslash-free source is a plain command -/
namespace ERP.Rx

theorem orElse'_isSome {R : Type} (a : Option R) (b : Unit → Option R) :
    (orElse' a b).isSome = (a.isSome || (b ()).isSome) := by
  cases a <;> simp [orElse']

/-- whether the continuation succeeds does not depend on the captures -/
def CapsIrrel {R : Type} (k : Nat → Caps → Option R) : Prop :=
  ∀ p c c', (k p c).isSome = (k p c').isSome

theorem repLoop_capsIrrel {R : Type} (mr : Nat → Caps → (Nat → Caps → Option R) → Option R)
    (hmr : ∀ k, CapsIrrel k → CapsIrrel (fun p c => mr p c k))
    (g : Bool) (lo : Nat) (hi : Option Nat) (k : Nat → Caps → Option R) (hk : CapsIrrel k) :
    ∀ fuel n, CapsIrrel (fun p c => repLoop mr g lo hi fuel n p c k) := by
  intro fuel
  induction fuel with
  | zero => intro n p c c'; simp only [repLoop]; exact hk p c c'
  | succ f ih =>
    intro n p c c'
    have hmore : ∀ c c', (if canMore hi n then
        mr p c (fun p' c' => if (p' == p && decide (lo ≤ n)) then none
                             else repLoop mr g lo hi f (n+1) p' c' k)
        else none).isSome = (if canMore hi n then
        mr p c' (fun p' c' => if (p' == p && decide (lo ≤ n)) then none
                             else repLoop mr g lo hi f (n+1) p' c' k)
        else none).isSome := by
      intro c c'
      split
      · apply hmr _ _ p c c'
        intro p1 c1 c1'
        dsimp only
        split
        · rfl
        · exact ih (n+1) p1 c1 c1'
      · rfl
    simp only [repLoop]
    split
    · exact hmore c c'
    · split
      · rw [orElse'_isSome, orElse'_isSome, hmore c c', hk p c c']
      · rw [orElse'_isSome, orElse'_isSome, hmore c c', hk p c c']

theorem m_capsIrrel {R : Type} (ctx : Ctx) : ∀ (r : Re) (k : Nat → Caps → Option R), CapsIrrel k →
    CapsIrrel (fun p c => m ctx r p c k) := by
  intro r
  induction r with
  | eps => intro k hk p c c'; simp only [m]; exact hk p c c'
  | chars neg items =>
    intro k hk p c c'
    simp only [m]
    split
    · split
      · exact hk _ c c'
      · rfl
    · rfl
  | seq a b iha ihb =>
    intro k hk p c c'
    simp only [m]
    exact iha _ (ihb k hk) p c c'
  | alt a b iha ihb =>
    intro k hk p c c'
    simp only [m]
    rw [orElse'_isSome, orElse'_isSome, iha k hk p c c', ihb k hk p c c']
  | rep g lo hi r ih =>
    intro k hk p c c'
    simp only [m]
    exact repLoop_capsIrrel (m ctx r) ih g lo hi k hk _ _ p c c'
  | group i r ih =>
    intro k hk p c c'
    simp only [m]
    exact ih (fun p' c' => k p' ((i, p, p') :: c')) (fun p1 c1 c1' => hk p1 _ _) p c c'
  | «at» kind =>
    intro k hk p c c'
    simp only [m]
    split
    · exact hk p c c'
    · rfl


/-- a greedy star that fails: the continuation fails at every position of the run -/
theorem starG_none {R : Type} (ctx : Ctx) (neg : Bool) (items : List CC) (k : Nat → Caps → Option R) (c : Caps) :
    ∀ f p, starG ctx neg items k c f p = none →
      ∀ q', p ≤ q' → q' ≤ p + f → (∀ i, p ≤ i → i < q' → passes ctx neg items i = true) → k q' c = none := by
  intro f
  induction f with
  | zero =>
    intro p h q' h1 h2 _
    have : q' = p := by omega
    subst this; exact h
  | succ f ih =>
    intro p h q' h1 h2 hall
    simp only [starG] at h
    by_cases hp : passes ctx neg items p = true
    · simp only [hp, if_true] at h
      cases hs : starG ctx neg items k c f (p+1) with
      | some r => rw [hs] at h; cases h
      | none =>
        rw [hs, orElse'_none] at h
        by_cases hq : q' = p
        · subst hq; exact h
        · exact ih (p+1) hs q' (by omega) (by omega) (fun i hi1 hi2 => hall i (by omega) hi2)
    · have hp' : passes ctx neg items p = false := by simpa using hp
      simp only [hp', Bool.false_eq_true, if_false] at h
      by_cases hq : q' = p
      · subst hq; exact h
      · have := hall p (Nat.le_refl _) (by omega)
        rw [hp'] at this; cases this

/-- **what a greedy star returns**: the continuation's result at the *last* position of the run
where it succeeds -/
theorem starG_spec {R : Type} (ctx : Ctx) (neg : Bool) (items : List CC) (k : Nat → Caps → Option R) (c : Caps)
    (res : R) :
    ∀ f p, starG ctx neg items k c f p = some res →
      ∃ q, p ≤ q ∧ (∀ i, p ≤ i → i < q → passes ctx neg items i = true) ∧ k q c = some res ∧
        ∀ q', q < q' → q' ≤ p + f → (∀ i, p ≤ i → i < q' → passes ctx neg items i = true) → k q' c = none := by
  intro f
  induction f with
  | zero =>
    intro p h
    exact ⟨p, Nat.le_refl _, fun i h1 h2 => by omega, h, fun q' h1 h2 _ => by omega⟩
  | succ f ih =>
    intro p h
    simp only [starG] at h
    by_cases hp : passes ctx neg items p = true
    · simp only [hp, if_true] at h
      cases hs : starG ctx neg items k c f (p+1) with
      | some r =>
        rw [hs] at h
        have hr : r = res := by simpa [orElse'] using h
        subst hr
        obtain ⟨q, h1, h2, h3, h4⟩ := ih (p+1) hs
        refine ⟨q, by omega, ?_, h3, ?_⟩
        · intro i hi1 hi2
          by_cases hip : i = p
          · subst hip; exact hp
          · exact h2 i (by omega) hi2
        · intro q' hq1 hq2 hall
          exact h4 q' hq1 (by omega) (fun i hi1 hi2 => hall i (by omega) hi2)
      | none =>
        rw [hs, orElse'_none] at h
        refine ⟨p, Nat.le_refl _, fun i h1 h2 => by omega, h, ?_⟩
        intro q' hq1 hq2 hall
        exact starG_none ctx neg items k c f (p+1) hs q' (by omega) (by omega)
          (fun i hi1 hi2 => hall i (by omega) hi2)
    · have hp' : passes ctx neg items p = false := by simpa using hp
      simp only [hp', Bool.false_eq_true, if_false] at h
      refine ⟨p, Nat.le_refl _, fun i h1 h2 => by omega, h, ?_⟩
      intro q' hq1 _ hall
      have := hall p (Nat.le_refl _) hq1
      rw [hp'] at this; cases this

/-- the lazy loop: its result is the continuation's at the *first* position where it succeeds -/
theorem lazyG_spec {R : Type} (ok : Nat → Bool) (k : Nat → Caps → Option R) (c : Caps) (res : R) :
    ∀ f p, lazyG ok k c f p = some res →
      ∃ e, p ≤ e ∧ (∀ i, p ≤ i → i < e → ok i = true ∧ k i c = none) ∧ k e c = some res := by
  intro f
  induction f with
  | zero => intro p h; exact ⟨p, Nat.le_refl _, fun i h1 h2 => by omega, h⟩
  | succ f ih =>
    intro p h
    simp only [lazyG] at h
    cases hk : k p c with
    | some r =>
      rw [hk] at h
      have hr : r = res := by simpa [orElse'] using h
      subst hr
      exact ⟨p, Nat.le_refl _, fun i h1 h2 => by omega, hk⟩
    | none =>
      rw [hk, orElse'_none] at h
      by_cases hp : ok p = true
      · simp only [hp, if_true] at h
        obtain ⟨e, h1, h2, h3⟩ := ih (p+1) h
        refine ⟨e, by omega, ?_, h3⟩
        intro i hi1 hi2
        by_cases hip : i = p
        · subst hip; exact ⟨hp, hk⟩
        · exact h2 i (by omega) hi2
      · have hp' : ok p = false := by simpa using hp
        simp only [hp', Bool.false_eq_true, if_false] at h
        cases h

/-- the lazy loop succeeds if the continuation succeeds somewhere it can reach -/
theorem lazyG_reach {R : Type} (ok : Nat → Bool) (k : Nat → Caps → Option R) (c : Caps) (e : Nat)
    (hk : (k e c).isSome) :
    ∀ f p, p ≤ e → e - p ≤ f → (∀ i, p ≤ i → i < e → ok i = true) → (lazyG ok k c f p).isSome := by
  intro f
  induction f with
  | zero =>
    intro p h1 h2 _
    have : p = e := by omega
    subst this; exact hk
  | succ f ih =>
    intro p h1 h2 hall
    simp only [lazyG]
    rw [orElse'_isSome]
    by_cases hpe : p = e
    · subst hpe; simp [hk]
    · have hp := hall p (Nat.le_refl _) (by omega)
      simp only [hp, if_true]
      rw [ih (p+1) (by omega) (by omega) (fun i hi1 hi2 => hall i (by omega) hi2)]
      simp

end ERP.Rx

namespace ERP.Rx

theorem tailK_capsIrrel (ctx : Ctx) (p1 : Nat) : CapsIrrel (tailK ctx p1) := by
  unfold tailK
  apply m_capsIrrel ctx (.seq WSr OPTCK)
  intro p c c'
  exact m_capsIrrel ctx TAIL2 (fun p c => some (p, c)) (fun _ _ _ => rfl) p _ _

/-- the tail touches only groups 2, 10, 11, 12, 13 -/
theorem tailK_frame (ctx : Ctx) (p1 p : Nat) (c : Caps) (res : Nat × Caps) (hp : p ≤ ctx.s.size)
    (h : tailK ctx p1 p c = some res) :
    p ≤ res.1 ∧ ∀ j, j ≠ 2 → j ≠ 10 → j ≠ 11 → j ≠ 12 → j ≠ 13 → capOf res.2 j = capOf c j := by
  unfold tailK at h
  obtain ⟨p', c', hk, hf⟩ := m_good ctx (.seq WSr OPTCK) p c _ res hp h
  obtain ⟨p'', c'', hk2, hf2⟩ := m_good ctx TAIL2 p' _ _ res hf.2.1 hk
  cases hk2
  refine ⟨Nat.le_trans hf.1 hf2.1, ?_⟩
  intro j h2 h10 h11 h12 h13
  rw [hf2.2.2 j (by simp [TAIL2, WSr, COMMENT, EOL, Re.groups]; omega), capOf_cons_ne _ _ _ _ _ h2,
    hf.2.2 j (by simp [WSr, OPTCK, PLUSDc, Re.groups]; omega)]

end ERP.Rx

namespace ERP.Rx

/-- a blank in front of a position where the tail succeeds: the tail succeeds from the blank too -/
theorem tailK_back (ctx : Ctx) (p1 p : Nat) (c : Caps) (hsp : passes ctx false SP p = true)
    (h : (tailK ctx p1 (p + 1) c).isSome) : (tailK ctx p1 p c).isSome := by
  have hlt := passes_lt hsp
  have hW : ∀ (p : Nat) (c : Caps) (k : Nat → Caps → Option (Nat × Caps)),
      m ctx WSr p c k = starG ctx false SP k c (ctx.s.size + 2 - p + 0) p :=
    fun p c k => m_star_eq ctx false SP p c k
  unfold tailK at h ⊢
  rw [m.eq_3, hW] at h ⊢
  have hf : ctx.s.size + 2 - p + 0 = (ctx.s.size + 2 - (p + 1) + 0) + 1 := by omega
  rw [hf]
  simp only [starG, hsp, if_true]
  simp only [Nat.add_zero] at h
  rw [orElse'_isSome, h, Bool.true_or]

/-- the parameter group of a match: absent, or a non-empty run of plain characters that neither
starts nor ends with a blank -/
def ParamsPlain (ctx : Ctx) (d2 : Nat) (caps cC : Caps) : Prop :=
  capOf caps 9 = capOf cC 9 ∨
    ∃ q e, d2 ≤ q ∧ q < e ∧ e ≤ ctx.s.size ∧ capOf caps 9 = some (q, e) ∧
      (∀ i, q ≤ i → i < e → passes ctx true PSTOP i = true) ∧
      passes ctx false SP q = false ∧ passes ctx false SP (e - 1) = false

/-- **what the rest of the command alternative does after the code** on a backslash-free text:
the parameters it captures are plain and trimmed, everything captured before is kept -/
theorem restA_plain (ctx : Ctx) (hnb : ∀ i, passes ctx false BSc i = false) (p1 d2 : Nat) (cC : Caps)
    (res : Nat × Caps) (hd2 : d2 ≤ ctx.s.size) (h : restA ctx p1 d2 cC = some res) :
    ParamsPlain ctx d2 res.2 cC ∧
      ∀ j, j ≠ 2 → j ≠ 9 → j ≠ 10 → j ≠ 11 → j ≠ 12 → j ≠ 13 → capOf res.2 j = capOf cC j := by
  have hW : ∀ (p : Nat) (c : Caps) (k : Nat → Caps → Option (Nat × Caps)),
      m ctx WSr p c k = starG ctx false SP k c (ctx.s.size + 2 - p + 0) p :=
    fun p c k => m_star_eq ctx false SP p c k
  unfold restA at h
  rw [m.eq_3, hW] at h
  obtain ⟨q, hq1, hq2, hq3, hq4⟩ := starG_spec ctx false SP _ cC res _ _ h
  have hqs : q ≤ ctx.s.size := by
    rcases Nat.lt_or_ge d2 q with hlt | hge
    · have := passes_lt (hq2 (q - 1) (by omega) (by omega)); omega
    · omega
  rw [m.eq_3] at hq3
  unfold OPTP at hq3
  rw [m_opt_eq ctx _ q cC _ hqs, m.eq_6, m_lazyplus_eq ctx PCHAR _ (pchar_onestep ctx hnb) q cC] at hq3
  -- the continuation after the parameters
  have hK : ∀ p c, m ctx (.seq WSr OPTCK) p c (fun p' c' => m ctx TAIL2 p' ((2, p1, p') :: c') (fun p c => some (p, c)))
      = tailK ctx p1 p c := fun _ _ => rfl
  cases htake : (if passes ctx true PSTOP q = true then
      lazyG (fun p => passes ctx true PSTOP p)
        (fun p' c' => if (p' == q) = true then none else
          m ctx (.seq WSr OPTCK) p' ((9, q, p') :: c') (fun p' c' => m ctx TAIL2 p' ((2, p1, p') :: c') (fun p c => some (p, c))))
        cC (ctx.s.size + 2 - q) (q + 1) else none) with
  | none =>
    -- parameters skipped
    rw [htake, orElse'_none, hK] at hq3
    obtain ⟨_, hfr⟩ := tailK_frame ctx p1 q cC res hqs hq3
    refine ⟨Or.inl (hfr 9 (by omega) (by omega) (by omega) (by omega) (by omega)), ?_⟩
    intro j h2 _ h10 h11 h12 h13
    exact hfr j h2 h10 h11 h12 h13
  | some r =>
    rw [htake] at hq3
    have hr : r = res := by simpa [orElse'] using hq3
    subst hr
    by_cases hokq : passes ctx true PSTOP q = true
    · simp only [hokq, if_true] at htake
      obtain ⟨e, he1, he2, he3⟩ := lazyG_spec _ _ cC r _ _ htake
      have hne : (e == q) = false := by simp only [beq_eq_false_iff_ne, ne_eq]; omega
      simp only [hne, Bool.false_eq_true, if_false] at he3
      rw [hK] at he3
      have hokall : ∀ i, q ≤ i → i < e → passes ctx true PSTOP i = true := by
        intro i hi1 hi2
        by_cases hiq : i = q
        · subst hiq; exact hokq
        · exact (he2 i (by omega) hi2).1
      have hes : e ≤ ctx.s.size := by
        have := passes_lt (hokall (e - 1) (by omega) (by omega)); omega
      obtain ⟨_, hfr⟩ := tailK_frame ctx p1 e _ r hes he3
      have hcap9 : capOf r.2 9 = some (q, e) := by
        rw [hfr 9 (by omega) (by omega) (by omega) (by omega) (by omega), capOf_cons_eq]
      -- the failures of the tail at the earlier positions
      have hfail : ∀ i, q < i → i < e → tailK ctx p1 i ((9, q, i) :: cC) = none := by
        intro i hi1 hi2
        have := (he2 i (by omega) hi2).2
        have hne : (i == q) = false := by simp only [beq_eq_false_iff_ne, ne_eq]; omega
        simp only [hne, Bool.false_eq_true, if_false] at this
        rw [hK] at this; exact this
      -- first character: not a blank, else the greedy star before would have taken it
      have hfirst : passes ctx false SP q = false := by
        cases hsp : passes ctx false SP q with
        | false => rfl
        | true =>
          exfalso
          have hfuel : q + 1 ≤ d2 + (ctx.s.size + 2 - d2 + 0) := by
            have := passes_lt hsp; omega
          have hnone := hq4 (q + 1) (by omega) hfuel (fun i hi1 hi2 => by
            by_cases hiq : i = q
            · subst hiq; exact hsp
            · exact hq2 i hi1 (by omega))
          -- but the continuation does succeed one character later
          have hsome : (m ctx (.seq OPTP (.seq WSr OPTCK)) (q + 1) cC
              (fun p' c' => m ctx TAIL2 p' ((2, p1, p') :: c') (fun p c => some (p, c)))).isSome := by
            rw [m.eq_3]
            unfold OPTP
            rw [m_opt_eq ctx _ (q + 1) cC _ (by have := passes_lt hsp; omega), orElse'_isSome]
            by_cases hee : e = q + 1
            · -- single blank as parameters: the tail itself succeeds there
              subst hee
              have : (tailK ctx p1 (q + 1) cC).isSome := by
                rw [tailK_capsIrrel ctx p1 (q + 1) cC ((9, q, q + 1) :: cC), he3]; rfl
              rw [hK, this, Bool.or_true]
            · have hok1 : passes ctx true PSTOP (q + 1) = true := hokall (q + 1) (by omega) (by omega)
              rw [m.eq_6, m_lazyplus_eq ctx PCHAR _ (pchar_onestep ctx hnb) (q + 1) cC]
              simp only [hok1, if_true]
              have : (lazyG (fun p => passes ctx true PSTOP p)
                  (fun p' c' => if (p' == q + 1) = true then none else
                    m ctx (.seq WSr OPTCK) p' ((9, q + 1, p') :: c')
                      (fun p' c' => m ctx TAIL2 p' ((2, p1, p') :: c') (fun p c => some (p, c))))
                  cC (ctx.s.size + 2 - (q + 1)) (q + 1 + 1)).isSome := by
                apply lazyG_reach _ _ cC e _ _ _ (by omega) (by omega)
                  (fun i hi1 hi2 => hokall i (by omega) hi2)
                have hne2 : (e == q + 1) = false := by simp only [beq_eq_false_iff_ne, ne_eq]; omega
                simp only [hne2, Bool.false_eq_true, if_false]
                rw [hK, tailK_capsIrrel ctx p1 e _ ((9, q, e) :: cC), he3]; rfl
              rw [this, Bool.true_or]
          rw [hnone] at hsome; cases hsome
      -- last character: not a blank, else the lazy loop would have stopped before it
      have hlast : passes ctx false SP (e - 1) = false := by
        cases hsp : passes ctx false SP (e - 1) with
        | false => rfl
        | true =>
          exfalso
          by_cases hq1e : e - 1 = q
          · rw [hq1e, hfirst] at hsp; cases hsp
          · have hf := hfail (e - 1) (by omega) (by omega)
            have h1 : (tailK ctx p1 (e - 1 + 1) ((9, q, e - 1) :: cC)).isSome := by
              have : e - 1 + 1 = e := by omega
              rw [this, tailK_capsIrrel ctx p1 e _ ((9, q, e) :: cC), he3]; rfl
            have := tailK_back ctx p1 (e - 1) _ hsp h1
            rw [hf] at this; cases this
      refine ⟨Or.inr ⟨q, e, hq1, by omega, hes, hcap9, hokall, hfirst, hlast⟩, ?_⟩
      intro j h2 h9 h10 h11 h12 h13
      rw [hfr j h2 h10 h11 h12 h13, capOf_cons_ne _ _ _ _ _ h9]
    · have hokq' : passes ctx true PSTOP q = false := by simpa using hokq
      simp only [hokq', Bool.false_eq_true, if_false] at htake
      cases htake

end ERP.Rx

namespace ERP.Rx

/-- what the command word contributes to the captures -/
def CodeFacts (ctx : Ctx) (off p1 : Nat) (cC : Caps) : Prop :=
  capOf cC 1 = some (off, p1) ∧ capOf cC 9 = none ∧
    ((∃ a, passes ctx false GMc a = true ∧ capOf cC 4 = some (a, a + 1)) ∨
     (∃ a, passes ctx false TTc a = true ∧ capOf cC 4 = none ∧ capOf cC 7 = some (a, a + 1) ∧ capOf cC 6 = none))

theorem passes_of_test (ctx : Ctx) (neg : Bool) (items : List CC) (p : Nat) (hp : p < ctx.s.size)
    (ht : ((items.any (CC.test ctx.s[p])) != neg) = true) : passes ctx neg items p = true := by
  unfold passes; simp only [hp, dite_true]; exact ht

/-- **inversion of a match of the line regex**: leading blanks, then either the command
alternative — the code's captures, then `restA` from some position — or the catch-all, which sets
no type group -/
theorem line_inv (ctx : Ctx) (off : Nat) (hoff : off ≤ ctx.s.size) (res : Nat × Caps)
    (h : matchAt Gen.gcodeLine ctx.s off = some res) :
    ∃ p1, off ≤ p1 ∧ (∀ i, off ≤ i → i < p1 → passes ctx false SP i = true) ∧
      ((∃ d2 cC, d2 ≤ ctx.s.size ∧ CodeFacts ctx off p1 cC ∧ restA ctx p1 d2 cC = some res) ∨
       (capOf res.2 1 = some (off, p1) ∧ capOf res.2 4 = none ∧ capOf res.2 7 = none)) := by
  obtain ⟨s⟩ := ctx
  unfold matchAt at h
  rw [gcodeLine_parts, m.eq_3, m.eq_6] at h
  -- leading blanks
  have w1 : WP ⟨s⟩ WSr off [] (fun p' c' => c' = [] ∧ off ≤ p' ∧ p' ≤ s.size ∧
      ∀ i, off ≤ i → i < p' → passes ⟨s⟩ false SP i = true) := by
    unfold WSr
    apply wp_star_class
    intro p' hle hall
    refine ⟨rfl, hle, ?_, hall⟩
    rcases Nat.lt_or_ge off p' with hlt | hge
    · have := passes_lt (hall (p' - 1) (by omega) (by omega))
      dsimp only at this
      show p' ≤ s.size; omega
    · have : p' = off := by omega
      subst this; exact hoff
  obtain ⟨p1, c', ⟨hc', hle, hp1s, hall⟩, hk⟩ := w1 _ _ res h
  subst hc'
  refine ⟨p1, hle, hall, ?_⟩
  rw [m.eq_3, m.eq_6, m.eq_4] at hk
  rcases orElse'_some hk with hb | hcatch
  · -- the command alternative
    left
    have hfold : m ⟨s⟩ BODYA p1 [(1, off, p1)]
          (fun p' c' => m ⟨s⟩ TAIL2 p' ((2, p1, p') :: c') (fun p c => some (p, c))) =
        m ⟨s⟩ (.seq OPTN (.seq WSr CODEr)) p1 [(1, off, p1)] (restA ⟨s⟩ p1) := by
      unfold BODYA restA
      simp only [m.eq_3]
    rw [hfold] at hb
    have c0cap : ∀ j, j ≠ 1 → capOf [(1, off, p1)] j = none := by
      intro j hj
      rw [capOf_cons_ne _ _ _ _ _ hj]; rfl
    have w2 : WP ⟨s⟩ (.seq OPTN (.seq WSr CODEr)) p1 [(1, off, p1)]
        (fun p' c' => p' ≤ s.size ∧ CodeFacts ⟨s⟩ off p1 c') := by
      apply wp_seq
      apply wp_any OPTN hp1s
      intro pa ca fa
      apply wp_seq
      apply wp_any WSr fa.2.1
      intro pb cb fb
      have hcb : ∀ j, j ≠ 3 → capOf cb j = capOf [(1, off, p1)] j := by
        intro j hj
        rw [fb.2.2 j (by simp [WSr, Re.groups]), fa.2.2 j (by simp [OPTN, PLUSDc, Re.groups]; exact hj)]
      unfold CODEr
      apply wp_alt
      · apply wp_seq
        apply wp_group
        apply wp_chars
        intro hp ht
        have hgm := passes_of_test ⟨s⟩ false GMc pb hp ht
        apply wp_any _ (by dsimp only at hp; show pb + 1 ≤ s.size; omega)
        intro pc cc fc
        have hcc : ∀ j, j ≠ 5 → j ≠ 6 → capOf cc j = capOf ((4, pb, pb + 1) :: cb) j := by
          intro j h5 h6
          exact fc.2.2 j (by simp [WSr, PLUSDc, Re.groups]; omega)
        refine ⟨fc.2.1, ?_, ?_, Or.inl ⟨pb, hgm, ?_⟩⟩
        · rw [hcc 1 (by omega) (by omega), capOf_cons_ne _ _ _ _ _ (by omega), hcb 1 (by omega), capOf_cons_eq]
        · rw [hcc 9 (by omega) (by omega), capOf_cons_ne _ _ _ _ _ (by omega), hcb 9 (by omega),
            c0cap 9 (by omega)]
        · rw [hcc 4 (by omega) (by omega), capOf_cons_eq]
      · apply wp_seq
        apply wp_group
        apply wp_chars
        intro hp ht
        have htt := passes_of_test ⟨s⟩ false TTc pb hp ht
        apply wp_any _ (by dsimp only at hp; show pb + 1 ≤ s.size; omega)
        intro pc cc fc
        have hcc : ∀ j, j ≠ 8 → capOf cc j = capOf ((7, pb, pb + 1) :: cb) j := by
          intro j h8
          exact fc.2.2 j (by simp [WSr, PLUSDc, Re.groups]; omega)
        refine ⟨fc.2.1, ?_, ?_, Or.inr ⟨pb, htt, ?_, ?_, ?_⟩⟩
        · rw [hcc 1 (by omega), capOf_cons_ne _ _ _ _ _ (by omega), hcb 1 (by omega), capOf_cons_eq]
        · rw [hcc 9 (by omega), capOf_cons_ne _ _ _ _ _ (by omega), hcb 9 (by omega), c0cap 9 (by omega)]
        · rw [hcc 4 (by omega), capOf_cons_ne _ _ _ _ _ (by omega), hcb 4 (by omega), c0cap 4 (by omega)]
        · rw [hcc 7 (by omega), capOf_cons_eq]
        · rw [hcc 6 (by omega), capOf_cons_ne _ _ _ _ _ (by omega), hcb 6 (by omega), c0cap 6 (by omega)]
    obtain ⟨d2, cC, ⟨hd2, hfacts⟩, hrest⟩ := w2 _ _ res hb
    exact ⟨d2, cC, hd2, hfacts, hrest⟩
  · -- the catch-all alternative
    right
    obtain ⟨pa, ca, hka, fa⟩ := m_good ⟨s⟩ CATCH p1 [(1, off, p1)] _ res hp1s hcatch
    obtain ⟨pb, cb, hkb, fb⟩ := m_good ⟨s⟩ TAIL2 pa _ _ res fa.2.1 hka
    cases hkb
    have hcb : ∀ j, j ≠ 2 → j ≠ 11 → j ≠ 12 → j ≠ 13 → capOf cb j = capOf [(1, off, p1)] j := by
      intro j h2 h11 h12 h13
      rw [fb.2.2 j (by simp [TAIL2, WSr, COMMENT, EOL, Re.groups]; omega), capOf_cons_ne _ _ _ _ _ h2,
        fa.2.2 j (by simp [CATCH, Re.groups])]
    refine ⟨?_, ?_, ?_⟩
    · rw [hcb 1 (by omega) (by omega) (by omega) (by omega), capOf_cons_eq]
    · rw [hcb 4 (by omega) (by omega) (by omega) (by omega), capOf_cons_ne _ _ _ _ _ (by omega)]; rfl
    · rw [hcb 7 (by omega) (by omega) (by omega) (by omega), capOf_cons_ne _ _ _ _ _ (by omega)]; rfl

end ERP.Rx
