import ERP.Lemmas.EInv
import ERP.Spec.Sys
/-! # The extruder invariant is preserved by every event of the protocol -/
namespace ERP
open T Spec
set_option linter.unusedSectionVars false
set_option linter.unusedSimpArgs false
variable {α : Type} [Field α] [LinearOrder α] [IsStrictOrderedRing α] [MathOps α] [MathSpec α]

/-- the invariant does not look at X/Y/Z, regions, feed rate, pending commands … -/
theorem EInv.congr {pr : EProto α} {s s' : FState α} {P V : EV α} (h : EInv pr s P V)
    (he : s'.position.e = s.position.e) (hx : s'.excluding = s.excluding)
    (hr : s'.lastRetraction = s.lastRetraction) : EInv pr s' P V :=
  ⟨by rw [he]; exact h.track, by rw [he]; exact h.abs, by rw [he]; exact h.frame,
   by rw [hx, he]; exact h.sync, by rw [hr]; exact h.retr⟩

/-- firmware retraction `G10` (without `P`/`L`) while the file is not retracted -/
theorem g10_einv (g90e : Bool) (inch : α) (pr : EProto α) (s : FState α) (P V : EV α) (cmd : Cmd α)
    (hinv : EInv pr s P V) (hc : Code.ofString cmd.code = .G10)
    (hpl : (hasLetter cmd.words 'P' || hasLetter cmd.words 'L') = false)
    (hfw : pr.fw = true) (hV : V.fw = false) (r : Retraction α) (r1 : r.firmwareRetract = true)
    (r2 : r.originalCommand = cmd) (r3 : r.recoverExcluded = false) :
    EInv pr (T.recordRetraction s r).1 (P.outs g90e inch (T.recordRetraction s r).2) { V with fw := true } := by
  have hretr := hinv.retr
  have hact : ∀ Q : EV α, Q.out g90e inch (.orig cmd) = { Q with fw := true } := by
    intro Q; simp only [EV.out, hc, EV.exec, hpl, Bool.false_eq_true, if_false]
  unfold T.recordRetraction
  cases hl : s.lastRetraction with
  | none =>
    rw [hl] at hretr
    obtain ⟨pd, vd, pf, vf⟩ := hretr.of_fw_none hfw
    simp only
    by_cases hex : s.excluding = true
    · simp only [hex, if_true]
      have hev := addCommands_ev_fw g90e inch r 1 s.position P r1
      have hp : (T.addCommands r 1 s.position).1 = s.position := by
        unfold T.addCommands; simp only [r1, if_true]
      generalize T.addCommands r 1 s.position = ac at *
      obtain ⟨p, cmds⟩ := ac
      simp only at hp hev ⊢
      subst hp
      rw [hev]
      refine ⟨hinv.track, hinv.abs, hinv.frame, fun he => by simp [hex] at he, ?_⟩
      have h10 : ¬ ((1 : α) < 0) := by norm_num
      exact RetrInv.fw_some hfw pd vd r1 (by simp [h10]) (by simp [r3])
    · have hex' : s.excluding = false := by simpa using hex
      simp only [hex', Bool.false_eq_true, if_false, EV.outs, List.foldl_cons, List.foldl_nil, r2, hact]
      refine ⟨hinv.track, hinv.abs, hinv.frame, fun _ => hinv.sync hex', ?_⟩
      exact RetrInv.fw_some hfw pd vd r1 rfl (by simp [r3])
  | some lr =>
    rw [hl] at hretr
    obtain ⟨pd, vd, lfw, pf, vf⟩ := hretr.of_fw_some hfw
    have ho : lr.recoverExcluded = true := by
      rw [hV] at vf
      cases h : lr.recoverExcluded <;> simp [h] at vf ⊢
    simp only [ho, if_true, lfw, Bool.not_true, Bool.false_eq_true, if_false, EV.outs_nil]
    refine ⟨hinv.track, hinv.abs, hinv.frame, hinv.sync, ?_⟩
    exact RetrInv.fw_some hfw pd vd rfl pf (by simp)

/-- firmware recovery `G11` -/
theorem g11_einv (g90e : Bool) (inch : α) (pr : EProto α) (s : FState α) (P V : EV α) (cmd : Cmd α)
    (hinv : EInv pr s P V) (hc : Code.ofString cmd.code = .G11) (hfw : pr.fw = true) :
    EInv pr (T.recoverRetractionIfNeeded s cmd true).1
      (P.outs g90e inch (T.recoverRetractionIfNeeded s cmd true).2) { V with fw := false } := by
  have hretr := hinv.retr
  have hact : ∀ Q : EV α, Q.out g90e inch (.orig cmd) = { Q with fw := false } := by
    intro Q; simp only [EV.out, hc, EV.exec]
  unfold T.recoverRetractionIfNeeded
  cases hl : s.lastRetraction with
  | none =>
    rw [hl] at hretr
    obtain ⟨pd, vd, pf, vf⟩ := hretr.of_fw_none hfw
    simp only
    by_cases hex : s.excluding = true
    · simp only [hex, Bool.not_true, Bool.false_eq_true, if_false, EV.outs_nil]
      refine ⟨hinv.track, hinv.abs, hinv.frame, hinv.sync, ?_⟩
      rw [hl]; exact RetrInv.fw_none hfw pd vd pf rfl
    · have hex' : s.excluding = false := by simpa using hex
      simp only [hex', Bool.not_false, if_true, EV.outs, List.foldl_cons, List.foldl_nil, hact]
      refine ⟨hinv.track, hinv.abs, hinv.frame, hinv.sync, ?_⟩
      rw [hl]; exact RetrInv.fw_none hfw pd vd rfl rfl
  | some lr =>
    rw [hl] at hretr
    obtain ⟨pd, vd, lfw, pf, vf⟩ := hretr.of_fw_some hfw
    simp only
    by_cases hex : s.excluding = true
    · simp only [hex, if_true, EV.outs_nil]
      refine ⟨hinv.track, hinv.abs, hinv.frame, fun he => by simp [hex] at he, ?_⟩
      exact RetrInv.fw_some hfw pd vd lfw pf (by simp)
    · have hex' : s.excluding = false := by simpa using hex
      simp only [hex', Bool.false_eq_true, if_false, T.recoverRetraction]
      have hev := addCommands_ev_fw g90e inch { lr with allowCombine := false } (-1) s.position P lfw
      have hp : (T.addCommands { lr with allowCombine := false } (-1) s.position).1 = s.position := by
        unfold T.addCommands; simp only [lfw, if_true]
      generalize T.addCommands { lr with allowCombine := false } (-1) s.position = ac at *
      obtain ⟨p, cmds⟩ := ac
      simp only at hp hev ⊢
      subst hp
      cases ho : lr.recoverExcluded
      · simp only [Bool.false_eq_true, if_false, List.nil_append, EV.outs, List.foldl_cons, List.foldl_nil, hact]
        refine ⟨hinv.track, hinv.abs, hinv.frame, fun _ => hinv.sync hex', ?_⟩
        exact RetrInv.fw_none hfw pd vd rfl rfl
      · simp only [if_true]
        rw [EV.outs_append, hev]
        simp only [EV.outs, List.foldl_cons, List.foldl_nil, hact]
        refine ⟨hinv.track, hinv.abs, hinv.frame, fun _ => hinv.sync hex', ?_⟩
        exact RetrInv.fw_none hfw pd vd rfl rfl

end ERP

namespace ERP
open T Spec
set_option linter.unusedSectionVars false
set_option linter.unusedSimpArgs false
variable {α : Type} [Field α] [LinearOrder α] [IsStrictOrderedRing α] [MathOps α] [MathSpec α]

/-- **Protocol** of a program, one command at a time, relative to the file's (virtual) extruder:
absolute extrusion; moves never retract and extrude only while the file is not retracted;
retractions are E-only of length `A` from the unretracted state and are recovered by the same
length (style `fw = false`), or they are `G10`/`G11` (style `fw = true`), never mixed; arcs in I/J
form; `G91` does not switch the extruder to relative mode. -/
def EDialect (pr : EProto α) (cfg : Config) (s : FState α) (V : EV α) (g : String) (c : Cmd α) : Prop :=
  c.code = g ∧
  match Code.ofString g with
  | .G0 | .G1 =>
    if T.isMoveOf (lastValue c.words 'Z') [(lastValue c.words 'X', lastValue c.words 'Y')]
    then MoveOK V (T.deltaEOf s (lastValue c.words 'E'))
    else NonMoveOK pr V (T.deltaEOf s (lastValue c.words 'E'))
  | .G2 | .G3 => lastValue c.words 'R' = none ∧ MoveOK V (T.deltaEOf s (lastValue c.words 'E'))
  | .G10 => (hasLetter c.words 'P' || hasLetter c.words 'L') = true ∨ (pr.fw = true ∧ V.fw = false)
  | .G11 => pr.fw = true
  | .G91 => cfg.g90InfluencesExtruder = false
  | _ => True

theorem setLog_setLog_abs (a : Axis α) (v : Option α) (x : α) (ha : a.absoluteMode = true) :
    setLog (setLog a v) (some x) = setLog a (some x) := by
  cases v with
  | none => rfl
  | some y => simp only [setLog, l2n, ha, if_true]

/-- `G92`: the E axis ends at the last E value (absolute extrusion) -/
theorem g92_fold_e (w : List (Char × Option α)) :
    ∀ p : Position α, p.e.absoluteMode = true →
      (w.foldl T.g92Step p).e = setLog p.e (lastValue w 'E') := by
  induction w using List.reverseRecOn with
  | nil => intro p _; rfl
  | append_singleton w kv ih =>
    intro p hp
    obtain ⟨k, v⟩ := kv
    have hl : lastValue (w ++ [(k, v)]) 'E' =
        if k == 'E' then (match v with | some x => some x | none => lastValue w 'E') else lastValue w 'E' := by
      unfold lastValue; rw [List.foldl_append]; rfl
    rw [List.foldl_append, hl]
    simp only [List.foldl_cons, List.foldl_nil]
    have ihp := ih p hp
    cases v with
    | none => simp only [T.g92Step]; rw [ihp]; split <;> rfl
    | some x =>
      simp only [T.g92Step]
      by_cases hk : (k == 'E') = true
      · simp only [hk, if_true]
        rw [ihp]
        exact setLog_setLog_abs p.e _ x hp
      · simp only [hk, Bool.false_eq_true, if_false]
        split
        · exact ihp
        · split
          · exact ihp
          · split <;> exact ihp

end ERP

namespace ERP
open T Spec
set_option linter.unusedSectionVars false
set_option linter.unusedSimpArgs false
variable {α : Type} [Field α] [LinearOrder α] [IsStrictOrderedRing α] [MathOps α] [MathSpec α]

theorem outs_single (g90e : Bool) (inch : α) (Q : EV α) (o : Out α) : Q.outs g90e inch [o] = Q.out g90e inch o := rfl

/-- **Every G-code command of the protocol preserves the extruder invariant.** -/
theorem gcode_einv (cfg : Config) (inch : α) (pr : EProto α) (s : FState α) (P V : EV α) (g : String)
    (c : Cmd α) (h : WF s) (hinv : EInv pr s P V) (hpn : PendingNeutral s)
    (hd : EDialect pr cfg s V g c) :
    EInv pr (T.handleGcode cfg inch s g c).1
      (P.outs cfg.g90InfluencesExtruder inch (fwdOf c (T.handleGcode cfg inch s g c).2))
      (V.exec cfg.g90InfluencesExtruder inch (Code.ofString g) c.words) := by
  obtain ⟨hcode, hd⟩ := hd
  have hn := hinv.retr.nonneg
  unfold T.handleGcode
  generalize hcg : Code.ofString g = code at hd
  have hcc : Code.ofString c.code = code := by rw [hcode]; exact hcg
  -- commands that only touch the E axis record `a ↦ f a` on all three sides
  have simple : ∀ (s' : FState α) (f : Axis α → Axis α), s'.position.e = f s.position.e →
      s'.excluding = s.excluding → s'.lastRetraction = s.lastRetraction →
      (∀ Q : EV α, Q.exec cfg.g90InfluencesExtruder inch code c.words = { Q with e := f Q.e }) →
      (f s.position.e).absoluteMode = true → sameFrame (f P.e) (f s.position.e) →
      (s.excluding = false → (f P.e).current = (f s.position.e).current) →
      EInv pr s' (P.outs cfg.g90InfluencesExtruder inch [.orig c])
        (V.exec cfg.g90InfluencesExtruder inch code c.words) := by
    intro s' f he hx hr hact habs hfr hsy
    rw [outs_single]
    simp only [EV.out, hcc, hact]
    refine ⟨?_, ?_, ?_, ?_, ?_⟩
    · rw [he, hinv.track]
    · rw [he]; exact habs
    · rw [he]; exact hfr
    · intro hex; rw [hx] at hex; rw [he]; exact hsy hex
    · rw [hr]; exact hinv.retr.congr rfl rfl rfl rfl
  cases code with
  | G0 =>
    simp only [T.handleG0, EV.exec]
    exact plm_einv _ inch cfg pr s P V c _ _ _ _ h hinv hpn (fun Q => by simp only [hcc, EV.exec]) hd
  | G1 =>
    simp only [T.handleG0, EV.exec]
    exact plm_einv _ inch cfg pr s P V c _ _ _ _ h hinv hpn (fun Q => by simp only [hcc, EV.exec]) hd
  | G2 =>
    obtain ⟨hr, hm⟩ := hd
    simp only [T.handleG2, hr, EV.exec]
    split
    · rename_i hij
      refine plm_einv _ inch cfg pr s P V c _ _ _ _ h hinv hpn
        (fun Q => by simp only [hcc, EV.exec, hij, if_true]) ?_
      simp only [T.isMoveOf, Option.isSome_some, Bool.true_or, if_true]; exact hm
    · rename_i hij
      simp only [fwdOf, outs_single, EV.out, hcc, EV.exec, hij, Bool.false_eq_true, if_false]
      exact hinv
  | G3 =>
    obtain ⟨hr, hm⟩ := hd
    simp only [T.handleG2, hr, EV.exec]
    split
    · rename_i hij
      refine plm_einv _ inch cfg pr s P V c _ _ _ _ h hinv hpn
        (fun Q => by simp only [hcc, EV.exec, hij, if_true]) ?_
      simp only [T.isMoveOf, Option.isSome_some, Bool.true_or, if_true]; exact hm
    · rename_i hij
      simp only [fwdOf, outs_single, EV.out, hcc, EV.exec, hij, Bool.false_eq_true, if_false]
      exact hinv
  | G10 =>
    simp only [T.handleG10, EV.exec]
    by_cases hpl : (hasLetter c.words 'P' || hasLetter c.words 'L') = true
    · simp only [hpl, if_true, fwdOf, outs_single, EV.out, hcc, EV.exec]
      exact hinv
    · have hpl' : (hasLetter c.words 'P' || hasLetter c.words 'L') = false := by simpa using hpl
      rcases hd with hd | ⟨hfw, hV⟩
      · exact absurd hd hpl
      · simp only [hpl', Bool.false_eq_true, if_false, fwdOf_toResult, toResult_fst]
        exact g10_einv _ inch pr s P V c hinv hcc hpl' hfw hV _ rfl rfl rfl
  | G11 =>
    simp only [T.handleG11, EV.exec, fwdOf_toResult, toResult_fst]
    exact g11_einv _ inch pr s P V c hinv hcc hd
  | G20 =>
    exact simple _ (fun a => a.setUnitMultiplier inch) rfl rfl rfl (fun Q => rfl) hinv.abs
      ⟨hinv.frame.1, hinv.frame.2.1, hinv.frame.2.2.1, rfl⟩ hinv.sync
  | G21 =>
    exact simple _ (fun a => a.setUnitMultiplier 1) rfl rfl rfl (fun Q => rfl) hinv.abs
      ⟨hinv.frame.1, hinv.frame.2.1, hinv.frame.2.2.1, rfl⟩ hinv.sync
  | G28 =>
    refine simple _ id ?_ rfl rfl (fun Q => rfl) hinv.abs hinv.frame hinv.sync
    simp only [handleG28, id]
    split <;> split <;> split <;> rfl
  | G90 =>
    by_cases hg : cfg.g90InfluencesExtruder = true
    · refine simple (FState.setAbsoluteMode cfg s true) (fun a => a.setAbsoluteMode true) ?_ rfl rfl
        (fun Q => by simp only [EV.exec, hg, if_true]) rfl
        ⟨hinv.frame.1, hinv.frame.2.1, rfl, hinv.frame.2.2.2⟩ hinv.sync
      simp only [FState.setAbsoluteMode, hg, if_true, Position.setPositionAbsoluteMode,
        Position.setExtruderAbsoluteMode]
    · have hg' : cfg.g90InfluencesExtruder = false := by simpa using hg
      refine simple (FState.setAbsoluteMode cfg s true) id ?_ rfl rfl
        (fun Q => by simp only [EV.exec, hg', Bool.false_eq_true, if_false, id]) hinv.abs
        hinv.frame hinv.sync
      simp only [FState.setAbsoluteMode, hg', Bool.false_eq_true, if_false, Position.setPositionAbsoluteMode, id]
  | G91 =>
    simp only at hd
    refine simple (FState.setAbsoluteMode cfg s false) id ?_ rfl rfl
      (fun Q => by simp only [EV.exec, hd, Bool.false_eq_true, if_false, id]) hinv.abs
      hinv.frame hinv.sync
    simp only [FState.setAbsoluteMode, hd, Bool.false_eq_true, if_false, Position.setPositionAbsoluteMode, id]
  | G92 =>
    have hfold := g92_fold_e c.words s.position hinv.abs
    cases hE : lastValue c.words 'E' with
    | none =>
      rw [hE] at hfold
      exact simple _ id hfold rfl rfl (fun Q => by simp only [EV.exec, hE, id]) hinv.abs hinv.frame hinv.sync
    | some x =>
      rw [hE] at hfold
      refine simple _ (fun a => { a with current := some (x * a.unitMultiplier + (a.offset + a.homeOffset)) })
        ?_ rfl rfl (fun Q => by simp only [EV.exec, hE, EV.setE]) hinv.abs
        ⟨hinv.frame.1, hinv.frame.2.1, hinv.frame.2.2.1, hinv.frame.2.2.2⟩ ?_
      · rw [hfold]; simp only [setLog, l2n, hinv.abs, if_true]
      · intro _; simp only [hinv.frame.1, hinv.frame.2.1, hinv.frame.2.2.2]
  | M206 =>
    refine simple _ id ?_ rfl rfl (fun Q => rfl) hinv.abs hinv.frame hinv.sync
    simp only [id]
    generalize s.position = p
    induction c.words generalizing p with
    | nil => rfl
    | cons kv rest ih =>
      simp only [List.foldl_cons]
      rw [ih]
      obtain ⟨k, v⟩ := kv
      cases v with
      | none => rfl
      | some v => simp only [T.m206Step]; split <;> (try rfl); split <;> (try rfl); split <;> rfl
  | other n =>
    simp only [EV.exec]
    have hpos : (s.processExtendedGcode cfg c g).1.position = s.position ∧
        (s.processExtendedGcode cfg c g).1.excluding = s.excluding ∧
        (s.processExtendedGcode cfg c g).1.lastRetraction = s.lastRetraction ∧
        ((s.processExtendedGcode cfg c g).2 = .none ∨ (s.processExtendedGcode cfg c g).2 = .ignore) := by
      unfold FState.processExtendedGcode
      split
      · split
        · rename_i m _
          refine ⟨?_, ?_, ?_, Or.inr rfl⟩ <;>
            (unfold FState.processExtendedGcodeEntry; cases m <;> simp only) <;> (try rfl) <;> (split <;> rfl)
        · exact ⟨rfl, rfl, rfl, Or.inl rfl⟩
      · exact ⟨rfl, rfl, rfl, Or.inl rfl⟩
    obtain ⟨e1, e2, e3, e4⟩ := hpos
    have hP : P.outs cfg.g90InfluencesExtruder inch (fwdOf c (s.processExtendedGcode cfg c g).2) = P := by
      rcases e4 with e4 | e4 <;> rw [e4]
      · simp only [fwdOf, outs_single, EV.out, hcc, EV.exec]
      · rfl
    rw [hP]
    exact hinv.congr (by rw [e1]) e2 e3

end ERP

namespace ERP
open T Spec
set_option linter.unusedSectionVars false
set_option linter.unusedSimpArgs false
variable {α : Type} [Field α] [LinearOrder α] [IsStrictOrderedRing α] [MathOps α] [MathSpec α]

/-- switching exclusion off inside a region ends the episode like a move out of the region -/
theorem disable_einv (g90e : Bool) (inch : α) (cfg : Config) (pr : EProto α) (s : FState α) (P V : EV α)
    (h : WF s) (hinv : EInv pr s P V) (hpn : PendingNeutral s) :
    EInv pr (T.disableExclusion cfg s).1 (P.outs g90e inch (T.disableExclusion cfg s).2) V ∧
    PendingNeutral (T.disableExclusion cfg s).1 := by
  have hn := hinv.retr.nonneg
  unfold T.disableExclusion
  split
  · dsimp only
    split
    · rename_i hex
      have hex' : s.excluding = true := hex
      have hpn' : PendingNeutral ({ s with exclusionEnabled := false } : FState α) := hpn
      rw [exit_ev g90e inch cfg _ P hpn' hex hinv.frame h.pos.2.2.2 hn.1, exitExcludedRegion_state]
      simp only [hex', if_true]
      refine ⟨⟨hinv.track, hinv.abs, (EV.jump_frame _ _).trans hinv.frame, fun _ => ?_, ?_⟩, ?_⟩
      · exact h.pos.2.2.2.cur_eq.symm
      · exact hinv.retr.congr rfl rfl rfl rfl
      · intro e he; cases he
    · exact ⟨hinv.congr rfl rfl rfl, hpn⟩
  · exact ⟨hinv, hpn⟩

theorem atLoop_einv (g90e : Bool) (inch : α) (cfg : Config) (pr : EProto α) (params : Text)
    (entries : List AtEntry) :
    ∀ (s : FState α) (handled : Bool) (sent : List (Out α)) (P V : EV α),
      WF s → PendingNeutral s → EInv pr s (P.outs g90e inch sent) V →
      EInv pr (T.atLoop cfg params entries s handled sent).1
        (P.outs g90e inch (T.atLoop cfg params entries s handled sent).2.2) V := by
  induction entries with
  | nil => intro s hd sent P V _ _ hi; exact hi
  | cons e rest ih =>
    intro s hd sent P V hw hpn hi
    unfold T.atLoop
    split
    · cases e.action with
      | enable =>
        exact ih _ _ _ _ _ (hw.of_eq rfl rfl (fun hx => ⟨hx, rfl⟩) rfl) hpn (hi.congr rfl rfl rfl)
      | disable =>
        simp only
        obtain ⟨k1, k2⟩ := disable_einv g90e inch cfg pr s _ V hw hi hpn
        rw [← EV.outs_append] at k1
        exact ih _ _ _ _ _ (disableExclusion_WF cfg s hw) k2 k1
      | unsupported => exact ih _ _ _ _ _ hw hpn hi
    · exact ih _ _ _ _ _ hw hpn hi

theorem at_einv (g90e : Bool) (inch : α) (cfg : Config) (pr : EProto α) (s : FState α) (P V : EV α)
    (streaming : Bool) (cmd : String) (ps : Text) (h : WF s) (hpn : PendingNeutral s) (hinv : EInv pr s P V) :
    EInv pr (T.handleAtCommand cfg s streaming cmd ps).1
      (P.outs g90e inch (T.handleAtCommand cfg s streaming cmd ps).2.2) V := by
  unfold T.handleAtCommand
  split
  · exact hinv
  · exact atLoop_einv g90e inch cfg pr ps _ s false [] P V h hpn hinv

/-- protocol of a whole event -/
def EDialectEv (pr : EProto α) (cfg : Config) (s : FState α) (V : EV α) : Ev α → Prop
  | .gcode g c => EDialect pr cfg s V g c
  | _ => True

theorem forwarded_gcode (g : String) (c : Cmd α) (r : Result α) :
    Emit.forwarded (.gcode g c) (.result r) = fwdOf c r := by
  cases r <;> rfl

/-- **Every event of the protocol preserves the extruder invariant** of the observed system. -/
theorem sys_step_einv (cfg : Config) (inch : α) (pr : EProto α) (y : Sys α) (e : Ev α) (h : WF y.s)
    (hpn : PendingNeutral y.s) (hinv : EInv pr y.s y.phys.ev y.virt.ev)
    (hd : EDialectEv pr cfg y.s y.virt.ev e) :
    EInv pr (y.step cfg inch e).s (y.step cfg inch e).phys.ev (y.step cfg inch e).virt.ev := by
  cases e with
  | gcode g c =>
    simp only [Sys.step, stepT, ev_execOuts, ev_exec, forwarded_gcode]
    exact gcode_einv cfg inch pr y.s _ _ g c h hinv hpn hd
  | atCmd st cmd ps =>
    simp only [Sys.step, stepT, ev_execOuts, Emit.forwarded]
    exact at_einv _ inch cfg pr y.s _ _ st cmd ps h hpn hinv
  | addRegion r =>
    simp only [Sys.step, stepT]
    cases hr : y.s.addRegion r with
    | error _ => simp only [Emit.forwarded, Printer.execOuts, List.foldl_nil]; exact hinv
    | ok s' =>
      simp only [Emit.forwarded, Printer.execOuts, List.foldl_nil]
      unfold FState.addRegion at hr
      split at hr
      · cases hr; exact hinv.congr rfl rfl rfl
      · cases hr

end ERP
