import ERP.Gen.Arith
import ERP.Total
/-! # The axis arithmetic and the radius-form arc centre of the model *are* the source's

`ERP/Gen/Arith.lean` is regenerated on every run from the statements of
`AxisPosition.logicalToNative`, `.nativeToLogical`, `.setLogicalOffsetPosition`, `.setHomeOffset`,
`ExcludeRegionState._exitCoordinate`, `RetractionState.combine`, `RetractionState._addCommands`
(the numbers formatted into its two commands), `ExcludeRegionState.exitExcludedRegion` (the commands
appended after the pending ones) and
`GcodeHandlers.computeArcCenterOffsets`, and of `GcodeHandlers.planArc` (everything before its loop, and
the loop body) (assignments, augmented assignments, `if`/`else`, early
`return`, conditional expressions, `and`/`or`/`^`, comparisons, `+ - * /`, `abs`, `math.sqrt`,
`math.hypot`).  These theorems state that the total model (`ERP/Total.lean`) — about which C03,
C08, C16 are proved, including the two known findings K-D15 and K-D10 that live in exactly these
functions — computes those statements, for every argument and every arithmetic.  `None` arguments
are represented by the flags `valueIsNone` / `absIsNone`; the calls the model makes are
`logicalToNative(v)`, `nativeToLogical()` and `nativeToLogical(v, True)`. -/
namespace ERP
set_option linter.unusedSectionVars false
set_option linter.unusedSimpArgs false
variable {α : Type} [Add α] [Sub α] [Mul α] [Div α] [Neg α] [LT α] [LE α] [BEq α]
  [OfNat α 0] [OfNat α 1] [OfNat α 2] [DecidableLT α] [DecidableLE α] [MathOps α]

/-- `logicalToNative(v)` -/
theorem gen_l2n (a : Axis α) (v : α) (b : Bool) :
    T.l2n a v = Gen.logicalToNative (T.cur a) a.homeOffset a.offset a.unitMultiplier a.absoluteMode v false b true := by
  unfold T.l2n Gen.logicalToNative
  cases a.absoluteMode <;> rfl

/-- `nativeToLogical()` -/
theorem gen_n2l (a : Axis α) (v : α) (b b' : Bool) :
    T.n2l a = Gen.nativeToLogical (T.cur a) a.homeOffset a.offset a.unitMultiplier a.absoluteMode v true b b' := rfl

/-- `nativeToLogical(v, True)` -/
theorem gen_n2lAbs (a : Axis α) (v : α) :
    T.n2lAbs a v = Gen.nativeToLogical (T.cur a) a.homeOffset a.offset a.unitMultiplier a.absoluteMode v false true false := rfl

/-- `setLogicalOffsetPosition(v)` (G92 X/Y/Z) -/
theorem gen_setOffsetPos (a : Axis α) (v : α) :
    T.setOffsetPos a v = { a with offset :=
      Gen.setLogicalOffsetPosition (T.cur a) a.homeOffset a.offset a.unitMultiplier a.absoluteMode v } := by
  unfold T.setOffsetPos Gen.setLogicalOffsetPosition
  rw [gen_l2n a v true]

/-- `setHomeOffset(v)` (M206) -/
theorem gen_setHomeOffset (a : Axis α) (v : α) :
    T.setHomeOffset a v = { a with
      homeOffset := (Gen.setHomeOffset (T.cur a) a.homeOffset a.offset a.unitMultiplier a.absoluteMode v).1,
      current := some (Gen.setHomeOffset (T.cur a) a.homeOffset a.offset a.unitMultiplier a.absoluteMode v).2 } := rfl

/-- `_exitCoordinate(axis, lastAxis)`: the coordinate of the re-positioning moves -/
theorem gen_exitCoord (axis lastAxis : Axis α) :
    T.exitCoord axis lastAxis =
      Gen.exitCoordinate (T.cur axis) axis.homeOffset axis.offset axis.unitMultiplier axis.absoluteMode
        (T.cur lastAxis) := by
  unfold T.exitCoord Gen.exitCoordinate
  cases axis.absoluteMode <;> rfl

/-- `RetractionState.combine(other)`: the combined retraction length -/
theorem gen_combine (r o : Retraction α) :
    (T.combine r o).extrusionAmount.getD 0 =
      Gen.combine r.allowCombine r.firmwareRetract o.firmwareRetract
        (r.extrusionAmount.getD 0) (o.extrusionAmount.getD 0) := by
  unfold T.combine Gen.combine
  cases r.allowCombine <;> cases r.firmwareRetract <;> cases o.firmwareRetract <;> rfl

theorem gen_combine_frame (r o : Retraction α) :
    (T.combine r o).allowCombine = r.allowCombine ∧ (T.combine r o).firmwareRetract = r.firmwareRetract ∧
    (T.combine r o).feedRate = r.feedRate ∧ (T.combine r o).recoverExcluded = r.recoverExcluded := by
  unfold T.combine
  split <;> exact ⟨rfl, rfl, rfl, rfl⟩
/-- `RetractionState._addCommands` (non-firmware): the synthesised `G92 E…` / `G1 F… E…` carry the
numbers the source computes, and the extruder is left where the source leaves it -/
theorem gen_addCommands (r : Retraction α) (dir : α) (p : Position α) (h : r.firmwareRetract = false) :
    (T.addCommands r dir p).2 =
      (let t := Gen.addCommandsValues (r.extrusionAmount.getD 0) (r.feedRate.getD 0) dir
          (T.cur p.e) p.e.homeOffset p.e.offset p.e.unitMultiplier p.e.absoluteMode
       [Out.g92e t.1, Out.g1fe t.2.2.1 t.2.1]) ∧
    T.cur (T.addCommands r dir p).1.e =
      (Gen.addCommandsValues (r.extrusionAmount.getD 0) (r.feedRate.getD 0) dir
          (T.cur p.e) p.e.homeOffset p.e.offset p.e.unitMultiplier p.e.absoluteMode).2.2.2 := by
  unfold T.addCommands
  simp only [h, Bool.false_eq_true, if_false]
  exact ⟨rfl, rfl⟩

theorem addCommands_templates : Gen.addCommandsTemplates = ["G92 E{e}", "G1 F{f} E{e}"] := rfl

/-- the command template and the numbers (in template order) of a synthesised command -/
def Out.shape : Out α → Option (String × List α)
  | .g92e e => some ("G92 E{e}", [e])
  | .g0z f z => some ("G0 F{f} Z{z}", [f, z])
  | .g0xy f x y => some ("G0 F{f} X{x} Y{y}", [f, x, y])
  | .g1fe f e => some ("G1 F{f} E{e}", [f, e])
  | _ => none

/-- the re-synchronisation commands at the end of an episode, as the model emits them -/
def exitTail (s : FState α) : List (Out α) :=
  let f := s.feedRate / s.feedRateUnitMultiplier
  let moveZ : Out α := .g0z f (T.exitCoord s.position.z (T.lastPos s).z)
  [Out.g92e (T.n2l s.position.e)] ++
    (if T.cur (T.lastPos s).z < T.cur s.position.z then [moveZ] else []) ++
    [Out.g0xy f (T.exitCoord s.position.x (T.lastPos s).x) (T.exitCoord s.position.y (T.lastPos s).y)] ++
    (if T.cur s.position.z < T.cur (T.lastPos s).z then [moveZ] else [])

theorem exit_outputs (cfg : Config) (s : FState α) (h : s.excluding = true) :
    (T.exitExcludedRegion cfg s).2 =
      (FState.processPendingCommands cfg { s with excluding := false }).2 ++ exitTail s := by
  unfold T.exitExcludedRegion exitTail
  simp only [h, Bool.not_true, Bool.false_eq_true, if_false]
  by_cases h1 : T.cur (T.lastPos s).z < T.cur s.position.z <;>
  by_cases h2 : T.cur s.position.z < T.cur (T.lastPos s).z <;>
  simp [FState.processPendingCommands, T.lastPos, h1, h2] <;> simp_all [T.lastPos]

/-- `exitExcludedRegion`: after the pending commands and the exit script, exactly the commands the
source appends — its templates, its numbers in its order, under its conditions -/
theorem gen_exitCommands (s : FState α) :
    (exitTail s).map Out.shape =
      (Gen.exitCommands (T.n2l s.position.e)
        (T.exitCoord s.position.z (T.lastPos s).z) (T.exitCoord s.position.x (T.lastPos s).x)
        (T.exitCoord s.position.y (T.lastPos s).y) (T.cur s.position.z) (T.cur (T.lastPos s).z)
        s.feedRate s.feedRateUnitMultiplier).map some := by
  unfold exitTail Gen.exitCommands
  by_cases h1 : T.cur (T.lastPos s).z < T.cur s.position.z <;>
  by_cases h2 : T.cur s.position.z < T.cur (T.lastPos s).z <;>
  simp [Out.shape, h1, h2, GT.gt]

/-- `computeArcCenterOffsets(endX, endY, radius, clockwise)` -/
theorem gen_arcCenterOffsets (p : Position α) (endX endY radius : α) (cw : Bool) :
    T.computeArcCenterOffsets p endX endY radius cw =
      Gen.arcCenterOffsets (T.n2l p.x) (T.n2l p.y) endX endY radius cw := rfl

/-- `planArc`: the model's sampling is the source's set-up followed by `numSegments − 1` iterations
of the source's loop body and the commanded end point -/
theorem gen_planArc (p : Position α) (endX endY i j : α) (cw : Bool) :
    T.planArc p endX endY i j cw =
      (let t := Gen.planArcSetup (T.n2l p.x) (T.n2l p.y) endX endY i j cw
       ERP.arcLoop t.1 t.2.1 t.2.2.1 t.2.2.2.2.2.2 (t.2.2.2.2.1 - 1) t.2.2.2.2.2.1 []) ++ [(endX, endY)] := rfl

theorem gen_planArc_travel (p : Position α) (endX endY i j : α) (cw : Bool) :
    T.angularTravel (T.n2l p.x) (T.n2l p.y) endX endY i j cw =
      (Gen.planArcSetup (T.n2l p.x) (T.n2l p.y) endX endY i j cw).2.2.2.1 := rfl

theorem gen_arcLoop_step (cx cy r inc angle : α) (n : Nat) (acc : List (α × α)) :
    ERP.arcLoop cx cy r inc (n + 1) angle acc =
      ERP.arcLoop cx cy r inc n (Gen.planArcStep cx cy r inc angle).1
        (acc ++ [((Gen.planArcStep cx cy r inc angle).2.1, (Gen.planArcStep cx cy r inc angle).2.2)]) := rfl

end ERP
