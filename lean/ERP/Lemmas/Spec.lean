import ERP.Basic
import Mathlib.Algebra.Order.Field.Basic
import Mathlib.Tactic.Linarith
import Mathlib.Tactic.Ring
import Mathlib.Tactic.Positivity
/-! # Assumptions about the transcendental operations, for theorems over an ordered field

`MathSpec α` states what the theorems use about `MathOps α`. It is satisfiable: `ERP.Lemmas.RealOps`
gives the instance for ℝ (`Real.sqrt`, `Real.sin`, …). -/
namespace ERP

class MathSpec (α : Type) [Field α] [LinearOrder α] [IsStrictOrderedRing α] [MathOps α] : Prop where
  hypot_nonneg : ∀ x y : α, 0 ≤ MathOps.hypot x y
  hypot_sq : ∀ x y : α, MathOps.hypot x y * MathOps.hypot x y = x * x + y * y
  sqrt_nonneg : ∀ x : α, 0 ≤ MathOps.sqrt x
  sqrt_sq : ∀ x : α, 0 ≤ x → MathOps.sqrt x * MathOps.sqrt x = x
  ofNat_eq : ∀ n : Nat, (MathOps.ofNat n : α) = (n : α)
  twoPi_pos : (0 : α) < MathOps.twoPi

section
variable {α : Type} [Field α] [LinearOrder α] [IsStrictOrderedRing α] [MathOps α] [MathSpec α]

theorem hypot_le_iff (x y r : α) :
    MathOps.hypot x y ≤ r ↔ 0 ≤ r ∧ x * x + y * y ≤ r * r := by
  have h0 := MathSpec.hypot_nonneg x y
  have hs := MathSpec.hypot_sq x y
  constructor
  · intro h
    refine ⟨le_trans h0 h, ?_⟩
    rw [← hs]; exact mul_le_mul h h h0 (le_trans h0 h)
  · rintro ⟨hr, h⟩
    by_contra hc
    rw [not_le] at hc
    have : r * r < MathOps.hypot x y * MathOps.hypot x y := mul_lt_mul'' hc hc hr hr
    linarith

theorem abs_le_hypot_left (x y : α) : |x| ≤ MathOps.hypot x y := by
  have h0 := MathSpec.hypot_nonneg x y
  have hs := MathSpec.hypot_sq x y
  apply abs_le_of_sq_le_sq' _ h0 |> fun h => abs_le.mpr h
  nlinarith [mul_self_nonneg y]

theorem abs_le_hypot_right (x y : α) : |y| ≤ MathOps.hypot x y := by
  have h0 := MathSpec.hypot_nonneg x y
  have hs := MathSpec.hypot_sq x y
  apply abs_le_of_sq_le_sq' _ h0 |> fun h => abs_le.mpr h
  nlinarith [mul_self_nonneg x]

/-- triangle inequality for `hypot` -/
theorem hypot_add_le (a b c d : α) :
    MathOps.hypot (a + c) (b + d) ≤ MathOps.hypot a b + MathOps.hypot c d := by
  have h1 := MathSpec.hypot_nonneg a b
  have h2 := MathSpec.hypot_nonneg c d
  have s1 := MathSpec.hypot_sq a b
  have s2 := MathSpec.hypot_sq c d
  rw [hypot_le_iff]
  refine ⟨by linarith, ?_⟩
  -- Cauchy–Schwarz: (ac+bd)² ≤ (a²+b²)(c²+d²)
  have cs : (a * c + b * d) * (a * c + b * d) ≤
      (MathOps.hypot a b * MathOps.hypot c d) * (MathOps.hypot a b * MathOps.hypot c d) := by
    have : (MathOps.hypot a b * MathOps.hypot c d) * (MathOps.hypot a b * MathOps.hypot c d)
        = (a * a + b * b) * (c * c + d * d) := by
      calc _ = (MathOps.hypot a b * MathOps.hypot a b) * (MathOps.hypot c d * MathOps.hypot c d) := by ring
        _ = _ := by rw [s1, s2]
    rw [this]
    nlinarith [mul_self_nonneg (a * d - b * c)]
  have hp : 0 ≤ MathOps.hypot a b * MathOps.hypot c d := mul_nonneg h1 h2
  have : a * c + b * d ≤ MathOps.hypot a b * MathOps.hypot c d := by
    by_contra hc
    rw [not_le] at hc
    have := mul_lt_mul'' hc hc hp hp
    linarith
  nlinarith

end
end ERP
