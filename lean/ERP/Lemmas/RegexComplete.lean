import ERP.Lemmas.RegexSound
/-! # Existence of matches (`isSome` rules for the backtracking matcher) -/
namespace ERP.Rx

theorem orElse'_isSome_left {R : Type} {a : Option R} {b : Unit → Option R} (h : a.isSome) :
    (orElse' a b).isSome := by
  unfold orElse'; cases a with
  | none => cases h
  | some r => rfl

theorem orElse'_isSome_right {R : Type} {a : Option R} {b : Unit → Option R} (h : (b ()).isSome) :
    (orElse' a b).isSome := by
  unfold orElse'; cases a with
  | none => exact h
  | some r => rfl

theorem some_alt_left {R : Type} {ctx : Ctx} {a b : Re} {p : Nat} {c : Caps} {k : Nat → Caps → Option R}
    (h : (m ctx a p c k).isSome) : (m ctx (.alt a b) p c k).isSome := by
  simp only [m]; exact orElse'_isSome_left h

theorem some_alt_right {R : Type} {ctx : Ctx} {a b : Re} {p : Nat} {c : Caps} {k : Nat → Caps → Option R}
    (h : (m ctx b p c k).isSome) : (m ctx (.alt a b) p c k).isSome := by
  simp only [m]; exact orElse'_isSome_right h

theorem some_chars {R : Type} {ctx : Ctx} {neg : Bool} {items : List CC} {p : Nat} {c : Caps}
    {k : Nat → Caps → Option R} (hp : p < ctx.s.size)
    (ht : ((items.any (CC.test ctx.s[p])) != neg) = true) (h : (k (p + 1) c).isSome) :
    (m ctx (.chars neg items) p c k).isSome := by
  simp only [m, hp, dite_true, ht, if_true]; exact h

/-- the class test at position `i` (false beyond the end) -/
def passes (ctx : Ctx) (neg : Bool) (items : List CC) (i : Nat) : Bool :=
  if h : i < ctx.s.size then (items.any (CC.test ctx.s[i])) != neg else false

/-- a star over a character class finds a match whenever the continuation succeeds at *some*
position reachable through characters of the class (greedy or lazy alike) -/
theorem star_reach {R : Type} (ctx : Ctx) (g neg : Bool) (items : List CC) (hi : Option Nat) (hhi : hi = none)
    (k : Nat → Caps → Option R) (c : Caps) (p' : Nat) (hk : (k p' c).isSome) :
    ∀ fuel n p, p ≤ p' → p' - p < fuel → (∀ i, p ≤ i → i < p' → passes ctx neg items i = true) →
      (repLoop (m ctx (.chars neg items)) g 0 hi fuel n p c k).isSome := by
  subst hhi
  intro fuel
  induction fuel with
  | zero => intro n p _ h; omega
  | succ f ih =>
    intro n p hpp hf hall
    simp only [repLoop, canMore, if_true, Nat.not_lt_zero, if_false]
    by_cases hpe : p = p'
    · subst hpe
      cases g
      · simp only [Bool.false_eq_true, if_false]; exact orElse'_isSome_left hk
      · simp only [if_true]; exact orElse'_isSome_right hk
    · have hlt : p < p' := by omega
      have hpass := hall p (Nat.le_refl _) hlt
      unfold passes at hpass
      split at hpass
      · rename_i hps
        have hmore : (m ctx (.chars neg items) p c (fun p'' c' =>
            if (p'' == p && decide (0 ≤ n)) = true then none
            else repLoop (m ctx (.chars neg items)) g 0 none f (n + 1) p'' c' k)).isSome := by
          apply some_chars hps hpass
          have : ¬ (p + 1 = p) := by omega
          simp only [beq_iff_eq, this, Nat.zero_le, decide_true, Bool.and_true, decide_false, Bool.false_eq_true, if_false]
          exact ih (n + 1) (p + 1) (by omega) (by omega) (fun i h1 h2 => hall i (by omega) h2)
        cases g
        · simp only [Bool.false_eq_true, if_false]; exact orElse'_isSome_right hmore
        · simp only [if_true]; exact orElse'_isSome_left hmore
      · cases hpass

theorem some_star {R : Type} (ctx : Ctx) (g neg : Bool) (items : List CC)
    (k : Nat → Caps → Option R) (c : Caps) (p p' : Nat) (hpp : p ≤ p') (hp' : p' ≤ ctx.s.size)
    (hall : ∀ i, p ≤ i → i < p' → passes ctx neg items i = true) (hk : (k p' c).isSome) :
    (m ctx (.rep g 0 none (.chars neg items)) p c k).isSome := by
  simp only [m]
  exact star_reach ctx g neg items none rfl k c p' hk _ 0 p hpp (by omega) hall

/-- taking the optional part -/
theorem some_opt_take {R : Type} {ctx : Ctx} {g : Bool} {r : Re} {p : Nat} {c : Caps}
    {k : Nat → Caps → Option R} (hp : p ≤ ctx.s.size)
    (h : (m ctx r p c (fun p' c' => if p' == p then none else k p' c')).isSome) :
    (m ctx (.rep g 0 (some 1) r) p c k).isSome := by
  simp only [m]
  have hfuel : ctx.s.size + 2 - p + 0 = (ctx.s.size + 1 - p) + 1 := by omega
  rw [hfuel]
  generalize ctx.s.size + 1 - p = f
  have inner : ∀ (p' : Nat) (c' : Caps), repLoop (m ctx r) g 0 (some 1) f 1 p' c' k = k p' c' := by
    intro p' c'
    cases f with
    | zero => simp [repLoop]
    | succ f' =>
      simp only [repLoop, canMore]
      have : ¬ (1 < 0) := by omega
      simp only [this, if_false, decide_eq_true_eq, Nat.lt_irrefl]
      cases g
      · simp only [Bool.false_eq_true, if_false, orElse']
        cases k p' c' <;> simp
      · simp [orElse']
  simp only [repLoop, canMore, Nat.lt_irrefl, if_false]
  have hmore : (if decide (0 < 1) = true then
        m ctx r p c (fun p' c' => if (p' == p && decide (0 ≤ 0)) = true then none
          else repLoop (m ctx r) g 0 (some 1) f (0 + 1) p' c' k) else none).isSome := by
    simp only [Nat.lt_one_iff, decide_true, if_true, Nat.le_refl, Bool.and_true, Nat.zero_add]
    have : (fun p' c' => if (p' == p) = true then none else repLoop (m ctx r) g 0 (some 1) f 1 p' c' k)
        = (fun p' c' => if (p' == p) = true then none else k p' c') := by
      funext p' c'; rw [inner]
    rw [this]; exact h
  cases g
  · simp only [Bool.false_eq_true, if_false]; exact orElse'_isSome_right hmore
  · simp only [if_true]; exact orElse'_isSome_left hmore

/-- skipping the optional part -/
theorem some_opt_skip {R : Type} {ctx : Ctx} {g : Bool} {r : Re} {p : Nat} {c : Caps}
    {k : Nat → Caps → Option R} (hp : p ≤ ctx.s.size) (h : (k p c).isSome) :
    (m ctx (.rep g 0 (some 1) r) p c k).isSome := by
  simp only [m]
  have hfuel : ctx.s.size + 2 - p + 0 = (ctx.s.size + 1 - p) + 1 := by omega
  rw [hfuel]
  simp only [repLoop, canMore, Nat.lt_irrefl, if_false]
  cases g
  · simp only [Bool.false_eq_true, if_false]; exact orElse'_isSome_left h
  · simp only [if_true]; exact orElse'_isSome_right h

/-- the first position at or after `p` where the class test fails (or the end of the text) -/
theorem exists_stop (ctx : Ctx) (neg : Bool) (items : List CC) :
    ∀ d p, ctx.s.size - p = d → p ≤ ctx.s.size →
      ∃ p', p ≤ p' ∧ p' ≤ ctx.s.size ∧ (∀ i, p ≤ i → i < p' → passes ctx neg items i = true) ∧
        passes ctx neg items p' = false := by
  intro d
  induction d with
  | zero =>
    intro p hd hp
    refine ⟨p, Nat.le_refl _, hp, fun i h1 h2 => by omega, ?_⟩
    unfold passes; simp; omega
  | succ d ih =>
    intro p hd hp
    by_cases hpass : passes ctx neg items p = true
    · obtain ⟨p', h1, h2, h3, h4⟩ := ih (p + 1) (by omega) (by omega)
      refine ⟨p', by omega, h2, fun i hi1 hi2 => ?_, h4⟩
      by_cases hip : i = p
      · subst hip; exact hpass
      · exact h3 i (by omega) hi2
    · exact ⟨p, Nat.le_refl _, hp, fun i h1 h2 => by omega, by simpa using hpass⟩

end ERP.Rx
