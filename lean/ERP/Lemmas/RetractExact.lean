import ERP.Lemmas.Reparse
import ERP.Model.Format
/-! # Exact evaluation of `GCODE_PARAMS_REGEX` (RetractionState.py)

`GCODE_PARAMS_REGEX.sub("\\1", originalCommand)` is how a synthesised `G10`/`G11` gets the
parameters of the firmware retraction it stands for.  The regex is regenerated from the source
(`Gen.retractParams`); this file evaluates the backtracking matcher on it exactly. -/
namespace ERP.Rx

abbrev SPCc : List CC := [.cat "space"]
abbrev LETc : List CC := [.range (Char.ofNat 65) (Char.ofNat 90), .range (Char.ofNat 97) (Char.ofNat 122)]
abbrev RNGc : List CC := [.range (Char.ofNat 48) (Char.ofNat 57)]
abbrev LFc : List CC := [.lit (Char.ofNat 10)]
abbrev DOTc : List CC := [.lit (Char.ofNat 46)]

def RP_TAIL : Re :=
  .seq (.rep true 0 none (.chars false SPCc)) (.seq (.group 1 (.rep true 0 none (.chars true LFc))) (.at "end"))
def RP_FRAC : Re := .rep true 0 (some 1) (.seq (.chars false DOTc) (.rep true 1 none (.chars false RNGc)))

theorem retractParams_parts : Gen.retractParams =
    .seq (.at "beginning") (.seq (.rep true 0 none (.chars false SPCc)) (.seq (.chars false LETc)
      (.seq (.rep true 1 none (.chars false RNGc)) (.seq RP_FRAC RP_TAIL)))) := rfl

/-- a maximal run `[p, e)` of a class -/
structure ClsRun (ctx : Ctx) (neg : Bool) (items : List CC) (p e : Nat) : Prop where
  le : p ≤ e
  inside : e ≤ ctx.s.size
  all : ∀ i, p ≤ i → i < e → passes ctx neg items i = true
  stop : passes ctx neg items e = false

theorem ClsRun.span_eq {ctx : Ctx} {neg : Bool} {items : List CC} {p e : Nat} (h : ClsRun ctx neg items p e) :
    span ctx neg items p = e :=
  span_eq_of_stop ctx neg items p e h.le h.all h.stop

/-- blanks, then the rest of the text (no line feed in it) as group 1, then `$` -/
theorem rp_tail (ctx : Ctx) (q w : Nat) (c : Caps)
    (hw : ClsRun ctx false SPCc q w) (hr : ClsRun ctx true LFc w ctx.s.size) :
    m ctx RP_TAIL q c (fun p c => some (p, c)) = some (ctx.s.size, (1, w, ctx.s.size) :: c) := by
  unfold RP_TAIL
  rw [m.eq_3]
  refine m_star_max ctx false SPCc q c _ _ (by have := hw.le; have := hw.inside; omega) ?_
  rw [hw.span_eq, m.eq_3, m.eq_6]
  refine m_star_max ctx true LFc w c _ _ hw.inside ?_
  rw [hr.span_eq, m.eq_7]
  simp [atOk]

/-- the optional fraction: taken when a dot and a digit follow, skipped otherwise -/
theorem rp_frac {R : Type} (ctx : Ctx) (d1 q : Nat) (c : Caps) (K : Nat → Caps → Option R) (res : R)
    (hd1 : d1 ≤ ctx.s.size)
    (hfr : (q = d1 ∧ (passes ctx false DOTc d1 = false ∨ passes ctx false RNGc (d1 + 1) = false)) ∨
      (passes ctx false DOTc d1 = true ∧ d1 + 1 < q ∧ ClsRun ctx false RNGc (d1 + 1) q))
    (hK : K q c = some res) :
    m ctx RP_FRAC d1 c K = some res := by
  unfold RP_FRAC
  rw [m_opt_eq ctx _ d1 c _ hd1, m.eq_3, m_chars_eq]
  rcases hfr with ⟨rfl, hno⟩ | ⟨hdot, hlt, hrun⟩
  · rcases hno with hno | hno
    · simp only [hno, Bool.false_eq_true, if_false, orElse'_none]; exact hK
    · by_cases hdot : passes ctx false DOTc q = true
      · simp only [hdot, if_true]
        rw [m_plus_eq]
        simp only [hno, Bool.false_eq_true, if_false, orElse'_none]; exact hK
      · simp only [hdot]; exact hK
  · simp only [hdot, if_true]
    apply orElse'_some_left
    have hp : passes ctx false RNGc (d1 + 1) = true := hrun.all _ (Nat.le_refl _) hlt
    have hne : (q == d1) = false := by
      rw [beq_eq_false_iff_ne]; omega
    rw [m_plus_max ctx false RNGc (d1 + 1) c _ (by have := hrun.inside; omega)
      (fun _ => by rw [hrun.span_eq, hne]; simp [hK])]
    simp only [hp, if_true, hrun.span_eq, hne, Bool.false_eq_true, if_false]
    exact hK

/-- exact evaluation of `GCODE_PARAMS_REGEX.match` on
`<blanks><letter><digits>[.<digits>]<blanks><rest without line feed>` -/
theorem retractParams_eval (ctx : Ctx) (a d1 q w : Nat)
    (hws : ClsRun ctx false SPCc 0 a)
    (hlet : passes ctx false LETc a = true)
    (hd : a + 1 < d1) (hrun : ClsRun ctx false RNGc (a + 1) d1)
    (hfr : (q = d1 ∧ (passes ctx false DOTc d1 = false ∨ passes ctx false RNGc (d1 + 1) = false)) ∨
      (passes ctx false DOTc d1 = true ∧ d1 + 1 < q ∧ ClsRun ctx false RNGc (d1 + 1) q))
    (hw : ClsRun ctx false SPCc q w) (hr : ClsRun ctx true LFc w ctx.s.size) :
    matchAt Gen.retractParams ctx.s 0 = some (ctx.s.size, [(1, w, ctx.s.size)]) := by
  obtain ⟨s⟩ := ctx
  unfold matchAt
  rw [retractParams_parts, m.eq_3, m.eq_7]
  have h0 : atOk ⟨s⟩ "beginning" 0 = true := by simp [atOk]
  simp only [h0, if_true]
  rw [m.eq_3]
  refine m_star_max ⟨s⟩ false SPCc 0 [] _ _ (Nat.zero_le _) ?_
  rw [hws.span_eq, m.eq_3, m_chars_eq]
  simp only [hlet, if_true]
  have hp : passes ⟨s⟩ false RNGc (a + 1) = true := hrun.all _ (Nat.le_refl _) hd
  have htail : m ⟨s⟩ (.seq RP_FRAC RP_TAIL) d1 [] (fun p c => some (p, c)) = some (s.size, [(1, w, s.size)]) := by
    rw [m.eq_3]
    exact rp_frac ⟨s⟩ d1 q [] _ _ hrun.inside hfr (rp_tail ⟨s⟩ q w [] hw hr)
  rw [m.eq_3, m_plus_max ⟨s⟩ false RNGc (a + 1) [] _ (by have := hrun.inside; omega)
    (fun _ => by rw [hrun.span_eq, htail]; rfl)]
  simp only [hp, if_true, hrun.span_eq]
  exact htail

end ERP.Rx

namespace ERP
open ERP.Rx

/-- a run of characters of a class in the middle of a text, followed by a character outside the
class or by the end of the text, is a maximal run -/
theorem clsRun_of (pre run post : Text) (neg : Bool) (items : List CC)
    (hall : ∀ c ∈ run, (items.any (CC.test c) != neg) = true)
    (hpost : ∀ c, post.head? = some c → (items.any (CC.test c) != neg) = false) :
    ClsRun ⟨(pre ++ run ++ post).toArray⟩ neg items pre.length (pre.length + run.length) where
  le := by omega
  inside := by simp only [List.size_toArray, List.length_append]; omega
  all := by
    intro i h1 h2
    have hj : i - pre.length < run.length := by omega
    have hget : (pre ++ run ++ post)[i]? = some run[i - pre.length] := by
      rw [get_mid pre run post i h1 h2, List.getElem?_eq_getElem hj]
    rw [passes_char _ neg items i _ hget]
    exact hall _ (List.getElem_mem hj)
  stop := by
    have hget : (pre ++ run ++ post)[pre.length + run.length]? = post.head? :=
      get_after (pre ++ run) post _ (by simp)
    cases hp : post.head? with
    | none => exact passes_none _ _ _ _ (by rw [hget, hp])
    | some ch =>
      rw [passes_char _ neg items _ ch (by rw [hget, hp])]
      exact hpost ch hp

def fwSpace (c : Char) : Bool := CC.test c (.cat "space")
def fwLetter (c : Char) : Bool := (65 ≤ c.toNat && c.toNat ≤ 90) || (97 ≤ c.toNat && c.toNat ≤ 122)
def fwDigit (c : Char) : Bool := 48 ≤ c.toNat && c.toNat ≤ 57

theorem letter_not_space (c : Char) (h : fwLetter c = true) : fwSpace c = false := by
  unfold fwLetter at h
  unfold fwSpace CC.test
  simp only [Bool.or_eq_true, Bool.and_eq_true, decide_eq_true_eq] at h
  have h1 : c ≠ ' ' := by intro e; subst e; simp at h
  have h2 : c ≠ '\t' := by intro e; subst e; simp at h
  have h3 : c ≠ '\n' := by intro e; subst e; simp at h
  have h4 : c ≠ '\r' := by intro e; subst e; simp at h
  have h5 : c.toNat ≠ 11 := by omega
  have h6 : c.toNat ≠ 12 := by omega
  simp [h1, h2, h3, h4, h5, h6]

/-- the shape of the text of a firmware retraction as the filter keeps it: blanks, one letter,
digits, an optional fraction, blanks, and the parameters (no line feed) -/
structure FwText (ws : Text) (c : Char) (ds fr ws2 r : Text) : Prop where
  ws_space : ∀ x ∈ ws, fwSpace x = true
  letter : fwLetter c = true
  ds_ne : ds ≠ []
  ds_digits : ∀ x ∈ ds, fwDigit x = true
  frac : fr = [] ∨ ∃ ds2, fr = '.' :: ds2 ∧ ds2 ≠ [] ∧ ∀ x ∈ ds2, fwDigit x = true
  ws2_space : ∀ x ∈ ws2, fwSpace x = true
  no_lf : ∀ x ∈ r, x ≠ '\n'
  r_head : ∀ x, r.head? = some x → fwSpace x = false
  next : ∀ x, (ws2 ++ r).head? = some x → fwDigit x = false ∧ (fr = [] → x ≠ '.')

theorem Rx.ClsRun.cast {ctx : Ctx} {neg : Bool} {items : List CC} {p e p' e' : Nat}
    (h : ClsRun ctx neg items p e) (hp : p = p') (he : e = e') : ClsRun ctx neg items p' e' := by
  subst hp he; exact h

theorem any1 (x : Char) (cc : CC) : ([cc].any (CC.test x)) = CC.test x cc := by simp

theorem retractParams_match {ws : Text} {c : Char} {ds fr ws2 r : Text} (h : FwText ws c ds fr ws2 r)
    (T : Text) (hT : T = ws ++ c :: ds ++ fr ++ ws2 ++ r) :
    matchAt Gen.retractParams T.toArray 0 =
      some (T.length, [(1, ws.length + 1 + ds.length + fr.length + ws2.length, T.length)]) := by
  have hlen : T.length = ws.length + 1 + ds.length + fr.length + ws2.length + r.length := by
    rw [hT]; simp only [List.length_append, List.length_cons]; omega
  have hsp : ∀ x, ((SPCc.any (CC.test x)) != false) = fwSpace x := by
    intro x; simp [fwSpace]
  have hdg : ∀ x, ((RNGc.any (CC.test x)) != false) = fwDigit x := by
    intro x; simp [fwDigit, CC.test]
  -- leading blanks
  have h1 : ClsRun ⟨T.toArray⟩ false SPCc 0 ws.length := by
    have := clsRun_of [] ws (c :: ds ++ fr ++ ws2 ++ r) false SPCc
      (fun x hx => by rw [hsp]; exact h.ws_space x hx)
      (fun x hx => by
        rw [hsp]
        simp only [List.cons_append, List.head?_cons, Option.some.injEq] at hx
        subst hx; exact letter_not_space _ h.letter)
    have e : T = [] ++ ws ++ (c :: ds ++ fr ++ ws2 ++ r) := by rw [hT]; simp
    rw [← e] at this
    simpa using this
  -- the code letter
  have h2 : passes ⟨T.toArray⟩ false LETc ws.length = true := by
    have hget : T[ws.length]? = some c := by rw [hT]; simp
    rw [passes_char T false LETc _ c hget]
    have := h.letter
    simp only [fwLetter, Bool.or_eq_true, Bool.and_eq_true, decide_eq_true_eq] at this
    simp [CC.test, this]
  -- the code number
  have h3 : ClsRun ⟨T.toArray⟩ false RNGc (ws.length + 1) (ws.length + 1 + ds.length) := by
    have := clsRun_of (ws ++ [c]) ds (fr ++ ws2 ++ r) false RNGc
      (fun x hx => by rw [hdg]; exact h.ds_digits x hx)
      (fun x hx => by
        rw [hdg]
        rcases h.frac with hf | ⟨ds2, hf, _, _⟩
        · subst hf
          exact (h.next x (by simpa using hx)).1
        · subst hf
          simp only [List.cons_append, List.head?_cons, Option.some.injEq] at hx
          subst hx; decide)
    have e : T = (ws ++ [c]) ++ ds ++ (fr ++ ws2 ++ r) := by rw [hT]; simp
    rw [← e] at this
    simpa using this
  -- the fraction
  have h4 : (ws.length + 1 + ds.length + fr.length = ws.length + 1 + ds.length ∧
        (passes ⟨T.toArray⟩ false DOTc (ws.length + 1 + ds.length) = false ∨
          passes ⟨T.toArray⟩ false RNGc (ws.length + 1 + ds.length + 1) = false)) ∨
      (passes ⟨T.toArray⟩ false DOTc (ws.length + 1 + ds.length) = true ∧
        ws.length + 1 + ds.length + 1 < ws.length + 1 + ds.length + fr.length ∧
        ClsRun ⟨T.toArray⟩ false RNGc (ws.length + 1 + ds.length + 1) (ws.length + 1 + ds.length + fr.length)) := by
    rcases h.frac with hf | ⟨ds2, hf, hne, hd2⟩
    · left
      subst hf
      refine ⟨by simp, Or.inl ?_⟩
      have hget : T[ws.length + 1 + ds.length]? = (ws2 ++ r).head? := by
        have e : T = (ws ++ [c] ++ ds) ++ (ws2 ++ r) := by rw [hT]; simp
        rw [e]; exact get_after _ _ _ (by simp only [List.length_append, List.length_cons, List.length_nil])
      cases hp : (ws2 ++ r).head? with
      | none => exact passes_none _ _ _ _ (by rw [hget, hp])
      | some ch =>
        rw [passes_char T false DOTc _ ch (by rw [hget, hp])]
        have := (h.next ch hp).2 rfl
        simp [CC.test, this]
    · right
      subst hf
      have hpos := List.length_pos_iff.mpr hne
      refine ⟨?_, by simp only [List.length_cons]; omega, ?_⟩
      · have hget : T[ws.length + 1 + ds.length]? = some '.' := by
          have e : T = (ws ++ [c] ++ ds) ++ ('.' :: ds2 ++ ws2 ++ r) := by rw [hT]; simp
          rw [e, get_after _ _ _ (by simp only [List.length_append, List.length_cons, List.length_nil])]; rfl
        rw [passes_char T false DOTc _ _ hget]; decide
      · have := clsRun_of (ws ++ [c] ++ ds ++ ['.']) ds2 (ws2 ++ r) false RNGc
          (fun x hx => by rw [hdg]; exact hd2 x hx)
          (fun x hx => by rw [hdg]; exact (h.next x hx).1)
        have e : T = (ws ++ [c] ++ ds ++ ['.']) ++ ds2 ++ (ws2 ++ r) := by rw [hT]; simp
        rw [← e] at this
        exact this.cast (by simp only [List.length_append, List.length_cons, List.length_nil])
          (by simp only [List.length_append, List.length_cons, List.length_nil]; omega)
  -- blanks before the parameters
  have h5 : ClsRun ⟨T.toArray⟩ false SPCc (ws.length + 1 + ds.length + fr.length)
      (ws.length + 1 + ds.length + fr.length + ws2.length) := by
    have := clsRun_of (ws ++ [c] ++ ds ++ fr) ws2 r false SPCc
      (fun x hx => by rw [hsp]; exact h.ws2_space x hx)
      (fun x hx => by rw [hsp]; exact h.r_head x hx)
    have e : T = (ws ++ [c] ++ ds ++ fr) ++ ws2 ++ r := by rw [hT]; simp
    rw [← e] at this
    exact this.cast (by simp only [List.length_append, List.length_cons, List.length_nil])
      (by simp only [List.length_append, List.length_cons, List.length_nil])
  -- the parameters
  have h6 : ClsRun ⟨T.toArray⟩ true LFc (ws.length + 1 + ds.length + fr.length + ws2.length) T.length := by
    have := clsRun_of (ws ++ [c] ++ ds ++ fr ++ ws2) r [] true LFc
      (fun x hx => by
        have := h.no_lf x hx
        simp [CC.test]; exact this)
      (fun x hx => by simp at hx)
    have e : T = (ws ++ [c] ++ ds ++ fr ++ ws2) ++ r ++ [] := by rw [hT]; simp
    rw [← e] at this
    have e2 : (ws ++ [c] ++ ds ++ fr ++ ws2).length + r.length = T.length := by
      rw [hlen]; simp only [List.length_append, List.length_cons, List.length_nil]
    rw [e2] at this
    exact this.cast (by simp only [List.length_append, List.length_cons, List.length_nil]) rfl
  have hd : ws.length + 1 < ws.length + 1 + ds.length := by
    have := List.length_pos_iff.mpr h.ds_ne; omega
  have := retractParams_eval ⟨T.toArray⟩ ws.length _ _ _ h1 h2 hd h3 h4 h5 (by simpa using h6)
  simpa using this


/-- **`GCODE_PARAMS_REGEX.sub("\\1", originalCommand)` returns exactly the parameters** of a
firmware-retraction text: everything after the code word and the blanks that follow it, for every
spelling of the code word (either case, leading blanks, fraction) -/
theorem retractParams_spec {ws : Text} {c : Char} {ds fr ws2 r : Text} (h : FwText ws c ds fr ws2 r) :
    retractParams (ws ++ c :: ds ++ fr ++ ws2 ++ r) = r := by
  have hm := retractParams_match h _ rfl
  unfold retractParams
  rw [hm]
  simp only [capText, capOf, List.find?, beq_self_eq_true, Option.map_some, Option.getD_some,
    List.drop_length, List.append_nil]
  have e : ws ++ c :: ds ++ fr ++ ws2 ++ r = (ws ++ [c] ++ ds ++ fr ++ ws2) ++ r ++ [] := by simp
  rw [e]
  exact NormCmd.slice_at _ _ _ _ _ (by simp only [List.length_append, List.length_cons, List.length_nil])
    (by simp only [List.length_append, List.length_cons, List.length_nil, Nat.add_zero])

/-- the text of a synthesised firmware retraction / recovery: the code `G10` / `G11` followed by
exactly the parameters of the retraction it stands for -/
theorem render_fw {α : Type} (nt : α → Text) (recover : Bool) {ws : Text} {c : Char} {ds fr ws2 r : Text}
    (h : FwText ws c ds fr ws2 r) :
    render nt (.fw recover (ws ++ c :: ds ++ fr ++ ws2 ++ r)) =
      .ok (if r.isEmpty then (if recover then "G11" else "G10").toList
           else (if recover then "G11" else "G10").toList ++ [' '] ++ r) := by
  simp only [render, retractParams_spec h]

/-- non-vacuity: `G10 S1` and the lower-case, indented spelling ` g10  s1` have the shape -/
example : FwText [] 'G' ['1', '0'] [] [' '] ['S', '1'] := by
  constructor <;> simp [fwSpace, fwLetter, fwDigit, CC.test]
example : FwText [' '] 'g' ['1', '0'] [] [' ', ' '] ['s', '1'] := by
  constructor <;> simp [fwSpace, fwLetter, fwDigit, CC.test]
example : retractParams " g10  s1".toList = "s1".toList :=
  retractParams_spec (ws := [' ']) (c := 'g') (ds := ['1', '0']) (fr := []) (ws2 := [' ', ' ']) (r := ['s', '1'])
    (by constructor <;> simp [fwSpace, fwLetter, fwDigit, CC.test])

end ERP
