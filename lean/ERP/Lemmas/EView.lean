import ERP.Lemmas.StepInv
import Mathlib.Tactic.Linarith
/-! # The extruder side of the reference printer

What a printer does to its E axis, its filament counters and its firmware-retraction flag depends
only on those (`Printer.ev`), never on X/Y/Z. -/
namespace ERP
open T Spec
set_option linter.unusedSectionVars false
set_option linter.unusedSimpArgs false
variable {α : Type} [Field α] [LinearOrder α] [IsStrictOrderedRing α] [MathOps α] [MathSpec α]

/-- extruder view of a printer -/
structure EV (α : Type) where
  e : Axis α
  fil : α
  hw : α
  fw : Bool

def Spec.Printer.ev (p : Printer α) : EV α := ⟨p.pos.e, p.fil, p.hw, p.fwRetracted⟩

def EV.depth (v : EV α) : α := v.hw - v.fil

theorem ev_depth (p : Printer α) : p.ev.depth = p.depth := rfl

/-- a move with an optional E word -/
def EV.lin (v : EV α) (e : Option α) : EV α :=
  let ea := moveAxis v.e e
  let fil := v.fil + (coord ea - coord v.e)
  { v with e := ea, fil := fil, hw := maxA v.hw fil }

/-- `G92 E<x>` -/
def EV.setE (v : EV α) (x : α) : EV α :=
  { v with e := { v.e with current := some (x * v.e.unitMultiplier + (v.e.offset + v.e.homeOffset)) } }

def EV.exec (g90e : Bool) (inch : α) (v : EV α) (code : Code) (w : List (Char × Option α)) : EV α :=
  match code with
  | .G0 | .G1 => v.lin (lastValue w 'E')
  | .G2 | .G3 =>
    if !((lastValue w 'I').getD 0 == 0) || !((lastValue w 'J').getD 0 == 0) then v.lin (lastValue w 'E') else v
  | .G92 => match lastValue w 'E' with | some x => v.setE x | none => v
  | .G90 => if g90e then { v with e := v.e.setAbsoluteMode true } else v
  | .G91 => if g90e then { v with e := v.e.setAbsoluteMode false } else v
  | .G20 => { v with e := v.e.setUnitMultiplier inch }
  | .G21 => { v with e := v.e.setUnitMultiplier 1 }
  | .G10 => if hasLetter w 'P' || hasLetter w 'L' then v else { v with fw := true }
  | .G11 => { v with fw := false }
  | .M206 | .G28 | .other _ => v

def EV.out (g90e : Bool) (inch : α) (v : EV α) : Out α → EV α
  | .orig c => v.exec g90e inch (Code.ofString c.code) c.words
  | .script _ _ => v
  | .g92e e => v.setE e
  | .g0z _ _ => v.lin none
  | .g0xy _ _ _ => v.lin none
  | .g1fe _ e => v.lin (some e)
  | .fw recover _ => { v with fw := !recover }
  | .merged _ _ => v

def EV.outs (g90e : Bool) (inch : α) (v : EV α) (l : List (Out α)) : EV α := l.foldl (EV.out g90e inch) v

theorem ev_linear (p : Printer α) (x y z e : Option α) : (p.linear x y z e).ev = p.ev.lin e := rfl

theorem ev_exec (g90e : Bool) (inch : α) (p : Printer α) (code : Code) (w : List (Char × Option α)) :
    (p.exec g90e inch code w).ev = p.ev.exec g90e inch code w := by
  cases code <;> simp only [Printer.exec, EV.exec] <;>
    first
    | rfl
    | (split <;> rfl)
    | (cases g90e <;> rfl)
    | (cases lastValue w 'E' <;> rfl)

theorem ev_execOut (g90e : Bool) (inch : α) (p : Printer α) (o : Out α) :
    (p.execOut g90e inch o).ev = p.ev.out g90e inch o := by
  cases o <;> simp only [Printer.execOut, EV.out] <;> first | rfl | exact ev_exec _ _ _ _ _

theorem ev_execOuts (g90e : Bool) (inch : α) (l : List (Out α)) :
    ∀ p : Printer α, (p.execOuts g90e inch l).ev = p.ev.outs g90e inch l := by
  induction l with
  | nil => intro p; rfl
  | cons o rest ih =>
    intro p
    simp only [Printer.execOuts, EV.outs, List.foldl_cons]
    have := ih (p.execOut g90e inch o)
    simp only [Printer.execOuts, EV.outs] at this
    rw [this, ev_execOut]

theorem EV.outs_nil (g90e : Bool) (inch : α) (v : EV α) : v.outs g90e inch [] = v := rfl
theorem EV.outs_cons (g90e : Bool) (inch : α) (v : EV α) (o : Out α) (l : List (Out α)) :
    v.outs g90e inch (o :: l) = (v.out g90e inch o).outs g90e inch l := rfl
theorem EV.outs_append (g90e : Bool) (inch : α) (v : EV α) (l1 l2 : List (Out α)) :
    v.outs g90e inch (l1 ++ l2) = (v.outs g90e inch l1).outs g90e inch l2 := by
  simp [EV.outs, List.foldl_append]

end ERP
