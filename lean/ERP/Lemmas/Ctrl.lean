import ERP.Lemmas.StepInv
/-! # Control state (`excluding`, `lastPosition`, `pendingCommands`, enabled flag, regions) after a command -/
namespace ERP
open T Spec
set_option linter.unusedSectionVars false
set_option linter.unusedSimpArgs false

variable {α : Type} [Field α] [LinearOrder α] [IsStrictOrderedRing α] [MathOps α] [MathSpec α]

/-- did the command test a point that is excluded? (`false` for non-moves) -/
def hitOf (s : FState α) (ep fr fz : Option α) (xy : List (Option α × Option α)) : Bool :=
  T.isMoveOf fz xy && (T.isAnyLoop (T.applyEZF s ep fr fz) xy false).2

structure CtrlSpec (s s' : FState α) (isMove hit : Bool) : Prop where
  regions : s'.excludedRegions = s.excludedRegions
  enabled : s'.exclusionEnabled = s.exclusionEnabled
  excluding : s'.excluding = if isMove then hit else s.excluding
  lastPos : s'.lastPosition = if hit && !s.excluding then some s.position else s.lastPosition
  pending : s'.pendingCommands = if isMove && !hit && s.excluding then [] else s.pendingCommands

theorem plm_ctrl (cfg : Config) (s : FState α) (cmd : Cmd α) (ep fr fz : Option α)
    (xy : List (Option α × Option α)) (h : WF s) :
    CtrlSpec s (T.processLinearMoves cfg s cmd ep fr fz xy).1 (T.isMoveOf fz xy) (hitOf s ep fr fz xy) := by
  have hs1 := applyEZF_WF s ep fr fz h
  have hf1 : (T.applyEZF s ep fr fz).excludedRegions = s.excludedRegions ∧
      (T.applyEZF s ep fr fz).exclusionEnabled = s.exclusionEnabled ∧
      (T.applyEZF s ep fr fz).excluding = s.excluding ∧
      (T.applyEZF s ep fr fz).lastPosition = s.lastPosition ∧
      (T.applyEZF s ep fr fz).pendingCommands = s.pendingCommands := by
    unfold T.applyEZF; cases fr <;> exact ⟨rfl, rfl, rfl, rfl, rfl⟩
  simp only [T.processLinearMoves, toResult_fst, hitOf]
  generalize T.applyEZF s ep fr fz = s1 at *
  obtain ⟨f1, f2, f3, f4, f5⟩ := hf1
  generalize T.deltaEOf s ep = dE
  by_cases hm : T.isMoveOf fz xy = true
  · simp only [hm, Bool.not_true, Bool.false_eq_true, if_false, T.moveBody, Bool.true_and, if_true]
    have hloop := isAnyLoop_pos xy s1 false
    obtain ⟨hw2, _, _⟩ := isAnyLoop_WF xy s1 false hs1
    generalize T.isAnyLoop s1 xy false = rr at *
    obtain ⟨s2, anyEx⟩ := rr
    simp only at hloop hw2 ⊢
    have g1 : s2.excludedRegions = s.excludedRegions := by rw [hloop]; exact f1
    have g2 : s2.exclusionEnabled = s.exclusionEnabled := by rw [hloop]; exact f2
    have g3 : s2.excluding = s.excluding := by rw [hloop]; exact f3
    have g4 : s2.lastPosition = s.lastPosition := by rw [hloop]; exact f4
    have g5 : s2.pendingCommands = s.pendingCommands := by rw [hloop]; exact f5
    by_cases ha : anyEx = true
    · simp only [ha, if_true, Bool.not_true, Bool.false_and, Bool.true_and, Bool.false_eq_true, if_false]
      obtain ⟨hspec, _⟩ := processExcludedMove_spec cfg s2 cmd dE hw2
      generalize T.processExcludedMove cfg s2 cmd dE = r2 at *
      obtain ⟨s3, c3⟩ := r2
      simp only at hspec ⊢
      have q1 : s3.excludedRegions = s.excludedRegions := by rw [hspec]; exact g1
      have q2 : s3.exclusionEnabled = s.exclusionEnabled := by rw [hspec]; exact g2
      have q3 : s3.excluding = true := by rw [hspec]
      have q4 : s3.lastPosition = if s2.excluding then s2.lastPosition else some s2.position := by rw [hspec]
      have q5 : s3.pendingCommands = s.pendingCommands := by rw [hspec]; exact g5
      by_cases hexc : s.excluding = true
      · have hc : ¬ ((s3.excluding && !s2.excluding) = true) := by simp [g3, hexc]
        rw [if_neg hc]
        refine ⟨q1, q2, q3, ?_, q5⟩
        rw [q4, g3, hexc, if_pos rfl, g4]; simp
      · have hexc' : s.excluding = false := by simpa using hexc
        have hc : (s3.excluding && !s2.excluding) = true := by simp [q3, g3, hexc']
        rw [if_pos hc]
        refine ⟨q1, q2, q3, ?_, q5⟩
        simp [hexc']
    · have ha' : anyEx = false := by simpa using ha
      subst ha'
      simp only [Bool.false_eq_true, if_false, Bool.false_and, Bool.not_false, Bool.true_and]
      by_cases hexc : s2.excluding = true
      · rw [if_pos hexc, exitExcludedRegion_state, if_pos hexc]
        have hes : s.excluding = true := by rw [← g3]; exact hexc
        exact ⟨g1, g2, rfl, g4, by simp [hes]⟩
      · have hexc' : s2.excluding = false := by simpa using hexc
        have hes : s.excluding = false := by rw [← g3]; exact hexc'
        simp only [hexc', Bool.false_eq_true, if_false, hes]
        have key : ∀ s' : FState α, s' = { s2 with lastRetraction := s'.lastRetraction } →
            CtrlSpec s s' true false := by
          intro s' hs'
          refine ⟨by rw [hs']; exact g1, by rw [hs']; exact g2, by rw [hs']; simpa using hexc', ?_, ?_⟩
          · rw [hs']; simpa using g4
          · rw [hs']; simpa [hes] using g5
        have k2 := key s2 rfl
        split
        · have hfr := recoverIfNeeded_frame s2 cmd false hw2
          generalize T.recoverRetractionIfNeeded s2 cmd false = r3 at *
          cases s2.lastRetraction with
          | none => simpa [hes] using key r3.1 hfr
          | some lr =>
            simp only
            split <;> simpa [hes] using key r3.1 hfr
        · simpa [hes] using k2
  · have hm' : T.isMoveOf fz xy = false := by simpa using hm
    simp only [hm', Bool.not_false, if_true, Bool.false_and, Bool.false_eq_true, if_false]
    rw [nonMoveBody_fst, processNonMove_frame s1 cmd dE hs1]
    exact ⟨f1, f2, f3, f4, f5⟩

end ERP

namespace ERP
open T Spec
set_option linter.unusedSectionVars false
set_option linter.unusedSimpArgs false
variable {α : Type} [Field α] [LinearOrder α] [IsStrictOrderedRing α] [MathOps α] [MathSpec α]

/-- the parts of the control state no command other than a move can change -/
structure SameCtrl (s s' : FState α) : Prop where
  regions : s'.excludedRegions = s.excludedRegions
  enabled : s'.exclusionEnabled = s.exclusionEnabled
  excluding : s'.excluding = s.excluding
  lastPos : s'.lastPosition = s.lastPosition

theorem SameCtrl.refl (s : FState α) : SameCtrl s s := ⟨rfl, rfl, rfl, rfl⟩

theorem SameCtrl.of_frame {s s' : FState α} (h : s' = { s with lastRetraction := s'.lastRetraction }) :
    SameCtrl s s' := by
  refine ⟨?_, ?_, ?_, ?_⟩ <;> rw [h]

theorem processExtended_ctrl (cfg : Config) (s : FState α) (cmd : Cmd α) (g : String) :
    SameCtrl s (s.processExtendedGcode cfg cmd g).1 := by
  unfold FState.processExtendedGcode
  split
  · split
    · rename_i m _
      unfold FState.processExtendedGcodeEntry
      cases m <;> simp only
      · exact SameCtrl.refl s
      · split <;> exact ⟨rfl, rfl, rfl, rfl⟩
      · exact ⟨rfl, rfl, rfl, rfl⟩
      · exact ⟨rfl, rfl, rfl, rfl⟩
    · exact SameCtrl.refl s
  · exact SameCtrl.refl s

/-- commands other than G0–G3 never open or close an episode -/
theorem nonmove_ctrl (cfg : Config) (inch : α) (s : FState α) (g : String) (cmd : Cmd α) (h : WF s)
    (hg : Code.ofString g ≠ .G0 ∧ Code.ofString g ≠ .G1 ∧ Code.ofString g ≠ .G2 ∧ Code.ofString g ≠ .G3) :
    SameCtrl s (T.handleGcode cfg inch s g cmd).1 := by
  obtain ⟨n0, n1, n2, n3⟩ := hg
  unfold T.handleGcode
  generalize Code.ofString g = c at *
  cases c with
  | G0 => exact absurd rfl n0
  | G1 => exact absurd rfl n1
  | G2 => exact absurd rfl n2
  | G3 => exact absurd rfl n3
  | G10 =>
    simp only [T.handleG10]
    split
    · exact SameCtrl.refl s
    · rw [toResult_fst]; exact SameCtrl.of_frame (recordRetraction_frame _ _ h)
  | G11 => simp only [T.handleG11]; rw [toResult_fst]; exact SameCtrl.of_frame (recoverIfNeeded_frame _ _ _ h)
  | G20 => exact ⟨rfl, rfl, rfl, rfl⟩
  | G21 => exact ⟨rfl, rfl, rfl, rfl⟩
  | G28 =>
    simp only [handleG28]
    exact ⟨rfl, rfl, rfl, rfl⟩
  | G90 => simp only [FState.setAbsoluteMode]; split <;> exact ⟨rfl, rfl, rfl, rfl⟩
  | G91 => simp only [FState.setAbsoluteMode]; split <;> exact ⟨rfl, rfl, rfl, rfl⟩
  | G92 => exact ⟨rfl, rfl, rfl, rfl⟩
  | M206 => exact ⟨rfl, rfl, rfl, rfl⟩
  | other n => exact processExtended_ctrl cfg s cmd g

/-- while exclusion is disabled no tested point is ever "excluded" -/
theorem disabled_no_hit (s : FState α) (ep fr fz : Option α) (xy : List (Option α × Option α))
    (hdis : s.exclusionEnabled = false) : hitOf s ep fr fz xy = false := by
  unfold hitOf
  by_cases h : (T.isAnyLoop (T.applyEZF s ep fr fz) xy false).2 = true
  · rcases isAnyLoop_enabled xy _ false h with hh | hh
    · cases hh
    · have : (T.applyEZF s ep fr fz).exclusionEnabled = s.exclusionEnabled := (applyEZF_frame s ep fr fz).2.1
      rw [this, hdis] at hh; cases hh
  · simp [h]

/-- what reaches the printer for a move that is not excluded while no episode is open: E-only
commands (an owed recovery) followed by the command itself — never suppressed -/
theorem plm_forwarded (cfg : Config) (s : FState α) (cmd : Cmd α) (ep fr fz : Option α)
    (xy : List (Option α × Option α)) (h : WF s) (hm : T.isMoveOf fz xy = true)
    (hex : s.excluding = false) (hhit : hitOf s ep fr fz xy = false) :
    ∃ pre, fwdOf cmd (T.processLinearMoves cfg s cmd ep fr fz xy).2 = pre ++ [.orig cmd] ∧
      ∀ o ∈ pre, EOnly o := by
  have hs1 := applyEZF_WF s ep fr fz h
  have f3 : (T.applyEZF s ep fr fz).excluding = s.excluding := (applyEZF_frame s ep fr fz).1
  simp only [hitOf, hm, Bool.true_and] at hhit
  simp only [T.processLinearMoves, fwdOf_toResult, hm, Bool.not_true, Bool.false_eq_true, if_false,
    T.moveBody, hhit]
  obtain ⟨hw2, g3, _⟩ := isAnyLoop_WF xy _ false hs1
  generalize (T.isAnyLoop (T.applyEZF s ep fr fz) xy false).1 = s2 at *
  have hexc' : s2.excluding = false := by rw [g3, f3]; exact hex
  simp only [hexc', Bool.false_eq_true, if_false]
  split
  · obtain ⟨pre, hpre, hE⟩ := (recoverIfNeeded_outs s2 cmd false).2 hexc'
    generalize T.recoverRetractionIfNeeded s2 cmd false = r3 at *
    cases s2.lastRetraction with
    | none => exact ⟨pre, hpre, hE⟩
    | some lr =>
      simp only
      split
      · rw [hpre]
        refine ⟨pre ++ [Out.g92e (n2lAbs r3.1.position.e (cur s.position.e))], ?_, ?_⟩
        · simp [insertBeforeLast_snoc]
        · intro o ho
          rcases List.mem_append.mp ho with ho | ho
          · exact hE o ho
          · simp at ho; subst ho; trivial
      · exact ⟨pre, hpre, hE⟩
  · exact ⟨[], by simp, by simp⟩

end ERP
