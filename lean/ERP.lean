-- This module serves as the root of the `ERP` library.
-- Import modules here that should be built as part of the library.
import ERP.Basic
