#!/bin/bash
# Build the framework offline from files on disk: generated Lean files, all proofs, the driver.
set -e
cd "$(dirname "$0")"
export PATH="/opt/veriftools/lean/bin:$PATH"
mkdir -p .work evidence replays
/venv/bin/python -W ignore harness/translate.py lean/ERP/Gen
cd lean
lake build ERP erpdrv
