"""Geometry oracles: C17 (region predicates vs exact rational arithmetic), C16 (arc sampling),
C08 (decision invariance under re-encoding). Implementation side only."""
import math
from fractions import Fraction as Fr

from . import impl, gen, oracle, guard


# ------------------------------------------------------------------------------------- C17

def exact_contains(spec, x, y):
    """(inside, margin-ambiguous) with exact rationals; spec as given to the constructor."""
    x, y = Fr(x), Fr(y)
    if spec[0] == "R":
        x1, x2 = sorted((Fr(spec[2]), Fr(spec[4])))
        y1, y2 = sorted((Fr(spec[3]), Fr(spec[5])))
        return (x1 <= x <= x2 and y1 <= y <= y2), False
    cx, cy, r = Fr(spec[2]), Fr(spec[3]), Fr(spec[4])
    d2 = (x - cx) ** 2 + (y - cy) ** 2
    inside = r >= 0 and d2 <= r * r
    # float hypot is rounded: ambiguous when d is within 4 ulp of r
    d = math.sqrt(float(d2))
    amb = abs(d - float(r)) <= 4 * math.ulp(max(d, abs(float(r)), 1e-300))
    return inside, amb


@guard.violation_on_hang(lambda m: [m])
def c17_point(spec, x, y):
    r = impl.make_region(spec)
    got = bool(r.containsPoint(x, y))
    want, amb = exact_contains(spec, x, y)
    if got != want and not amb:
        return ["containsPoint(%r,%r) of %r is %r, exact arithmetic says %r" % (x, y, spec, got, want)]
    if spec[0] == "R":
        sw = ("R", spec[1], spec[4], spec[5], spec[2], spec[3])
        for alt in (sw, ("R", spec[1], spec[4], spec[3], spec[2], spec[5])):
            if bool(impl.make_region(alt).containsPoint(x, y)) != got:
                return ["rectangle %r and its corner re-ordering %r disagree on (%r,%r)" % (spec, alt, x, y)]
    return []


def boundary_points(spec):
    if spec[0] == "R":
        x1, x2 = sorted((spec[2], spec[4])); y1, y2 = sorted((spec[3], spec[5]))
        xs = [x1, (x1 + x2) / 2, x2]; ys = [y1, (y1 + y2) / 2, y2]
        return [(x, y) for x in xs for y in ys]
    cx, cy, r = spec[2], spec[3], spec[4]
    if r < 0:
        return []
    pts = [(cx, cy), (cx + r, cy), (cx - r, cy), (cx, cy + r), (cx, cy - r)]
    for k in range(24):
        a = 2 * math.pi * k / 24
        pts.append((cx + r * (1 - 1e-7) * math.cos(a), cy + r * (1 - 1e-7) * math.sin(a)))
    return pts


@guard.violation_on_hang(lambda m: [m])
def c17_contains_region(a, b):
    """soundness: A.containsRegion(B) -> every point of B is a point of A"""
    ra, rb = impl.make_region(a), impl.make_region(b)
    if not ra.containsRegion(rb):
        return []
    out = []
    for (x, y) in boundary_points(b):
        inb, ambb = exact_contains(b, x, y)
        if not inb:
            continue
        ina, amba = exact_contains(a, x, y)
        if not ina and not amba:
            # tolerate points within 1e-6 relative of A's border
            if not gen.in_region(a, x, y, -1e-6 * (1 + abs(x) + abs(y))):
                out.append("%r.containsRegion(%r) is True but (%r,%r) of the inner region is outside the outer one"
                           % (a, b, x, y))
                break
    return out


# ------------------------------------------------------------------------------------- C16

@guard.violation_on_hang(lambda m: [m])
def c16_arc(start, centre, sweep, cw):
    """planArc for an arc given by start, centre, sweep in (0, 2pi]."""
    h = impl.make_handlers({})
    impl.call_gcode(h, "G28")
    impl.call_gcode(h, "G1 X%r Y%r Z1" % (start[0], start[1]))
    i, j = centre[0] - start[0], centre[1] - start[1]
    rad = math.hypot(i, j)
    a0 = math.atan2(-j, -i)
    a1 = a0 + (-sweep if cw else sweep)
    full = abs(sweep - 2 * math.pi) < 1e-12
    ex, ey = (start[0], start[1]) if full else (centre[0] + rad * math.cos(a1), centre[1] + rad * math.sin(a1))
    try:
        pts = h.planArc(ex, ey, i, j, cw)
    except Exception as exc:  # pylint: disable=broad-except
        return ["planArc raised %s" % type(exc).__name__]
    pairs = [(pts[k], pts[k + 1]) for k in range(0, len(pts), 2)]
    out = []
    n = len(pairs)
    tol = 1e-7 * max(1.0, rad)
    if pairs[-1] != (ex, ey):
        out.append("last sample %r is not the commanded end point %r" % (pairs[-1], (ex, ey)))
    prev = (start[0], start[1])
    for k, (x, y) in enumerate(pairs):
        if abs(math.hypot(x - centre[0], y - centre[1]) - rad) > tol:
            out.append("sample %d %r is not on the circle (radius %r)" % (k, (x, y), rad)); break
        if math.hypot(x - prev[0], y - prev[1]) > 1.0 + 1e-7:
            out.append("samples %d and %d are %r apart" % (k - 1, k, math.hypot(x - prev[0], y - prev[1]))); break
        want = a0 + (-1 if cw else 1) * sweep * (k + 1) / n
        if k < n - 1 and math.hypot(x - (centre[0] + rad * math.cos(want)), y - (centre[1] + rad * math.sin(want))) > tol:
            out.append("sample %d %r is not at angle a0 %s %d/%d of the sweep" % (k, (x, y), "-" if cw else "+", k + 1, n)); break
        prev = (x, y)
    return out


# ------------------------------------------------------------------------------------- C08

def decision_trace(cfg, events):
    """per abstract-op decision: 'fwd' (forwarded unchanged), 'sup' (suppressed), 'syn' (replaced)."""
    res, h = oracle.run_events(cfg, events)
    return res, h


@guard.violation_on_hang(lambda m: [m])
def c08_reencode(r, regions, ops, variant, at_index):
    """Encode the abstract path `ops` plainly and with `variant` applied from position at_index on;
    compare per-op decisions and the final physical position."""
    from .refprinter import Printer

    def run(evs_by_op, cfg):
        phys = Printer(cfg.get("g90e", False))
        decisions = []
        h = impl.make_handlers(cfg)
        for (op_idx, evs) in evs_by_op:
            d = []
            for ev in evs:
                if ev[0] == "g":
                    res = impl.call_gcode(h, ev[1])
                    outs = oracle.forwarded(ev, res)
                    for o in outs:
                        phys.execute(o)
                    if res[0] == "err":
                        d.append("err")
                    elif res[0] == "none" or (res[0] == "list" and res[1] == [ev[1]]):
                        d.append("fwd")
                    elif res[0] == "ignore":
                        d.append("sup")
                    else:
                        d.append("syn:%d" % len([o for o in outs if o == ev[1]]))
            if op_idx is not None:
                decisions.append((op_idx, tuple(d), bool(h.state.excluding)))
        return decisions, phys

    def encode(with_variant):
        enc = gen.Encoder(nd=6)
        out = []
        shift = (0.0, 0.0)
        regs = list(regions)
        for idx, op in enumerate(ops):
            if with_variant and idx == at_index:
                if variant == "inch":
                    out.append((None, [("g", t) for t in enc.encode(("unit", "in"))]))
                elif variant == "rel":
                    out.append((None, [("g", t) for t in enc.encode(("abs", False))]))
                elif variant == "inchrel":
                    out.append((None, [("g", t) for t in enc.encode(("unit", "in")) + enc.encode(("abs", False))]))
                elif variant == "g92":
                    out.append((None, [("g", t) for t in enc.encode(("g92xyz", 100.0, 50.0, 10.0))]))
            if op[0] in ("unit", "abs"):
                continue
            evs = [("g", t) for t in enc.encode(op)] if op[0] not in ("at", "addregion") else []
            out.append((idx, evs))
        return out
    cfg = {"regions": list(regions), "ext": dict(gen.DEFERRED_CFG)}
    base, pb = run(encode(False), cfg)
    var, pv = run(encode(True), cfg)
    out = []
    for (a, b) in zip(base, var):
        if a != b:
            out.append("op %d %r: base decision %r, %s-encoded decision %r" % (a[0], ops[a[0]], a[1:], variant, b[1:]))
            break
    if not out:
        for p, q in zip(pb.xyz(), pv.xyz()):
            if (p is None) != (q is None) or (p is not None and abs(p - q) > 1e-3):
                out.append("final physical position base %r, %s-encoded %r" % (pb.xyz(), variant, pv.xyz()))
                break
    if not out and abs(pb.fil - pv.fil) > 1e-2:
        # the extruder is part of where the printer physically ends up
        out.append("filament pushed: base %r mm, %s-encoded %r mm" % (pb.fil, variant, pv.fil))
    return out


@guard.violation_on_hang(lambda m: [m])
def c08_translate(regions, ops, vec):
    """Translate path and regions by vec: decisions must not change."""
    def shift_spec(s):
        if s[0] == "R":
            return ("R", s[1], s[2] + vec[0], s[3] + vec[1], s[4] + vec[0], s[5] + vec[1])
        return ("C", s[1], s[2] + vec[0], s[3] + vec[1], s[4])

    def shift_op(op):
        if op[0] == "move":
            return ("move", None if op[1] is None else op[1] + vec[0], None if op[2] is None else op[2] + vec[1]) + tuple(op[3:])
        return op

    def decisions(regs, path):
        cfg = {"regions": regs, "ext": dict(gen.DEFERRED_CFG)}
        enc = gen.Encoder(nd=6)
        h = impl.make_handlers(cfg)
        out = []
        for op in path:
            if op[0] in ("at", "addregion"):
                continue
            for t in enc.encode(op):
                res = impl.call_gcode(h, t)
                out.append((res[0] if res[0] != "list" else ("fwd" if res[1] == [t] else "syn"), bool(h.state.excluding)))
        return out
    # the homing position is the origin in both runs: start the translated path with a travel move
    a = decisions(list(regions), ops)
    b = decisions([shift_spec(s) for s in regions], [shift_op(o) for o in ops])
    for i, (x, y) in enumerate(zip(a, b)):
        if x != y:
            return ["command %d: decision %r, after translating path and regions by %r: %r" % (i, x, vec, y)]
    return []
