"""Correspondence check: the Lean model (Float instance, through the erpdrv line protocol) against
the implementation in /repo on the same operation sequences. Outputs and a full state digest are
compared after every operation."""
import os
import re
import subprocess
import struct

from . import impl
from .fmt import format_number

LEAN_DIR = os.path.join(os.path.dirname(os.path.dirname(os.path.abspath(__file__))), "lean")
DRIVER = os.path.join(LEAN_DIR, ".lake", "build", "bin", "erpdrv")

MARK = re.compile("\x01([0-9]+)\x02")


def run_driver(lines):
    """Feed all lines to the driver, return its output lines."""
    data = ("\n".join(lines) + "\n").encode("ascii")
    p = subprocess.run([DRIVER], input=data, stdout=subprocess.PIPE, stderr=subprocess.PIPE,
                       timeout=3600)
    if p.returncode != 0:
        raise RuntimeError("driver failed: %s" % p.stderr.decode("utf-8", "replace")[:500])
    return p.stdout.decode("ascii").split("\n")[:-1]


def bits_to_float(n):
    return struct.unpack("<d", struct.pack("<Q", n))[0]


def demark(text):
    """Replace number markers by the reference plain-decimal rendering."""
    return MARK.sub(lambda m: format_number(bits_to_float(int(m.group(1)))), text)


def decode_list(s):
    if s == "":
        return []
    out = []
    for h in s.split(","):
        if h.startswith("ERR"):
            out.append(h)
        else:
            out.append(demark(impl.unhexs(h)))
    return out


def cfg_line(cfg):
    def script(v):
        if v is None:
            return "-"
        return ",".join(impl.hexs(x) for x in v) if v else "-"
    ext = cfg.get("ext") or {}
    ext_s = ",".join("%s:%s" % (k, m) for k, m in ext.items()) or "-"
    at = cfg.get("at")
    if at is None:
        at_s = "default"
    else:
        parts = []
        for (c, p, a) in at:
            if p is None:
                pi = "N"
            elif p in [x[1] for x in impl.DEFAULT_AT]:
                pi = str([x[1] for x in impl.DEFAULT_AT].index(p))
            else:
                from . import translate
                pi = "X" + translate.wire_pattern(p)
            parts.append("%s:%s:%s" % (impl.hexs(c), pi, a))
        at_s = ",".join(parts) or "-"
    return "cfg %d %s %s %s %s" % (1 if cfg.get("g90e") else 0, script(cfg.get("enter")),
                                   script(cfg.get("exit")), ext_s, at_s)


def region_line(spec):
    if spec[0] == "R":
        return "addr R %s %s %s %s %s" % (impl.hexs(spec[1]), impl.hexf(spec[2]), impl.hexf(spec[3]),
                                          impl.hexf(spec[4]), impl.hexf(spec[5]))
    return "addr C %s %s %s %s" % (impl.hexs(spec[1]), impl.hexf(spec[2]), impl.hexf(spec[3]),
                                   impl.hexf(spec[4]))


class FilterCase(object):
    """One program: cfg + events. Produces protocol lines and the implementation's expected
    replies; compare() checks the model's replies."""

    def __init__(self, cfg, events, name=""):
        self.cfg = cfg
        self.events = events
        self.name = name
        self.lines = []
        self.expect = []     # list of (kind, payload, digest, event index)

    def run_impl(self):
        cfg0 = dict(self.cfg)
        regions = cfg0.pop("regions", [])
        h = impl.make_handlers(cfg0)
        self.lines = [cfg_line(self.cfg), "new"]
        self.expect = [("raw", "ok", None, -1), ("raw", "ok", impl.state_digest(h.state), -1)]
        evs = [("addregion", r) for r in regions] + list(self.events)
        for idx, ev in enumerate(evs):
            k = ev[0]
            if k == "addregion":
                self.lines.append(region_line(ev[1]))
                try:
                    h.state.addRegion(impl.make_region(ev[1]))
                    self.expect.append(("raw", "ok", impl.state_digest(h.state), idx))
                except ValueError:
                    self.expect.append(("raw", "err value", impl.state_digest(h.state), idx))
            elif k == "delregion":
                self.lines.append("delr " + impl.hexs(ev[1]))
                removed = h.state.deleteRegion(ev[1])
                self.expect.append(("raw", "ok %d" % (1 if removed else 0), impl.state_digest(h.state), idx))
            elif k == "g":
                gcode, _sub = (ev[2], None) if len(ev) > 2 else impl.split_cmd(ev[1])
                if gcode is None:
                    continue
                self.lines.append("g %s %s" % (impl.hexs(ev[1]), impl.hexs(gcode)))
                r = impl.call_gcode(h, ev[1], gcode, _sub)
                if r[0] == "err":
                    self.expect.append(("err", r[1], None, idx))
                    break
                self.expect.append(("res", r, impl.state_digest(h.state), idx))
            elif k == "at":
                streaming = bool(ev[3]) if len(ev) > 3 else False
                self.lines.append("at %s %s %d" % (impl.hexs(ev[1]), impl.hexs(ev[2] or ""),
                                                   1 if streaming else 0))
                r = impl.call_at(h, ev[1], ev[2], streaming)
                if r[0] == "err":
                    self.expect.append(("err", r[1], None, idx))
                    break
                self.expect.append(("atres", r, impl.state_digest(h.state), idx))
            else:
                raise ValueError(ev)
        return self

    def n_out_lines(self):
        n = 0
        for (kind, _p, _d, _i) in self.expect:
            n += 1 if (kind == "raw" and _d is None) else 2
        return n

    def compare(self, out):
        """out: the driver's output lines for this case. Returns None or a mismatch dict."""
        pos = 0
        for (kind, payload, digest, idx) in self.expect:
            got = out[pos] if pos < len(out) else "<missing>"
            pos += 1
            ok = True
            want_s = None
            if kind == "raw":
                want_s = payload
                ok = got == payload
            elif kind == "err":
                want_s = "err " + payload
                ok = got == want_s
            elif kind == "res":
                r = payload
                if r[0] in ("none", "ignore"):
                    want_s = r[0]
                    ok = got == r[0]
                else:
                    want_s = "list %r" % (r[1],)
                    ok = got.startswith("list ") and decode_list(got[5:]) == r[1]
                    if not ok and got.startswith("list "):
                        got = "list %r" % (decode_list(got[5:]),)
            elif kind == "atres":
                want_s = "at %d %r" % (1 if payload[1] else 0, payload[2])
                parts = got.split(" ")
                ok = len(parts) >= 2 and parts[0] == "at" and parts[1] == ("1" if payload[1] else "0") \
                    and decode_list(parts[2] if len(parts) > 2 else "") == payload[2]
            if not ok:
                return {"event": idx, "field": "result", "impl": want_s, "model": got}
            if not (kind == "raw" and digest is None):
                gd = out[pos] if pos < len(out) else "<missing>"
                pos += 1
                if digest is not None and gd != "st " + digest:
                    return {"event": idx, "field": "state", "impl": digest,
                            "model": gd[3:], "diff": digest_diff(digest, gd[3:])}
        return None


def digest_diff(a, b):
    fa = dict(x.split("=", 1) for x in a.split(" ") if "=" in x)
    fb = dict(x.split("=", 1) for x in b.split(" ") if "=" in x)
    return sorted(k for k in set(fa) | set(fb) if fa.get(k) != fb.get(k))


def run_filter_cases(cases):
    """cases: list of FilterCase (run_impl already called). Returns list of (case, mismatch)."""
    lines = []
    for c in cases:
        lines.extend(c.lines)
    out = run_driver(lines)
    pos = 0
    bad = []
    for c in cases:
        n = c.n_out_lines()
        mm = c.compare(out[pos:pos + n])
        pos += n
        if mm is not None:
            bad.append((c, mm))
    return bad
