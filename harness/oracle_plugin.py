"""Plugin-level oracles (C10, C11, C12, C13, C15): a small reference state machine / list model
run next to the real plugin object. Twin of lean/ERP/Spec/Lifecycle.lean."""
import mock

from . import impl, suites, guard
from .gen import in_region

END_EVENTS = ("PRINT_DONE", "PRINT_FAILED", "PRINT_CANCELLING", "PRINT_CANCELLED", "ERROR")


def region_key(r):
    return impl.region_digest(r)


def sample_points(spec_or_region):
    """Points of a region (centre, edge midpoints, corners / compass points) for membership tests."""
    r = spec_or_region
    if isinstance(r, impl.RectangularRegion):
        xs = [r.x1, (r.x1 + r.x2) / 2, r.x2]
        ys = [r.y1, (r.y1 + r.y2) / 2, r.y2]
        return [(x, y) for x in xs for y in ys]
    pts = [(r.cx, r.cy)]
    import math
    for k in range(16):
        a = 2 * math.pi * k / 16
        for f in (1.0 - 1e-9, 0.5):
            pts.append((r.cx + f * r.r * math.cos(a), r.cy + f * r.r * math.sin(a)))
    return pts


def excluded(regions, x, y):
    return any(r.containsPoint(x, y) for r in regions)


@guard.violation_on_hang(lambda m: [m], before=suites.plugin_env)
def judge_plugin(st0, ops, props=None, classify=True):
    """Run ops on a real plugin; returns list of violation strings for the requested properties."""
    props = set(props or ["C10", "C11", "C12", "C13", "C15"])
    out = []
    unit = suites.make_plugin(st0)
    pm = unit._plugin_manager    # pylint: disable=protected-access
    active = False               # reference lifecycle automaton
    clear = st0["clear"]
    shrink = st0["shrink"]
    cur_settings = st0
    counter = [0]
    # reference printers: `virt` executes the file, `phys` what the hooks let through (C15:
    # the after-print prefix must re-synchronise the printer with the file)
    from .refprinter import Printer
    g90e = bool(st0.get("cfg", {}).get("g90e"))
    phys, virt = Printer(g90e), Printer(g90e)
    tracked_ok = [True]
    # C06 at plugin level: the commands of one print, as the filter oracle's event list
    seg = {"on": False}

    def seg_spec(reg):
        if isinstance(reg, impl.RectangularRegion):
            return ("R", reg.id, reg.x1, reg.y1, reg.x2, reg.y2)
        return ("C", reg.id, reg.cx, reg.cy, reg.r)

    def seg_open():
        c = dict(cur_settings.get("cfg") or {})
        seg.clear()
        seg.update(on=True, evs=[], res=[], cfg={
            "regions": [seg_spec(g) for g in unit.state.excludedRegions], "g90e": bool(c.get("g90e")),
            "enter": c.get("enter"), "exit": c.get("exit"), "ext": dict(c.get("ext") or {})})

    def seg_close(idx):
        if seg.get("on") and "C06" in props and seg["evs"]:
            from . import oracle
            try:
                vv = [x for x in oracle.judge(seg["cfg"], seg["evs"], seg["res"], ["C06"]) if x[0] == "C06"]
            except Exception:  # pylint: disable=broad-except
                vv = []
            for (_p, i, m) in vv[:2]:
                viol("C06", "print ending at step %d, command %d (%r): %s" % (idx, i, seg["evs"][i], m))
        seg["on"] = False

    def seg_add(ev, res):
        if seg.get("on"):
            seg["evs"].append(ev)
            seg["res"].append(res)

    def fresh_id():
        counter[0] += 1
        return "gen-%d" % counter[0]

    def viol(p, msg):
        if p in props:
            out.append("%s: %s" % (p, msg))

    with mock.patch("uuid.uuid4", side_effect=fresh_id):
        for idx, op in enumerate(ops):
            op = tuple(op)
            k = op[0]
            before_list = [region_key(r) for r in unit.state.excludedRegions]
            before_regions = list(unit.state.excludedRegions)
            before_n = pm.send_plugin_message.call_count
            before_state = impl.state_digest(unit.state)
            if k == "event":
                unit.on_event(suites.event_value(op[1]), suites.event_payload(op))
                if op[1] == "PRINT_STARTED":
                    seg_close(idx)
                    active = True
                    phys, virt = Printer(g90e), Printer(g90e)
                    tracked_ok[0] = True
                    seg_open()
                elif op[1] in END_EVENTS:
                    seg_close(idx)
                    active = False
                    if clear and unit.state.excludedRegions:
                        viol("C11", "step %d: %s with clear-after-print on left regions %r" % (
                            idx, op[1], [region_key(r) for r in unit.state.excludedRegions]))
                    if not clear and [region_key(r) for r in unit.state.excludedRegions] != before_list:
                        viol("C11", "step %d: %s with clear-after-print off changed the region list" % (idx, op[1]))
                elif op[1] == "FILE_SELECTED":
                    seg_close(idx)      # another file: regions and tracking start afresh
                    if unit.state.excludedRegions:
                        viol("C11", "step %d: FILE_SELECTED left regions defined" % idx)
                elif op[1] == "SETTINGS_UPDATED":
                    clear, shrink = cur_settings["clear"], cur_settings["shrink"]
                else:
                    if impl.state_digest(unit.state) != before_state:
                        viol("C11", "step %d: event %s changed the tracked state" % (idx, op[1]))
                if bool(unit._activePrintJob) != active:     # pylint: disable=protected-access
                    viol("C11", "step %d: after %s the plugin is %sactive, the lifecycle says %sactive" % (
                        idx, op[1], "" if unit._activePrintJob else "in", "" if active else "in"))  # pylint: disable=protected-access
            elif k == "save":
                seg_close(idx)          # scripts / deferred codes may change: judged up to here
                suites.apply_settings(unit, op[1])
                cur_settings = op[1]
                unit.on_event(suites.event_value("SETTINGS_UPDATED"), None)
                clear, shrink = cur_settings["clear"], cur_settings["shrink"]
            elif k == "api":
                anon, command, data = op[1], op[2], dict(op[3])
                with mock.patch("octoprint_excluderegion.current_user", suites.FakeUser(anon)):
                    try:
                        resp = unit.on_api_command(command, dict(data))
                    except Exception as exc:  # pylint: disable=broad-except
                        # the request fails (the client sees an error): like a rejected request it
                        # must leave the registry alone
                        resp = ("raised", type(exc).__name__)
                after_regions = list(unit.state.excludedRegions)
                after_list = [region_key(r) for r in after_regions]
                rejected = resp is not None
                if after_list != before_list and seg.get("on"):
                    if command == "addExcludeRegion" and len(after_regions) == len(before_regions) + 1:
                        seg_add(("addregion", seg_spec(after_regions[-1])), ("ok",))
                    elif command == "deleteExcludeRegion":
                        seg_add(("delregion", data.get("id")), ("ok",))
                    else:
                        seg_close(idx)  # geometry changed in place: judged up to here
                if (rejected or anon) and after_list != before_list:
                    viol("C13", "step %d: rejected/unauthenticated request %r changed the region list" % (idx, op))
                if rejected and after_list != before_list:
                    viol("C12", "step %d: refused request %r changed the region list" % (idx, op))
                if active and not shrink:
                    for r in before_regions:
                        for (x, y) in sample_points(r):
                            if excluded(before_regions, x, y) and not excluded(after_regions, x, y):
                                viol("C12", "step %d: after %r the point (%r,%r) of region %s is no longer excluded"
                                     % (idx, op, x, y, region_key(r)))
                                break
                    if command == "deleteExcludeRegion" and not rejected and not anon:
                        viol("C12", "step %d: delete accepted during an active print with shrinking off" % idx)
            elif k == "get":
                with mock.patch("flask.jsonify", side_effect=lambda **kw: kw):
                    payload = unit.on_api_get(None)
                got = [suites.region_dict_digest(d) for d in payload["excluded_regions"]]
                if got != [region_key(r) for r in unit.state.excludedRegions]:
                    viol("C13", "step %d: GET payload %r differs from the region list" % (idx, got))
            elif k == "gcode":
                try:
                    r = unit.handleGcodeQueuing(None, "queuing", op[1], None, op[2], None)
                except Exception as exc:  # pylint: disable=broad-except
                    r = ("raised", type(exc).__name__)
                if not active:
                    if r is not None:
                        viol("C11", "step %d: no print active but %r returned %r" % (idx, op[1], r))
                    if impl.state_digest(unit.state) != before_state:
                        viol("C11", "step %d: no print active but %r changed the tracked state" % (idx, op[1]))
                elif op[2]:
                    if isinstance(r, tuple) and r and r[0] == "raised":
                        seg_close(idx)
                    elif seg.get("on"):
                        # inside the filter oracle's dialect only: homed first; no origin shifts (K-D15),
                        # arcs (K-D5/K-D10) or homing in mid-print (K-D18)
                        words = op[1].upper().split()
                        if not seg["evs"] and op[1].strip() != "G28":
                            seg["on"] = False
                        elif op[2] in ("M206", "G2", "G3") or (op[2] == "G28" and seg["evs"]) or \
                                (op[2] == "G92" and any(w[0] in "XYZ" for w in words[1:])):
                            seg_close(idx)
                        else:
                            seg_add(("g", op[1]), ("none",) if r is None else
                                    (("list", [c for c in r]) if isinstance(r, list) else ("ignore",)))
                    try:
                        virt.execute(op[1])
                        if r is None:
                            phys.execute(op[1])
                        elif isinstance(r, list):
                            for c in r:
                                if c is not None:
                                    phys.execute(c)
                        elif isinstance(r, tuple) and r and r[0] == "raised":
                            tracked_ok[0] = False
                    except Exception:  # pylint: disable=broad-except
                        tracked_ok[0] = False
            elif k == "at":
                comm = impl.Comm(bool(op[3]))
                try:
                    unit.handleAtCommandQueuing(comm, "queuing", op[1], op[2])
                except Exception:  # pylint: disable=broad-except
                    pass
                try:
                    for c in comm.sent:
                        phys.execute(c)
                except Exception:  # pylint: disable=broad-except
                    tracked_ok[0] = False
                if active:
                    seg_add(("at", op[1], op[2], bool(op[3])), ("at", None, list(comm.sent)))
                if not active and (comm.sent or impl.state_digest(unit.state) != before_state):
                    viol("C11", "step %d: no print active but @%s %s had an effect" % (idx, op[1], op[2]))
            elif k == "script":
                was_excluding = bool(unit.state.excluding)
                pos = unit.state.position
                unknown_axis = any(a.current is None for a in (pos.X_AXIS, pos.Y_AXIS, pos.Z_AXIS))
                try:
                    r = unit.handleScriptHook(None, op[1], op[2])
                except Exception as exc:  # pylint: disable=broad-except
                    r = ("raised", type(exc).__name__)
                if r is not None:
                    seg_close(idx)      # the hook closed the episode: the print is judged up to here
                should = (op[1] == "gcode" and op[2] == "afterPrintDone" and active and was_excluding)
                if classify and should and unknown_axis and r == ("raised", "TypeError"):
                    # known finding K-D20: an episode is closed while an axis position is still unknown
                    # (no homing since the print started); its recorded replay runs on every check
                    pass
                elif should:
                    if not (isinstance(r, tuple) and len(r) == 2 and r[1] is None and isinstance(r[0], list) and r[0]):
                        viol("C15", "step %d: excluding at print end but the hook returned %r" % (idx, r))
                    if unit.state.excluding:
                        viol("C15", "step %d: still excluding after the after-print hook" % idx)
                    if isinstance(r, tuple) and len(r) == 2 and isinstance(r[0], list):
                        # "exactly once": one re-synchronisation of E, one X/Y travel, at most one Z
                        # move, the exit script as configured — nothing of earlier episodes
                        pre = [c for c in r[0] if isinstance(c, str)]
                        n_e = len([c for c in pre if c.startswith("G92 E")])
                        n_xy = len([c for c in pre if c.startswith("G0 ") and " X" in c])
                        n_z = len([c for c in pre if c.startswith("G0 ") and " Z" in c and " X" not in c])
                        exit_lines = list((cur_settings.get("cfg") or {}).get("exit") or [])
                        n_exit = [pre.count(t) for t in set(exit_lines)]
                        if n_e != 1 or n_xy != 1 or n_z > 1 or any(k != exit_lines.count(t)
                                                                   for k, t in zip(n_exit, set(exit_lines))):
                            viol("C15", "step %d: the after-print prefix %r is not one episode's clean-up "
                                        "(G92 E: %d, G0 X/Y: %d, G0 Z: %d, exit script %r)"
                                 % (idx, pre, n_e, n_xy, n_z, exit_lines))
                    if isinstance(r, tuple) and len(r) == 2 and isinstance(r[0], list) and tracked_ok[0] \
                            and not unknown_axis and virt.unit == 1.0:
                        try:
                            for c in r[0]:
                                phys.execute(c)
                            a, b = phys.xyz(), virt.xyz()
                            if any((p is None) != (q is None) or (p is not None and abs(p - q) > 1e-6)
                                   for p, q in zip(a, b)):
                                viol("C15", "step %d: after the hook's re-synchronisation moves %r the printer is at "
                                            "%r, the file at %r" % (idx, r[0], a, b))
                        except Exception:  # pylint: disable=broad-except
                            pass
                else:
                    if r is not None:
                        viol("C15", "step %d: hook %r/%r contributed %r (active=%r excluding=%r)" % (
                            idx, op[1], op[2], r, active, was_excluding))
                    if impl.state_digest(unit.state) != before_state:
                        viol("C15", "step %d: hook %r/%r changed the state" % (idx, op[1], op[2]))
                if not active and r is not None:
                    viol("C11", "step %d: script hook contributed %r while no print is active" % (idx, r))
            # ---- C13 after every step
            ids = [r.id for r in unit.state.excludedRegions]
            if len(ids) != len(set(ids)):
                viol("C13", "step %d: region ids not unique: %r" % (idx, ids))
            after_list = [region_key(r) for r in unit.state.excludedRegions]
            n_new = pm.send_plugin_message.call_count - before_n
            if after_list != before_list:
                if n_new != 1:
                    viol("C13", "step %d: region list changed by %r but %d notifications were sent" % (idx, op, n_new))
            if n_new > 1:
                viol("C13", "step %d: %d notifications for one step" % (idx, n_new))
            if n_new >= 1:
                args = pm.send_plugin_message.call_args_list[-1][0]
                payload = args[1]
                got = [suites.region_dict_digest(d) for d in payload.get("excluded_regions", [])]
                if got != after_list or payload.get("event") != "ExcludedRegionsChanged":
                    viol("C13", "step %d: notification payload %r differs from the region list %r" % (idx, got, after_list))
        seg_close(len(ops))
    return out


@guard.violation_on_hang(lambda m: [m], before=suites.plugin_env)
def c10_fresh(st0, history, program):
    """C10: outputs after PRINT_STARTED equal those of a freshly initialised plugin with the same
    regions and settings. history/program: plugin ops; program only gcode/at/script ops."""
    used = suites.make_plugin(st0)
    cur = st0
    with mock.patch("uuid.uuid4", side_effect=lambda: "u"):
        for op in history:
            op = tuple(op)
            try:
                if op[0] == "event":
                    used.on_event(suites.event_value(op[1]), suites.event_payload(op))
                elif op[0] == "save":
                    suites.apply_settings(used, op[1]); cur = op[1]
                    used.on_event(suites.event_value("SETTINGS_UPDATED"), None)
                elif op[0] == "api":
                    with mock.patch("octoprint_excluderegion.current_user", suites.FakeUser(op[1])):
                        used.on_api_command(op[2], dict(op[3]))
                elif op[0] == "gcode":
                    used.handleGcodeQueuing(None, "queuing", op[1], None, op[2], None)
                elif op[0] == "at":
                    used.handleAtCommandQueuing(impl.Comm(bool(op[3])), "queuing", op[1], op[2])
                elif op[0] == "script":
                    used.handleScriptHook(None, op[1], op[2])
            except Exception:  # pylint: disable=broad-except
                pass
    fresh = suites.make_plugin(cur)
    for r in used.state.excludedRegions:
        fresh.state.addRegion(type(r)(r))
    outs = []
    for unit in (used, fresh):
        unit.on_event(suites.event_value("PRINT_STARTED"), None)
        o = []
        for op in program:
            op = tuple(op)
            try:
                if op[0] == "gcode":
                    o.append(repr(unit.handleGcodeQueuing(None, "queuing", op[1], None, op[2], None)))
                elif op[0] == "at":
                    comm = impl.Comm(False)
                    unit.handleAtCommandQueuing(comm, "queuing", op[1], op[2])
                    o.append(repr(comm.sent))
                elif op[0] == "script":
                    o.append(repr(unit.handleScriptHook(None, op[1], op[2])))
            except Exception as exc:  # pylint: disable=broad-except
                o.append("raised " + type(exc).__name__)
        outs.append(o)
    for i, (a, b) in enumerate(zip(outs[0], outs[1])):
        if a != b:
            return ["C10: program step %d (%r): used plugin gives %s, fresh plugin gives %s" % (
                i, program[i], a, b)]
    return []
