"""Property registry: Lean module and theorem names, correspondence suites, oracle profile.

`theorems` are the names the axiom audit requires to exist (deleting or renaming one breaks the
check). Suite sizes are (quick, thorough) numbers of cases."""

TRUSTED_BASE = [
    "Lean 4.33 kernel; axioms limited to propext, Classical.choice, Quot.sound (audited per theorem on every run); no native_decide / bv_decide / sorry",
    "statements: lean/ERP/Spec/* and the property files lean/ERP/Properties/* (the Lean reference printer and reference reader are cross-checked against the Python ones of the oracles by the printer / text suites)",
    "translator harness/translate.py (regexes, constants, handler/event tables, region geometry and axis/arc-centre arithmetic regenerated from /repo on every run)",
    "correspondence harness (harness/suites.py, corr.py): the Float instance of the model is compared with the implementation on generated operation sequences, outputs and full state digest after every operation; differences its generators never produce are not seen",
    "CPython float()/repr()/math.* and Lean's Float agreeing on + - * / sqrt sin cos atan2 (checked continuously by the suites, not proved)",
    "theorems are about exact arithmetic over an ordered field (or the reals); IEEE rounding is outside every theorem",
    "not modelled: logging, time, numCommands/numExcludedCommands, OctoPrint itself (hook dispatch, LineProcessorStream chunking), uuid4 (assumed fresh), flask",
]

SUITES = {
    # name: (generator name in suites.py, quick n, thorough n)
    "filter": ("gen_filter_mixed", 250, 20000),
    "parser": ("gen_parser_case", 1200, 120000),
    "text": ("misc_text_case", 1500, 150000),
    "region": ("region_case", 1200, 120000),
    "arc": ("arc_case", 600, 40000),
    "plugin": ("gen_plugin_case", 150, 12000),
    "stream": ("gen_stream_case", 200, 15000),
    "printer": ("printer_case", 150, 15000),
}

PROPS = {
    "C01": dict(module="ERP.Properties.C01", suites=["printer", "filter", "region", "arc"], oracle="filter",
                theorems=[]),
    "C02": dict(module="ERP.Properties.C02", suites=["filter"], oracle="filter", theorems=[]),
    "C03": dict(module="ERP.Properties.C03", suites=["printer", "filter", "arc"], oracle="filter", theorems=[]),
    "C04": dict(module="ERP.Properties.C04", suites=["printer", "filter"], oracle="filter", theorems=[]),
    "C05": dict(module="ERP.Properties.C05", suites=["printer", "filter", "text"], oracle="filter", theorems=[]),
    "C06": dict(module="ERP.Properties.C06", suites=["filter", "plugin"], oracle="filter", theorems=[]),
    "C07": dict(module="ERP.Properties.C07", suites=["text", "filter"], oracle="filter", theorems=[]),
    "C08": dict(module="ERP.Properties.C08", suites=["printer", "filter", "region"], oracle="c08", theorems=[]),
    "C09": dict(module="ERP.Properties.C09Run", suites=["filter", "arc", "stream"], oracle="filter",
                theorems=[]),
    "C10": dict(module="ERP.Properties.C10", suites=["plugin"], oracle="c10", theorems=[]),
    "C11": dict(module="ERP.Properties.C11", suites=["plugin"], oracle="plugin", theorems=[]),
    "C12": dict(module="ERP.Properties.C12", suites=["plugin", "region"], oracle="c12", theorems=[]),
    "C13": dict(module="ERP.Properties.C13", suites=["plugin"], oracle="plugin", theorems=[]),
    "C14": dict(module="ERP.Properties.C14", suites=["filter", "plugin"], oracle="filter", theorems=[]),
    "C15": dict(module="ERP.Properties.C15", suites=["plugin"], oracle="plugin", theorems=[]),
    "C16": dict(module="ERP.Properties.C16", suites=["arc", "filter"], oracle="c16", theorems=[]),
    "C17": dict(module="ERP.Properties.C17", suites=["region"], oracle="c17",
                theorems=["ERP.C17.rect_contains_iff", "ERP.C17.rect_corner_order",
                          "ERP.C17.circle_contains_iff", "ERP.C17.containsRegion_sound"]),
    "C18": dict(module="ERP.Properties.C18Closure", suites=["parser", "text"], oracle="c18", theorems=[]),
    "C19": dict(module="ERP.Properties.C19", suites=["parser", "text", "filter"], oracle="c19", theorems=[]),
    "C20": dict(module="ERP.Properties.C20", suites=["stream", "parser"], oracle="c20", theorems=[]),
}

# theorem lists are kept in a JSON file next to the Lean sources so that adding a theorem is one edit
import json
import os
_T = os.path.join(os.path.dirname(os.path.dirname(os.path.abspath(__file__))), "lean", "theorems.json")
if os.path.exists(_T):
    for _pid, _names in json.load(open(_T)).items():
        if _pid in PROPS:
            PROPS[_pid]["theorems"] = _names
