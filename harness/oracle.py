"""Property oracles over a filtered run (implementation-side twin of the Lean Spec definitions).

run_events(cfg, events) drives the real GcodeHandlers; judge(cfg, events, results) replays the
forwarded commands on the independent reference printer (`phys`), the unfiltered program on a
second one (`virt`), and reports property violations as (property, step index, message).
Used for the failing-input search and for replays. It never decides a property on its own.
"""
import math
from . import impl
from .refprinter import Printer, read_words, last_values
from .gen import in_region

TOL = 1e-6
DTOL = 5e-4     # retraction depths: the encoder rounds inch values to 5 decimals


FORMAT_FUNCS = ("formatNumber", "buildCommand", "_addCommands", "generateRetractCommands",
                "generateRecoverCommands", "stringify", "parameterDict")


def run_events(cfg, events, handlers=None):
    """Drive the implementation. Returns (results, handlers). results[i] is
    ('none',)|('ignore',)|('list',[...])|('err',kind)|('at',handled,[...])|('ok',)"""
    h = handlers or impl.make_handlers(cfg)
    results = []
    for ev in events:
        k = ev[0]
        if k == "g":
            results.append(impl.call_gcode(h, ev[1]))
        elif k == "at":
            results.append(impl.call_at(h, ev[1], ev[2], ev[3] if len(ev) > 3 else False))
        elif k == "addregion":
            try:
                h.state.addRegion(impl.make_region(ev[1]))
                results.append(("ok",))
            except ValueError:
                results.append(("err", "value"))
        elif k == "delregion":
            h.state.deleteRegion(ev[1])
            results.append(("ok",))
        else:
            raise ValueError(ev)
    return results, h


def forwarded(ev, res):
    """Commands that reach the printer for this event."""
    if ev[0] == "g":
        if res[0] == "none":
            return [ev[1]]
        if res[0] == "list":
            return [c for c in res[1] if c is not None]
        return []
    if ev[0] == "at" and res[0] == "at":
        return list(res[2])
    return []


def arc_samples(virt, code, w, step=0.2):
    """Independent fine sampling of the true arc in native coordinates (I/J form only)."""
    if w.get("R") is not None:
        return None
    i = (w.get("I") or 0.0) * virt.unit
    j = (w.get("J") or 0.0) * virt.unit
    if i == 0 and j == 0:
        return []
    sx, sy = virt.pos["X"], virt.pos["Y"]
    ex = virt._target("X", w["X"]) if w.get("X") is not None else sx   # pylint: disable=W0212
    ey = virt._target("Y", w["Y"]) if w.get("Y") is not None else sy   # pylint: disable=W0212
    cx, cy = sx + i, sy + j
    rad = math.hypot(i, j)
    a0 = math.atan2(sy - cy, sx - cx)
    a1 = math.atan2(ey - cy, ex - cx)
    cw = (code == "G2")
    sweep = (a0 - a1) if cw else (a1 - a0)
    while sweep <= 1e-12:
        sweep += 2 * math.pi
    n = max(1, int(math.ceil(sweep * rad / step)))
    pts = []
    for k in range(1, n + 1):
        a = a0 + (-1 if cw else 1) * sweep * k / n
        pts.append((cx + rad * math.cos(a), cy + rad * math.sin(a), sweep * rad * k / n))
    return pts


def is_eonly_or_nonmotion(code):
    return code not in ("G0", "G1", "G2", "G3", "G28")


def judge(cfg, events, results, props=None):
    """Return list of (property, index, message). props: iterable of ids to evaluate (default all
    of C01-C07, C09, C14)."""
    props = set(props or ["C01", "C02", "C03", "C04", "C05", "C06", "C07", "C09", "C14"])
    out = []
    g90e = bool(cfg.get("g90e"))
    regions = list(cfg.get("regions", []))
    phys = Printer(g90e)
    virt = Printer(g90e)
    enabled = True
    episode = False            # as defined by the property: from the unfiltered path + regions
    touched = False            # any move destination inside an enabled region so far (for C02)
    z_before_episode = None
    maxreq = 0.0
    ext = cfg.get("ext") or {}
    deferred_seen = []         # configured codes seen during the current episode
    scripts_enter = cfg.get("enter") or []
    scripts_exit = cfg.get("exit") or []
    enter_count = 0
    fw_expected = []

    cur = {"syn": []}

    def viol(p, i, msg):
        if p in props:
            out.append((p, i, msg))
        # C07 ("a firmware-style reading of a synthesised command yields exactly the intended
        # values"): a position / extruder / deferred-content mismatch in a step whose output
        # contains synthesised commands is also a C07 violation
        # C14 ("a disable that arrives mid-episode closes the episode at once with the same
        # re-synchronisation obligations as leaving a region"): position, extruder coordinate and
        # retraction obligations after such a disable are C14's too
        if "C14" in props and p in ("C03", "C04", "C05") and cur.get("disable_closed"):
            out.append(("C14", i, "after a disable closed an episode: %s" % msg))
        if "C07" in props and p in ("C03", "C04", "C06") and cur["syn"]:
            out.append(("C07", i, "reading the synthesised commands %r does not give the intended values: %s"
                        % (cur["syn"], msg)))

    seen_texts = set()         # commands of the file so far: a deferred first/last command comes back verbatim
    for i, (ev, res) in enumerate(zip(events, results)):
        outs = forwarded(ev, res)
        cur["syn"] = [o for o in outs if not (ev[0] == "g" and o == ev[1])
                      and o not in scripts_enter and o not in scripts_exit and o not in seen_texts]
        cur["seen"] = set(seen_texts)
        if ev[0] == "g":
            seen_texts.add(ev[1])
        if res[0] == "err":
            if None in (virt.pos["X"], virt.pos["Y"], virt.pos["Z"]):
                break          # C09 speaks of commands issued after the axes have been homed
            viol("C09", i, "exception %s on %r" % (res[1], ev))
            # a failure while a synthesised command is being rendered: the command (and with it the
            # intended values) never reaches the printer
            fmt = [f for f in (res[2] if len(res) > 2 else []) if f in FORMAT_FUNCS]
            if fmt:
                viol("C07", i, "exception %s in %s while rendering a synthesised command for %r"
                     % (res[1], fmt[-1], ev))
            break
        if ev[0] == "g" and res[0] == "list":
            if not res[1] or any((not isinstance(c, str)) or c == "" for c in res[1]):
                viol("C09", i, "malformed result %r" % (res,))
        if ev[0] == "delregion":
            regions[:] = [g for g in regions if g[1] != ev[1]]
            continue
        if ev[0] == "addregion":
            if res[0] == "ok":
                regions.append(ev[1])
            continue

        was_episode = episode
        dest_state = None       # 'in' | 'out' | None for non-moves
        code = None
        w = {}
        virt_info = None
        closes_by_disable = False
        if ev[0] == "g":
            code, words = read_words(ev[1])
            w = last_values(words)
            pts = None
            if code in ("G2", "G3") and virt.abs and all(virt.pos[a] is not None for a in "XY"):
                pts = arc_samples(virt, code, w)
            virt_depth_before = virt.depth()
            n_fw_file = len(virt.fwlog)
            virt_info = virt.execute(ev[1])
            for (c_fw, t_fw) in virt.fwlog[n_fw_file:]:
                if c_fw == "G10":
                    cur["g10_params"] = _fw_params(t_fw)
            maxreq = max(maxreq, virt.depth())
            is_move = code in ("G0", "G1") and any(w.get(a) is not None for a in "XYZ")
            if code in ("G2", "G3") and pts:
                is_move = True
            if is_move and None not in (virt.pos["X"], virt.pos["Y"]):
                if code in ("G2", "G3"):
                    # The filter tests samples about 1 mm apart, the first one up to 1 mm from the
                    # start (the start itself is not tested). A point of the true arc at least
                    # 0.5 mm along it whose closed 0.55-ball lies in a region forces a sample
                    # inside; an arc whose fine samples all stay 0.25 clear is outside; anything
                    # else is ambiguous.
                    sres = virt.unit    # sampling resolution: one logical length unit
                    deep = any(
                        (d >= 0.5 * sres and in_region(s, px, py, 0.55 * sres)) or
                        in_region(s, px, py, 1.05 * sres)
                        for s in regions for (px, py, d) in pts)
                    clear = not any(in_region(s, px, py, -0.25)
                                    for s in regions for (px, py, d) in pts)
                    endc = _classify(regions, virt.pos["X"], virt.pos["Y"])
                    if deep or endc == "in":
                        dest_state = "in"
                    elif clear:
                        dest_state = "out"
                    else:
                        dest_state = "edge"
                else:
                    dest_state = _classify(regions, virt.pos["X"], virt.pos["Y"])
            if dest_state == "edge":
                return out + [("SKIP", i, "destination within margin of a border")]
            fae = bool(cur.get("first_after_enable")) and is_move
            if is_move:
                cur["first_after_enable"] = False
            if enabled and dest_state == "in":
                touched = True
                if not episode:
                    episode = True
                    z_before_episode = phys.pos["Z"]
                    deferred_seen = []
            elif dest_state == "out" and episode:
                episode = False
            if code in ext and was_episode and episode:
                deferred_seen.append(ev[1])
        elif ev[0] == "at":
            if not (len(ev) > 3 and ev[3]):           # not while streaming to SD
                for act in _at_actions(cfg, ev[1], ev[2]):
                    if act == "disable_exclusion":
                        if enabled and episode:
                            closes_by_disable = True
                            cur["disable_closed"] = True
                            episode = False
                        enabled = False
                    elif act == "enable_exclusion":
                        if not enabled:
                            cur["first_after_enable"] = True
                        enabled = True

        # ---- execute what reaches the printer
        z_at_xy = None
        pushed_by_orig = None
        phys_e_before_step = phys.e
        for o in outs:
            ocode, owords = read_words(o)
            depth_before = phys.depth()
            xy_before = (phys.pos["X"], phys.pos["Y"])
            n_fw_phys = len(phys.fwlog)
            hw_before = phys.hw
            info = phys.execute(o)
            for (c_fw, t_fw) in phys.fwlog[n_fw_phys:]:
                # "carry the original parameters": a forwarded G10 repeats the parameters of the file's
                # G10 it stands for; a G11 that is not the file's own command verbatim repeats those of
                # the G10 that physically retracted
                if c_fw == "G10":
                    if cur.get("g10_params") is not None and _fw_params(t_fw) != cur["g10_params"]:
                        viol("C05", i, "forwarded %r does not carry the parameters %r of the file's G10"
                             % (t_fw, cur["g10_params"]))
                    cur["phys_g10_params"] = _fw_params(t_fw)
                elif not (ev[0] == "g" and t_fw == ev[1]) and cur.get("phys_g10_params") is not None \
                        and _fw_params(t_fw) != cur["phys_g10_params"]:
                    viol("C05", i, "generated %r does not carry the parameters %r of the retraction it recovers"
                         % (t_fw, cur["phys_g10_params"]))
            if ("X" in info["moved"] or "Y" in info["moved"]) and enabled:
                if None not in (phys.pos["X"], phys.pos["Y"]) and \
                        any(in_region(s, phys.pos["X"], phys.pos["Y"], 1e-3) for s in regions):
                    viol("C01", i, "forwarded %r moves the tool into a region at %r" % (o, phys.xyz()))
            if (not was_episode) and episode and ev[0] == "g" and "Z" in info["moved"]:
                # the command that opens the episode counts: its destination (for a move without X/Y:
                # the place where the tool stands) lies inside a region
                viol("C01", i, "forwarded %r moves Z although the command opens an episode at %r"
                     % (o, (virt.pos["X"], virt.pos["Y"])))
                if fae:
                    viol("C14", i, "first move after re-enabling: %r executed although the tool stands inside a "
                                   "region at %r" % (o, (virt.pos["X"], virt.pos["Y"])))
            if was_episode and episode:
                if info["moved"]:
                    viol("C01", i, "forwarded %r moves %s inside an episode" % (o, sorted(info["moved"])))
                if info["de"] > TOL:
                    viol("C01", i, "forwarded %r pushes %g of filament inside an episode" % (o, info["de"]))
            if not (ev[0] == "g" and o == ev[1]) and phys.hw - hw_before > DTOL and virt.eabs:
                # only the file's own extruding commands deposit filament: a synthesised recovery ends
                # exactly where the retraction began
                viol("C04", i, "synthesised %r deposits %g of filament; the file specifies none for it"
                     % (o, phys.hw - hw_before))
            if ("X" in info["moved"] or "Y" in info["moved"]) and z_at_xy is None:
                z_at_xy = phys.pos["Z"]
            if ev[0] == "g" and o == ev[1] and ocode in ("G0", "G1", "G2", "G3"):
                pushed_by_orig = info["de"]
                if info["de"] > TOL and (info["moved"] or any(
                        last_values(owords).get(a) is not None for a in "XYZ")):
                    if abs(depth_before - virt_depth_before) > DTOL:
                        viol("C05", i, "printing move %r forwarded at physical depth %g, file depth %g"
                             % (o, depth_before, virt_depth_before))
            if o != (ev[1] if ev[0] == "g" else None) and ocode is not None and \
                    o not in scripts_enter and o not in scripts_exit and o not in cur["seen"]:
                _check_synth(o, viol, i)

        # ---- per-step judgements
        if ev[0] == "g":
            if not touched and enabled is not None:
                ok = res[0] == "none" or (res[0] == "list" and res[1] == [ev[1]])
                if not ok:
                    viol("C02", i, "command %r not forwarded verbatim (%r) although no region was touched"
                         % (ev[1], res))
            if pushed_by_orig is not None and abs(pushed_by_orig - virt_info["de"]) > TOL:
                viol("C04", i, "forwarded %r pushes %g, the file specifies %g"
                     % (ev[1], pushed_by_orig, virt_info["de"]))
            if ev[1] not in outs and virt_info is not None:
                pass
            if dest_state == "out" or (dest_state is None and not episode and not was_episode):
                if dest_state == "out":
                    if _differs(phys.xyz(), virt.xyz()):
                        viol("C03", i, "after %r the printer is at %r, the file at %r"
                             % (ev[1], phys.xyz(), virt.xyz()))
                    if phys.frame() != virt.frame():
                        viol("C03", i, "after %r printer frame %r, file frame %r"
                             % (ev[1], phys.frame(), virt.frame()))
                    if was_episode and z_at_xy is not None and z_before_episode is not None:
                        want = max(z_before_episode, virt.pos["Z"])
                        if abs(z_at_xy - want) > TOL:
                            viol("C03", i, "re-positioning travel at Z=%g, expected max(%g,%g)"
                                 % (z_at_xy, z_before_episode, virt.pos["Z"]))
                if not episode and abs(phys.e - virt.e) > TOL and virt.eabs:
                    viol("C04", i, "after %r extruder coordinate %g, file assumes %g"
                         % (ev[1], phys.e, virt.e))
        if phys.depth() > maxreq + DTOL:
            viol("C05", i, "physical retraction %g deeper than anything requested (%g)"
                 % (phys.depth(), maxreq))
        if phys.depth() < virt.depth() - DTOL:
            viol("C05", i, "physical retraction %g shallower than the file assumes (%g)"
                 % (phys.depth(), virt.depth()))

        # ---- C06 episode accounting
        if not was_episode and episode:
            got = [o for o in outs if o in scripts_enter]
            if got != scripts_enter:
                viol("C06", i, "enter script %r expected once on entering, got %r" % (scripts_enter, outs))
        if was_episode and not episode:
            expect = expected_deferred(ext, deferred_seen) + list(scripts_exit)
            if outs[:len(expect)] != expect:
                viol("C06", i, "episode end: expected prefix %r, got %r" % (expect, outs))
            deferred_seen = []
        if was_episode and episode and ev[0] == "g" and code in ext and outs:
            viol("C06", i, "deferred code %r leaked inside the episode: %r" % (ev[1], outs))
        if closes_by_disable and dest_state is None:
            if _differs(phys.xyz(), virt.xyz()):
                viol("C14", i, "disable mid-episode left the printer at %r, file at %r"
                     % (phys.xyz(), virt.xyz()))
        if not enabled and ev[0] == "g" and code in ("G0", "G1", "G2", "G3") and \
                any(w.get(a) is not None for a in "XYZ") and ev[1] not in outs:
            viol("C14", i, "move %r suppressed while exclusion is disabled" % (ev[1],))
        if enabled and not episode and not was_episode and ev[0] == "g" and \
                code in ("G0", "G1") and dest_state == "out" and ev[1] not in outs:
            viol("C14", i, "move %r to a point outside every region was suppressed" % (ev[1],))

    # firmware retract parity on the forwarded stream
    seq = [c for (c, _t) in phys.fwlog]
    for k, c in enumerate(seq):
        if c != ("G10" if k % 2 == 0 else "G11"):
            viol("C05", len(events) - 1, "forwarded G10/G11 sequence loses parity: %r" % (seq,))
            break
    return out


def _fw_params(text):
    """the parameter words of a G10/G11 command text, blanks normalised"""
    _code, words = read_words(text)
    return " ".join("%s%s" % (w[0].upper(), "" if w[1] is None else repr(w[1])) for w in words)


def _classify(regions, x, y):
    if any(in_region(s, x, y, 1e-3) for s in regions):
        return "in"
    if any(in_region(s, x, y, -1e-3) for s in regions):
        return "edge"
    return "out"


def _differs(a, b):
    for p, q in zip(a, b):
        if (p is None) != (q is None):
            return True
        if p is not None and abs(p - q) > TOL:
            return True
    return False


def _at_actions(cfg, cmd, params):
    """the configured actions an @-command triggers, in configuration order (decided here, not by
    asking the implementation): the pattern must match at the start of the parameter text, a missing
    parameter text is the empty string"""
    import re
    return [a for (c, p, a) in cfg.get("at", impl.DEFAULT_AT)
            if c == cmd and (p is None or re.match(p, params or ""))]


PLAIN = "0123456789"


def plain_decimal(txt):
    """-?digits(.digits)? exactly."""
    t = txt[1:] if txt.startswith("-") else txt
    if not t:
        return False
    parts = t.split(".")
    if len(parts) > 2:
        return False
    return all(p != "" and all(ch in PLAIN for ch in p) for p in parts)


def _check_synth(o, viol, i):
    """C07: a synthesised command is one code + distinct letters + plain decimals."""
    s = o.strip()
    toks = s.split(" ")
    head = toks[0]
    if not (len(head) >= 2 and head[0] in "GMT" and head[1:].replace(".", "", 1).isdigit()):
        viol("C07", i, "synthesised %r does not start with a code" % (o,))
        return
    if head in ("M117",):
        return
    seen = set()
    for t in toks[1:]:
        if t == "":
            viol("C07", i, "synthesised %r has an empty word" % (o,))
            continue
        if not (t[0].isalpha() and t[0].isascii()):
            viol("C07", i, "synthesised %r has a stray token %r" % (o, t))
            continue
        if t[0].upper() in seen:
            viol("C07", i, "synthesised %r repeats letter %s" % (o, t[0]))
        seen.add(t[0].upper())
        if len(t) > 1 and not plain_decimal(t[1:]):
            viol("C07", i, "synthesised %r carries %r which is not a plain decimal" % (o, t))


def expected_deferred(ext, seen):
    """Spec.deferred: what an episode's deferred commands should flush to (text level)."""
    entries = []    # (order index, text)
    by_code = {}
    for idx, cmd in enumerate(seen):
        code, words = read_words(cmd)
        mode = ext.get(code)
        if mode in (None, "exclude"):
            continue
        by_code.setdefault(code, []).append((idx, cmd, words))
    for code, occ in by_code.items():
        mode = ext[code]
        if mode == "first":
            entries.append((occ[0][0], occ[0][1]))
        elif mode == "last":
            entries.append((occ[-1][0], occ[-1][1]))
        elif mode == "merge":
            letters = []
            vals = {}
            for (_i, _c, words) in occ:
                for (l, v, t) in words:
                    if l not in vals:
                        letters.append(l)
                    vals[l] = v
            parts = [code]
            for l in letters:
                parts.append(l if vals[l] is None else l + _pyfloat(vals[l]))
            entries.append((occ[-1][0], " ".join(parts)))
    entries.sort()
    return [t for (_i, t) in entries]


def _pyfloat(v):
    from .fmt import format_number
    return format_number(v)


def c16_centre(start, end, radius, clockwise):
    """C16: for the radius form the centre is at distance |R| from both end points."""
    h = impl.make_handlers({})
    impl.call_gcode(h, "G28")
    impl.call_gcode(h, "G1 X%r Y%r Z1" % (start[0], start[1]))
    try:
        (i, j) = h.computeArcCenterOffsets(end[0], end[1], radius, clockwise)
    except Exception as exc:  # pylint: disable=broad-except
        return ["computeArcCenterOffsets raised %s" % type(exc).__name__]
    if i == 0 and j == 0:
        return []
    cx, cy = start[0] + i, start[1] + j
    d1 = math.hypot(cx - start[0], cy - start[1])
    d2 = math.hypot(cx - end[0], cy - end[1])
    out = []
    tol = 1e-9 * max(1.0, abs(radius))
    if abs(d1 - abs(radius)) > tol or abs(d2 - abs(radius)) > tol:
        out.append("centre (%r,%r) is at distance %r from the start and %r from the end, |R|=%r"
                   % (cx, cy, d1, d2, abs(radius)))
    elif start[0] == end[0]:
        # the commanded sweep: R > 0 the arc of at most half a turn, R < 0 the one of at least half.
        # Only for chords parallel to the Y axis: with the perpendicular (-dy, -dx) of known finding
        # K-D10 the centre lies on the wrong side for chords parallel to the X axis (same defect).
        a0 = math.atan2(start[1] - cy, start[0] - cx)
        a1 = math.atan2(end[1] - cy, end[0] - cx)
        sweep = (a0 - a1) % (2 * math.pi) if clockwise else (a1 - a0) % (2 * math.pi)
        if radius > 0 and sweep > math.pi + 1e-6:
            out.append("R=%r > 0 but the centre (%r,%r) gives a sweep of %r rad in the commanded direction"
                       % (radius, cx, cy, sweep))
        if radius < 0 and sweep < math.pi - 1e-6:
            out.append("R=%r < 0 but the centre (%r,%r) gives a sweep of only %r rad in the commanded direction"
                       % (radius, cx, cy, sweep))
    return out
