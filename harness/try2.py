import random, sys, time
from harness import gen, corr
r = random.Random(int(sys.argv[1])); N = int(sys.argv[2])
cases = []
t0 = time.time()
for t in range(N):
    regions = gen.random_regions(r)
    cfg = gen.random_cfg(r, regions)
    opts = gen.random_opts(r)
    if cfg["g90e"] and r.random() < 0.5: opts["rel"] = False
    opts["rel_arcs"] = r.random() < 0.2; opts["inch_arcs"] = r.random() < 0.3
    ops = gen.gen_path(r, regions, opts)
    evs = gen.encode_path(ops)
    cases.append(corr.FilterCase(cfg, evs).run_impl())
t1 = time.time()
bad = corr.run_filter_cases(cases)
t2 = time.time()
print("cases", N, "impl %.1fs driver %.1fs" % (t1 - t0, t2 - t1), "bad", len(bad))
for c, mm in bad[:5]:
    print(mm); print("  ", c.cfg); print("  ", c.events[: (mm["event"] or 0) + 1][-6:])
