"""Correspondence suites (model driver vs implementation). Each suite builds *cases*: a case is a
list of steps (protocol line, number of reply lines, checker). All cases of a suite are sent to the
driver in one batch; the first mismatch of each case is reported (and can be shrunk/replayed)."""
import collections
import math
import random
import struct

from . import impl, gen, corr
from .fmt import format_number


class Step(object):
    __slots__ = ("line", "nreply", "check", "label")

    def __init__(self, line, nreply, check, label=None):
        self.line = line
        self.nreply = nreply
        self.check = check      # replies -> None | dict(impl=..., model=...)
        self.label = label or line


class Case(object):
    def __init__(self, suite, steps, descr):
        self.suite = suite
        self.steps = steps
        self.descr = descr       # JSON-able description that can be replayed


def run_cases(cases):
    lines = []
    for c in cases:
        lines.extend(s.line for s in c.steps)
    out = corr.run_driver(lines)
    pos = 0
    bad = []
    for c in cases:
        first = None
        for i, s in enumerate(c.steps):
            rep = out[pos:pos + s.nreply]
            pos += s.nreply
            if first is None:
                mm = s.check(rep)
                if mm is not None:
                    mm["step"] = i
                    mm["op"] = s.label
                    first = mm
        if first is not None:
            bad.append((c, first))
    return bad


def eq(expected):
    def chk(rep):
        if list(rep) != list(expected):
            for a, b in zip(list(rep) + ["<missing>"] * len(expected), expected):
                if a != b:
                    return {"impl": b, "model": a}
            return {"impl": expected, "model": rep}
        return None
    return chk


# ------------------------------------------------------------------------------- filter suite

def filter_case(cfg, events, descr=None):
    fc = corr.FilterCase(cfg, events).run_impl()
    steps = []
    out_i = 0
    # re-slice FilterCase's flat expectations into steps
    exp = fc.expect
    li = 0
    for (kind, payload, digest, idx) in exp:
        n = 1 if (kind == "raw" and digest is None) else 2
        line = fc.lines[li]
        li += 1

        def chk(rep, kind=kind, payload=payload, digest=digest, idx=idx):
            sub = corr.FilterCase.__new__(corr.FilterCase)
            sub.expect = [(kind, payload, digest, idx)]
            return sub.compare(list(rep))
        steps.append(Step(line, n, chk, label=str(idx)))
    return Case("filter", steps, descr or {"kind": "filter", "cfg": cfg, "events": events})


ADVERSARIAL = [
    # (omitted centre offsets too: Python computes with the int 0 there, whose negation is no negative
    # zero — the model's handler carries the negations separately, see DESIGN 0.5)
    "G2 F X20 Y10 I5 J0", "g3 e x20 y10 i5 j0", "G2 X Y20 J5", "G3 Z X12 Y3 J-4 I", "G2 X20 Y10 I5 J0 F",
    "G2 Y20 J5", "G3 X10 I5", "G2 X15 Y15 I10", "G3 Y10 J-5", "G2 I5", "G3 J2.5", "G2 X5 Y20 J5", "G3 X25 Y15 I-10 J",
    "G1 F0", "G1 F0 E-2", "G0 X15 Y15 E-1 F0", "G1 E-2", "G1 X0", "G1 X0 Y0", "G0 Y0.0",
    "M206 X2 Y Z0.25", "M206 X-2.5 Y=3", "M206", "M206 Z", "G92 X Y1", "G92 E", "G92 E1 X", "G28 X0 Y", "G10 P", "G11 (x)",
    "G1 X30 Y40 Z2 E5 F1500 X35", "G1 F1200 E2 Z1 Y12 X12 Y31 E3", "G0 X1 Y1 Z1 E1 F100 Z0.5 F200",
    "G1", "G0 X", "G1 X Y5", "G1 X5 X15", "G1 X15 Y15 X5", "G1 Z", "G1 E", "G1 F", "G1 X+15 Y-0",
    "G1 X.5 Y5.", "G1 X1e3", "G1 X15Y15", "g1 x15 y15", "G1 X15 Y15 ; c", "G1 X 15 Y 15",
    "G1 X1000000 Y-1000000", "G1 X0.0000001 Y0.0000001", "G1 E-0.00001", "G1 X15 Y15 E-1",
    "G1 X5 Y5 E-0.5", "G1 X15 Y15 Z5 E0.2 F60", "G0 X12 Y12", "G0 X30 Y30 Z10",
    "G2 X10 Y0 I5 J0", "G3 X0 Y10 I0 J5", "G2 X10 Y0 R5", "G3 X10 Y10 R-20", "G2 X5 Y5 R0",
    "G2 I0 J0", "G2 X1 Y1", "G3 X-5 Y0 I10 J0", "G2 X0 Y0 I5 J5 E1", "G2 R1", "G2 X20 Y0 R1",
    "G3 X15 Y15 I2 J2 Z3", "G10", "G10 S1", "G10 P1 L2", "G11", "G11 S1", "G10 L20 P1 X0",
    "G20", "G21", "G28", "G28 X", "G28 Y Z", "G28 X0 Y0", "G28 W", "G90", "G91",
    "G92 E0", "G92 E5", "G92 E-1", "G92", "G92 X", "G92 E", "M206", "M206 T1",
    "M117 hello", "M117", "M204 P500 T700", "M204 S", "M204 P S T", "M204 p1", "M205 X8",
    "M73 P10 R5", "G4 P100", "M106 S255", "M107", "M400", "T0", "T1", "M84 X Y",
    "M82", "M83", "G5 X1 Y1", "G29", "M104 S200 T0", "N5 G1 X15 Y15*33", "G1 X15 Y15 *12",
    # a valued word followed by a valueless repeat of the letter: the value stays (C19)
    "G1 X12 Y7 X", "G1 Z Z2 Z", "G1 X15 Y15 E1 E", "G1 X5 Y5 F3000 F", "G92 E0 E", "G1 X0 Y15", "G1 X15 Y0",
    "G1 X0", "G1 Y0", "G1 Z0", "G1 E0", "G0 X0 Y0 Z0",
]

OFFSET_CMDS = ["G92 X0", "G92 X10 Y10", "G92 Z1", "G92 X-5 E2", "M206 X5", "M206 X-2 Y3 Z0.5",
               "M206 X0 Y0 Z0"]


def gen_filter_case(r, adversarial=False, offsets=False):
    regions = gen.random_regions(r)
    cfg = gen.random_cfg(r, regions)
    opts = gen.random_opts(r)
    if cfg["g90e"] and r.random() < 0.5:
        opts["rel"] = False
    opts["rel_arcs"] = r.random() < 0.2
    opts["inch_arcs"] = r.random() < 0.3
    if r.random() < 0.3:
        opts["later_regions"] = [("R", "late%d" % i, 28.0 + 10 * i, 28.0, 33.0 + 10 * i, 33.0)
                                 for i in range(2)]
        opts["addregion"] = True
    if r.random() < 0.4:
        opts["wipe"] = r.random() < 0.35
        if r.random() < 0.3 and not cfg["g90e"]:
            opts["rel"] = True       # encoding switches inside episodes: relative mode and inches together
            opts["inch"] = True
        ops = gen.gen_episode_path(r, regions, opts)
    else:
        ops = gen.gen_path(r, regions, opts)
    evs = gen.encode_path(ops, nolead=(r.random() < 0.15))
    if adversarial:
        # sprinkle adversarial commands (may leave the dialect the theorems are about)
        k = r.randint(1, 8)
        for _ in range(k):
            pos = r.randint(1, len(evs))
            pool = ADVERSARIAL + (OFFSET_CMDS if offsets else [])
            evs.insert(pos, ("g", r.choice(pool)))
        if r.random() < 0.2:
            evs = evs[1:]     # not homed: Python raises TypeError somewhere; kinds must agree
    if r.random() < 0.1:
        pos = r.randint(1, len(evs))
        evs.insert(pos, ("at", "ExcludeRegion", r.choice(["off", "on"]), True))
    return filter_case(cfg, evs)


def suite_filter(r, n, stats):
    cases = []
    for i in range(n):
        k = r.random()
        c = gen_filter_case(r, adversarial=(k < 0.4), offsets=(k < 0.15))
        cases.append(c)
    for c in cases:
        stats["programs"] += 1
        stats["ops"] += len(c.steps)
    return cases


# ------------------------------------------------------------------------------- parser suite

TOKENS = ["G1", "G0", "g1", "M117", "M204", "T0", "t1", "G38.2", "G 1", "M 204", "N5", "N12 ", "n7",
          "*12", "*0", " *33", "\\\\", "\\;", ";comment", "; c *5", " ", "  ", "\t", "X1.5", "Y-2",
          "Z.5", "E+1.", "F", "X", "x3", "S", "P500 T", "\r\n", "\n", "\r", "hello world", "@cmd p",
          "@ExcludeRegion off", ".", "*", ";", "\\", "e", "1e5", "-", "+", "é", "G", "G1.", "N", "(c)",
          "M117 Hello; there", "G1 X1*", "N1 G1*2*3", "%", ":", "=", "\"", "'"]
ALPHA = "GgMmTtNnXYZEFeS0123456789 .-+*;\\\r\n\t@ab"


def rand_line(r, wellformed=0.7):
    if r.random() < wellformed:
        parts = []
        if r.random() < 0.3:
            parts.append(r.choice(["  ", " ", "\t "]) if r.random() < 0.3 else "")
        if r.random() < 0.2:
            parts.append("N%d " % r.randint(0, 99))
        parts.append(r.choice(["G1", "G0", "g1", "G28", "M117", "M204", "T0", "G38.2", "G 1", "G92",
                               "G10", "M206", "G2",
                               # zero-valued code / sub-code spellings (a falsy 0 is not "absent")
                               "G92.0", "G92.1", "M876.0", "g 92.00", "M0", "G00", "G1.05", "T00", "G0.0"]))
        for _ in range(r.randint(0, 4)):
            parts.append(r.choice([" ", "", "  "]))
            parts.append(r.choice("XYZEFSPTIJRxye"))
            parts.append(r.choice(["1", "1.5", "-2", ".5", "+1.", "", " 3", "10.25", "-0", "007",
                                   "1.", "."]))
        if r.random() < 0.15:
            parts.append(r.choice([" *%d", " *%d", "*%d", " * %d", " *0%d", "  *%d "]) % r.randint(0, 255))
        if r.random() < 0.2:
            parts.append(r.choice([" ; c", ";", " ;x*3"]))
        return "".join(parts)
    k = r.randint(0, 10)
    return "".join(r.choice(TOKENS) if r.random() < 0.5 else r.choice(ALPHA) for _ in range(k))


def parser_digest(p):
    def on(v):
        return "N" if v is None else str(v)

    def oh(v):
        return "N" if v is None else "S" + impl.hexs(v)
    return " ".join([
        "off=%d" % p.offset, "len=%d" % p.length, "ln=" + on(p.lineNumber),
        "ty=" + ("N" if p.type is None else p.type), "code=" + on(p.code), "sub=" + on(p.subCode),
        "gc=" + oh(p.gcode), "par=" + oh(p.parameters), "cs=" + on(p.checksum),
        "lw=" + impl.hexs(p.leadingWhitespace), "tx=" + impl.hexs(p.text),
        "raw=" + oh(p.rawChecksum), "tw=" + impl.hexs(p.trailingWhitespace),
        "cm=" + oh(p.comment), "eol=" + impl.hexs(p.eol),
        "full=" + impl.hexs(p.fullText), "cstr=" + impl.hexs(p.commandString)])


def items_digest(items):
    out = []
    for (k, v) in items:
        if k == "":
            out.append("_:" + impl.hexs(v))
        else:
            out.append("%s:%s" % (k, impl.fnum(v)))
    return ",".join(out) or "-"


def parser_case(ops):
    """ops: list of tuples; runs them on one GcodeParser object (state persists like in the
    plugin) and on the model's parser object."""
    p = impl.GcodeParser()
    steps = [Step("pnew", 1, eq(["ok"]))]
    for op in ops:
        k = op[0]
        try:
            if k == "parse":
                src, off = op[1], op[2]
                line = "parse %s %s" % ("N" if src is None else "S" + impl.hexs(src),
                                        "N" if off is None else str(off))
                p.parse(src, off)
                exp = "ok " + parser_digest(p)
            elif k == "lines":
                src, off = op[1], op[2]
                line = "lines %s %s" % ("N" if src is None else "S" + impl.hexs(src),
                                        "N" if off is None else str(off))
                digs = [parser_digest(q) for q in p.parseLines(src, off)]
                exp = "ok " + " | ".join(digs + [parser_digest(p)])
            elif k == "validate":
                line = "validate"
                p.validate()
                exp = "ok"
            elif k == "stringify":
                sep, lw, ln, cs, cm, eol = op[1:]
                line = "stringify %s %d %d %s %d %d" % (
                    impl.hexs(sep), lw, ln, "N" if cs is None else str(int(cs)), cm, eol)
                exp = "ok " + impl.hexs(p.stringify(sep, bool(lw), bool(ln),
                                                    None if cs is None else bool(cs), bool(cm), bool(eol)))
            elif k == "items":
                src = op[1]
                line = "items %s" % ("N" if src is None else "S" + impl.hexs(src))
                exp = "ok " + items_digest(list(p.parameterItems(src)))
            elif k == "setgcode":
                line = "setgcode " + impl.hexs(op[1])
                p.gcode = op[1]
                exp = "ok " + parser_digest(p)
            elif k == "setparams":
                line = "setparams " + impl.hexs(op[1])
                p.parameters = op[1]
                exp = "ok " + parser_digest(p)
            elif k == "setline":
                line = "setline %s" % ("N" if op[1] is None else str(op[1]))
                p.lineNumber = op[1]
                exp = "ok " + parser_digest(p)
            else:
                raise ValueError(op)
        except (ValueError, AssertionError, IndexError) as exc:
            exp = "err " + impl.err_kind(exc)
        steps.append(Step(line, 1, eq([exp]), label=repr(op)))
        if exp.startswith("err") and k in ("parse", "lines"):
            break
    return Case("parser", steps, {"kind": "parser", "ops": [list(o) for o in ops]})


def gen_parser_case(r):
    ops = []
    n = r.randint(1, 6)
    for _ in range(n):
        k = r.random()
        if k < 0.45:
            ops.append(("parse", rand_line(r), None))
        elif k < 0.6:
            text = "".join(rand_line(r) + r.choice(["\n", "\r\n", "\r", ""]) for _ in range(r.randint(1, 4)))
            ops.append(("parse", text, 0))
            for _ in range(r.randint(0, 4)):
                ops.append(("parse", None, None))
            if r.random() < 0.5:
                ops.append(("lines", None, None) if r.random() < 0.5 else
                           ("lines", text, r.choice([None, 0, r.randint(0, len(text) + 1)])))
        elif k < 0.7:
            ops.append(("stringify", r.choice([" ", "", "  "]), r.randint(0, 1), r.randint(0, 1),
                        r.choice([None, 0, 1]), r.randint(0, 1), r.randint(0, 1)))
        elif k < 0.78:
            ops.append(("validate",))
        elif k < 0.86:
            ops.append(("items", r.choice([None, rand_line(r, 0.9), "X1 Y2", "P500 S T", " x-1.5e", "1 2 3"])))
        elif k < 0.9:
            ops.append(("setgcode", r.choice(["G1", "m204", "G38.2", " T3 ", "X1", "G1 X", "M0204"])))
        elif k < 0.95:
            ops.append(("setparams", r.choice(["X1 Y2", " S ", "a;b", "x*1", "\\;ok", ""])))
        else:
            ops.append(("setline", r.choice([None, 0, 7, 123])))
    return parser_case(ops)


def misc_text_case(r):
    """float(), formatNumber, checksum, retraction parameter extraction, buildCommand."""
    from octoprint_excluderegion.CommonMixin import formatNumber
    from octoprint_excluderegion.RetractionState import GCODE_PARAMS_REGEX
    steps = []
    k = r.random()
    if k < 0.3:
        t = r.choice(["", "-", "+"]) + r.choice(["", "0", "1", "12", "007", "123456789", "98765432109876543210"]) + \
            r.choice(["", ".", ".5", ".25", ".1", ".000001", ".123456789012345678"])
        if not any(ch.isdigit() for ch in t) or t.endswith("."):
            t = t.rstrip(".") + "0"
        steps.append(Step("float " + impl.hexs(t), 1, eq(["ok " + impl.hexf(float(t))]), label="float " + t))
    elif k < 0.6:
        x = rand_double(r)
        t = repr(x)
        steps.append(Step("fmtnum " + impl.hexs(t), 1, eq(["ok " + impl.hexs(formatNumber(x))]),
                          label="fmtnum " + t))
    elif k < 0.68:
        # the Lean reference reader of C19 (Spec/Reader.lean) against the Python reference reader
        from .refprinter import read_words
        if r.random() < 0.6:
            words = []
            for _k in range(r.randint(0, 6)):
                words.append(r.choice("XYZEFSPTIJRxyze") + r.choice(["", " ", "  "]) +
                             r.choice(["1", "1.5", "-2", ".5", "+1.", "", "10.25", "-0", "007", "1.", "+.5",
                                       "-12.", "3.", "-", "+", ".", "1.2.3", "--1", "1e5", "- 1"]))
            t = r.choice(["", " ", "  "]).join(words)
        else:
            t = "".join(r.choice("XYEeZ0123456789 .-+\tab()=é") for _ in range(r.randint(0, 14)))
        _code, words = read_words("G1 " + t)
        exp = ",".join("%s:%s" % (l, impl.fnum(v)) for (l, v, _t) in words) or "-"
        steps.append(Step("specwords " + impl.hexs(t), 1, eq(["ok " + exp]), label="specwords %r" % t))
    elif k < 0.73:
        # ExcludeRegionPlugin._splitGcodeScript (enter / exit scripts from the settings)
        import types
        import octoprint_excluderegion as pkg
        if r.random() < 0.1:
            t = None
        else:
            t = "".join(rand_line(r, 0.8) + r.choice(["\n", "\r\n", "\r", "", "\n\n", " \n"])
                        for _ in range(r.randint(0, 4)))
        fake = types.SimpleNamespace(gcodeHandlers=types.SimpleNamespace(gcodeParser=impl.GcodeParser()))
        got = pkg.ExcludeRegionPlugin._splitGcodeScript(fake, t)     # pylint: disable=protected-access
        exp = "ok N" if got is None else "ok " + (",".join(impl.hexs(x) for x in got) or "-")
        steps.append(Step("psplit " + ("N" if t is None else "S" + impl.hexs(t)), 1, eq([exp]),
                          label="split %r" % t))
    elif k < 0.75:
        t = rand_line(r, 0.3)
        steps.append(Step("checksum " + impl.hexs(t), 1,
                          eq(["ok %d" % impl.GcodeParser.computeChecksum(t)]), label="checksum"))
    elif k < 0.85:
        t = r.choice(["G10", "G10 S1", " G10 S1", "  g10  s1 p", "G10.1 S1", "G 10 S1", "G10S1", "M5 x\ny",
                      "G10 S1\n", rand_line(r)])
        steps.append(Step("retractparams " + impl.hexs(t), 1,
                          eq(["ok " + impl.hexs(GCODE_PARAMS_REGEX.sub("\\1", t))]), label="retractparams"))
    else:
        g = r.choice(["M204", "m205", "G1", "G38.2", "M0204", "T1", " M73 "])
        args = collections.OrderedDict()
        for _ in range(r.randint(0, 4)):
            args[r.choice("PTSXYZR")] = r.choice([None, 1.0, 500.0, 0.5, 1e-05, 1e+16, -2.25, rand_double(r)])
        line = "build %s %s" % (impl.hexs(g), ",".join(
            "%s:%s" % (k2, impl.fnum(v)) for k2, v in args.items()) or "-")
        try:
            exp = impl.GcodeParser().buildCommand(g, **args)

            def chk(rep, exp=exp):
                got = corr.demark(impl.unhexs(rep[0][3:])) if rep and rep[0].startswith("ok ") else rep
                return None if got == exp else {"impl": exp, "model": got}
            steps.append(Step(line, 1, chk, label=line))
        except ValueError:
            steps.append(Step(line, 1, eq(["err value"]), label=line))
    return Case("text", steps, {"kind": "text", "lines": [s.label for s in steps]})


def rand_double(r):
    k = r.random()
    if k < 0.3:
        return struct.unpack("<d", struct.pack("<Q", r.getrandbits(64) & 0x7fefffffffffffff | (r.getrandbits(1) << 63)))[0]
    if k < 0.5:
        return r.choice([1, -1]) * 10.0 ** r.randint(-12, 22) * r.choice([1.0, 1.5, 9.999, 1.0000001])
    if k < 0.7:
        return round(r.uniform(-300, 300), r.randint(0, 6))
    if k < 0.8:
        return r.uniform(-1e-4, 1e-4)
    if k < 0.88:
        # repr uses exponent notation from 1e16 on; with 17 significant digits the decimal point of
        # the plain expansion falls exactly at the end of the digit string
        return r.choice([1, -1]) * r.uniform(1e16, 1e17)
    return r.choice([0.0, -0.0, 1e-05, 9.999e-05, 0.0001, 1e16, 9.9e15, 123456789012345680.0, 5e-324,
                     1.7976931348623157e308, 1.2345678901234568e+16, 9.007199254740993e+16])


# ------------------------------------------------------------------------------- region suite

def rand_coord(r, special=0.0):
    k = r.random()
    if special and r.random() < special:
        return r.choice([float("nan"), float("inf"), float("-inf")])
    if k < 0.6:
        return float(r.randint(-4, 12)) * r.choice([1.0, 0.5, 2.5])
    if k < 0.8:
        return round(r.uniform(-50, 50), 3)
    if k < 0.9:
        return r.uniform(-1e-6, 1e-6)
    return r.choice([3.0, 4.0, 5.0, 6.0, 8.0, 10.0, 12.0, 13.0])


def rand_region_spec(r, ident="a", special=0.0):
    if r.random() < 0.5:
        return ("R", ident, rand_coord(r, special), rand_coord(r, special), rand_coord(r, special),
                rand_coord(r, special))
    return ("C", ident, rand_coord(r, special), rand_coord(r, special),
            abs(rand_coord(r, special)) if r.random() < 0.9 else -1.0)


def region_words(spec):
    return corr.region_line(spec)[len("addr "):]


def region_case(r):
    steps = []
    a = rand_region_spec(r, "a")
    ra = impl.make_region(a)
    for _ in range(r.randint(1, 4)):
        # boundary-biased points
        if a[0] == "R":
            xs = [a[2], a[4], (a[2] + a[4]) / 2, rand_coord(r)]
            ys = [a[3], a[5], (a[3] + a[5]) / 2, rand_coord(r)]
            x, y = r.choice(xs), r.choice(ys)
        else:
            trip = r.choice([(3, 4, 5), (5, 12, 13), (6, 8, 10), (0, 1, 1), (1, 0, 1)])
            if a[4] == trip[2] and r.random() < 0.6:
                x, y = a[2] + r.choice([1, -1]) * trip[0], a[3] + r.choice([1, -1]) * trip[1]
            else:
                x, y = a[2] + rand_coord(r) / 4, a[3] + rand_coord(r) / 4
        exp = "ok %d" % (1 if ra.containsPoint(x, y) else 0)
        steps.append(Step("contains %s %s %s" % (impl.hexf(x), impl.hexf(y), region_words(a)), 1,
                          eq([exp]), label="contains (%r,%r) %r" % (x, y, a)))
    b = rand_region_spec(r, "b")
    if r.random() < 0.08:
        # non-finite geometry (legal JSON input): every comparison with NaN is false
        a2 = rand_region_spec(r, "a", 0.4)
        b2 = rand_region_spec(r, "b", 0.4)
        if r.random() < 0.5 and a[0] == "R":
            # a NaN edge on an otherwise covering rectangle
            x1, x2 = sorted((a[2], a[4])); y1, y2 = sorted((a[3], a[5]))
            a2 = ("R", "a", x1 - 1, y1 - 1, float("nan"), y2 + 1)
            b2 = ("R", "b", x1, y1, x2, y2)
        ra2, rb2 = impl.make_region(a2), impl.make_region(b2)
        exp2 = ["ok %d" % (1 if ra2.containsRegion(rb2) else 0),
                "rg " + ",".join(impl.region_digest(x) for x in (ra2, rb2))]
        steps.append(Step("containsregion %s / %s" % (region_words(a2), region_words(b2)), 2, eq(exp2),
                          label="containsRegion %r %r" % (a2, b2)))
    if r.random() < 0.4:
        # nested / touching by construction
        if a[0] == "R":
            x1, x2 = sorted((a[2], a[4])); y1, y2 = sorted((a[3], a[5]))
            if r.random() < 0.5:
                b = ("R", "b", x1, y1, x2 - r.choice([0, 0, 0.5]), y2)
            else:
                rad = min(x2 - x1, y2 - y1) / 2
                b = ("C", "b", (x1 + x2) / 2, (y1 + y2) / 2, rad + r.choice([0, 0, -0.25, 1e-9]))
        else:
            if r.random() < 0.5:
                b = ("C", "b", a[2] + r.choice([0, 1, 3]), a[3], max(0.0, a[4] - r.choice([0, 1, 3, 3.000001])))
            else:
                h = a[4] / math.sqrt(2)
                b = ("R", "b", a[2] - r.choice([3, h]), a[3] - r.choice([4, h]), a[2] + 3, a[3] + 4)
    rb = impl.make_region(b)
    exp = ["ok %d" % (1 if ra.containsRegion(rb) else 0),
           "rg " + ",".join(impl.region_digest(x) for x in (ra, rb))]
    steps.append(Step("containsregion %s / %s" % (region_words(a), region_words(b)), 2, eq(exp),
                      label="containsRegion %r %r" % (a, b)))
    x, y = rand_coord(r) * r.choice([1, 1e-3, 1e3]), rand_coord(r) * r.choice([1, 1e-3, 1e3])
    steps.append(Step("hypot %s %s" % (impl.hexf(x), impl.hexf(y)), 1,
                      eq(["ok " + impl.hexf(math.hypot(x, y))]), label="hypot(%r,%r)" % (x, y)))
    return Case("region", steps, {"kind": "region", "a": list(a), "b": list(b)})


# ------------------------------------------------------------------------------- printer suite

def rp_digest(p):
    def ax(a):
        return "%s,%s,%s" % (impl.fnum(None if p.pos[a] is None else p.pos[a] + 0.0), impl.hexf(p.off[a] + 0.0),
                             impl.hexf(p.hoff[a] + 0.0))
    return " ".join([ax("X"), ax("Y"), ax("Z"), "abs=%d" % (1 if p.abs else 0), "eabs=%d" % (1 if p.eabs else 0),
                     "unit=" + impl.hexf(p.unit), "e=" + impl.fnum(p.e + 0.0), "fil=" + impl.hexf(p.fil + 0.0),
                     "hw=" + impl.hexf(p.hw + 0.0), "fw=%d" % (1 if p.fwret else 0)])


RP_EXTRA = ["G92 X1 Y2", "G92 Z0.5", "G92 E0", "G92 E1.5", "M206 X1", "M206 Y-2 Z0.1", "G28 X", "G28 Y Z", "G28",
            "G10", "G11", "G10 P1", "G20", "G21", "G90", "G91", "G1 X12 Y7 X", "G1 E", "G1 Z", "M117 X5", "T1",
            "G2 X10 Y0 I5 J0", "G3 X0 Y10 I0 J5 E1", "G2 I0 J0 X5", "G1 X0 Y0", "G1 E-1", "G0 X5.5 Y-3 Z.2"]


def printer_case(r):
    """The Lean reference printer (Spec/Printer.lean, the semantics the motion and extrusion theorems
    are stated against) and the Python reference printer used by the oracles execute the same
    commands; compared after every command."""
    from .refprinter import Printer
    g90e = r.random() < 0.4
    p = Printer(g90e)
    p.execute("G28")
    steps = [Step("rpnew", 1, eq(["ok"]))]
    regions = gen.random_regions(r)
    opts = gen.random_opts(r)
    opts["max_len"] = 20
    opts["arcs"] = r.random() < 0.5
    evs = [e[1] for e in gen.encode_path(gen.gen_path(r, regions, opts)) if e[0] == "g"]
    for _ in range(r.randint(0, 6)):
        evs.insert(r.randint(1, len(evs)), r.choice(RP_EXTRA))
    for cmd in evs:
        p.execute(cmd)
        steps.append(Step("rpexec %d %s" % (1 if g90e else 0, impl.hexs(cmd)), 1, eq(["ok " + rp_digest(p)]),
                          label=cmd))
        if p.error:
            break
    return Case("printer", steps, {"kind": "printer", "g90e": g90e, "cmds": evs})


# ------------------------------------------------------------------------------- arc suite

def arc_case(r):
    """planArc / computeArcCenterOffsets from a homed position reached by real commands."""
    h = impl.make_handlers({})
    sx, sy = rand_coord(r), rand_coord(r)
    pre = [("g", "G28"), ("g", "G1 X%s Y%s Z1" % (gen.fmt(sx), gen.fmt(sy)))]
    if r.random() < 0.2:
        pre.insert(1, ("g", "G20"))
    lines = [corr.cfg_line({}), "new"]
    steps = [Step(lines[0], 1, lambda rep: None), Step(lines[1], 2, lambda rep: None)]
    for ev in pre:
        gcode, _ = impl.split_cmd(ev[1])
        impl.call_gcode(h, ev[1])
        steps.append(Step("g %s %s" % (impl.hexs(ev[1]), impl.hexs(gcode)), 2, lambda rep: None))
    k = r.random()
    x0 = h.state.position.X_AXIS.nativeToLogical()
    y0 = h.state.position.Y_AXIS.nativeToLogical()
    cw = r.random() < 0.5
    if k < 0.6:
        rad = r.choice([0.2, 1.0, 2.5, 5.0, 17.0, 100.0, 500.0])
        ang0 = r.choice([0, math.pi / 2, math.pi, r.uniform(0, 2 * math.pi)])
        i, j = -rad * math.cos(ang0), -rad * math.sin(ang0)
        sweep = r.choice([math.pi / 2, math.pi, 2 * math.pi, r.uniform(0.01, 2 * math.pi)])
        a1 = ang0 + (-sweep if cw else sweep)
        ex, ey = x0 + i + rad * math.cos(a1), y0 + j + rad * math.sin(a1)
        if r.random() < 0.3:
            ex, ey = x0, y0
        if r.random() < 0.5:
            i, j, ex, ey = round(i, 4), round(j, 4), round(ex, 4), round(ey, 4)
        try:
            pts = h.planArc(ex, ey, i, j, cw)
            exp = "ok " + ",".join("%s:%s" % (impl.hexf(pts[q]), impl.hexf(pts[q + 1]))
                                   for q in range(0, len(pts), 2))
        except Exception as exc:  # pylint: disable=broad-except
            exp = "err " + impl.err_kind(exc)
        steps.append(Step("planarc %s %s %s %s %d" % (impl.hexf(ex), impl.hexf(ey), impl.hexf(i),
                                                      impl.hexf(j), 1 if cw else 0), 1, eq([exp]),
                          label="planArc(%r,%r,%r,%r,%r) from (%r,%r)" % (ex, ey, i, j, cw, x0, y0)))
    else:
        dx, dy = r.choice([(3.0, 4.0), (6.0, 8.0), (5.0, 0.0), (0.0, 2.0), (1.6, 3.0), (0.8, 1.5), (3.0, 7.2),
                           (rand_coord(r), rand_coord(r)), (0.0, 0.0)])
        ex, ey = x0 + dx, y0 + dy
        d = math.hypot(dx, dy)
        rad = r.choice([d / 2, -d / 2, d, -d, d / 2 - 1e-9, 0.0, r.uniform(0.2, 50), 2.5, 1.7, 0.85, 3.9])
        try:
            (i, j) = h.computeArcCenterOffsets(ex, ey, rad, cw)
            exp = "ok %s:%s" % (impl.hexf(i), impl.hexf(j))
        except Exception as exc:  # pylint: disable=broad-except
            exp = "err " + impl.err_kind(exc)
        steps.append(Step("arccenter %s %s %s %d" % (impl.hexf(ex), impl.hexf(ey), impl.hexf(rad),
                                                     1 if cw else 0), 1, eq([exp]),
                          label="computeArcCenterOffsets(%r,%r,%r,%r) from (%r,%r)" % (ex, ey, rad, cw, x0, y0)))
    return Case("arc", steps, {"kind": "arc", "label": steps[-1].label})


# ------------------------------------------------------------------------------- plugin suite

_PLUGIN_READY = {}


def plugin_env():
    if _PLUGIN_READY:
        return _PLUGIN_READY
    import tempfile
    import warnings
    warnings.simplefilter("ignore")
    from octoprint.settings import settings as octoprint_settings
    base = tempfile.mkdtemp(prefix="erp-octoprint-", dir="/verif/.work")
    import atexit
    import shutil
    atexit.register(shutil.rmtree, base, True)
    octoprint_settings(init=True, basedir=base)
    import octoprint_excluderegion as pkg
    from octoprint.plugin import plugin_settings
    from octoprint.events import Events
    _PLUGIN_READY.update(pkg=pkg, plugin_settings=plugin_settings, Events=Events, base=base)
    return _PLUGIN_READY


class FakeUser(object):
    def __init__(self, anon):
        self.anon = anon

    def is_anonymous(self):  # noqa
        return self.anon


def make_plugin(settings):
    env = plugin_env()
    import mock
    pkg = env["pkg"]
    unit = pkg.ExcludeRegionPlugin()
    unit._identifier = "excluderegion"            # pylint: disable=protected-access
    unit._logger = impl.LOGGER                      # pylint: disable=protected-access
    unit._plugin_manager = mock.Mock()              # pylint: disable=protected-access
    unit._plugin_version = "verif"                  # pylint: disable=protected-access
    unit._settings = env["plugin_settings"](        # pylint: disable=protected-access
        unit._identifier, unit.get_settings_defaults(),  # pylint: disable=protected-access
        unit.get_settings_preprocessors()[0], unit.get_settings_preprocessors()[1])
    apply_settings(unit, settings, fire=False)
    unit.loggingMode = "octoprint"
    unit.initialize()
    return unit


def apply_settings(unit, st, fire=True):
    from octoprint.settings import settings as octoprint_settings
    s = unit._settings    # pylint: disable=protected-access
    raw = st.get("raw") or {}
    if "clear" in raw:
        s.set(["clearRegionsAfterPrintFinishes"], raw["clear"])
    else:
        s.set_boolean(["clearRegionsAfterPrintFinishes"], st["clear"])
    if "shrink" in raw:
        s.set(["mayShrinkRegionsWhilePrinting"], raw["shrink"])
    else:
        s.set_boolean(["mayShrinkRegionsWhilePrinting"], st["shrink"])
    cfg = st["cfg"]
    s.set(["enteringExcludedRegionGcode"], None if cfg.get("enter") is None else "\n".join(cfg["enter"]))
    s.set(["exitingExcludedRegionGcode"], None if cfg.get("exit") is None else "\n".join(cfg["exit"]))
    s.set(["extendedExcludeGcodes"], [{"gcode": g, "mode": m, "description": ""}
                                      for g, m in (cfg.get("ext") or {}).items()])
    ats = cfg.get("at", impl.DEFAULT_AT)
    s.set(["atCommandActions"], [{"command": c, "parameterPattern": p, "action": a, "description": ""}
                                 for (c, p, a) in ats])
    octoprint_settings().setBoolean(["feature", "g90InfluencesExtruder"], bool(cfg.get("g90e")))


def plugin_digest(unit):
    pm = unit._plugin_manager     # pylint: disable=protected-access
    calls = pm.send_plugin_message.call_args_list
    if calls:
        payload = calls[-1][0][1]
        last = ",".join(region_dict_digest(d) for d in payload["excluded_regions"]) or "-"
        if payload.get("event") != "ExcludedRegionsChanged" or calls[-1][0][0] != "excluderegion":
            last = "BADEVENT"
    else:
        last = "N"
    return "act=%d clr=%d shr=%d n=%d last=%s %s" % (
        1 if unit._activePrintJob else 0,          # pylint: disable=protected-access
        1 if unit.clearRegionsAfterPrintFinishes else 0,
        1 if unit.mayShrinkRegionsWhilePrinting else 0, len(calls), last,
        impl.state_digest(unit.state))


def region_dict_digest(d):
    """digest of a serialised region (payloads, GET); a property that is not there shows as such"""
    def num(k):
        return impl.hexf(d[k]) if k in d else "missing-" + k
    rid = impl.hexs(d["id"]) if "id" in d else "missing-id"

    def extra(keys):
        # a serialised region has exactly its defining properties
        more = sorted(str(k) for k in d if k not in keys)
        return (":extra-" + ",".join(more)) if more else ""
    if d.get("type") == "RectangularRegion":
        return "R:%s:%s:%s:%s:%s" % (rid, num("x1"), num("y1"), num("x2"), num("y2")) + \
            extra(("type", "id", "x1", "y1", "x2", "y2"))
    if d.get("type") == "CircularRegion":
        return "C:%s:%s:%s:%s" % (rid, num("cx"), num("cy"), num("r")) + extra(("type", "id", "cx", "cy", "r"))
    return "?:%r" % (d,)


def settings_words(st):
    return "%d %d %s" % (1 if st["clear"] else 0, 1 if st["shrink"] else 0,
                         corr.cfg_line(st["cfg"])[len("cfg "):])


EVENTS = ["FILE_SELECTED", "SETTINGS_UPDATED", "PRINT_STARTED", "PRINT_DONE", "PRINT_FAILED",
          "PRINT_CANCELLING", "PRINT_CANCELLED", "ERROR", "PRINT_PAUSED", "PRINT_RESUMED", "CONNECTED",
          "FILE_DESELECTED", "UPLOAD"]


PAYLOADS = [None, None, {}, {"origin": "local", "name": "a.gcode"}, {"origin": "sdcard", "name": "a.gco"}]


def event_payload(op):
    """payload of an ('event', name[, payload]) op"""
    return op[2] if len(op) > 2 else None


def start_event(r):
    """a PRINT_STARTED event with one of the payloads OctoPrint sends (local file, SD card file, …)"""
    p = r.choice(PAYLOADS)
    return ("event", "PRINT_STARTED") if p is None else ("event", "PRINT_STARTED", p)


def event_value(name):
    Events = plugin_env()["Events"]
    return getattr(Events, name, name)


def decode_result_line(got):
    if got.startswith("list "):
        return ("list", corr.decode_list(got[5:]))
    return (got,)


def plugin_case(ops, st0):
    """ops: list of plugin operations (JSON-able tuples). Runs the real plugin object."""
    import mock
    env = plugin_env()
    pkg = env["pkg"]
    unit = make_plugin(st0)
    steps = [Step("pinit " + settings_words(st0), 2, eq(["ok", "pl " + plugin_digest(unit)]), label="init")]
    counter = [0]

    def fresh_id():
        counter[0] += 1
        return "gen-%d" % counter[0]
    with mock.patch("uuid.uuid4", side_effect=fresh_id):
        for op in ops:
            k = op[0]
            if k == "event":
                unit.on_event(event_value(op[1]), event_payload(op))
                steps.append(Step("pevent " + op[1], 2, eq(["ok", "pl " + plugin_digest(unit)]), label=repr(op)))
            elif k == "save":
                apply_settings(unit, op[1])
                steps.append(Step("psettings " + settings_words(op[1]), 2,
                                  eq(["ok", "pl " + plugin_digest(unit)]), label="store settings"))
                unit.on_event(event_value("SETTINGS_UPDATED"), None)
                steps.append(Step("pevent SETTINGS_UPDATED", 2, eq(["ok", "pl " + plugin_digest(unit)]),
                                  label="SETTINGS_UPDATED"))
            elif k == "api":
                anon, command, data = op[1], op[2], dict(op[3])
                raised = None
                with mock.patch("octoprint_excluderegion.current_user", FakeUser(anon)):
                    try:
                        resp = unit.on_api_command(command, dict(data))
                    except Exception as exc:  # pylint: disable=broad-except
                        resp, raised = None, exc
                status = "ok" if resp is None else str(resp[1])
                if raised is not None:
                    status = "raised " + impl.err_kind(raised)      # the model never answers this
                # protocol line: the region as the constructor normalises it, fresh id if none given
                rtype = data.get("type")
                if command == "deleteExcludeRegion":
                    line = "papi %d delete %s" % (1 if anon else 0, impl.hexs(data.get("id")))
                elif rtype not in ("RectangularRegion", "CircularRegion"):
                    line = "papi %d badtype" % (1 if anon else 0)
                elif command not in ("addExcludeRegion", "updateExcludeRegion"):
                    line = "papi %d unknown" % (1 if anon else 0)
                else:
                    rid = data.get("id")
                    if rid is None:
                        # the id the implementation generated (or would have): consume the counter
                        # only if the request got as far as constructing the region
                        rid = "gen-%d" % counter[0] if not anon else "unused"
                    if rtype == "RectangularRegion":
                        spec = ("R", rid, float(data.get("x1", 0)), float(data.get("y1", 0)),
                                float(data.get("x2", 0)), float(data.get("y2", 0)))
                    else:
                        spec = ("C", rid, float(data.get("cx", 0)), float(data.get("cy", 0)),
                                float(data.get("r", 0)))
                    line = "papi %d %s %s" % (1 if anon else 0,
                                              "add" if command == "addExcludeRegion" else "update",
                                              region_words(spec))
                steps.append(Step(line, 2, eq(["resp " + status, "pl " + plugin_digest(unit)]), label=repr(op)))
                if raised is not None:
                    break
            elif k == "get":
                with mock.patch("flask.jsonify", side_effect=lambda **kw: kw):
                    payload = unit.on_api_get(None)
                exp = ",".join(region_dict_digest(d) for d in payload["excluded_regions"]) or "-"
                steps.append(Step("pget", 1, eq(["ok " + exp]), label="GET"))
            elif k == "gcode":
                cmd, gcode = op[1], op[2]
                try:
                    r = unit.handleGcodeQueuing(None, "queuing", cmd, None, gcode, None)
                    if r is None:
                        res = ("none",)
                    elif r == impl.IGNORE_GCODE_CMD:
                        res = ("ignore",)
                    else:
                        res = ("list", list(r))
                    dig = "pl " + plugin_digest(unit)
                except Exception as exc:  # pylint: disable=broad-except
                    res = ("err " + impl.err_kind(exc),)
                    dig = None

                def chk(rep, res=res, dig=dig):
                    got = decode_result_line(rep[0]) if rep else ("<missing>",)
                    if got != res:
                        return {"impl": res, "model": got}
                    if dig is not None and rep[1] != dig:
                        return {"impl": dig, "model": rep[1], "diff": corr.digest_diff(dig, rep[1])}
                    return None
                steps.append(Step("pgcode %s %s" % (impl.hexs(cmd), "N" if not gcode else "S" + impl.hexs(gcode)),
                                  2, chk, label=repr(op)))
                if res[0].startswith("err"):
                    break
            elif k == "at":
                comm = impl.Comm(bool(op[3]))
                try:
                    unit.handleAtCommandQueuing(comm, "queuing", op[1], op[2])
                    sent = list(comm.sent)
                    dig = "pl " + plugin_digest(unit)
                except Exception as exc:  # pylint: disable=broad-except
                    sent = "err " + impl.err_kind(exc)
                    dig = None

                def chk2(rep, sent=sent, dig=dig):
                    if isinstance(sent, str):
                        return None if rep[0] == sent else {"impl": sent, "model": rep[0]}
                    got = corr.decode_list(rep[0][5:]) if rep[0].startswith("sent ") else rep[0]
                    if got != sent:
                        return {"impl": sent, "model": got}
                    if rep[1] != dig:
                        return {"impl": dig, "model": rep[1], "diff": corr.digest_diff(dig, rep[1])}
                    return None
                steps.append(Step("pat %s %s %d" % (impl.hexs(op[1]), impl.hexs(op[2]), 1 if op[3] else 0),
                                  2, chk2, label=repr(op)))
                if isinstance(sent, str):
                    break
            elif k == "script":
                try:
                    r = unit.handleScriptHook(None, op[1], op[2])
                    res = None if r is None else (list(r[0]), r[1])
                    dig = "pl " + plugin_digest(unit)
                except Exception as exc:  # pylint: disable=broad-except
                    res = "err " + impl.err_kind(exc)
                    dig = None

                def chk3(rep, res=res, dig=dig):
                    if isinstance(res, str):
                        return None if rep[0] == res else {"impl": res, "model": rep[0]}
                    if res is None:
                        got = None if rep[0] == "none" else rep[0]
                    else:
                        got = (corr.decode_list(rep[0][7:]), None) if rep[0].startswith("prefix ") else rep[0]
                    if got != res:
                        return {"impl": res, "model": got}
                    if rep[1] != dig:
                        return {"impl": dig, "model": rep[1], "diff": corr.digest_diff(dig, rep[1])}
                    return None
                steps.append(Step("pscript %s %s" % (impl.hexs(op[1]), impl.hexs(op[2])), 2, chk3, label=repr(op)))
                if isinstance(res, str):
                    break
            else:
                raise ValueError(op)
    return Case("plugin", steps, {"kind": "plugin", "settings": st0, "ops": [list(o) for o in ops]})


BOOL_SPELLINGS = [(True, True), (False, False), ("true", True), ("false", False), ("yes", True), ("no", False),
                  ("1", True), ("0", False), (1, True), (0, False), ("False", False), ("off", False)]


def rand_settings(r):
    raw = {}
    if r.random() < 0.3:
        # the settings store may hold the booleans in any spelling OctoPrint's get_boolean accepts
        raw = {"clear": r.choice(BOOL_SPELLINGS), "shrink": r.choice(BOOL_SPELLINGS)}
    return {"clear": raw["clear"][1] if raw else r.random() < 0.4,
            "shrink": raw["shrink"][1] if raw else r.random() < 0.3,
            "raw": {k: v[0] for k, v in raw.items()}, "cfg": {
        "g90e": r.random() < 0.3,
        "enter": r.choice([None, ["M117 in"], ["M106 S0", "M117 in"]]),
        "exit": r.choice([None, ["M117 out"]]),
        "ext": r.choice([dict(gen.DEFERRED_CFG), {"G4": "exclude", "M204": "merge", "M117": "last"}, {}]),
    }}


PLUGIN_PROGRAM = ["G28", "G1 X5 Y5 Z0.2 F3000", "G1 X15 Y15 E1", "G1 E0 F1800", "M117 hi", "M204 P500", "G1 Z2",
                  "G1 Z0.3", "M204 P0 S0",
                  "G1 X16 Y16", "G1 E1", "G1 X30 Y30 Z0.4", "G1 X31 Y30 E1.5", "G91", "G1 X-15 Y-15", "G90",
                  "G20", "G1 X0.6 Y0.6", "G21", "G10", "G11", "G92 E0", "G1 X12 Y12 E-1", "M73 P5", "G4 P1"]


def gen_two_prints(r):
    """two consecutive prints: the first one is ended in an awkward state (exclusion switched off,
    episode open, retraction owed, deferred command pending); the second must start clean"""
    st0 = rand_settings(r)
    ops = []

    def settings_history():
        # settings saved and saved again (scripts set, then cleared; deferred codes changed): only the
        # latest values count
        if r.random() < 0.35:
            s1 = rand_settings(r)
            if r.random() < 0.6:
                s1["cfg"]["enter"] = ["M117 in"]
                s1["cfg"]["exit"] = ["M117 out"]
            ops.append(("save", s1))
            if r.random() < 0.6:
                s2 = rand_settings(r)
                if r.random() < 0.7:
                    s2["cfg"]["enter"] = None
                if r.random() < 0.7:
                    s2["cfg"]["exit"] = None
                ops.append(("save", s2))
    settings_history()
    if r.random() < 0.7:
        ops.append(("api", False, "addExcludeRegion",
                    {"type": "RectangularRegion", "x1": 10.0, "y1": 10.0, "x2": 20.0, "y2": 20.0, "id": "a"}))
    ops.append(start_event(r))
    prog1 = ["G28", "G1 X5 Y5 Z0.2 F3000", "G1 X6 Y5 E1"]
    mess = r.sample(["at_off", "inside", "retract_inside", "deferred", "g91", "g20", "m206", "wipe_in", "pause"],
                    r.randint(1, 4))
    for m in mess:
        if m == "at_off":
            prog1.append(("at", "ExcludeRegion", "off", False))
        elif m == "inside":
            prog1.append("G1 X15 Y15 E2")
        elif m == "retract_inside":
            prog1 += ["G1 X15 Y15", "G1 E0 F1800", "G1 E1"]
        elif m == "deferred":
            prog1 += ["G1 X15 Y15", "M117 hi", "M204 P500"]
        elif m == "g91":
            prog1.append("G91")
        elif m == "g20":
            prog1.append("G20")
        elif m == "m206":
            # home offsets belong to the print that set them
            prog1.append(r.choice(["M206 X-10 Y-10", "M206 Z1", "M206 X5"]))
        elif m == "pause":
            # pausing and resuming do not end the print
            prog1 += [("event", "PRINT_PAUSED"), ("event", "PRINT_RESUMED")]
        elif m == "wipe_in":
            # a move that enters the region while retracting (slicer "wipe"): the enter script and
            # the generated retraction end up in one returned list
            prog1 += ["G1 X6 Y6 E2", "G1 X15 Y15 E1.2"]
    for c in prog1:
        if isinstance(c, tuple):
            ops.append(c)
        else:
            ops.append(("gcode", c, impl.split_cmd(c)[0]))
    if r.random() < 0.8:
        ops.append(("event", r.choice(["PRINT_DONE", "PRINT_FAILED", "PRINT_CANCELLED", "PRINT_CANCELLING"])))
        if r.random() < 0.5:
            # a hook invoked after the print has ended (possibly with an episode still open)
            ops.append(("script", "gcode", r.choice(["afterPrintDone", "afterPrintDone", "afterPrintCancelled",
                                                     "afterPrintPaused", "beforePrintStarted", "beforePrintResumed"])))
    # else: the job is started again without any end event in between (e.g. a paused job restarted)
    if r.random() < 0.4:
        # between the prints nothing is filtered or tracked, whatever state the first print ended in
        for c in r.sample(["G1 X50 Y50 F3000", "G1 X15 Y15", "G1 E5", "M117 idle", "G28"], r.randint(1, 3)):
            ops.append(("gcode", c, impl.split_cmd(c)[0]))
    settings_history()
    if r.random() < 0.3:
        ops.append(("api", False, "addExcludeRegion",
                    {"type": "RectangularRegion", "x1": 10.0, "y1": 10.0, "x2": 20.0, "y2": 20.0, "id": "b"}))
    ops.append(start_event(r))
    tail = r.choice([
        ["G28", "G1 X5 Y5 Z0.2 F3000", "G1 X15 Y15 E1", "G1 X16 Y16 E1.5", "M117 hi", "G1 X30 Y30", "G1 X31 Y30 E2"],
        # ends inside an episode, after a Z hop made outside was undone inside
        ["G28", "G1 X5 Y5 Z0.2 F3000", "G1 Z2", "G1 X15 Y15", "G1 Z0.3", "M117 hi"],
        ["G28", "G1 X5 Y5 Z2 F3000", "G1 X15 Y15 Z1 E1", "G1 Z0.2", "G1 E0.5"],
        # positioning mode switched inside the last episode
        ["G28", "G1 X5 Y5 Z0.3 F3000", "G1 X15 Y15", "G91", "G1 Z10"],
        ["G28", "G91", "G1 X5 Y5 Z0.3 F3000", "G1 X10 Y10", "G90", "G1 Z3"],
    ])
    pause_at = r.randint(1, len(tail)) if r.random() < 0.3 else -1
    for k, c in enumerate(tail):
        if k == pause_at:
            ops += [("event", "PRINT_PAUSED"), ("event", "PRINT_RESUMED")]      # do not end the print
        ops.append(("gcode", c, impl.split_cmd(c)[0]))
    if r.random() < 0.3:
        ops.append(("script", r.choice(["gcode", "gcode", "code", ""]),
                    r.choice(["afterPrint", "Done", "", "afterPrintCancelled", "afterPrintPaused", "beforePrintStarted"])))
    ops.append(("script", "gcode", "afterPrintDone"))
    if r.random() < 0.3:
        ops.append(("script", "gcode", "afterPrintDone"))
    return plugin_case(ops, st0)


def gen_stale_episode(r):
    """a print that ends while an episode is open; afterwards every hook is offered, for every script
    name: none of them may contribute or track anything while no print is active"""
    st0 = rand_settings(r)
    if r.random() < 0.7:
        st0["clear"] = False
        st0["raw"] = {}
    ops = [("api", False, "addExcludeRegion",
            {"type": "RectangularRegion", "x1": 10.0, "y1": 10.0, "x2": 20.0, "y2": 20.0, "id": "a"}),
           start_event(r)]
    for c in ["G28", "G1 X5 Y5 Z0.2 F3000", "G1 X6 Y5 E1"] + r.choice([["G1 X15 Y15"], ["G1 X15 Y15 E2", "M117 hi"],
                                                                         ["G1 X15 Y15", "G1 E0 F1800"]]):
        ops.append(("gcode", c, impl.split_cmd(c)[0]))
    ops.append(("event", r.choice(["PRINT_CANCELLING", "PRINT_CANCELLED", "PRINT_FAILED", "PRINT_DONE", "ERROR"])))
    names = ["afterPrintCancelled", "afterPrintDone", "afterPrintFailed", "afterPrintPaused", "beforePrintResumed",
             "beforePrintStarted", "afterPrinterConnected"]
    r.shuffle(names)
    for nm in names[:r.randint(2, 5)]:
        ops.append(("script", r.choice(["gcode", "gcode", "gcode", "code"]), nm))
        if r.random() < 0.3:
            c = r.choice(["G1 X30 Y30", "G1 X16 Y16 E3", "M117 idle"])
            ops.append(("gcode", c, impl.split_cmd(c)[0]))
    ops.append(("get",))
    return plugin_case(ops, st0)


def gen_plugin_case(r):
    k0 = r.random()
    if k0 < 0.3:
        return gen_two_prints(r)
    if k0 < 0.38:
        return gen_stale_episode(r)
    st0 = rand_settings(r)
    ops = []
    ids = ["a", "b", "c", ""]          # "" : a falsy id is an id like any other
    n = r.randint(3, 25)
    twice = r.randint(0, n) if r.random() < 0.2 else -1
    if r.random() < 0.2:
        # several regions (one touching the origin), a print, moves ending in the later ones
        ops += [("api", False, "addExcludeRegion", {"type": "RectangularRegion", "x1": 0.0, "y1": 0.0, "x2": 5.0, "y2": 4.0, "id": "o"}),
                ("api", False, "addExcludeRegion", {"type": "RectangularRegion", "x1": 40.0, "y1": 40.0, "x2": 50.0, "y2": 50.0, "id": "p"}),
                ("api", False, "addExcludeRegion", {"type": "CircularRegion", "cx": 70.0, "cy": 0.0, "r": 5.0, "id": "q"}),
                ("get",), start_event(r)]
        for c in ["G28", "G1 X30 Y30 F3000"] + r.sample(["G1 X45 Y45 E1", "G1 X70 Y1", "G1 X2 Y2", "G1 X30 Y31"], 3):
            ops.append(("gcode", c, impl.split_cmd(c)[0]))
        ops.append(("get",))
    for step in range(n):
        if step == twice:
            # the same (possibly falsy) id offered twice with different geometry, then deleted
            rid = r.choice(["", "", "a"])
            ops.append(("api", False, "addExcludeRegion",
                        {"type": "RectangularRegion", "x1": 1.0, "y1": 1.0, "x2": 2.0, "y2": 2.0, "id": rid}))
            ops.append(("api", False, "addExcludeRegion", {"type": "CircularRegion", "cx": 50.0, "cy": 50.0, "r": 3.0, "id": rid}))
            ops.append(("api", False, "deleteExcludeRegion", {"id": rid}))
            ops.append(("get",))
        k = r.random()
        if k < 0.22:
            ev = r.choice(EVENTS)
            ops.append(start_event(r) if ev == "PRINT_STARTED" else ("event", ev))
        elif k < 0.28:
            ops.append(("save", rand_settings(r)))
        elif k < 0.5:
            anon = r.random() < 0.1
            kind = r.random()
            rid = r.choice(ids + [None])
            if r.random() < 0.5:
                data = {"type": "RectangularRegion", "x1": rand_coord(r), "y1": rand_coord(r),
                        "x2": rand_coord(r), "y2": rand_coord(r)}
                if r.random() < 0.5:
                    data.update({"x1": 10.0, "y1": 10.0, "x2": 20.0 + r.choice([0, 0, 1, -1]), "y2": 20.0})
            else:
                data = {"type": "CircularRegion", "cx": rand_coord(r), "cy": rand_coord(r),
                        "r": abs(rand_coord(r))}
                if r.random() < 0.6:
                    data.update({"cx": r.choice([15.0, 15.0, 13.0, 17.0]), "cy": r.choice([15.0, 15.0, 13.0, 17.0]),
                                 "r": r.choice([5.0, 7.0, 7.08, 7.7, 8.0, 9.0, 10.0, 3.0])})
            if r.random() < 0.04:
                data[r.choice([k2 for k2 in data if k2 != "type"])] = float("nan")
            if kind < 0.4:
                if rid is not None:
                    data["id"] = rid
                prev_adds = [o for o in ops if o[0] == "api" and o[2] == "addExcludeRegion" and "id" in o[3]]
                if prev_adds and r.random() < 0.2:
                    data = dict(r.choice(prev_adds)[3])      # a client retry: the very same request again
                ops.append(("api", anon, "addExcludeRegion", data))
            elif kind < 0.75:
                data["id"] = r.choice(ids + ["nope"])
                ops.append(("api", anon, "updateExcludeRegion", data))
            elif kind < 0.92:
                ops.append(("api", anon, "deleteExcludeRegion", {"id": r.choice(ids + ["nope"])}))
            elif kind < 0.97:
                data["type"] = r.choice(["Triangle", None, ""])
                ops.append(("api", anon, r.choice(["addExcludeRegion", "updateExcludeRegion"]), data))
            else:
                ops.append(("api", anon, "frobnicate", data))
        elif k < 0.55:
            ops.append(("get",))
        elif k < 0.85:
            cmd = r.choice(PLUGIN_PROGRAM)
            gcode, _ = impl.split_cmd(cmd)
            if r.random() < 0.05:
                gcode = r.choice([None, ""])
            ops.append(("gcode", cmd, gcode))
        elif k < 0.92:
            ops.append(("at", "ExcludeRegion", r.choice(["off", "on", "bogus"]), r.random() < 0.1))
        else:
            ops.append(("script", r.choice(["gcode", "gcode", "gcode", "other", "code", "g", ""]),
                        r.choice(["afterPrintDone", "afterPrintDone", "beforePrintStarted", "afterPrintCancelled",
                                  "afterPrint", "Done", "", "afterPrintDone2"])))
    return plugin_case(ops, st0)


# ------------------------------------------------------------------------------- stream suite

FILE_LINES = ["G28", "G1 X5 Y5 Z0.2 F3000", "G1 X15 Y15 E1", "G1 X16 Y15 E1.5", "G1 E0.5 F1800",
              "G1 X30 Y30", "G1 E1.5", "G1 X31 Y30 E2", "M117 hello", "M204 P500 T3", "G4 P10", "G10 S1",
              "G11", "G92 E0", "G91", "G90", "G20", "G21", "G1 Z0.4", "G1 X12 Y18 Z0.6", "G1 X40 Y40 E3",
              "M106 S255", "T0", "G2 X20 Y5 I5 J0", "@ExcludeRegion off", "@ExcludeRegion on", "@pause",
              "@ExcludeRegion bogus", "@@ExcludeRegion off", "@@pause", "@ ExcludeRegion off", "", "  ", "; comment only", "  ; indented comment", "hello world",
              "M117 Hello; there", "G1 X15 Y15 ; into the region", "N7 G1 X30 Y31*55", "(note)"]


def rand_file(r):
    eol = r.choice(["\n", "\n", "\r\n", "\r"])
    lines = ["G28" + eol, "G1 X5 Y5 Z0.2 F3000" + eol]
    for _ in range(r.randint(1, 25)):
        body = r.choice(FILE_LINES)
        if r.random() < 0.2:
            body = r.choice(["  ", " ", "   "]) + body
        if r.random() < 0.15 and body and not body.lstrip().startswith((";", "@")) and ";" not in body:
            body = body + r.choice([" ; c", ";x", "  ; note *5"])
        e = eol if r.random() < 0.95 else r.choice(["\n", "\r\n"])
        lines.append(body + e)
    if r.random() < 0.3:
        lines[-1] = lines[-1].rstrip("\r\n")
    return lines


def stream_case(cfg, pre_events, lines):
    """Live state built by pre_events; a StreamProcessor created from it filters `lines`."""
    from . import oracle_text
    fc = corr.FilterCase(cfg, pre_events).run_impl()
    steps = []
    li = 0
    for (kind, payload, digest, idx) in fc.expect:
        n = 1 if (kind == "raw" and digest is None) else 2
        steps.append(Step(fc.lines[li], n, lambda rep: None))
        li += 1
    # rebuild the live handlers (FilterCase does not keep them)
    from . import oracle
    cfg0 = dict(cfg)
    _res, live = oracle.run_events(cfg0, [("addregion", s) for s in []] + list(pre_events))
    before = impl.state_digest(live.state)
    sp = oracle_text.make_stream_processor(live)
    steps.append(Step("spnew", 1, eq(["ok"])))
    for line in lines:
        try:
            got = sp.process_line(line)
            dig = "st " + impl.state_digest(sp.gcodeHandlers.state)
        except Exception as exc:  # pylint: disable=broad-except
            got = ("err", impl.err_kind(exc))
            dig = None

        def chk(rep, got=got, dig=dig, line=line):
            if isinstance(got, tuple):
                return None if rep[0] == "err " + got[1] else {"impl": got, "model": rep[0]}
            parts = rep[0].split(" ")
            if parts[0] == "line":
                m = impl.unhexs(parts[1])
            elif parts[0] == "omit":
                m = None
            elif parts[0] == "lines":
                e = impl.unhexs(parts[1])
                m = e.join(corr.decode_list(parts[2] if len(parts) > 2 else "")) + e
            else:
                m = rep[0]
            if m != got:
                return {"impl": got, "model": m}
            if rep[1] != dig:
                return {"impl": dig, "model": rep[1], "diff": corr.digest_diff(dig, rep[1])}
            return None
        steps.append(Step("spline " + impl.hexs(line), 2, chk, label=repr(line)))
        if isinstance(got, tuple):
            break
    after = impl.state_digest(live.state)
    case = Case("stream", steps, {"kind": "stream", "cfg": cfg, "pre": [list(e) for e in pre_events],
                                  "lines": lines})
    case.isolation_broken = (before != after)
    return case


def gen_stream_case(r):
    regions = gen.random_regions(r)
    cfg = gen.random_cfg(r, regions)
    pre = []
    if r.random() < 0.6:
        opts = gen.random_opts(r)
        opts["max_len"] = 12
        if cfg["g90e"]:
            opts["rel"] = False
        pre = gen.encode_path(gen.gen_path(r, regions, opts))
    return stream_case(cfg, pre, rand_file(r))
