"""The check entry point (see /verif/check). One property per invocation.

Verdict: the property passes iff (1) the translator regenerates ERP/Gen/* from /repo, (2) the
property's Lean targets build, contain no forbidden tokens and their theorems depend only on the
allowed axioms, (3) the correspondence suites the property depends on show no difference between
the model and the implementation, (4) the replays of repaired defects still pass and the oracle
pass over the generated cases finds nothing outside the known findings. When (1)-(3) break, the
failing-input search decides between `VIOLATION ... replay=<file>` with a concrete input and
`VIOLATION ... no-failing-input-found`.
"""
import collections
import fcntl
import json
import os
import random
import re
import subprocess
import sys
import time

ROOT = os.path.dirname(os.path.dirname(os.path.abspath(__file__)))
LEAN = os.path.join(ROOT, "lean")
WORK = os.path.join(ROOT, ".work")
ALLOWED_AXIOMS = {"propext", "Classical.choice", "Quot.sound"}
FORBIDDEN = re.compile(r"\b(sorry|admit|native_decide|bv_decide|implemented_by|unsafe)\b|^axiom |maxHeartbeats 0")


def sh(cmd, cwd=None, timeout=3600, env=None):
    p = subprocess.run(cmd, cwd=cwd, stdout=subprocess.PIPE, stderr=subprocess.STDOUT, timeout=timeout,
                       env=env)
    return p.returncode, p.stdout.decode("utf-8", "replace")


class Lock(object):
    def __init__(self, name):
        os.makedirs(WORK, exist_ok=True)
        self.path = os.path.join(WORK, name)

    def __enter__(self):
        self.f = open(self.path, "w")
        fcntl.flock(self.f, fcntl.LOCK_EX)
        return self

    def __exit__(self, *a):
        fcntl.flock(self.f, fcntl.LOCK_UN)
        self.f.close()


def strip_comments(text):
    text = re.sub(r"/-.*?-/", "", text, flags=re.S)
    return "\n".join(l.split("--")[0] for l in text.split("\n"))


def lean_sources():
    out = [os.path.join(LEAN, "Driver.lean")]
    for base, _d, files in os.walk(os.path.join(LEAN, "ERP")):
        for f in files:
            if f.endswith(".lean"):
                out.append(os.path.join(base, f))
    return sorted(out)


def forbidden_tokens():
    hits = []
    for path in lean_sources():
        for n, line in enumerate(strip_comments(open(path).read()).split("\n"), 1):
            if FORBIDDEN.search(line):
                hits.append("%s:%d: %s" % (os.path.relpath(path, ROOT), n, line.strip()[:80]))
    return hits


def translate():
    env = dict(os.environ, PYTHONDONTWRITEBYTECODE="1")
    rc, out = sh(["/venv/bin/python", "-W", "ignore", os.path.join(ROOT, "harness", "translate.py"),
                  os.path.join(LEAN, "ERP", "Gen")], env=env)
    return rc == 0, out.strip().split("\n")[-1] if out.strip() else ""


def lake_build(targets):
    rc, out = sh(["lake", "build"] + targets, cwd=LEAN, timeout=7200)
    errs = [l for l in out.split("\n") if l.startswith("error") or "error:" in l]
    return rc == 0, errs[:12], out


def audit(module, theorems):
    """`#print axioms` for every listed theorem; returns (ok, report dict, problems)."""
    os.makedirs(WORK, exist_ok=True)
    path = os.path.join(WORK, "Audit_%s_%d.lean" % (module.replace(".", "_"), os.getpid()))
    with open(path, "w") as f:
        f.write("import %s\n" % module)
        for t in theorems:
            f.write("#print axioms %s\n" % t)
    rc, out = sh(["lake", "env", "lean", path], cwd=LEAN, timeout=3600)
    os.unlink(path)
    report = {}
    problems = []
    cur = None
    text = out.replace("\n  ", " ")
    for line in text.split("\n"):
        m = re.match(r"'([^']+)' depends on axioms: \[(.*)\]", line)
        if m:
            report[m.group(1)] = [a.strip() for a in m.group(2).split(",") if a.strip()]
            continue
        m = re.match(r"'([^']+)' does not depend on any axioms", line)
        if m:
            report[m.group(1)] = []
            continue
        if "error" in line:
            problems.append(line.strip()[:200])
    for t in theorems:
        if t not in report:
            problems.append("theorem %s not found" % t)
        else:
            extra = [a for a in report[t] if a not in ALLOWED_AXIOMS]
            if extra:
                problems.append("theorem %s depends on %s" % (t, extra))
    return (not problems), report, problems


def write_json(path, obj):
    os.makedirs(os.path.dirname(path), exist_ok=True)
    tmp = path + ".tmp%d" % os.getpid()
    with open(tmp, "w") as f:
        json.dump(obj, f, indent=1, default=str)
    os.replace(tmp, path)


def main(argv):
    from . import registry, props_run
    if len(argv) < 2:
        print("usage: check <Cxx> [--tier quick|thorough] [--replay file]")
        return 2
    pid = argv[1]
    tier = os.environ.get("VERIF_TIER", "quick")
    replay_file = None
    i = 2
    while i < len(argv):
        if argv[i] == "--tier":
            tier = argv[i + 1]; i += 2
        elif argv[i] == "--replay":
            replay_file = argv[i + 1]; i += 2
        else:
            i += 1
    if tier not in ("quick", "thorough"):
        tier = "quick"
    seed = int(os.environ.get("VERIF_SEED", "0") or 0)
    if pid not in registry.PROPS:
        print("unknown property %s" % pid)
        return 2
    if replay_file:
        from . import replay
        rep = replay.load(replay_file)
        v = replay.run_replay(rep)
        for x in v:
            print("  ", x)
        if v:
            print("VIOLATION property=%s replay=%s" % (pid, replay_file))
            return 1
        print("replay holds on the current tree")
        return 0
    try:
        return props_run.run_property(pid, tier, seed)
    except subprocess.TimeoutExpired as exc:
        print("internal: timeout %s" % exc)
        return 2
